(* Prototype (design-time) of Base/Conc.v: the generic transition-system record of DESIGN.md 2.1,
   reachability, the invariant rule, and the trace acceptor whose soundness lemma
   (`accepts_reach`) is what lets every property theorem speak about every state the real code
   went through in an accepted trace. *)
From Coq Require Import List Bool.
Import ListNotations.

Record System := {
  St : Type; Act : Type; Ev : Type;
  init : St;
  step : St -> Act -> option (St * Ev);
  ev_eqb : Ev -> Ev -> bool;
  ev_eqb_ok : forall e e', ev_eqb e e' = true -> e = e' }.

Section S.
Variable M : System.

Inductive Reach : St M -> Prop :=
| R0 : Reach (init M)
| RS s a s' e : Reach s -> step M s a = Some (s', e) -> Reach s'.

Theorem inv_reach (Inv : St M -> Prop) :
  Inv (init M) -> (forall s a s' e, Inv s -> step M s a = Some (s', e) -> Inv s') -> forall s, Reach s -> Inv s.
Proof. intros H0 HS s R. induction R; eauto. Qed.

(* run a schedule, collecting events; a disabled action stops the run *)
Fixpoint run (s : St M) (sched : list (Act M)) : option (St M * list (Ev M)) :=
  match sched with
  | [] => Some (s, [])
  | a :: l => match step M s a with
              | Some (s', e) => match run s' l with Some (s'', es) => Some (s'', e :: es) | None => None end
              | None => None end
  end.

(* replay a recorded trace: every recorded action must be enabled and produce exactly the recorded event *)
Fixpoint replay (s : St M) (tr : list (Act M * Ev M)) : option (St M) :=
  match tr with
  | [] => Some s
  | (a, e) :: l => match step M s a with
                   | Some (s', e') => if ev_eqb M e' e then replay s' l else None
                   | None => None end
  end.
Definition accepts (tr : list (Act M * Ev M)) : bool := match replay (init M) tr with Some _ => true | None => false end.

Lemma replay_reach s tr s' : Reach s -> replay s tr = Some s' -> Reach s'.
Proof.
  revert s. induction tr as [|[a e] l IH]; cbn [replay]; intros s R H; [inversion H; subst; exact R|].
  destruct (step M s a) as [[s1 e1]|] eqn:E; [|discriminate].
  destruct (ev_eqb M e1 e); [|discriminate]. eapply IH; [eapply RS; eauto | exact H].
Qed.
Theorem accepts_reach tr : accepts tr = true -> exists s, replay (init M) tr = Some s /\ Reach s.
Proof.
  unfold accepts. destruct (replay (init M) tr) as [s|] eqn:E; [|discriminate].
  intros _. exists s. split; [reflexivity | eapply replay_reach; [constructor | exact E]].
Qed.
(* every prefix of an accepted trace is accepted: the property theorems apply to every intermediate state *)
Theorem accepts_prefix tr1 tr2 : accepts (tr1 ++ tr2) = true -> accepts tr1 = true.
Proof.
  unfold accepts. generalize (init M). induction tr1 as [|[a e] l IH]; cbn [replay app]; intros s H; [reflexivity|].
  destruct (step M s a) as [[s1 e1]|]; [|discriminate]. destruct (ev_eqb M e1 e); [|discriminate]. apply IH. exact H.
Qed.
(* the recorded events are exactly the model's events for that schedule *)
Theorem accepts_run tr : accepts tr = true -> exists s, run (init M) (map fst tr) = Some (s, map snd tr).
Proof.
  unfold accepts. generalize (init M). induction tr as [|[a e] l IH]; cbn [replay run map fst snd]; intros s H; [eauto|].
  destruct (step M s a) as [[s1 e1]|]; [|discriminate]. destruct (ev_eqb M e1 e) eqn:Q; [|discriminate].
  apply ev_eqb_ok in Q. subst e1. destruct (IH s1 H) as [s2 R]. rewrite R. eauto.
Qed.
Corollary accepted_states_satisfy (Inv : St M -> Prop) :
  Inv (init M) -> (forall s a s' e, Inv s -> step M s a = Some (s', e) -> Inv s') ->
  forall tr1 tr2, accepts (tr1 ++ tr2) = true -> exists s, replay (init M) tr1 = Some s /\ Inv s.
Proof.
  intros H0 HS tr1 tr2 H. apply accepts_prefix in H. destruct (accepts_reach _ H) as [s [E R]].
  exists s. split; [exact E | eapply inv_reach; eauto].
Qed.
End S.
