(* The abstract Blocker token (DESIGN 2.1): what the upper layers (Mutex, Semphore, channels ...) may
   assume about `Blocker::park / unpark`, and what C02 proves of `Park` (coroutine owner) and
   `ThreadPark` (thread owner).

   State: the token and, while the owner is inside `park(timeout)`, the deadline of that call.
   Events:
     BUnpark        the token becomes available                      (lin. point: state.swap(true) / *guard = 1)
     BEnter dl      the owner enters park; dl = call time + armed duration
     BResume v      the owner leaves park with verdict v; the token is cleared WHATEVER the verdict
                      v = VOk        only if the token is set
                      v = VTimeout   only if now >= dl
                      v = VCanceled  only if the owner (a coroutine) has been cancelled
     BSpurious v    the owner leaves park without any of the three reasons.  Never produced by a park on a
                    fresh blocker (C02: it needs an earlier consumed token / an earlier timed park on the
                    same Park object); `coroutine::park` on the per-coroutine Park may, as std::thread::park may.
     BAbort         a cancelled coroutine dies inside park (cancel panic): no verdict is delivered
   The wake-up guarantee is the liveness half: whenever [wake_due] holds the implementation has an enabled
   transition towards the resume (C02 no_lost_wakeup / cancel / deadline theorems). *)
From Coq Require Import ZArith Bool.
Open Scope Z_scope.

Inductive verdict := VOk | VTimeout | VCanceled.

Record bst := { btok : bool; bpark : option (option Z) }.
Definition binit : bst := {| btok := false; bpark := None |}.

Inductive bev := BUnpark | BEnter (dl : option Z) | BResume (v : verdict) | BSpurious (v : verdict) | BAbort.

Definition reason_ok (now : Z) (canceled : bool) (b : bst) (dl : option Z) (v : verdict) : bool :=
  match v with
  | VOk => btok b
  | VTimeout => match dl with Some t => t <=? now | None => false end
  | VCanceled => canceled
  end.

Definition bstep (now : Z) (canceled : bool) (b : bst) (e : bev) : option bst :=
  match e with
  | BUnpark => Some {| btok := true; bpark := bpark b |}
  | BEnter dl => match bpark b with
                 | None => Some {| btok := btok b; bpark := Some dl |}
                 | Some _ => None end
  | BResume v => match bpark b with
                 | Some dl => if reason_ok now canceled b dl v then Some {| btok := false; bpark := None |} else None
                 | None => None end
  | BSpurious v => match bpark b with
                   | Some _ => Some {| btok := false; bpark := None |}
                   | None => None end
  | BAbort => match bpark b with
              | Some _ => if canceled then Some {| btok := btok b; bpark := None |} else None
              | None => None end
  end.

(* a resume is due: the owner is inside park and one of the three reasons holds *)
Definition wake_due (now : Z) (canceled : bool) (b : bst) : bool :=
  match bpark b with
  | Some dl => btok b || canceled || match dl with Some t => t <=? now | None => false end
  | None => false end.

Definition verdict_eqb (a b : verdict) : bool :=
  match a, b with VOk, VOk | VTimeout, VTimeout | VCanceled, VCanceled => true | _, _ => false end.

(* facts the upper layers use *)
Lemma resume_clears_token now c b v b' : bstep now c b (BResume v) = Some b' -> btok b' = false /\ bpark b' = None.
Proof. cbn. destruct (bpark b); [|discriminate]. destruct (reason_ok _ _ _ _ _); [|discriminate]. intros [= <-]. auto. Qed.
Lemma ok_needs_token now c b b' : bstep now c b (BResume VOk) = Some b' -> btok b = true.
Proof. cbn. destruct (bpark b); [|discriminate]. cbn. destruct (btok b); [reflexivity|discriminate]. Qed.
Lemma timeout_not_early now c b b' : bstep now c b (BResume VTimeout) = Some b' -> exists t, bpark b = Some (Some t) /\ t <= now.
Proof.
  cbn. destruct (bpark b) as [[t|]|]; try discriminate; cbn.
  destruct (t <=? now) eqn:E; [|discriminate]. intros _. exists t. split; [reflexivity | apply Z.leb_le; exact E].
Qed.
Lemma canceled_needs_cancel now c b b' : bstep now c b (BResume VCanceled) = Some b' -> c = true.
Proof. cbn. destruct (bpark b); [|discriminate]. cbn. destruct c; [reflexivity|discriminate]. Qed.
