(* C09 - generic cancel-bit OVERLAY for the upper-layer models whose cancellation is an environment action
   without a cancel bit of its own (SemModel.Fire, FlagModel.Tmo, RwLockModel.Abort, ChanMpscModel.Fire RC,
   ChanSpscModel / ChanMpmcModel.Fire): the overlay adds, next to the untouched model state, the ghost cancel
   bit of every actor (Cancel.state bit 0) and the log of the cancel() calls, stepped alongside the model
   (the technique of Sync/SemPop.v: the projection of an overlay run is a run of the model, so every theorem
   of the model holds for the overlay; nothing of the model is edited).

     OCancel a        Cancel::cancel's fetch_or(1) on coroutine a          (only for cancellable actors)
     OAct ac false    the model's action ac, NOT as a cancel delivery      (refused if ac is a pure cancel delivery)
     OAct ac true     the model's action ac AS the delivery of a cancel to actor a = the Canceled verdict of its
                      blocking call                                        (only if the bit of a is set)

   [hits] classifies the model's actions: NoHit (not a delivery), MayHit a (the model merges "the timer or a
   cancel() hits the suspended actor a" in one action), MustHit a (only a cancel).
   What the overlay GUARDS is exactly the Blocker contract proved for Park in C02 (ParkThm.verdict_canceled:
   Canceled only with the cancel bit set; BlockerSpec.canceled_needs_cancel): so `delivery_needs_bit` below is
   true by construction of the overlay; its content is that the overlay loses no behaviour of the model
   (`greach_lift`) and that the model's invariants are those of the overlay (`oreach_base`). *)
From Coq Require Import List Arith Bool.
Import ListNotations.

Inductive hit := NoHit | MayHit (a : nat) | MustHit (a : nat).

Section Overlay.
Variables St Act : Type.
Variable step : St -> Act -> option St.
Variable init : St.
Variable hits : Act -> hit.
Variable cancellable : nat -> bool.      (* which actors are coroutines *)

(* reachability of the model, generically (each model file has its own, equivalent, inductive) *)
Inductive GReach : St -> Prop :=
| G0 : GReach init
| GS s a s' : GReach s -> step s a = Some s' -> GReach s'.

Definition updb (f : nat -> bool) (i : nat) (v : bool) : nat -> bool := fun j => if Nat.eqb j i then v else f j.

Record ost := { base : St; cbit : nat -> bool; clog : list nat }.
Inductive oact := OCancel (a : nat) | OAct (ac : Act) (as_cancel : bool).

Definition hit_target (h : hit) : option nat := match h with NoHit => None | MayHit a | MustHit a => Some a end.

Definition allowed (c : nat -> bool) (ac : Act) (k : bool) : bool :=
  match hits ac, k with
  | NoHit, k => negb k
  | MayHit a, true => c a
  | MayHit _, false => true
  | MustHit a, true => c a
  | MustHit _, false => false
  end.

Definition ostep (s : ost) (oa : oact) : option ost :=
  match oa with
  | OCancel a => if cancellable a
                 then Some {| base := base s; cbit := updb (cbit s) a true; clog := a :: clog s |}
                 else None
  | OAct ac k => if allowed (cbit s) ac k
                 then match step (base s) ac with
                      | Some b => Some {| base := b; cbit := cbit s; clog := clog s |}
                      | None => None end
                 else None
  end.

Definition oinit : ost := {| base := init; cbit := fun _ => false; clog := [] |}.

Inductive OReach : ost -> Prop :=
| O0 : OReach oinit
| OS s a s' : OReach s -> ostep s a = Some s' -> OReach s'.

(* the projection of an overlay run is a run of the model *)
Theorem oreach_base s : OReach s -> GReach (base s).
Proof.
  induction 1 as [|s a s' R IH H]; [constructor|].
  destruct a as [a|ac k]; cbn in H.
  - destruct (cancellable a); [|discriminate]. injection H as <-. exact IH.
  - destruct (allowed (cbit s) ac k); [|discriminate].
    destruct (step (base s) ac) as [b|] eqn:E; [|discriminate]. injection H as <-. cbn. eapply GS; eauto.
Qed.

(* the bit is set only by a cancel() addressed to that actor, and never cleared *)
Theorem bit_iff_cancel_called s : OReach s -> forall a, cbit s a = true <-> In a (clog s).
Proof.
  induction 1 as [|s oa s' R IH H]; intro a; [cbn; split; [discriminate | tauto]|].
  destruct oa as [c|ac k]; cbn in H.
  - destruct (cancellable c); [|discriminate]. injection H as <-. cbn. unfold updb.
    destruct (Nat.eqb_spec a c) as [->|N]; [tauto|]. rewrite IH. split; [auto | intros [E|I]; [congruence | exact I]].
  - destruct (allowed (cbit s) ac k); [|discriminate].
    destruct (step (base s) ac); [|discriminate]. injection H as <-. cbn. apply IH.
Qed.

Theorem bit_only_for_coroutines s : OReach s -> forall a, cbit s a = true -> cancellable a = true.
Proof.
  induction 1 as [|s oa s' R IH H]; intros a; [cbn; discriminate|].
  destruct oa as [c|ac k]; cbn in H.
  - destruct (cancellable c) eqn:C; [|discriminate]. injection H as <-. cbn. unfold updb.
    destruct (Nat.eqb_spec a c) as [->|N]; [intros _; exact C | apply IH].
  - destruct (allowed (cbit s) ac k); [|discriminate].
    destruct (step (base s) ac); [|discriminate]. injection H as <-. cbn. apply IH.
Qed.

Theorem bit_monotone s oa s' a : ostep s oa = Some s' -> cbit s a = true -> cbit s' a = true.
Proof.
  destruct oa as [c|ac k]; cbn; intros H B.
  - destruct (cancellable c); [|discriminate]. injection H as <-. cbn. unfold updb.
    destruct (Nat.eqb a c); [reflexivity | exact B].
  - destruct (allowed (cbit s) ac k); [|discriminate].
    destruct (step (base s) ac); [|discriminate]. injection H as <-. exact B.
Qed.

(* (iii) no spurious cancel: the transition that delivers a cancellation to actor a is taken only when the cancel
   bit of a is set - hence (bit_iff_cancel_called, bit_only_for_coroutines) only for a coroutine on which cancel()
   was called before *)
Theorem delivery_needs_bit s ac s' a : ostep s (OAct ac true) = Some s' -> hit_target (hits ac) = Some a ->
  cbit s a = true /\ step (base s) ac = Some (base s').
Proof.
  cbn. unfold allowed. intros H T. destruct (hits ac) as [|x|x]; cbn in T; try discriminate; injection T as ->.
  - destruct (cbit s a); [|discriminate]. split; [reflexivity|].
    destruct (step (base s) ac); [|discriminate]. injection H as <-. reflexivity.
  - destruct (cbit s a); [|discriminate]. split; [reflexivity|].
    destruct (step (base s) ac); [|discriminate]. injection H as <-. reflexivity.
Qed.
Theorem pure_delivery_needs_bit s ac k s' a : ostep s (OAct ac k) = Some s' -> hits ac = MustHit a ->
  k = true /\ cbit s a = true.
Proof.
  cbn. unfold allowed. intros H T. rewrite T in H. destruct k; [|discriminate].
  destruct (cbit s a); [auto | discriminate].
Qed.
Corollary delivery_only_after_cancel s ac s' a : OReach s -> ostep s (OAct ac true) = Some s' ->
  hit_target (hits ac) = Some a -> In a (clog s) /\ cancellable a = true.
Proof.
  intros R H T. destruct (delivery_needs_bit _ _ _ _ H T) as [B _].
  split; [apply (bit_iff_cancel_called s R); exact B | apply (bit_only_for_coroutines s R); exact B].
Qed.

(* a delivery is possible whenever the bit is set and the model's action is enabled: the overlay does not delay it *)
Theorem delivery_enabled s ac a b : hit_target (hits ac) = Some a -> cbit s a = true -> step (base s) ac = Some b ->
  ostep s (OAct ac true) = Some {| base := b; cbit := cbit s; clog := clog s |}.
Proof.
  intros T B E. cbn. unfold allowed. destruct (hits ac) as [|x|x]; cbn in T; try discriminate; injection T as ->.
  all: rewrite B, E; reflexivity.
Qed.

(* nothing is lost: when every actor may be a coroutine, every run of the model is the projection of an overlay run
   (a pure cancel delivery is preceded by the cancel() it needs) *)
Theorem greach_lift b : (forall a, cancellable a = true) -> GReach b -> exists c l, OReach {| base := b; cbit := c; clog := l |}.
Proof.
  intros AC. induction 1 as [|s ac s' R (c & l & IH) H].
  - exists (fun _ => false), []. constructor.
  - destruct (hits ac) as [|x|x] eqn:Hh.
    + exists c, l. apply (OS _ (OAct ac false) _ IH). cbn. unfold allowed. rewrite Hh. cbn. rewrite H. reflexivity.
    + exists c, l. apply (OS _ (OAct ac false) _ IH). cbn. unfold allowed. rewrite Hh. cbn. rewrite H. reflexivity.
    + exists (updb c x true), (x :: l).
      apply (OS {| base := s; cbit := updb c x true; clog := x :: l |} (OAct ac true)).
      * apply (OS _ (OCancel x) _ IH). cbn. rewrite AC. reflexivity.
      * cbn. unfold allowed. rewrite Hh. unfold updb. rewrite Nat.eqb_refl. rewrite H. reflexivity.
Qed.

(* run a schedule of the overlay; a disabled action stops the run *)
Fixpoint orun (s : ost) (l : list oact) : option ost :=
  match l with [] => Some s | a :: r => match ostep s a with Some s' => orun s' r | None => None end end.
Lemma orun_reach l : forall s s', OReach s -> orun s l = Some s' -> OReach s'.
Proof.
  induction l as [|a l IH]; cbn [orun]; intros s s' R H; [injection H as <-; exact R|].
  destruct (ostep s a) eqn:E; [|discriminate]. eapply IH; [eapply OS; eauto | exact H].
Qed.

End Overlay.

Arguments base {St}. Arguments cbit {St}. Arguments clog {St}.
Arguments OCancel {Act}. Arguments OAct {Act}.
