(* Preservation of the wake-up chain of the CqueueModel invariant (no lost wake-up of the poller). *)
From Coq Require Import List Arith Bool ZArith Lia.
Import ListNotations.
Require Import MayV.Rt.CqueueModel MayV.Rt.CqueueInv MayV.Rt.CqueueTac.

Ltac eqs := unfold upd in *; repeat match goal with |- context [Nat.eqb ?u ?v] => destruct (Nat.eqb_spec u v); subst end.
Ltac ex_try x := exists x; eqs; split; fin.
Ltac ex_any := match goal with x : nat |- _ => solve [ex_try x] end.
Ltac wfin :=
  first [ left; solve [eqs; fin]
        | right; left; solve [fin]
        | right; right; left; ex_any
        | right; right; right; ex_any ].

Lemma pres_W_tok s ac s' : Inv s -> step current s ac = Some s' ->
  waitset (opc s') = true ->
    tok s' (ob s') = true \/ towake s' = Some (ob s') \/ (exists e, kpc s' e = K3 /\ kw s' e = ob s')
    \/ (exists a, pc s' a = AD4 /\ aw s' a = ob s').
Proof.
  intros I H. pose proof (W_tok _ I) as Q. pose proof (W_tw _ I) as QW. start I H.
  all: simp; pcs; try exact Q; fin.
  all: intros W; try (specialize (Q W)); try (specialize (Q eq_refl)); fin.
  all: try (destruct Q as [Q|[Q|[[e1 [Q1 Q2]]|[a1 [Q1 Q2]]]]]).
  all: try (match goal with E : towake _ = Some _ |- _ => destruct (QW _ E) end); try (destruct (QW _ eq_refl)); subst.
  all: known.
  all: try (match goal with Q1 : pc ?s ?a1 = AD4, Ep : pc ?s ?a = AD4 |- _ => destruct (Nat.eq_dec a1 a); subst end).
  all: try (match goal with Q1 : kpc ?s ?a1 = K3, Ep : kpc ?s ?a = K3 |- _ => destruct (Nat.eq_dec a1 a); subst end).
  all: try wfin.
Qed.

Ltac ex_k x := exists x; eqs; fin.
Ltac ex_a x := exists x; eqs; first [left; solve [fin] | right; solve [fin]].
Ltac qfin := first [ left; match goal with x : nat |- _ => solve [ex_k x] end | right; match goal with x : nat |- _ => solve [ex_a x] end ].

Lemma app_nonnil {X} (l : list X) x : l ++ [x] <> [].
Proof. destruct l; discriminate. Qed.

Lemma pres_W_q s ac s' : Inv s -> step current s ac = Some s' ->
  sleepset (opc s') = true -> towake s' = Some (ob s') -> evq s' <> [] ->
    (exists e, kpc s' e = K2) \/ (exists a, pc s' a = AD2 \/ pc s' a = AD3).
Proof.
  intros I H. pose proof (W_q _ I) as Q. start I H.
  all: simp; pcs; try exact Q; fin.
  all: intros W T NE; fin.
  all: try (specialize (Q W T)).
  all: try (specialize (Q NE); destruct Q as [[e1 Q1]|[a1 [Q1|Q1]]]); known.
  all: try (match goal with Q1 : pc ?s ?a1 = _, Ep : pc ?s ?a = _ |- _ => destruct (Nat.eq_dec a1 a); subst end).
  all: try (match goal with Q1 : kpc ?s ?a1 = _, Ep : kpc ?s ?a = _ |- _ => destruct (Nat.eq_dec a1 a); subst end).
  all: try qfin.
Qed.

Lemma pres_J_live s ac s' : Inv s -> step current s ac = Some s' -> jset s' = true -> cnt s' <> 0%Z \/ evq s' <> [].
Proof.
  intros I H. pose proof (J_live _ I) as Q. pose proof (Q_done _ I) as QD. pose proof (A_dp _ I) as QP. pose proof (D_join _ I) as QJ.
  pose proof (A_jst _ I) as QS. unfold jset in *. start I H.
  all: simp; pcs; try exact Q; fin.
  all: intros W; fin.
  all: try (right; apply app_nonnil).
  all: try (specialize (Q W)); try (specialize (Q eq_refl)); fin.
  right. destruct (QP a) as [P1 P2]. rewrite Ep in P1. cbn [dset] in P1.
  assert (D0 : dpop s a = 0).
  { destruct (dpop s a) as [|[|?]] eqn:ED; [reflexivity | | lia]. exfalso.
    destruct (QJ a ED) as [J|[J _]]; [rewrite QS, Ep in J; discriminate|]. destruct (opc s); discriminate. }
  assert (X : In (EDone a) (qall s)) by (apply QD; split; assumption).
  unfold qall in X. destruct (opc s); try discriminate; intros E; rewrite E in X; destruct X.
Qed.

Lemma pres_L_all s ac s' : Inv s -> step current s ac = Some s' ->
  opc s' = P2 -> oalld s' = true -> forall a, a < nexta s' -> dset (pc s' a) = true.
Proof.
  intros I H. pose proof (L_all _ I) as Q. pose proof (C_cnt _ I) as QC. start I H.
  all: simp; pcs; try exact Q; fin.
  all: intros W AD a0 L0; fin.
  all: try (specialize (Q W AD)); try (specialize (Q eq_refl AD)).
  all: try (upds; simp; pcs; fin; try (apply Q; assumption)).
  all: try (match goal with E : pc ?s ?a = _, L : ?a < nexta ?s |- _ => let X := fresh in pose proof (Q a L) as X; rewrite E in X; discriminate end).
  apply Z.eqb_eq in AD. pose proof (cntif_le (fun a => decd (pc s a)) (nexta s)).
  assert (F : cntif (fun a => decd (pc s a)) (nexta s) = nexta s) by lia.
  pose proof (cntif_full _ _ F a0 L0) as X. cbv beta in X. destruct (pc s a0); try discriminate; reflexivity.
Qed.

Lemma pres_M_gone s ac s' : Inv s -> step current s ac = Some s' ->
  goneset (opc s') = true ->
    (forall a, a < nexta s' -> pc s' a = ADone /\ dpop s' a = 1) /\
    (forall e, e < nexte s' -> kpc s' e = KDone /\ epop s' e = 1) /\ evq s' = [].
Proof.
  intros I H. pose proof (M_gone _ I) as Q. start I H.
  all: simp; pcs; try exact Q; fin.
  all: intros W.
  all: try (apply finished_all_gone; assumption).
  all: try (destruct (Q W) as (QA & QE & QQ)).
  all: try (match goal with E : pc ?s ?a = _, L : ?a < nexta ?s |- _ => destruct (QA a L) as [X _]; rewrite E in X; discriminate end).
  all: try (match goal with E : kpc ?s ?a = _, L : ?a < nexte ?s |- _ => destruct (QE a L) as [X _]; rewrite E in X; discriminate end).
Qed.
