(* C08 (callers) - the statements of Properties/C08_callers.v, instantiated for the two contexts
   (coroutine: AtomicDuration's [armed], up to its cap DCAP of about 292 years; thread: [exact]). *)
From Coq Require Import ZArith List Bool Lia.
Import ListNotations.
Require Import MayV.Rt.AtomicDur MayV.Rt.TimedCallers MayV.Rt.TimedCallersThm MayV.Rt.TimedCallersBound
               MayV.Rt.TimedCallersInst MayV.Rt.TimedChain MayV.Rt.TimedChainThm.
Open Scope Z_scope.

(* the arming functions of the two contexts *)
Definition ctx_arm (in_coroutine : bool) : Z -> option Z := if in_coroutine then armed else exact.
(* the durations for which the arming function is exact up to rounding *)
Definition ctx_cap (in_coroutine : bool) (d : Z) : Prop := if in_coroutine then d <= DCAP else True.

Lemma no_arm_lo (arm : Z -> option Z) : forall x a, 0 <= x <= -1 -> arm x = Some a -> x <= a.
Proof. intros; lia. Qed.

(* ---- never early ---- *)

(* the deadline loops, whatever park is armed with (even the floor of before the repair of F3, even nothing) *)
Lemma loops_never_early K retry arm s :
  Reach K retry arm s -> is_single K = false -> forall t y, res s = Some (RTimeout, t, y) -> tcall s + dur s <= t.
Proof. intros R S. apply (timeout_never_early K retry arm (-1) (no_arm_lo arm) s R). left; exact S. Qed.

Lemma loops_timeout_only_after_deadline_observed K retry arm s :
  Reach K retry arm s -> is_single K = false -> pcs s = Ret RTimeout ->
  obs s = true /\ dl s <= now s /\ tcall s + dur s <= dl s.
Proof. apply (loop_timeout_only_after_deadline_observed K retry arm (-1) (no_arm_lo arm)). Qed.

Lemma single_never_early retry co s :
  Reach KSingle retry (ctx_arm co) s -> ctx_cap co (dur s) ->
  forall t y, res s = Some (RTimeout, t, y) -> tcall s + dur s <= t.
Proof.
  destruct co; cbn; intros R C.
  - apply (timeout_never_early KSingle retry armed DCAP armed_lo s R). right; exact C.
  - apply (timeout_never_early KSingle retry exact (dur s) (exact_lo (dur s)) s R). right; lia.
Qed.

(* ---- never hang ---- *)

Lemma textbook_and_single_never_hang K retry co s :
  K = KRem \/ K = KSingle -> Reach K retry (ctx_arm co) s -> pcs s <> Idle -> ctx_cap co (dur s) ->
  Quiescent K retry (ctx_arm co) s ->
  pcs s = Parked /\ tok s = false /\
  exists a, ar s = Some a /\ now s < tp s + a /\ tp s + a < tcall s + dur s + MS + delay s.
Proof.
  destruct co; cbn; intros Hk R P C Q.
  - apply (never_hang retry armed DCAP armed_lo armed_hi armed_some K s Hk R P C Q).
  - apply (never_hang retry exact (dur s) (exact_lo (dur s)) (exact_hi (dur s)) exact_some K s Hk R P ltac:(lia) Q).
Qed.

Lemma loop_before_fix_never_hang retry co s :
  Reach KFull retry (ctx_arm co) s -> pcs s <> Idle -> ctx_cap co (dur s) -> Quiescent KFull retry (ctx_arm co) s ->
  pcs s = Parked /\ tok s = false /\
  exists a, ar s = Some a /\ now s < tp s + a /\ tp s + a < tcall s + dur s + dur s + MS + delay s /\
            (nsp s = 0%nat -> tp s + a < tcall s + dur s + MS + delay s).
Proof.
  destruct co; cbn; intros R P C Q.
  - apply (never_hang_full retry armed DCAP armed_lo armed_hi armed_some s R P C Q).
  - apply (never_hang_full retry exact (dur s) (exact_lo (dur s)) (exact_hi (dur s)) exact_some s R P ltac:(lia) Q).
Qed.

(* the code of recv_timeout / Cqueue::poll (since fix 3916da2) *)
Lemma code_loop_never_hang retry co s :
  Reach KRem retry (ctx_arm co) s -> pcs s <> Idle -> ctx_cap co (dur s) -> Quiescent KRem retry (ctx_arm co) s ->
  pcs s = Parked /\ tok s = false /\
  exists a, ar s = Some a /\ now s < tp s + a /\ tp s + a < tcall s + dur s + MS + delay s.
Proof. apply (textbook_and_single_never_hang KRem retry co s (or_introl eq_refl)). Qed.

(* ---- the rounding bound, end to end ---- *)

Lemma textbook_and_single_prompt K retry co s t y :
  K = KRem \/ K = KSingle -> Reach K retry (ctx_arm co) s -> ctx_cap co (dur s) -> res s = Some (RTimeout, t, y) ->
  t - y < tcall s + dur s + MS.
Proof.
  destruct co; cbn; intros Hk R C E.
  - apply (returned_timeout_bound retry armed DCAP armed_lo armed_hi armed_some K s t y Hk R C E).
  - apply (returned_timeout_bound retry exact (dur s) (exact_lo (dur s)) (exact_hi (dur s)) exact_some K s t y Hk R ltac:(lia) E).
Qed.

Lemma code_loop_prompt retry co s t y :
  Reach KRem retry (ctx_arm co) s -> ctx_cap co (dur s) -> res s = Some (RTimeout, t, y) -> t - y < tcall s + dur s + MS.
Proof. apply (textbook_and_single_prompt KRem retry co s t y (or_introl eq_refl)). Qed.

(* schedule hypothesis spelled out: nothing delayed the call (y = 0: no time passed while the caller was not parked,
   and it left every park the moment its timer was due) *)
Lemma single_undelayed_window retry co s t :
  Reach KSingle retry (ctx_arm co) s -> ctx_cap co (dur s) -> res s = Some (RTimeout, t, 0) ->
  tcall s + dur s <= t < tcall s + dur s + MS.
Proof.
  intros R C E. split.
  - apply (single_never_early retry co s R C t 0 E).
  - pose proof (textbook_and_single_prompt KSingle retry co s t 0 (or_intror eq_refl) R C E). lia.
Qed.

Lemma code_loop_undelayed_window retry co s t :
  Reach KRem retry (ctx_arm co) s -> ctx_cap co (dur s) -> res s = Some (RTimeout, t, 0) ->
  tcall s + dur s <= t < tcall s + dur s + MS.
Proof.
  intros R C E. split.
  - apply (loops_never_early KRem retry (ctx_arm co) s R eq_refl t 0 E).
  - pose proof (textbook_and_single_prompt KRem retry co s t 0 (or_introl eq_refl) R C E). lia.
Qed.

Lemma loop_before_fix_prompt_partial retry co s :
  Reach KFull retry (ctx_arm co) s -> pcs s <> Idle -> ctx_cap co (dur s) ->
  (nsp s = 0%nat -> now s - delay s + slack s < tcall s + dur s + MS) /\
  now s - delay s + slack s < tcall s + dur s + dur s + MS.
Proof.
  destruct co; cbn; intros R P C.
  - apply (bound_full retry armed DCAP armed_lo armed_hi armed_some s R P C).
  - apply (bound_full retry exact (dur s) (exact_lo (dur s)) (exact_hi (dur s)) exact_some s R P ltac:(lia)).
Qed.

Lemma loop_before_fix_returned_partial retry co s t y :
  Reach KFull retry (ctx_arm co) s -> ctx_cap co (dur s) -> res s = Some (RTimeout, t, y) ->
  t - y < tcall s + dur s + dur s + MS.
Proof.
  destruct co; cbn; intros R C E.
  - apply (returned_timeout_bound_full retry armed DCAP armed_lo armed_hi armed_some s t y R C E).
  - apply (returned_timeout_bound_full retry exact (dur s) (exact_lo (dur s)) (exact_hi (dur s)) exact_some s t y R ltac:(lia) E).
Qed.

(* the full statement for the loops as they were before fix 3916da2 is refuted: undelayed (y = 0), in range, and a whole 1.5 ms late *)
Lemma loop_before_fix_prompt_refuted retry :
  ~ (forall s t y, Reach KFull retry (ctx_arm true) s -> ctx_cap true (dur s) -> res s = Some (RTimeout, t, y) ->
                   t - y < tcall s + dur s + MS).
Proof.
  intros H. destruct (full_prompt_refuted retry) as (s & t & R & E & _ & L & _ & D).
  specialize (H s t 0 R). cbn in H. rewrite D in H. specialize (H ltac:(unfold DCAP; vm_compute; discriminate) E). lia.
Qed.

(* ---- the slips ---- *)

Lemma recomputed_deadline_refuted :
  ~ (forall s, Reach KRecomp true armed s -> pcs s <> Idle -> now s - delay s + slack s < tcall s + dur s + dur s + MS).
Proof.
  intros H. destruct recompute_never_times_out_refuted as (s & R & P & D & _ & N & A & T & Du).
  specialize (H s R ltac:(rewrite P; discriminate)). unfold slack in H. rewrite P, A, D in H. unfold MS in H. lia.
Qed.

(* ---- sleep and the chain ---- *)

Lemma sleep_never_early s t : CReach CSleep s -> cres s = Some (VTimeout, t) -> ctcall s + ud s <= t.
Proof. intros R E. apply (chain_timeout_not_early CSleep s t R E I). Qed.

Lemma sleep_entry_exact s e : CReach CSleep s -> ent s = Some e -> e = tadd s + ud s /\ ctcall s <= tadd s <= cnow s.
Proof.
  intros R E. destruct (chain_entry_deadline CSleep s e R E) as (a & A & E1 & E2). cbn in A. injection A as <-. auto.
Qed.

Lemma armed_is_ceil d : 0 <= d <= DCAP -> armed d = Some (ceil_ms d * MS).
Proof.
  intros H. pose proof (ceil_le_cap d H) as C. unfold armed, dec, enc. rewrite Z.min_l by exact C.
  assert (0 <= ceil_ms d) by (unfold ceil_ms, MS; apply Z.div_pos; lia).
  destruct (ceil_ms d + 1 =? 0) eqn:E; [apply Z.eqb_eq in E; lia|].
  replace (ceil_ms d + 1 - 1) with (ceil_ms d) by lia. reflexivity.
Qed.

(* ONE chain:  requested d  ->  armed ceil_ms(d)  ->  entry deadline = clock at add_timer + armed  ->  verdict Timeout
   only at or after call + armed  ->  every API reports Timeout only at or after its call + d  ->  and, undelayed,
   before call + d + 1 ms *)
Lemma requested_to_timeout_chain d :
  0 <= d <= DCAP ->
  exists a,
    armed d = Some a /\ a = ceil_ms d * MS /\ d <= a < d + MS /\
    (forall s e, CReach CPark s -> ud s = d -> ent s = Some e -> e = tadd s + a /\ ctcall s <= tadd s <= cnow s) /\
    (forall s t, CReach CPark s -> ud s = d -> cres s = Some (VTimeout, t) -> ctcall s + a <= t) /\
    (forall s, CReach CPark s -> ud s = d -> cp s = CYield -> CQuiescent CPark s ->
               slot s = true /\ exists e, ent s = Some e /\ cnow s < e) /\
    (forall K retry s t y, Reach K retry armed s -> dur s = d -> res s = Some (RTimeout, t, y) -> tcall s + d <= t) /\
    (forall K retry s t, K = KRem \/ K = KSingle -> Reach K retry armed s -> dur s = d ->
                         res s = Some (RTimeout, t, 0) -> t < tcall s + d + MS).
Proof.
  intros H. exists (ceil_ms d * MS). pose proof (armed_is_ceil d H) as A.
  split; [exact A|]. split; [reflexivity|]. split; [apply (armed_bounds d _ ltac:(lia) (ceil_le_cap d H) A)|].
  split; [|split; [|split; [|split]]].
  - intros s e R U E. destruct (chain_entry_deadline CPark s e R E) as (a & A' & E1 & E2). cbn in A'. rewrite U, A in A'.
    injection A' as <-. auto.
  - intros s t R U E. destruct (chain_timeout_not_before_armed CPark s t R E) as (a & A' & L). cbn in A'. rewrite U, A in A'.
    injection A' as <-. exact L.
  - intros s R _ P Q. apply (chain_suspended_has_pending_timer CPark s R P Q).
  - intros K retry s t y R U E. rewrite <- U. destruct (is_single K) eqn:S.
    + destruct K; try discriminate. assert (C : ctx_cap true (dur s)) by (unfold ctx_cap; lia).
      apply (single_never_early retry true s R C t y E).
    + apply (loops_never_early K retry armed s R S t y E).
  - intros K retry s t Hk R U E. rewrite <- U.
    assert (C : ctx_cap true (dur s)) by (unfold ctx_cap; lia).
    apply (textbook_and_single_prompt K retry true s t 0 Hk R C) in E. lia.
Qed.
