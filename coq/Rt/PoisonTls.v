(* C13, observation O2 made precise: std::thread::panicking() is a counter of the OS THREAD (LOCAL_PANIC_COUNT:
   incremented where the panic starts, decremented where it is caught), while src/sync/poison.rs (Flag::borrow,
   Flag::done) and src/cancel.rs (check_cancel) use it as if it belonged to the coroutine.  PoisonModel treats
   "unwinding" as a property of the task; this file is the small TLS-FAITHFUL variant: tasks run on threads, a task
   that is suspended (also in the middle of its unwinding: RwLockReadGuard::drop waits for the reader-count mutex,
   Park::drop waits for the kernel half, Drop for Scope / Cqueue wait for children) may be resumed by another thread,
   and while it is suspended its thread runs other tasks.

   On this model the statements of C13 are REFUTED (vm_compute witnesses below); each witness was replayed on the
   real runtime (harness/src/bin/s_panic.rs, variants MAYV_O2 / MAYV_RUNWIND / MAYV_EARLY; see the final report):

     lost_poison_after_migration    a coroutine panics inside a Mutex guard on thread 0, is suspended inside its
                                    unwinding, resumed on thread 1: the guard is dropped there, thread 1's counter is
                                    0: the Mutex is NOT poisoned - and the counters of both threads stay wrong
     spurious_poison_on_one_thread  ONE thread: task 0 is suspended inside a cancellation unwind; task 1, well-behaved,
                                    drops its Mutex guard normally: the thread's counter is 1, task 1 is not
                                    cancelled: the Mutex IS poisoned although its holder never panicked
     cancel_suppressed              ONE thread: task 0 suspended inside an unwinding; task 1 is cancelled and reaches a
                                    cancellation point: check_cancel sees thread::panicking() and does not raise; a
                                    `loop { yield_now() }` of task 1 then never leaves the worker (livelock) *)
From Coq Require Import List Arith ZArith Bool Lia.
Import ListNotations.
Require Import MayV.Rt.PoisonModel.

Record ttask := { thr : nat; tcst : Z; tunw : option umode; tguards : list (nat * bool) (* lock, guard.panicking *);
                  tcu : bool (* Cancel.unwinding: the cancel panic was raised in this task (fix bce9086) *) }.
Record tst := { TT : nat -> ttask; pcnt : nat -> Z; tfailed : nat -> bool; towner : nat -> option nat }.

Inductive taction :=
  | TLock (t l : nat)            (* Mutex::lock returns (uncontended) *)
  | TDrop (t l : nat)            (* the guard of l is dropped: normally, or by the unwinding in progress *)
  | TPanic (t : nat) (v : Z)     (* a genuine panic starts *)
  | TCancelReq (t : nat)         (* Cancel::cancel *)
  | TCancelPoint (t : nat)       (* check_cancel at a cancellation point: raises only if !thread::panicking() *)
  | TCaught (t : nat)            (* the unwinding reaches the catch_unwind of the generator *)
  | TMigrate (t th : nat).       (* the suspended task is resumed by thread th *)

Definition tpanicking (s : tst) (t : nat) : bool := Z.ltb 0 (pcnt s (thr (TT s t))) || Z.ltb (pcnt s (thr (TT s t))) 0.
Definition set_t (s : tst) t x := {| TT := upd (TT s) t x; pcnt := pcnt s; tfailed := tfailed s; towner := towner s |}.

Definition tstep (s : tst) (a : taction) : option tst :=
  match a with
  | TLock t l =>
      match towner s l with
      | None => let x := TT s t in
                Some {| TT := upd (TT s) t {| thr := thr x; tcst := tcst x; tunw := tunw x; tguards := (l, borrow_panicking (tpanicking s t)) :: tguards x; tcu := tcu x |};
                        pcnt := pcnt s; tfailed := tfailed s; towner := upd (towner s) l (Some t) |}
      | Some _ => None end
  | TDrop t l =>
      let x := TT s t in
      match find (fun g => Nat.eqb (fst g) l) (tguards x) with
      | Some (_, gp) =>
          Some {| TT := upd (TT s) t {| thr := thr x; tcst := tcst x; tunw := tunw x; tguards := filter (fun g => negb (Nat.eqb (fst g) l)) (tguards x); tcu := tcu x |};
                  pcnt := pcnt s;
                  tfailed := upd (tfailed s) l (tfailed s l || done_stores gp (tpanicking s t) true (tcu x));
                  towner := upd (towner s) l None |}
      | None => None end
  | TPanic t v =>
      let x := TT s t in
      match tunw x with
      | None => Some {| TT := upd (TT s) t {| thr := thr x; tcst := tcst x; tunw := Some (MPanic v); tguards := tguards x; tcu := tcu x |};
                        pcnt := upd (pcnt s) (thr x) (pcnt s (thr x) + 1)%Z; tfailed := tfailed s; towner := towner s |}
      | Some _ => None end
  | TCancelReq t =>
      let x := TT s t in
      Some (set_t s t {| thr := thr x; tcst := (if Z.odd (tcst x) then tcst x else tcst x + 1)%Z; tunw := tunw x; tguards := tguards x; tcu := tcu x |})
  | TCancelPoint t =>
      let x := TT s t in
      match tunw x with
      | None => if is_canceled (tcst x) && negb (tpanicking s t)
                then Some {| TT := upd (TT s) t {| thr := thr x; tcst := tcst x; tunw := Some MCancel; tguards := tguards x; tcu := true |};
                             pcnt := upd (pcnt s) (thr x) (pcnt s (thr x) + 1)%Z; tfailed := tfailed s; towner := towner s |}
                else Some s      (* the call returns, nothing is raised *)
      | Some _ => None end
  | TCaught t =>
      let x := TT s t in
      match tunw x, tguards x with
      | Some _, [] => Some {| TT := upd (TT s) t {| thr := thr x; tcst := tcst x; tunw := None; tguards := []; tcu := tcu x |};
                              pcnt := upd (pcnt s) (thr x) (pcnt s (thr x) - 1)%Z; tfailed := tfailed s; towner := towner s |}
      | _, _ => None end
  | TMigrate t th =>
      let x := TT s t in
      Some (set_t s t {| thr := th; tcst := tcst x; tunw := tunw x; tguards := tguards x; tcu := tcu x |})
  end.

Definition tinit : tst :=
  {| TT := fun _ => {| thr := 0; tcst := 0; tunw := None; tguards := []; tcu := false |}; pcnt := fun _ => 0%Z; tfailed := fun _ => false; towner := fun _ => None |}.
Inductive TReach : tst -> Prop :=
| TR0 : TReach tinit
| TRS s a s' : TReach s -> tstep s a = Some s' -> TReach s'.
Fixpoint trun (s : tst) (l : list taction) : option tst :=
  match l with [] => Some s | a :: r => match tstep s a with Some s' => trun s' r | None => None end end.
Lemma trun_reach l : forall s s', TReach s -> trun s l = Some s' -> TReach s'.
Proof.
  induction l as [|a r IH]; cbn; intros s s' R H; [inversion H; subst; exact R|].
  destruct (tstep s a) eqn:E; [|discriminate]. eapply IH; [eapply TRS; eassumption|exact H].
Qed.

(* "a write guard dropped by that panic poisons the lock" - refuted: the panic started inside the guard, the guard is
   dropped by its unwinding, the task ends; not poisoned, and the two threads are left with counters 1 and -1 *)
Theorem lost_poison_after_migration_refuted :
  exists s, TReach s /\
    trun tinit [TLock 0 0; TPanic 0 7; TMigrate 0 1; TDrop 0 0; TCaught 0] = Some s /\
    tfailed s 0 = false /\ towner s 0 = None /\ tunw (TT s 0) = None /\ pcnt s 0 = 1%Z /\ pcnt s 1 = (-1)%Z.
Proof.
  destruct (trun tinit [TLock 0 0; TPanic 0 7; TMigrate 0 1; TDrop 0 0; TCaught 0]) as [s|] eqn:E; [|vm_compute in E; discriminate].
  exists s. split; [eapply trun_reach; [apply TR0|exact E]|]. split; [reflexivity|].
  vm_compute in E. inversion E; subst; clear E. cbn. repeat split.
Qed.

(* "nothing else is affected" - refuted on ONE thread: task 1 never panics and is never cancelled, it takes and drops
   a Mutex guard normally while task 0 is suspended inside a cancellation unwind: the Mutex is poisoned *)
Theorem spurious_poison_on_one_thread_refuted :
  exists s, TReach s /\
    trun tinit [TLock 1 0; TCancelReq 0; TCancelPoint 0; TDrop 1 0] = Some s /\
    tfailed s 0 = true /\ tunw (TT s 1) = None /\ tcst (TT s 1) = 0%Z /\ thr (TT s 0) = thr (TT s 1).
Proof.
  destruct (trun tinit [TLock 1 0; TCancelReq 0; TCancelPoint 0; TDrop 1 0]) as [s|] eqn:E; [|vm_compute in E; discriminate].
  exists s. split; [eapply trun_reach; [apply TR0|exact E]|]. split; [reflexivity|].
  vm_compute in E. inversion E; subst; clear E. cbn. repeat split.
Qed.

(* cancellation of an unrelated coroutine is suppressed while another one is suspended inside its unwinding on the same
   thread: the cancellation point returns without raising, as often as it is reached *)
Theorem cancel_suppressed_refuted :
  exists s, TReach s /\ trun tinit [TPanic 0 7; TCancelReq 1] = Some s /\ is_canceled (tcst (TT s 1)) = true /\
            forall n, trun s (repeat (TCancelPoint 1) n) = Some s.
Proof.
  destruct (trun tinit [TPanic 0 7; TCancelReq 1]) as [s|] eqn:E; [|vm_compute in E; discriminate].
  exists s. split; [eapply trun_reach; [apply TR0|exact E]|]. split; [reflexivity|].
  vm_compute in E. inversion E; subst; clear E. split; [reflexivity|].
  induction n as [|n IH]; [reflexivity|]. cbn [repeat trun]. cbn [tstep]. exact IH.
Qed.

(* without migration and without running another task while one is suspended inside an unwinding the variant agrees
   with PoisonModel's decision: the counter of the thread is the task's own *)
Theorem tls_drop_is_the_decision s t l gp :
  find (fun g => Nat.eqb (fst g) l) (tguards (TT s t)) = Some (l, gp) ->
  exists s', tstep s (TDrop t l) = Some s' /\
    tfailed s' l = tfailed s l || done_stores gp (tpanicking s t) true (tcu (TT s t)) /\ towner s' l = None.
Proof.
  intro F. cbn [tstep]. rewrite F. eexists. split; [reflexivity|]. cbn. unfold upd. rewrite Nat.eqb_refl. split; reflexivity.
Qed.
