(* C13 (ii): theorems about the panic path of run_coroutine on SchedModel (every reachable state, any number of
   threads and coroutines, any schedule). *)
From Coq Require Import List Arith ZArith Bool Lia.
Import ListNotations.
Require Import MayV.Rt.SchedModel MayV.Rt.SchedInv MayV.Rt.SchedTac MayV.Rt.SchedPresC MayV.Rt.SchedPresP MayV.Rt.PanicPath.

Theorem body_panic_enters_panic_path s t c rest v :
  stk s t = FRun c :: rest -> gst (co s c) = GLive -> upc (co s c) = Idle ->
  exists s', step s (APanic t (Some v)) = Some s' /\ stk s' t = FPan c :: rest /\ upc (co s' c) = PP0 v /\
             outcome (co s' c) = Some (RPan v) /\ gst (co s' c) = GFin /\ In c (hand s' t) /\
             (forall c', c' <> c -> co s' c' = co s c') /\ (forall t', t' <> t -> stk s' t' = stk s t' /\ hand s' t' = hand s t') /\
             gq s' = gq s /\ lq s' = lq s /\ slots s' = slots s /\ dead s' = dead s /\ tpc s' = tpc s /\ tok s' = tok s /\ punp s' = punp s.
Proof.
  intros E G U. unfold step. rewrite E, G, U. eexists. split; [reflexivity|]. sst. rewrite !upd_eq. sco.
  repeat split; try reflexivity.
  - apply in_snoc. right. reflexivity.
  - intros c' NE. rewrite upd_neq by exact NE. reflexivity.
  - rewrite upd_neq by assumption. reflexivity.
  - rewrite upd_neq by assumption. reflexivity.
Qed.

(* one step of the panic path *)
Definition ppm (p : pc) : nat := match p with PP0 _ => 4 | PT1 => 3 | PT2 => 2 | PT3 _ => 1 | _ => 0 end.

Record pframe (s s' : st) (t c : nat) : Prop := {
  f_co : forall c', c' <> c -> co s' c' = co s c';
  f_stk : forall t', t' <> t -> stk s' t' = stk s t';
  f_hand : forall t', t' <> t -> hand s' t' = hand s t';
  f_gq : gq s' = gq s; f_lq : lq s' = lq s; f_slots : slots s' = slots s;
  f_tpc : tpc s' = tpc s; f_tok : tok s' = tok s;
  f_punp : exists ws, punp s' = punp s ++ ws;
  f_c : spawned (co s' c) = spawned (co s c) /\ gst (co s' c) = gst (co s c) /\ outcome (co s' c) = outcome (co s c) /\
        pkt (co s' c) = pkt (co s c) /\ jret (co s' c) = jret (co s c) /\ cancelled (co s' c) = cancelled (co s c) /\
        jcall (co s' c) = jcall (co s c)
}.

Lemma pp_step s t c rest : stk s t = FPan c :: rest -> In c (hand s t) -> ppc (upc (co s c)) = true ->
  exists s', step s (AStep t) = Some s' /\ pframe s s' t c /\
    ((stk s' t = FPan c :: rest /\ hand s' t = hand s t /\ ppc (upc (co s' c)) = true /\ ppm (upc (co s' c)) < ppm (upc (co s c)) /\ dead s' = dead s)
     \/ (upc (co s c) = PD /\ stk s' t = rest /\ hand s' t = rm c (hand s t) /\ loc (co s' c) = LDead /\ dead s' = c :: dead s /\ upc (co s' c) = PD /\ jstate (co s' c) = jstate (co s c) /\ pan (co s' c) = pan (co s c))).
Proof.
  intros E I P. unfold step. rewrite E.
  assert (M : memb c (hand s t) = true) by (apply memb_in; exact I).
  destruct (upc (co s c)) eqn:U; try discriminate P; unfold take_wake; rewrite ?M;
    try destruct (jwake (co s c)) eqn:JW.
  all: eexists; (split; [reflexivity|]); split;
    [ constructor; sst; intros; rewrite ?upd_neq by assumption; rewrite ?upd_eq; sco; auto 10; try (exists []; rewrite app_nil_r; reflexivity); try (eexists; reflexivity) | ].
  all: try (left; sst; rewrite ?upd_eq; sco; cbn [ppc ppm]; repeat split; auto; lia).
  all: right; sst; rewrite !upd_eq; sco; repeat split; auto.
Qed.

Lemma pframe_refl s t c : pframe s s t c.
Proof. constructor; auto 10. exists []. now rewrite app_nil_r. Qed.
Lemma pframe_trans s1 s2 s3 t c : pframe s1 s2 t c -> pframe s2 s3 t c -> pframe s1 s3 t c.
Proof.
  intros A B. constructor.
  - intros c' N. rewrite (f_co _ _ _ _ B c' N). apply (f_co _ _ _ _ A c' N).
  - intros t' N. rewrite (f_stk _ _ _ _ B t' N). apply (f_stk _ _ _ _ A t' N).
  - intros t' N. rewrite (f_hand _ _ _ _ B t' N). apply (f_hand _ _ _ _ A t' N).
  - rewrite (f_gq _ _ _ _ B). apply (f_gq _ _ _ _ A).
  - rewrite (f_lq _ _ _ _ B). apply (f_lq _ _ _ _ A).
  - rewrite (f_slots _ _ _ _ B). apply (f_slots _ _ _ _ A).
  - rewrite (f_tpc _ _ _ _ B). apply (f_tpc _ _ _ _ A).
  - rewrite (f_tok _ _ _ _ B). apply (f_tok _ _ _ _ A).
  - destruct (f_punp _ _ _ _ A) as [w1 E1], (f_punp _ _ _ _ B) as [w2 E2]. exists (w1 ++ w2). rewrite E2, E1, app_assoc. reflexivity.
  - destruct (f_c _ _ _ _ A) as (a1 & a2 & a3 & a4 & a5 & a6 & a7), (f_c _ _ _ _ B) as (b1 & b2 & b3 & b4 & b5 & b6 & b7).
    repeat split; congruence.
Qed.

Lemma steps_cons s a l : steps s (a :: l) = match step s a with Some s' => steps s' l | None => None end.
Proof. reflexivity. Qed.

Theorem panic_path_completes m : forall s t c rest,
  ppm (upc (co s c)) <= m -> stk s t = FPan c :: rest -> In c (hand s t) -> ppc (upc (co s c)) = true ->
  exists n s', n <= S m /\ steps s (repeat (AStep t) n) = Some s' /\ pframe s s' t c /\
    stk s' t = rest /\ hand s' t = rm c (hand s t) /\ loc (co s' c) = LDead /\ dead s' = c :: dead s /\ upc (co s' c) = PD.
Proof.
  induction m as [|m IH]; intros s t c rest LE E I P.
  - destruct (pp_step s t c rest E I P) as (s' & H & F & [(_ & _ & _ & LT & _)|(U & A & B & C & D & G & _)]); [lia|].
    exists 1, s'. cbn [repeat]. rewrite steps_cons, H. cbn [steps].
    exact (conj (le_n 1) (conj eq_refl (conj F (conj A (conj B (conj C (conj D G))))))).
  - destruct (pp_step s t c rest E I P) as (s' & H & F & [(A & B & C & LT & D)|(U & A & B & C & D & G & _)]).
    + assert (I' : In c (hand s' t)) by (rewrite B; exact I).
      destruct (IH s' t c rest ltac:(lia) A I' C) as (n & s'' & N & S2 & F2 & A2 & B2 & C2 & D2 & G2).
      exists (S n), s''. cbn [repeat]. rewrite steps_cons, H.
      refine (conj _ (conj S2 (conj (pframe_trans _ _ _ _ _ F F2) (conj A2 (conj _ (conj C2 (conj _ G2))))))); [lia| |].
      * rewrite B2, B. reflexivity.
      * rewrite D2, D. reflexivity.
    + exists 1, s'. cbn [repeat]. rewrite steps_cons, H. cbn [steps].
      refine (conj _ (conj eq_refl (conj F (conj A (conj B (conj C (conj D G))))))). lia.
Qed.

Theorem panic_path_runs_to_the_end w s t c rest :
  Reach w s -> stk s t = FPan c :: rest ->
  exists n s', n <= 5 /\ steps s (repeat (AStep t) n) = Some s' /\ pframe s s' t c /\
    stk s' t = rest /\ hand s' t = rm c (hand s t) /\ loc (co s' c) = LDead /\ dead s' = c :: dead s /\ upc (co s' c) = PD /\
    Reach w s'.
Proof.
  intros R E. destruct (rinv_reach _ _ R) as (_ & _ & X1 & _). specialize (X1 t). unfold xt in X1. rewrite E in X1.
  destruct X1 as (I & P & _).
  assert (LE : ppm (upc (co s c)) <= 4) by (destruct (upc (co s c)); cbn; lia).
  destruct (panic_path_completes 4 s t c rest LE E I P) as (n & s' & N & S & F & A & B & C & D & G).
  exists n, s'. refine (conj N (conj S (conj F (conj A (conj B (conj C (conj D (conj G _)))))))).
  eapply steps_reach; eassumption.
Qed.

Theorem worker_survives w s t c :
  Reach w s -> stk s t = [FPan c] ->
  exists n s', n <= 5 /\ steps s (repeat (AStep t) n) = Some s' /\ Reach w s' /\ base_idle s' t = true /\
   forall q c' r, getq s' q = c' :: r ->
     exists s1, step s' (Grab t q) = Some s1 /\ In c' (hand s1 t) /\ stk s1 t = [] /\
       (gst (co s' c') <> GFin -> exists s2, step s1 (Resume t c') = Some s2 /\ stk s2 t = [FRun c'] /\ loc (co s2 c') = LRun t).
Proof.
  intros R E. destruct (rinv_reach _ _ R) as (_ & _ & _ & X2).
  assert (TI : tpc s t = Idle) by (apply X2; rewrite E; discriminate).
  destruct (panic_path_runs_to_the_end _ _ _ _ _ R E) as (n & s' & N & S & F & A & B & C & D & G & R').
  exists n, s'. split; [exact N|]. split; [exact S|]. split; [exact R'|].
  assert (TI' : tpc s' t = Idle) by (rewrite (f_tpc _ _ _ _ F); exact TI).
  assert (BI : base_idle s' t = true) by (unfold base_idle; rewrite A, TI'; reflexivity).
  split; [exact BI|]. intros q c' r Q.
  unfold step at 1. rewrite BI, Q. eexists. split; [reflexivity|].
  set (s1 := add_hand (setq (on_co s' c' (fun x : cor => c_loc x (LH t))) q r) t c').
  assert (H1 : hand s1 t = hand s' t ++ [c']) by (subst s1; destruct q; sst; rewrite upd_eq; reflexivity).
  assert (K1 : stk s1 t = []) by (subst s1; destruct q; sst; exact A).
  assert (T1 : tpc s1 t = Idle) by (subst s1; destruct q; sst; exact TI').
  assert (G1 : gst (co s1 c') = gst (co s' c')) by (subst s1; destruct q; sst; rewrite upd_eq; reflexivity).
  split; [rewrite H1; apply in_snoc; right; reflexivity|]. split; [exact K1|].
  intro NF. unfold step.
  assert (M : memb c' (hand s1 t) = true) by (apply memb_in; rewrite H1; apply in_snoc; right; reflexivity).
  rewrite M, G1, K1. unfold cur. rewrite K1. cbn [apc]. rewrite T1.
  destruct (gst (co s' c')) eqn:GG; [| |congruence].
  all: eexists; (split; [reflexivity|]); sst; rewrite !upd_eq; sco; split; reflexivity.
Qed.

(* the payload: from the moment the panic path has triggered the Join (state = false) the payload of the body's
   panic sits in the panic slot until join() takes it; join() can return nothing else *)
Theorem panic_payload_kept_for_join w s c v :
  Reach w s -> outcome (co s c) = Some (RPan v) -> jstate (co s c) = false ->
  pkt (co s c) = None /\ (jret (co s c) = None -> pan (co s c) = Some v) /\ (forall r, jret (co s c) = Some r -> r = RPan v).
Proof.
  intros R O J. destruct (rinv_reach _ _ R) as (_ & HC & _). specialize (HC c).
  destruct HC as (_ & _ & _ & JS & _ & _ & JR & _ & EN & _).
  rewrite J in JS. symmetry in JS. apply negb_false_iff in JS.
  destruct (post_trig_eph _ JS) as [EC|EP]; unfold endinv in EN; rewrite ?EC, ?EP in EN.
  - rewrite O in EN. tauto.
  - destruct EN as (_ & PK & EN). rewrite O in EN. split; [exact PK|]. split; [exact EN|].
    intros r JR'. rewrite JR' in JR. destruct JR as [JR _]. congruence.
Qed.

(* a coroutine whose body panicked never has a return value, and join never reports one *)
Theorem join_returns_exactly_the_outcome w s c r : Reach w s -> jret (co s c) = Some r -> outcome (co s c) = Some r.
Proof.
  intros R JR. destruct (rinv_reach _ _ R) as (_ & HC & _). specialize (HC c).
  destruct HC as (_ & _ & _ & _ & _ & _ & K & _). rewrite JR in K. tauto.
Qed.

(* join() on a panicked coroutine: from the point where it has seen state = false (JT1) its two remaining accesses
   (packet.take -> None, panic.take -> Some v) are enabled and it returns Err(payload) *)
Theorem join_of_panicked_returns_payload w s t a d v :
  Reach w s -> cur s t = Some a -> live_ag s a = true -> apc s a = InJ d -> jcall (co s d) = Some (a, JT1) ->
  outcome (co s d) = Some (RPan v) ->
  exists s1 s2, step s (AStep t) = Some s1 /\ step s1 (AStep t) = Some s2 /\ jret (co s2 d) = Some (RPan v) /\ pan (co s2 d) = None /\ apc s2 a = Idle.
Proof.
  intros R CU LV AP JC O. destruct (rinv_reach _ _ R) as (HP & HC & _).
  pose proof (HC d) as CD. destruct CD as (_ & _ & _ & _ & _ & _ & _ & _ & _ & CI). unfold callinv in CI. rewrite JC in CI.
  destruct CI as (_ & _ & JR & _ & JS).
  destruct (panic_payload_kept_for_join _ _ _ _ R O JS) as (PK & PN & _). specialize (PN JR).
  assert (CO : call_of s a d = Some JT1).
  { unfold call_of. rewrite JC. destruct a; cbn; rewrite Nat.eqb_refl; reflexivity. }
  set (s1 := set_call s a d JT2).
  assert (ST1 : stk s1 = stk s) by reflexivity.
  assert (AP1 : apc s1 a = InJ d).
  { subst s1. unfold set_call. destruct a as [t'|c']; cbn [apc]; sst; [exact AP|]. cbn [apc] in AP. upds; sco; exact AP. }
  assert (LV1 : live_ag s1 a = true).
  { subst s1. unfold set_call. destruct a as [t'|c']; cbn [live_ag]; sst; [reflexivity|]. cbn [live_ag] in LV. upds; sco; exact LV. }
  assert (CO1 : call_of s1 a d = Some JT2).
  { subst s1. unfold call_of, set_call. sst. rewrite upd_eq. sco. destruct a; cbn; rewrite Nat.eqb_refl; reflexivity. }
  assert (PN1 : pan (co s1 d) = Some v) by (subst s1; unfold set_call; sst; rewrite upd_eq; sco; exact PN).
  exists s1. eexists.
  destruct (cur_cases _ _ _ CU) as [[ST ->]|(c & rest & ST & ->)].
  - split; [unfold step; rewrite ST; unfold cur; rewrite ST, LV, AP, CO, PK; reflexivity|].
    split; [unfold step; rewrite ST1, ST; unfold cur; rewrite ST1, ST, LV1, AP1, CO1, PN1; reflexivity|].
    cbn [set_apc apc]; sst; rewrite ?upd_eq; sco; auto.
  - split; [unfold step; rewrite ST; unfold cur; rewrite ST, LV, AP, CO, PK; reflexivity|].
    split; [unfold step; rewrite ST1, ST; unfold cur; rewrite ST1, ST, LV1, AP1, CO1, PN1; reflexivity|].
    cbn [set_apc apc]; sst; rewrite ?upd_eq; sco; upds; sco; auto.
Qed.

(* conservation (C01.i) holds in every reachable state - in particular in every state during and after a panic:
   every spawned coroutine is in exactly one place, no duplicates *)
Theorem conservation_is_unaffected w s : Reach w s -> PInv s.
Proof. intro R. apply (rinv_reach _ _ R). Qed.

(* non-vacuity / replay: main (thread 0) spawns coroutine 1, the worker (thread 1) runs it, its body panics with
   payload 7, the panic path runs; then coroutine 2 is spawned, the SAME worker takes it, it returns 5 and is dropped
   through Done; join(1) = Err(7), join(2) = Ok(5); the worker's stack is empty, both coroutines are dead. *)
Definition demo_sched : list action :=
  [ASpawn 0 1 None false; AStep 0; AStep 0; AStep 0; Grab 1 (QG 0); Resume 1 1; APanic 1 (Some 7%Z);
   AStep 1; AStep 1; AStep 1; AStep 1;
   ASpawn 0 2 None false; AStep 0; AStep 0; AStep 0; Grab 1 (QG 0); Resume 1 2; AFinish 1 5%Z;
   AStep 1; AStep 1; AStep 1; AStep 1; KDrop 1; KSubscribed 1;
   AJoin 0 1 MJoin; AStep 0; AStep 0; AStep 0; AJoin 0 2 MJoin; AStep 0; AStep 0].
Example demo_run :
  exists s, steps (init 1) demo_sched = Some s /\ Reach 1 s /\
    jret (co s 1) = Some (RPan 7%Z) /\ jret (co s 2) = Some (RVal 5%Z) /\ stk s 1 = [] /\ dead s = [2; 1] /\
    bodycnt (co s 1) = 1 /\ bodycnt (co s 2) = 1 /\ pan (co s 1) = None /\ pkt (co s 2) = None.
Proof.
  destruct (steps (init 1) demo_sched) as [s|] eqn:E; [|vm_compute in E; discriminate].
  exists s. split; [reflexivity|]. split; [eapply steps_reach; [apply R0|exact E]|].
  vm_compute in E. inversion E; subst; clear E. cbn. repeat split.
Qed.
