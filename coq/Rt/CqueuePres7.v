(* Preservation of the inline-execution and panic-bookkeeping clauses of the CqueueModel invariant. *)
From Coq Require Import List Arith Bool ZArith Lia.
Import ListNotations.
Require Import MayV.Rt.CqueueModel MayV.Rt.CqueueInv MayV.Rt.CqueueTac.

Lemma pres_R_inl s ac s' : Inv s -> step current s ac = Some s' ->
  forall a, inl s' a = true -> opc s' = PRun /\ ocur s' = a /\ running (pc s' a) = true.
Proof.
  intros I H a0. pose proof (R_inl _ I) as Q. start I H.
  all: simp; pcs; try exact (Q a0); fin.
  all: try newarm; upds; simp; pcs; fin.
  all: intros X; try (destruct (Q _ X) as (Q1 & Q2 & Q3)); pcs; fin.
Qed.

Lemma pres_R_run s ac s' : Inv s -> step current s ac = Some s' ->
  opc s' = PRun ->
    earm s' (oev s') = ocur s' /\ epop s' (oev s') = 1 /\ bots s' (ocur s') = ernd s' (oev s') /\
    (inl s' (ocur s') = false -> botd s' (ocur s') = bots s' (ocur s') \/ byield s' (ocur s') = true).
Proof.
  intros I H. pose proof (R_run _ I) as Q. pose proof (A_ctr _ I) as QC. pose proof (A_susp _ I) as QS. pose proof (R_inl _ I) as QI.
  pose proof (E_new _ I) as QE. start I H.
  all: simp; pcs; try exact Q; fin.
  all: intros W; try (destruct (Q W) as (Q1 & Q2 & Q3 & Q4)); fin.
  all: try (assert (oev s < nexte s) by (destruct (le_lt_dec (nexte s) (oev s)) as [L|L]; [destruct (QE _ L); lia | exact L])).
  all: try (match goal with HN : pc ?s (earm ?s ?e) = ASusp, HC : acur ?s (earm ?s ?e) = ?e |- _ =>
              destruct (QS _ HN) as (S1 & S2 & S3 & S4); rewrite HC in S4; pose proof (QC (earm s e)) as S5; rewrite HN in S5; cbn [ctr] in S5 end).
  all: try (match goal with E : pc ?s ?a = _ |- _ => let Y := fresh "Y" in pose proof (QC a) as Y; rewrite E in Y; cbn [ctr] in Y end).
  all: upds; simp; repeat split; fin.
  all: try (intros X; try (destruct (Q4 X)); fin; intuition (fin); fail).
Qed.

Lemma pres_P_rer s ac s' : Inv s -> step current s ac = Some s' ->
  rer s' = (if ispan s' then 1 else 0) /\ (ispan s' = true <-> rerp s' <> None) /\
  (forall p, rerp s' = Some p -> exists a, ares s' a = RPanic p).
Proof.
  intros I H. pose proof (P_rer _ I) as Q. pose proof (O_c3 _ I) as Q3. pose proof (O_chk2 _ I) as Q2. pose proof (A_res _ I) as QR. start I H.
  all: simp; pcs; try exact Q; fin.
  all: destruct Q as (Q1 & Q4 & Q5).
  all: repeat match goal with E : ispan ?s = _ |- _ => rewrite E in * end.
  all: try (split; [exact Q1|]; split; [exact Q4|]); try exact Q5.
  all: try (destruct (Q3 eq_refl) as [X3 _]; destruct (Q2 eq_refl) as [_ X2]; rewrite X3 in *; split; [lia|]; split; [split; [discriminate | reflexivity]|];
            intros p0 E0; inversion E0; subst; exists (ocur s); congruence).
  all: intros p0 E0; destruct (Q5 _ E0) as [a1 A1]; exists a1; unfold upd; destruct (Nat.eqb_spec a1 a); [subst|exact A1].
  all: exfalso; match goal with E : pc ?s ?a = _ |- _ => destruct (QR a) as [X _]; rewrite E in X; specialize (X eq_refl); congruence end.
Qed.

Lemma pres_P_pan s ac s' : Inv s -> step current s ac = Some s' ->
  forall a p, dpop s' a = 1 -> ares s' a = RPanic p -> (cpcs (opc s') = true /\ ocur s' = a) \/ ispan s' = true.
Proof.
  intros I H a0 p0. pose proof (P_pan _ I a0 p0) as Q. pose proof (O_chk2 _ I) as Q2. pose proof (A_dp _ I) as QD. pose proof (A_res _ I) as QR. start I H.
  all: simp; pcs; try exact Q; fin.
  all: upds; simp; pcs; fin.
  all: intros D R; try (specialize (Q D R)); fin.
  all: try (match goal with E : pc ?s ?a = _ |- _ => destruct (QD a) as [X1 X2]; rewrite E in X1; cbn [dset] in X1; lia end).
  all: try (destruct Q as [[Q1 Q3]|Q]; fin; auto; subst; try (destruct (Q2 eq_refl) as [_ X2]); fin; auto; fail).
Qed.
