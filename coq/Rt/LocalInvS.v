(* Structural invariant of LocalModel: generators, their occupants and local-data pointers, the pool,
   which coroutine runs on which thread, which CoroutineLocal boxes exist. *)
From Coq Require Import List Arith Bool ZArith Lia.
Import ListNotations.
Require Import MayV.Rt.LocalModel MayV.Rt.LocalTac.

Record SInv (s : st) : Prop := {
  S1 : forall g c, goccm s g = Some c -> genm s c = g /\ occ (pcm s c) = true;
  S2 : forall c, occ (pcm s c) = true -> goccm s (genm s c) = Some c /\ gldm s (genm s c) = Some c;
  S3 : forall g, In g (pool s) -> goccm s g = None /\ gusedm s g = true;
  S4 : NoDup (pool s);
  S5 : forall g c, goccm s g = Some c -> gusedm s g = true;
  S6 : forall t c, trunm s t = Some c -> oncpu (pcm s c) = true /\ thrm s c = t;
  S7 : forall c, oncpu (pcm s c) = true -> trunm s (thrm s c) = Some c;
  S8 : forall c, alivem s c = live (pcm s c) }.

Lemma sinv_init cf : SInv (init cf).
Proof.
  constructor; cbn; intros; try discriminate; auto.
  - split; auto. apply in_seq in H. apply Nat.ltb_lt. lia.
  - apply seq_NoDup.
Qed.

(* instantiate the clauses of the invariant at a coroutine / generator / thread *)
Ltac sfacts I x :=
  let a := fresh "F" in let b := fresh "F" in let c := fresh "F" in let d := fresh "F" in
  pose proof (S2 _ I x) as a; pose proof (S7 _ I x) as b; pose proof (S8 _ I x) as c;
  pose proof (fun g => S1 _ I g x) as d.


Ltac noeqb a := lazymatch a with context [Nat.eqb _ _] => fail | _ => idtac end.
Ltac eqbs :=
  unfold upd in *;
  repeat (match goal with
  | |- context [Nat.eqb ?a ?b] => noeqb a; noeqb b; destruct (Nat.eqb_spec a b)
  | H : context [Nat.eqb ?a ?b] |- _ => noeqb a; noeqb b; destruct (Nat.eqb_spec a b)
  end; try subst; cbv iota in * ).

Ltac pcfacts I :=
  repeat match goal with
  | E : pcm ?s ?c = ?P |- _ =>
      lazymatch goal with _ : live (pcm s c) = live P |- _ => fail | _ => idtac end;
      let a := fresh "F" in let b := fresh "F" in let d := fresh "F" in
      pose proof (S2 _ I c) as a; pose proof (S7 _ I c) as b; pose proof (S8 _ I c) as d;
      assert (live (pcm s c) = live P) by (rewrite E; reflexivity);
      rewrite E in a, b, d; cbn [occ oncpu live] in a, b, d;
      try specialize (a eq_refl); try specialize (b eq_refl)
  end.

Ltac use I :=
  first [ eapply (S1 _ I) | eapply (S2 _ I) | eapply (S3 _ I) | eapply (S5 _ I) | eapply (S6 _ I) | eapply (S7 _ I) | eapply (S8 _ I) ].

Ltac fin I := solve [ auto | congruence | discriminate | intuition congruence | use I; eauto; congruence
                    | split; use I; eauto; congruence ].

Definition seen (P : Prop) : Prop := True.
Ltac unseen P := lazymatch goal with _ : seen P |- _ => fail | _ => assert (seen P) by exact Logic.I end.
Ltac fwd I :=
  repeat match goal with
  | H : goccm ?s ?g = Some ?c |- _ => unseen (goccm s g = Some c); pose proof (S1 _ I g c H); pose proof (S5 _ I g c H)
  | H : trunm ?s ?t = Some ?c |- _ => unseen (trunm s t = Some c); pose proof (S6 _ I t c H)
  | H : occ (pcm ?s ?c) = true |- _ => unseen (occ (pcm s c) = true); pose proof (S2 _ I c H)
  | H : oncpu (pcm ?s ?c) = true |- _ => unseen (oncpu (pcm s c) = true); pose proof (S7 _ I c H)
  | H : In ?g (pool ?s) |- _ => unseen (In g (pool s)); pose proof (S3 _ I g H)
  | H : _ /\ _ |- _ => destruct H
  end.
Ltac rwpc :=
  repeat match goal with
  | E : pcm ?s ?c = _, H : context [pcm ?s ?c] |- _ =>
      lazymatch type of H with pcm s c = _ => fail | _ => rewrite E in H end
  | E : pcm ?s ?c = _ |- context [pcm ?s ?c] => rewrite E
  end; cbn [occ oncpu live] in *.

Lemma NoDup_snoc (l : list nat) x : NoDup l -> ~ In x l -> NoDup (l ++ [x]).
Proof.
  induction l as [|y l IH]; cbn; intros Hn Hx.
  - constructor; auto.
  - inversion Hn; subst. constructor.
    + rewrite in_app_iff. cbn. intuition.
    + apply IH; auto.
Qed.

Ltac poolfacts I :=
  match goal with
  | E0 : pool ?s = ?x :: ?l |- _ =>
      let A := fresh "Q" in let B := fresh "Q" in let C := fresh "Q" in
      pose proof (S4 _ I) as A; rewrite E0 in A; apply NoDup_cons_iff in A; destruct A as [A B];
      assert (C : forall g, In g l -> In g (pool s)) by (intros; rewrite E0; now right);
      assert (In x (pool s)) by (rewrite E0; now left)
  | E0 : pool ?s = [] |- _ => idtac
  | _ => idtac
  end.

Lemma sinv_cancel_wake s c : SInv s -> SInv (cancel_wake c s).
Proof.
  intro I. unfold cancel_wake. destruct (pcm s c) eqn:E; auto.
  destruct (cancel_para k); [|destruct (cancel_plain k); auto].
  all: pcfacts I; constructor; sst.
  all: try exact (S1 _ I); try exact (S2 _ I); try exact (S3 _ I); try exact (S4 _ I); try exact (S5 _ I);
       try exact (S6 _ I); try exact (S7 _ I); try exact (S8 _ I).
  all: intros; eqbs; cbn [occ oncpu live] in *; try discriminate.
  all: try solve [ auto | congruence | use I; eauto; congruence | split; use I; eauto; congruence ].
  all: fwd I; rwpc; try discriminate; try solve [ auto | congruence | split; congruence | use I; eauto; congruence | split; use I; eauto; congruence ].
Qed.

Lemma sinv_step cf s a s' : SInv s -> step cf s a = Some s' -> SInv s'.
Proof.
  intros I H. destruct a; cbn [step] in H.
  3,4: (apply access_inv in H; destruct H as [(c0 & d & Ht & Hp & Hg & Ha & ->) | (Ht & ->)];
            constructor; sst; apply I).
  7: { destruct (pcm s c) eqn:E; try discriminate; inv_some H; apply sinv_cancel_wake; constructor; sst; apply I. }
  7: { destruct (pcm s c) eqn:E; try discriminate. destruct (canceled s c); try discriminate. inv_some H. now apply sinv_cancel_wake. }
  all: step_split H; try inv_some H.
  all: pcfacts I.
  all: constructor; sst.
  all: try exact (S1 _ I); try exact (S2 _ I); try exact (S3 _ I); try exact (S4 _ I); try exact (S5 _ I);
       try exact (S6 _ I); try exact (S7 _ I); try exact (S8 _ I).
  all: intros.
  all: eqbs; cbn [occ oncpu live] in *; try discriminate.
  all: try solve [ auto | congruence | use I; eauto; congruence | split; use I; eauto; congruence ].
  all: fwd I; rwpc; try discriminate; try solve [ auto | congruence | split; congruence | use I; eauto; congruence | split; use I; eauto; congruence ].
  - destruct H0.
  - constructor.
  - poolfacts I. fwd I. congruence.
  - poolfacts I. contradiction.
  - poolfacts I. apply (S3 _ I). auto.
  - poolfacts I. assumption.
  - destruct keep.
    + apply in_app_or in H0. destruct H0 as [H0|[H0|[]]]; [now apply (S3 _ I) | congruence].
    + now apply (S3 _ I).
  - destruct keep; [|apply I]. apply NoDup_snoc; [apply I|]. intro Hin. apply (S3 _ I) in Hin. destruct Hin. congruence.
Qed.

Theorem sinv_reach cf s : Reach cf s -> SInv s.
Proof. induction 1; [apply sinv_init | eapply sinv_step; eauto]. Qed.

(* two coroutines that hold a generator hold different ones *)
Lemma occ_gen_inj s c d : SInv s -> occ (pcm s c) = true -> occ (pcm s d) = true -> genm s c = genm s d -> c = d.
Proof.
  intros I Hc Hd E. apply (S2 _ I) in Hc. apply (S2 _ I) in Hd. destruct Hc as [Hc _], Hd as [Hd _]. congruence.
Qed.
