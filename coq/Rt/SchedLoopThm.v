(* SchedLoopModel: theorems for the progress half of C01.
   (a) no lost wake-up; what a sleeping worker can have in its queues; deadlines; quiescence
   (b) bounds in iterations of the worker's loop; the loop itself never blocks *)
From Coq Require Import List Arith ZArith NArith Bool Lia.
Import ListNotations.
Require Import MayV.Rt.SchedModel MayV.Rt.SchedInv MayV.Rt.SchedTac MayV.Rt.SchedThm MayV.Rt.SchedLoopModel MayV.Rt.SchedLoopBase
  MayV.Rt.SchedLoopInv MayV.Rt.SchedLoopStruct MayV.Rt.SchedLoopQueues MayV.Rt.SchedLoopSleep.

Lemma jinv_reach P n l : push_first P = true -> LReach P n l -> JInv P l.
Proof. intro PF. induction 1; [intros w X; cbn in X; congruence | eapply jinv_step; eauto]. Qed.

(* ------------------------------------------------------------------ (a) safety *)
(* the general form: whenever a coroutine sits in the global queue of worker w, the eventfd of w is pending, or a pusher
   is between its push and its eventfd write, or w is at a control point from which it runs collect_global (to the
   empty bulk_pop) before it calls epoll_wait again *)
Theorem global_queue_wake_coming P n l w : push_first P = true -> LReach P n l -> gq (base l) w <> [] -> wake_coming P l w.
Proof. intros PF R. apply (jinv_reach _ _ _ PF R). Qed.

Definition pusher_in_flight (l : lst) (w : nat) : Prop := 0 < owed l w \/ 0 < anon l w.

Theorem no_lost_wakeup P n l w : push_first P = true -> LReach P n l ->
  wpc l w = PSleep -> gq (base l) w <> [] -> evfd l w = true \/ pusher_in_flight l w.
Proof.
  intros PF R S NE. destruct (global_queue_wake_coming P n l w PF R NE) as [A|[A|[A|A]]]; unfold pusher_in_flight; auto.
  rewrite S in A. discriminate A.
Qed.

(* the same holds while the worker is on its way into epoll_wait: after the last (empty) bulk_pop of run_queued_tasks *)
Theorem no_lost_wakeup_before_sleep P n l w : push_first P = true -> LReach P n l ->
  wpc l w = PWait \/ wpc l w = PTim \/ wpc l w = PHas \/ (exists i, wpc l w = PSteal i) ->
  gq (base l) w <> [] -> evfd l w = true \/ pusher_in_flight l w.
Proof.
  intros PF R S NE. destruct (global_queue_wake_coming P n l w PF R NE) as [A|[A|[A|A]]]; unfold pusher_in_flight; auto.
  destruct S as [S|[S|[S|[i S]]]]; rewrite S in A; discriminate A.
Qed.

(* only the FIRST epoll_wait of a worker has no timeout, and then its local queue is empty and it holds nothing *)
Theorem sleep_without_timeout_has_nothing_local P n l w : LReach P n l -> w < n ->
  wpc l w = PSleep -> dl l w = None -> tmo l w = None /\ lq (base l) w = [] /\ hand (base l) w = [].
Proof.
  intros R L S D. destruct (dlinv_reach _ _ _ R w S) as (E & _). rewrite D in E.
  destruct (tmo l w) eqn:T; [discriminate E|]. split; [reflexivity|]. split.
  - apply (fsinv_reach _ _ _ R w T). now right.
  - pose proof (t_hand _ _ (tinv_reach _ _ _ R) w L) as H. rewrite S in H. exact H.
Qed.

(* a sleeping worker whose local queue is not empty has a deadline: when it fell asleep + its timeout rounded up to ms *)
Theorem sleeping_over_local_queue_has_deadline P n l w : LReach P n l ->
  wpc l w = PSleep -> lq (base l) w <> [] ->
  exists t, tmo l w = Some t /\ dl l w = Some (slept l w + rnd t)%N /\ (slept l w <= now l)%N.
Proof.
  intros R S NE. destruct (dlinv_reach _ _ _ R w S) as (E & LE).
  destruct (tmo l w) as [t|] eqn:T.
  - exists t. auto.
  - exfalso. apply NE. apply (fsinv_reach _ _ _ R w T). now right.
Qed.

Theorem deadline_is_sleep_time_plus_timeout P n l w d : LReach P n l -> wpc l w = PSleep -> dl l w = Some d ->
  exists t, tmo l w = Some t /\ d = (slept l w + rnd t)%N /\ (slept l w <= now l)%N /\ (t <= rnd t)%N.
Proof.
  intros R S D. destruct (dlinv_reach _ _ _ R w S) as (E & LE). rewrite D in E.
  destruct (tmo l w) as [t|]; [|discriminate E]. inversion E. exists t. repeat split; auto.
  unfold rnd. assert (NZ : (1000000 <> 0)%N) by discriminate.
  pose proof (N.div_mod (t + 999999) 1000000 NZ). pose proof (N.mod_lt (t + 999999) 1000000 NZ). lia.
Qed.

(* at its deadline the worker is woken (the epoll_wait returns 0); with a pending eventfd at once *)
Theorem deadline_wakes P n l w d : LReach P n l -> w < n -> wpc l w = PSleep -> dl l w = Some d -> (d <= now l)%N ->
  evfd l w = false -> exists l', lstep P l (LTimeout w) = Some l' /\ wpc l' w = PEvs false /\ base l' = base l.
Proof.
  intros R L S D LE EV. pose proof (lreach_nw _ _ _ R) as NW. eexists. unfold lstep. cbn [guard proj].
  rewrite S, D, EV, NW. apply Nat.ltb_lt in L. rewrite L. apply N.leb_le in LE. rewrite LE. cbn.
  split; [reflexivity|]. unfold set_pc. lsimp. now rewrite upd_eq.
Qed.

Theorem pending_eventfd_wakes P n l w : LReach P n l -> w < n -> wpc l w = PSleep -> evfd l w = true ->
  exists l', lstep P l (LWake w false) = Some l' /\ wpc l' w = PEvs true /\ base l' = base l.
Proof.
  intros R L S EV. pose proof (lreach_nw _ _ _ R) as NW. eexists. unfold lstep. cbn [guard proj].
  rewrite S, EV, NW. apply Nat.ltb_lt in L. rewrite L. cbn.
  split; [reflexivity|]. unfold set_pc. lsimp. rewrite upd_eq, EV. auto.
Qed.

Theorem time_passes P l d : exists l', lstep P l (LTick d) = Some l' /\ now l' = (now l + d)%N /\ base l' = base l.
Proof. eexists. unfold lstep. cbn. auto. Qed.

(* quiescence: every worker sleeps, no eventfd is pending, no pusher is between push and eventfd write *)
Definition LQuiescent (n : nat) (l : lst) : Prop :=
  forall w, w < n -> wpc l w = PSleep /\ evfd l w = false /\ owed l w = 0 /\ anon l w = 0.

Theorem quiescent_global_queues_empty P n l : push_first P = true -> LReach P n l -> LQuiescent n l ->
  forall w, w < n -> gq (base l) w = [].
Proof.
  intros PF R Q w L. destruct (Q w L) as (S & EV & O & A). destruct (gq (base l) w) eqn:E; [reflexivity|]. exfalso.
  destruct (no_lost_wakeup P n l w PF R S) as [X|[X|X]]; [rewrite E; discriminate | congruence | lia | lia].
Qed.

Theorem quiescent_local_queue_has_deadline P n l : LReach P n l -> LQuiescent n l ->
  forall w, w < n -> lq (base l) w <> [] -> exists d, dl l w = Some d.
Proof.
  intros R Q w L NE. destruct (Q w L) as (S & _).
  destruct (sleeping_over_local_queue_has_deadline P n l w R S NE) as (t & _ & D & _). eauto.
Qed.

(* nobody will wake up by itself: then no coroutine is in any run queue of a worker *)
Theorem dead_quiescent_all_queues_empty P n l : push_first P = true -> LReach P n l -> LQuiescent n l ->
  (forall w, w < n -> dl l w = None) -> forall w, w < n -> gq (base l) w = [] /\ lq (base l) w = [] /\ hand (base l) w = [].
Proof.
  intros PF R Q D w L. split; [eapply quiescent_global_queues_empty; eauto|].
  destruct (Q w L) as (S & _). apply (sleep_without_timeout_has_nothing_local P n l w R L S (D w L)).
Qed.
