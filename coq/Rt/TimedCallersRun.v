(* C08 (callers) - the differential interface over BOTH models: [tc_run] of TimedCallers.v (DL), except that
   sleep in coroutine context (api 3, ctx 0) is answered by the chain model CH (TimedChain.v, kind CSleep) under the
   virtual-clock schedule: call, the kernel half adds the timer at the same instant, time passes until the entry is
   due, the timer thread fires it, the coroutine returns. *)
From Coq Require Import ZArith List Bool.
Import ListNotations.
Require Import MayV.Rt.AtomicDur MayV.Rt.TimedCallers MayV.Rt.TimedChain.
Open Scope Z_scope.

Definition ch_sleep (t0 d : Z) : option (verdict * Z) :=
  match crun CSleep (cset_now t0 cinit) [CCall d; KStep] with
  | Some s =>
      match ent s with
      | Some e =>
          match crun CSleep s [CTick (e - cnow s); Fire; CStep] with
          | Some s' => cres s'
          | None => None
          end
      | None => None
      end
  | None => None
  end.

Definition tc_run_all (l : list Z) : list Z :=
  match l with
  | 3 :: 0 :: t0 :: d :: ob :: obt :: _ =>
      match ch_sleep t0 d with
      | Some (VTimeout, t) => if (ob =? 1) && (t <=? obt) && (obt <=? t + spin_tol) then [ob; obt] else [1; t]
      | Some (VOk, t) => [0; t]
      | None => [-1]
      end
  | _ => tc_run l
  end.

Example tc_run_all_sleep : tc_run_all [3; 0; 3000000; 1900000; 1; 4900000] = [1; 4900000] /\
                           tc_run_all [3; 0; 5; 0; 1; 5] = [1; 5] /\
                           tc_run_all [3; 0; 5; 1; 1; 5] = [1; 6].
Proof. vm_compute. repeat split. Qed.
