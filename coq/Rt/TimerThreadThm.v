(* C08.iii - theorems about the timer-thread model (for every reachable state, any number of adders and
   removers, any schedule), the refutation of the store/schedule-swapped mutant, and non-vacuity witnesses. *)
From Coq Require Import List Arith NArith Bool Lia Sorting.Sorted.
Import ListNotations.
Require Import MayV.Rt.TimerThread MayV.Rt.TimerThreadInv MayV.Rt.TimerThreadTac MayV.Rt.TimerThreadPresB
  MayV.Rt.TimerThreadPresH MayV.Rt.TimerThreadPresC MayV.Rt.TimerThreadPresW.
Local Open Scope N_scope.

(* an unpark for the timer thread is in flight on behalf of list L: somebody holds the handle and is about to
   unpark, or the handle is still in the slot and the adder that pushed the head of L is about to take it *)
Definition unpark_in_flight (s : st) (L : N) : Prop :=
  (exists a, apc (A s a) = A8) \/ (exists r, rpc (R s r) = R4) \/ (slot s = true /\ exists a, covering s L a).

(* the wake time of the parked timer thread is not later than the (effective) deadline of e, up to the time that
   passed between the timer thread's clock reading and its park (tlag) *)
Definition wakes_by (s : st) (e : entry) : Prop :=
  match twake s with Some T => T <= eeff e + tlag s | None => False end.

(* (a) never sleeps past the earliest deadline *)
Theorem never_sleeps_past_deadline s : ReachF s -> tpc s = W -> tok s = false ->
  forall L e, In e (lst s L) -> wakes_by s e \/ unpark_in_flight s L.
Proof.
  intros HR EP ET L e I. destruct (inv_reach _ HR) as [HB HH HC HW].
  assert (PK0 : parkish (tpc s) = true) by now rewrite EP.
  assert (HF : holder s -> unpark_in_flight s L).
  { intros [Ha|[Hr|Ht]]; [left; auto | right; left; auto | congruence]. }
  destruct (W_aim _ HW PK0) as [T|[T|Q]]; [congruence | right; auto |].
  destruct (Q L e I) as [Le|C].
  - left. unfold wakes_by. rewrite (W_wake _ HW EP). unfold aim_le in Le. destruct (aim s); [lia | exact Le].
  - right. assert (AS : after_store (tpc s) = true) by now rewrite EP.
    destruct (W_handle _ HW AS) as [S|[T|T]]; [right; right; auto | congruence | auto].
Qed.

(* the effective deadline is the stored one plus the skew between the adder's clock reading and its head swap *)
Theorem effective_deadline_bounds s : ReachF s -> forall L e, In e (lst s L) -> edl e <= eeff e /\ eeff e <= now s + L.
Proof. intros HR. apply (B_eff _ (IB _ (inv_reach _ HR))). Qed.

(* the wake time is the aimed heap minimum plus the lag between the clock reading and the park *)
Theorem wake_time_is_aim_plus_lag s : ReachF s -> tpc s = W ->
  twake s = match aim s with Some t => Some (t + tlag s) | None => None end.
Proof. intros HR. apply (W_wake _ (IW _ (inv_reach _ HR))). Qed.

Definition quiescent (s : st) : Prop := adders_idle s /\ removers_idle s /\ tpc s = W /\ tok s = false.

(* (a), quiescence form: all pending deadlines are >= the wake time; parked forever => nothing is pending *)
Theorem quiescent_timer_wakes_in_time s : ReachF s -> quiescent s -> forall L e, In e (lst s L) -> wakes_by s e.
Proof.
  intros HR (QA & QR & EP & ET) L e I.
  destruct (never_sleeps_past_deadline s HR EP ET L e I) as [Wk|[(a & E)|[(r & E)|(_ & a & _ & C)]]]; auto.
  - rewrite QA in E. discriminate.
  - rewrite QR in E. discriminate.
  - rewrite QA in C. destruct C as [(C & _)|([C|[C|[C|C]]] & _)]; discriminate.
Qed.

Corollary parked_forever_nothing_pending s : ReachF s -> quiescent s -> twake s = None -> forall L, lst s L = [].
Proof.
  intros HR Q EW L. destruct (lst s L) as [|e l] eqn:EL; auto.
  assert (I : In e (lst s L)) by (rewrite EL; now left).
  pose proof (quiescent_timer_wakes_in_time s HR Q L e I) as Wk. unfold wakes_by in Wk. rewrite EW in Wk. contradiction.
Qed.

(* (b) never early: the handler ran for an entry only when the clock had reached its stored deadline *)
Theorem handler_never_early s : ReachF s -> forall i d t, In (i, d, t) (fired s) -> d <= t.
Proof. intros HR i d t I. apply (B_fired _ (IB _ (inv_reach _ HR)) _ I). Qed.

(* the step form: the handler transition is only enabled past the deadline of the entry it runs for *)
Theorem handler_step_is_due s c s' : ReachF s -> tpc s = PF -> stepF s (TStep c) = Some s' -> edl (tcur s) <= now s.
Proof.
  intros HR EP _. destruct (inv_reach _ HR) as [HB _ _ _].
  pose proof (B_tnow _ HB). destruct (B_tcur _ HB EP) as (_ & _ & _ & _ & LE). lia.
Qed.

(* (c) every entry fires at most once; a removed entry never fires *)
Theorem fires_at_most_once s : ReachF s -> NoDup (map fid (fired s)).
Proof. intros HR. apply (B_fired_nodup _ (IB _ (inv_reach _ HR))). Qed.

Theorem removed_never_fires s : ReachF s -> forall i, In i (removed s) -> ~ In i (map fid (fired s)) /\ ~ in_lists s i.
Proof. intros HR i I. destruct (B_removed _ (IB _ (inv_reach _ HR)) i I) as (_ & NL & NF). auto. Qed.

Theorem fired_is_gone s : ReachF s -> forall x, In x (fired s) -> ~ in_lists s (fid x).
Proof. intros HR x I. apply (B_fired _ (IB _ (inv_reach _ HR)) _ I). Qed.

(* (d) no lost remove request *)
Theorem no_lost_remove_request s : ReachF s -> quiescent s -> rq s = [].
Proof.
  intros HR (QA & QR & EP & ET). destruct (inv_reach _ HR) as [_ _ _ HW].
  assert (AT : after_te (tpc s) = true) by now rewrite EP.
  destruct (W_rq _ HW AT) as [T|[[(a & E)|[(r & E)|E]]|Q]]; try congruence;
    try (rewrite QA in E; discriminate); try (rewrite QR in E; discriminate).
  destruct (rq s) as [|y q]; auto. destruct (Q y (or_introl eq_refl)) as [E|E]; rewrite QR in E; discriminate.
Qed.

(* the in_use protocol: a non-empty interval list is in the heap, in the hands of the running schedule_timer, or
   about to be installed by the adder that pushed its head - and it is in the heap / claimed at most once *)
Theorem list_looked_after s : ReachF s -> forall L, lst s L <> [] ->
  inheap s L \/ thold s L \/ exists a, covering6 s L a.
Proof. intros HR. apply (IC _ (inv_reach _ HR)). Qed.

Theorem list_installed_at_most_once s : ReachF s ->
  NoDup (map snd (heap s)) /\
  forall L, (inheap s L -> (forall a, ~ claimA s L a) /\ ~ claimT s L /\ ~ limbo s L) /\
            (forall a b, claimA s L a -> claimA s L b -> a = b) /\
            (forall a, claimA s L a -> ~ claimT s L /\ ~ limbo s L).
Proof.
  intros HR. destruct (inv_reach _ HR) as [_ HH _ _]. split; [apply (H_nodup _ HH)|].
  intros L. split; [apply (H_heap_x _ HH) | split; [apply (H_claim_1 _ HH) | apply (H_claim_x _ HH)]].
Qed.

(* a heap entry never promises a later time than any entry of its list is due *)
Theorem heap_time_is_early_enough s : ReachF s -> forall t L, In (t, L) (heap s) -> forall e, In e (lst s L) -> t <= eeff e.
Proof. intros HR. apply (H_heapt _ (IH _ (inv_reach _ HR))). Qed.

(* in terms of the STORED deadline: only without skew (the entry was swapped in at the clock value its adder had
   read) and without lag (the timer thread parked at the clock value it had read) *)
Theorem never_sleeps_past_stored_deadline_partial s : ReachF s -> tpc s = W -> tok s = false ->
  forall L e, In e (lst s L) -> eeff e = edl e -> tlag s = 0 ->
  match twake s with Some T => T <= edl e | None => False end \/ unpark_in_flight s L.
Proof.
  intros HR EP ET L e I E0 E1. destruct (never_sleeps_past_deadline s HR EP ET L e I) as [Wk|F]; auto.
  left. unfold wakes_by in Wk. destruct (twake s); auto. lia.
Qed.

(* ... and with skew the stored deadline can be passed: adder 0 reads the clock (0), is delayed; adder 1 reads the
   clock 5 ticks later and completes its push first; adder 0's entry (deadline 5) ends up BEHIND adder 1's entry
   (deadline 10) in the interval list, whose recorded heap time is 10: the timer thread sleeps until 10.
   The lateness is the delay of adder 0 itself between `now()` and its head swap (DESIGN C08.v). *)
Definition skew_witness : list action :=
  [Add 0 5 1; Tick 5; Add 1 5 2;
   AStep 1; AStep 1; AStep 1; AStep 1; AStep 1; AStep 1;     (* adder 1: swap, tail.read (head), link, fetch_add, heap push, take = None *)
   AStep 0; AStep 0; AStep 0;                                (* adder 0: swap, tail.read (not head), link *)
   TStep 0; TStep 0; TStep 0; TStep 0; TStep 0; TStep 0; TStep 0].   (* timer: drain, store, is_empty, now() = 5, peek: 10 > 5, park_timeout(5) *)
Theorem never_sleeps_past_stored_deadline_refuted :
  exists s, ReachF s /\ quiescent s /\ twake s = Some 10 /\ exists e, In e (lst s 5) /\ edl e = 5 /\ eeff e = 10.
Proof.
  destruct (run false init skew_witness) as [s|] eqn:E; [|vm_compute in E; discriminate].
  exists s. split; [eapply run_reach; [apply R0 | exact E]|].
  vm_compute in E. injection E as <-. cbn. repeat split.
  - intros [|[|a]]; reflexivity.
  - eexists. split; [right; left; reflexivity|]. split; reflexivity.
Qed.

(* ---- the mutant: the sleep time is computed BEFORE the handle is stored --------------------------------- *)
Definition mutant_witness : list action :=
  [Add 0 0 1; AStep 0; AStep 0; AStep 0; AStep 0;          (* adder 0: swap, tail.read, link, fetch_add = 0 *)
   TStep 0; TStep 0; TStep 0; TStep 0;                       (* timer: drain (empty), now(), schedule: heap empty -> park forever *)
   AStep 0; AStep 0;                                         (* adder 0: heap push, wakeup.take() = None: no unpark *)
   TStep 0; TStep 0; TStep 0].                               (* timer: wakeup.store, is_empty, park() *)

Theorem never_sleeps_past_deadline_mutant_refuted :
  exists s, Reach true s /\ quiescent s /\ twake s = None /\ exists L e, In e (lst s L) /\ forall a, ~ covering s L a.
Proof.
  destruct (run true init mutant_witness) as [s|] eqn:E; [|vm_compute in E; discriminate].
  exists s. split; [eapply run_reach; [apply R0 | exact E]|].
  vm_compute in E. injection E as <-. cbn.
  repeat split.
  - intros [|a]; reflexivity.
  - exists 0, {| eid := 1; edl := 0; eeff := 0; elk := true |}. split; [now left|].
    intros a (_ & [(C & _)|([C|[C|[C|C]]] & _)]); destruct a; discriminate.
Qed.

(* the same schedule prefix on the code as it is: the adder finds the handle and unparks *)
Example witness_on_the_code_unparks :
  exists s, run false init [Add 0 0 1; AStep 0; AStep 0; AStep 0; AStep 0; TStep 0; TStep 0; TStep 0; TStep 0; TStep 0; TStep 0;
                            AStep 0; AStep 0; AStep 0; TStep 0] = Some s /\ tpc s = D1 /\ handles s = [(0, 1%nat)].
Proof. eexists. split; [vm_compute; reflexivity|]. split; reflexivity. Qed.

(* ---- non-vacuity ---------------------------------------------------------------------------------------------- *)
Definition nv_schedule : list action :=
  [Add 0 5 1; AStep 0; AStep 0; AStep 0; AStep 0; AStep 0;  (* adder 0 adds (5 ns): list 5 = [1], heap = [(5,5)] *)
   TStep 0; TStep 0; TStep 0; TStep 0; TStep 0; TStep 0;     (* timer: drain, store, is_empty, now, schedule -> park_timeout(5) *)
   AStep 0; AStep 0;                                         (* adder 0 takes the handle and unparks: the timer is woken *)
   TStep 0; TStep 0; TStep 0; TStep 0; TStep 0; TStep 0; TStep 0; TStep 0].  (* and parks again until 5 *)

Example nv_parked_with_pending_deadline :
  exists s, ReachF s /\ quiescent s /\ twake s = Some 5 /\ exists e, In e (lst s 5) /\ eeff e = 5 /\ handles s = [(5, 1%nat)].
Proof.
  destruct (run false init nv_schedule) as [s|] eqn:E; [|vm_compute in E; discriminate].
  exists s. split; [eapply run_reach; [apply R0 | exact E]|].
  vm_compute in E. injection E as <-. cbn. repeat split.
  - intros [|a]; reflexivity.
  - eexists. split; [now left|]. split; reflexivity.
Qed.

Definition nv_schedule2 : list action :=
  nv_schedule ++
  [Add 1 5 2; AStep 1; AStep 1; AStep 1;                     (* a second entry in the same list (not the head) *)
   Del 0 5 1; RStep 0; RStep 0; RStep 0; RStep 0;            (* remover 0 asks for entry 1 to be removed, takes the handle, unparks *)
   TStep 0; TStep 0; TStep 0; TStep 0;                       (* timer: woken, pops the request, Entry::remove unlinks entry 1 *)
   Tick 5;
   TStep 0; TStep 0; TStep 0; TStep 0; TStep 0; TStep 5;     (* drain done, store, is_empty, now() = 5, heap pop of list 5 *)
   TStep 0; TStep 0; TStep 0; TStep 0; TStep 0].             (* in_use.store(0); pop_if: entry 2 is due; the handler runs *)

Example nv_removed_and_fired :
  exists s, ReachF s /\ removed s = [1%nat] /\ fired s = [(2%nat, 5, 5)].
Proof.
  destruct (run false init nv_schedule2) as [s|] eqn:E; [|vm_compute in E; discriminate].
  exists s. split; [eapply run_reach; [apply R0 | exact E]|].
  vm_compute in E. injection E as <-. cbn. split; reflexivity.
Qed.
