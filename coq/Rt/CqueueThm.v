(* Theorems about CqueueModel (current code), for every reachable state: any number of arms and events, any owner
   program, any schedule. *)
From Coq Require Import List Arith Bool ZArith Lia.
Import ListNotations.
Require Import MayV.Rt.CqueueModel MayV.Rt.CqueueInv MayV.Rt.CqueueTac.
Require Import MayV.Rt.CqueuePres1 MayV.Rt.CqueuePres2 MayV.Rt.CqueuePres3 MayV.Rt.CqueuePres4 MayV.Rt.CqueuePres5
               MayV.Rt.CqueuePres6 MayV.Rt.CqueuePres7.

Lemma inv_init : Inv init.
Proof.
  constructor; cbn; intros; try discriminate; try tauto; try lia; auto.
  all: try (split; intros; try discriminate; try lia; auto).
  all: try (repeat split; intros; try discriminate; try lia; auto; fail).
  constructor.
Qed.

Lemma inv_step s ac s' : Inv s -> step current s ac = Some s' -> Inv s'.
Proof.
  intros I H. constructor.
  - eapply pres_A_ex; eauto.
  - eapply pres_E_ex; eauto.
  - eapply pres_B_fr; eauto.
  - eapply pres_A_new; eauto.
  - eapply pres_E_new; eauto.
  - eapply pres_I_tot; eauto.
  - eapply pres_A_ctr; eauto.
  - eapply pres_A_dp; eauto.
  - eapply pres_A_jst; eauto.
  - eapply pres_A_res; eauto.
  - eapply pres_A_k0; eauto.
  - eapply pres_A_susp; eauto.
  - eapply pres_A_aw; eauto.
  - eapply pres_E_cnt; eauto.
  - eapply pres_E_arm; eauto.
  - eapply pres_E_pop0; eauto.
  - eapply pres_E_pop1; eauto.
  - eapply pres_E_kw; eauto.
  - eapply pres_K_cnt; eauto.
  - eapply pres_Q_norm; eauto.
  - eapply pres_Q_done; eauto.
  - eapply pres_Q_nd; eauto.
  - eapply pres_C_cnt; eauto.
  - eapply pres_S_sel; eauto.
  - eapply pres_D_join; eauto.
  - eapply pres_O_chk; eauto.
  - eapply pres_O_chk2; eauto.
  - eapply pres_O_c3; eauto.
  - eapply pres_O_dis; eauto.
  - eapply pres_O_co; eauto.
  - eapply pres_W_tw; eauto.
  - eapply pres_W_ob; eauto.
  - eapply pres_W_tok; eauto.
  - eapply pres_W_q; eauto.
  - eapply pres_J_live; eauto.
  - eapply pres_L_all; eauto.
  - eapply pres_M_gone; eauto.
  - eapply pres_X_left; eauto.
  - eapply pres_R_run; eauto.
  - eapply pres_R_inl; eauto.
  - eapply pres_P_rer; eauto.
  - eapply pres_P_pan; eauto.
  - eapply pres_N_bug; eauto.
  - eapply pres_O_fin; eauto.
  - eapply pres_T_dl; eauto.
Qed.

Theorem inv_reach s : Reach current s -> Inv s.
Proof. induction 1; [apply inv_init | eapply inv_step; eauto]. Qed.

Lemma ev_lt s e : Inv s -> epush s e = 1 \/ epop s e = 1 -> e < nexte s.
Proof. intros I H. destruct (le_lt_dec (nexte s) e) as [L|L]; [|exact L]. destruct (E_new _ I e L). lia. Qed.
Lemma arm_lt s a : Inv s -> pc s a <> ANone -> a < nexta s.
Proof. intros I H. destruct (le_lt_dec (nexta s) a) as [L|L]; [|exact L]. apply (A_ex _ I) in L. contradiction. Qed.

(* ------------------------------------------------------------------------------------------------------------
   (i) every event is consumed at most once, only after it was pushed; its bottom half runs exactly when it is
       consumed, after its own top half, never twice, never without the top half *)

(* an event is pushed at most once and popped at most once, and only after it was pushed *)
Theorem event_consumed_at_most_once s : Reach current s -> forall e, epop s e <= epush s e /\ epush s e <= 1.
Proof.
  intros R e. destruct (E_cnt _ (inv_reach _ R) e) as [A B]. split; [exact A|]. destruct (kpost (kpc s e)); lia.
Qed.

(* the queue holds exactly the events pushed and not yet popped, each once (the entry that the re-check pop holds while
   to_wake.take runs counts as queued) *)
Theorem queue_is_pushed_minus_popped s : Reach current s ->
  NoDup (qall s) /\ (forall e, In (ENormal e) (qall s) <-> (epush s e = 1 /\ epop s e = 0))
  /\ (forall a, In (EDone a) (qall s) <-> (dpush s a = 1 /\ dpop s a = 0)).
Proof. intros R. pose proof (inv_reach _ R) as I. split; [apply (Q_nd _ I)|]. split; [apply (Q_norm _ I) | apply (Q_done _ I)]. Qed.

(* per arm: bottom halves started <= events created <= top halves completed <= bottom halves started + 1 *)
Theorem bottom_never_before_or_without_top s : Reach current s ->
  forall a, bots s a <= sent s a /\ sent s a <= tops s a /\ tops s a <= S (bots s a).
Proof. intros R a. pose proof (A_ctr _ (inv_reach _ R) a) as C. destruct (pc s a); cbn [ctr] in C; lia. Qed.

(* an event that is not consumed yet: its coroutine is suspended IN THAT EVENT (so its bottom half has not run:
   bots < its round); a consumed event: its bottom half has been started (bots >= its round) *)
Theorem bottom_half_iff_consumed s : Reach current s -> forall e, e < nexte s ->
  1 <= ernd s e /\ ernd s e <= tops s (earm s e) /\
  (epop s e = 0 -> pc s (earm s e) = ASusp /\ acur s (earm s e) = e /\ bots s (earm s e) < ernd s e) /\
  (epop s e = 1 -> ernd s e <= bots s (earm s e)).
Proof.
  intros R e L. pose proof (inv_reach _ R) as I. destruct (E_arm _ I e L) as (LA & R1 & R2).
  split; [exact R1|]. split; [exact R2|]. split.
  - intros P. destruct (E_pop0 _ I e L P) as [X Y]. split; [exact X|]. split; [exact Y|].
    destruct (A_susp _ I _ X) as (_ & _ & _ & S4). rewrite Y in S4. pose proof (A_ctr _ I (earm s e)) as C. rewrite X in C. cbn [ctr] in C. lia.
  - apply (E_pop1 _ I).
Qed.

(* the transition that consumes an event is the transition that starts its bottom half (run_coroutine inside
   continue_bottom), and the bottom half started is the one of THAT event's round; no other transition starts one *)
Theorem consume_starts_bottom s ac s' e : Reach current s -> step current s ac = Some s' -> epop s' e = S (epop s e) ->
  ac = OStep /\ epop s e = 0 /\ epush s e = 1 /\ pc s (earm s e) = ASusp /\ pc s' (earm s e) = ABot /\
  bots s' (earm s e) = S (bots s (earm s e)) /\ bots s' (earm s e) = ernd s e /\ opc s' = PRun /\ ocur s' = earm s e /\ oev s' = e.
Proof.
  intros R H P. pose proof (inv_reach _ R) as I. pose proof (A_susp _ I) as QS. pose proof (A_ctr _ I) as QC. start I H.
  all: simp; try lia.
  all: upds; simp; try lia.
  all: match goal with HN : pc ?s (earm ?s ?e) = ASusp, HC : acur ?s (earm ?s ?e) = ?e |- _ =>
         destruct (QS _ HN) as (S1 & S2 & S3 & S4); rewrite HC in S4; pose proof (QC (earm s e)) as S5; rewrite HN in S5; cbn [ctr] in S5 end.
  all: repeat split; fin.
Qed.
Theorem bottom_starts_only_at_consumption s ac s' a : Reach current s -> step current s ac = Some s' -> bots s' a <> bots s a ->
  exists e, earm s e = a /\ epop s' e = S (epop s e) /\ bots s' a = S (bots s a).
Proof.
  intros R H P. pose proof (inv_reach _ R) as I. start I H.
  all: simp; try congruence.
  all: upds; simp; try congruence.
  all: match goal with HN : pc ?s (earm ?s ?e) = ASusp |- _ => exists e; rewrite ?Nat.eqb_refl; repeat split; fin end.
Qed.

(* when poll returns Ok(ev) the bottom half of ev HAS run, exactly once: it was started at the consumption and it has
   finished, unless it blocked on something else (then the arm continues on a worker) *)
Theorem poll_ok_bottom_has_run s : Reach current s -> returns_ok s ->
  earm s (oev s) = ocur s /\ epush s (oev s) = 1 /\ epop s (oev s) = 1 /\
  1 <= ernd s (oev s) /\ bots s (ocur s) = ernd s (oev s) /\ ernd s (oev s) <= tops s (ocur s) /\
  (botd s (ocur s) = bots s (ocur s) \/ byield s (ocur s) = true).
Proof.
  intros R [E N]. pose proof (inv_reach _ R) as I. destruct (R_run _ I E) as (Q1 & Q2 & Q3 & Q4).
  pose proof (ev_lt s (oev s) I (or_intror Q2)) as L. destruct (E_arm _ I _ L) as (LA & R1 & R2).
  destruct (E_cnt _ I (oev s)) as [C1 C2].
  repeat split; auto; try (destruct (kpost (kpc s (oev s))); lia). rewrite <- Q1. exact R2.
Qed.

(* ------------------------------------------------------------------------------------------------------------
   (ii) Finished only when every select coroutine has ended and everything was consumed; Timeout only at / after the
        deadline *)
Theorem finished_only_when_all_ended s : Reach current s -> returns_finished s ->
  all_gone s /\ evq s = [] /\
  (forall a, a < nexta s -> pc s a = ADone /\ dpush s a = 1 /\ dpop s a = 1) /\
  (forall e, e < nexte s -> epush s e = 1 /\ epop s e = 1).
Proof.
  intros R (E & Q & A). pose proof (inv_reach _ R) as I. destruct (finished_all_gone s I E Q A) as (QA & QE & QQ).
  split; [split|].
  - intros a L. destruct (QA a L) as [X _]. rewrite (A_jst _ I), X. reflexivity.
  - intros e L. apply (QE e L).
  - split; [exact QQ|]. split.
    + intros a L. destruct (QA a L) as [X Y]. split; [exact X|]. split; [|exact Y]. destruct (A_dp _ I a) as [P _]. rewrite X in P. exact P.
    + intros e L. destruct (QE e L) as [X Y]. split; [|exact Y]. destruct (E_cnt _ I e) as [_ P]. rewrite X in P. exact P.
Qed.

Theorem timeout_only_after_deadline s : Reach current s -> returns_timeout s -> ofin s = 0 ->
  exists d, oto s = Some d /\ (ocall s + d <= now s)%Z /\ (ocall s <= now s)%Z.
Proof.
  intros R [E T] F. pose proof (T_dl _ (inv_reach _ R)) as Q. rewrite E, F in Q. destruct (Q eq_refl) as [D C].
  rewrite D in T. destruct (oto s) as [d|]; cbn in T; [|discriminate]. exists d. apply Z.leb_le in T. auto.
Qed.
(* the final drain never times out *)
Theorem drain_never_times_out s : Reach current s -> ofin s <> 0 -> returns_timeout s -> False.
Proof.
  intros R F [E T]. pose proof (T_dl _ (inv_reach _ R)) as Q. rewrite E in Q. destruct (ofin s); [congruence|].
  destruct (Q eq_refl) as [D _]. rewrite D in T. discriminate.
Qed.

(* ------------------------------------------------------------------------------------------------------------
   (iii) no lost wake-up of the poller, quiescence form *)
(* nothing inside the cqueue has an enabled transition: no kernel half in flight, no arm inside send / EventSender::drop
   (arms in client code - top or bottom half -, suspended in an event or done are quiescent) *)
Definition quiescent (s : st) : Prop :=
  (forall e, e < nexte s -> kpc s e = KDone) /\
  (forall a, a < nexta s -> pc s a = ATop \/ pc s a = ABot \/ pc s a = ASusp \/ pc s a = ADone).
Definition parked (s : st) : Prop := opc s = P5 \/ opc s = P5w.

Theorem no_lost_wakeup s : Reach current s -> quiescent s -> parked s -> (evq s <> [] \/ cnt s = 0%Z) -> tok s (ob s) = true.
Proof.
  intros R [QK QA] P C. pose proof (inv_reach _ R) as I.
  assert (NE : evq s <> []).
  { destruct C as [C|C]; [exact C|]. assert (J : jset s = true) by (unfold jset; destruct P as [-> | ->]; reflexivity).
    destruct (J_live _ I J) as [X|X]; [contradiction | exact X]. }
  assert (NT : towake s <> Some (ob s)).
  { intros T. assert (S : sleepset (opc s) = true) by (destruct P as [-> | ->]; reflexivity).
    destruct (W_q _ I S T NE) as [[e K]|[a K]].
    - assert (L : e < nexte s). { destruct (le_lt_dec (nexte s) e) as [L|L]; [|exact L]. apply (E_ex _ I) in L. congruence. }
      rewrite (QK e L) in K. discriminate.
    - assert (L : a < nexta s) by (apply (arm_lt s a I); destruct K as [K|K]; rewrite K; discriminate).
      destruct (QA a L) as [X|[X|[X|X]]]; rewrite X in K; destruct K; discriminate. }
  assert (W : waitset (opc s) = true) by (destruct P as [-> | ->]; reflexivity).
  destruct (W_tok _ I W) as [X|[X|[[e [K _]]|[a [K _]]]]]; [exact X | contradiction | |].
  - assert (L : e < nexte s). { destruct (le_lt_dec (nexte s) e) as [L|L]; [|exact L]. apply (E_ex _ I) in L. congruence. }
    rewrite (QK e L) in K. discriminate.
  - assert (L : a < nexta s) by (apply (arm_lt s a I); rewrite K; discriminate).
    destruct (QA a L) as [X|[X|[X|X]]]; rewrite X in K; discriminate.
Qed.
(* ... hence the parked poller has an enabled resumption *)
Corollary no_lost_wakeup_enabled s : Reach current s -> quiescent s -> opc s = P5w -> (evq s <> [] \/ cnt s = 0%Z) ->
  exists s', step current s OStep = Some s'.
Proof.
  intros R Q P C. pose proof (no_lost_wakeup s R Q (or_intror P) C) as T.
  unfold step, ostep. rewrite P, T. cbn [orb]. destruct (cancel_due _); eauto.
Qed.

(* ------------------------------------------------------------------------------------------------------------
   (iv) when cqueue::scope / select! returns or unwinds, nobody is inside the cqueue any more *)
Theorem scope_left_all_gone s : Reach current s -> oleft s = true ->
  all_gone s /\ evq s = [] /\
  (forall a, a < nexta s -> dpush s a = 1 /\ dpop s a = 1 /\ bots s a = sent s a) /\
  (forall e, e < nexte s -> epush s e = 1 /\ epop s e = 1).
Proof.
  intros R L. pose proof (inv_reach _ R) as I. rewrite (X_left _ I) in L.
  assert (G : goneset (opc s) = true) by (destruct (opc s); try discriminate; reflexivity).
  destruct (M_gone _ I G) as (QA & QE & QQ).
  split; [split|].
  - intros a La. destruct (QA a La) as [X _]. rewrite (A_jst _ I), X. reflexivity.
  - intros e Le. apply (QE e Le).
  - split; [exact QQ|]. split.
    + intros a La. destruct (QA a La) as [X Y]. destruct (A_dp _ I a) as [P _]. rewrite X in P.
      pose proof (A_ctr _ I a) as C. rewrite X in C. cbn [ctr] in C. repeat split; auto; lia.
    + intros e Le. destruct (QE e Le) as [X Y]. split; [|exact Y]. destruct (E_cnt _ I e) as [_ P]. rewrite X in P. exact P.
Qed.
(* the owner leaves only through the end of Drop for Cqueue *)
Theorem left_iff_exit s : Reach current s -> oleft s = true <-> opc s = OExit.
Proof. intros R. rewrite (X_left _ (inv_reach _ R)). destruct (opc s); cbn; split; intros; try discriminate; reflexivity. Qed.

(* the token handed out by a poll (hence by select!) belongs to an arm whose top half and bottom half have both run *)
Theorem returned_token_fully_run s : Reach current s -> returns_ok s -> 1 <= tops s (ocur s) /\ 1 <= bots s (ocur s).
Proof. intros R O. destruct (poll_ok_bottom_has_run s R O) as (_ & _ & _ & A & B & C & _). lia. Qed.

(* an arm's panic is re-raised in the poller at most once per cqueue ... *)
Theorem panic_reraised_at_most_once s : Reach current s -> rer s <= 1 /\ (rer s = 1 <-> ispan s = true).
Proof. intros R. destruct (P_rer _ (inv_reach _ R)) as (A & _ & _). destruct (ispan s); split; try lia; split; intros; try discriminate; try lia; reflexivity. Qed.
(* ... what is re-raised is the payload of an arm that panicked ... *)
Theorem reraised_payload_is_an_arms s : Reach current s -> forall p, rerp s = Some p -> exists a, ares s a = RPanic p.
Proof. intros R. apply (P_rer _ (inv_reach _ R)). Qed.
(* ... and it is not lost: once the Done event of an arm that panicked has been consumed and check_panic is through, a
   panic has been re-raised (this one, or an earlier one: the latch is_panicking); in particular at scope exit *)
Theorem panic_not_lost s : Reach current s -> forall a p, dpop s a = 1 -> ares s a = RPanic p ->
  (cpcs (opc s) = true /\ ocur s = a) \/ rer s = 1.
Proof.
  intros R a p D A. pose proof (inv_reach _ R) as I. destruct (P_pan _ I a p D A) as [X|X]; [left; exact X | right].
  destruct (P_rer _ I) as (Q & _ & _). rewrite X in Q. exact Q.
Qed.
Theorem scope_left_panic_reraised s : Reach current s -> oleft s = true -> forall a p, a < nexta s -> ares s a = RPanic p ->
  rer s = 1 /\ exists q, rerp s = Some q.
Proof.
  intros R L a p La A. pose proof (inv_reach _ R) as I. destruct (scope_left_all_gone s R L) as (_ & _ & QA & _).
  destruct (QA a La) as (_ & D & _). destruct (panic_not_lost s R a p D A) as [[X _]|X].
  - apply (left_iff_exit s R) in L. rewrite L in X. discriminate.
  - split; [exact X|]. destruct (P_rer _ I) as (Q1 & Q2 & _). destruct (ispan s); [|lia].
    destruct (rerp s) as [q|]; [eauto | exfalso; apply (proj1 Q2 eq_refl); reflexivity].
Qed.

(* ------------------------------------------------------------------------------------------------------------
   supporting facts that the repairs F9 / F28 / F29 / F19 are about *)
(* the code never reaches `.expect("join handler not set")` nor resumes a coroutine that is not suspended *)
Theorem no_bug s : Reach current s -> opc s <> OBug.
Proof. intros R. apply (N_bug _ (inv_reach _ R)). Qed.
(* the final drain and the join inside check_panic run with the cancel disabled: a cancelled owner blocks instead of spinning *)
Theorem drain_and_join_not_cancellable s : Reach current s -> oco s = true ->
  ((ofin s <> 0 /\ inpoll (opc s) = true) \/ opc s = CJ) -> cancel_due s = false.
Proof.
  intros R C H. pose proof (O_dis _ (inv_reach _ R)) as D. rewrite C in D. unfold cancel_due. rewrite C.
  destruct H as [[F P]|P].
  - assert (X : drainset (opc s) = true) by (unfold drainset; rewrite P; reflexivity). rewrite X in D.
    destruct (ofin s); [congruence|]. cbn in D. destruct (odis s); [lia|]. destruct (ocbit s); reflexivity.
  - rewrite P in D. cbn in D. destruct (odis s); [lia|]. destruct (ocbit s); reflexivity.
Qed.
(* a select coroutine that has ended has no kernel half in flight: nobody touches its EventSender or, through it, the cqueue *)
Theorem done_arm_has_no_kernel_half s : Reach current s -> forall e, e < nexte s -> pc s (earm s e) = ADone -> kpc s e = KDone /\ epop s e = 1.
Proof.
  intros R e L P. pose proof (inv_reach _ R) as I.
  assert (P1 : epop s e = 1).
  { destruct (E_cnt _ I e) as [C1 C2]. destruct (epop s e) as [|[|?]] eqn:EP; [exfalso | reflexivity | destruct (kpost (kpc s e)); lia].
    destruct (E_pop0 _ I e L EP) as [X _]. rewrite P in X. discriminate. }
  split; [|exact P1]. destruct (E_cnt _ I e) as [C1 C2]. rewrite P1 in C1.
  assert (K0' : kern s (earm s e) = 0) by (apply (A_k0 _ I); rewrite P; reflexivity).
  destruct (kpc s e) eqn:EK; cbn [kpost] in C2; try lia; try reflexivity.
  all: pose proof (kact_kern_pos s e I) as X; rewrite EK in X; specialize (X eq_refl); lia.
Qed.
(* a Done event that has been consumed: its arm has ended, or the owner is joining it right now *)
Theorem consumed_done_is_joined s : Reach current s -> forall a, dpop s a = 1 -> arm_done s a \/ ((opc s = C0 \/ opc s = CJ) /\ ocur s = a).
Proof.
  intros R a D. destruct (D_join _ (inv_reach _ R) a D) as [X|[X Y]]; [left; exact X | right]. split; [|exact Y].
  destruct (opc s); try discriminate; auto.
Qed.
