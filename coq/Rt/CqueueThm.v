(* Theorems about CqueueModel (current code), for every reachable state: any number of arms and events, any owner
   program, any schedule. *)
From Coq Require Import List Arith Bool ZArith Lia.
Import ListNotations.
Require Import MayV.Rt.CqueueModel MayV.Rt.CqueueInv MayV.Rt.CqueueTac.
Require Import MayV.Rt.CqueuePres1 MayV.Rt.CqueuePres2 MayV.Rt.CqueuePres3 MayV.Rt.CqueuePres4 MayV.Rt.CqueuePres5
               MayV.Rt.CqueuePres6 MayV.Rt.CqueuePres7.

Lemma inv_init : Inv init.
Proof.
  constructor; cbn; intros; try discriminate; try tauto; try lia; auto.
  all: try (split; intros; try discriminate; try lia; auto).
  all: try (repeat split; intros; try discriminate; try lia; auto; fail).
  constructor.
Qed.

Lemma inv_step s ac s' : Inv s -> step current s ac = Some s' -> Inv s'.
Proof.
  intros I H. constructor.
  - eapply pres_A_ex; eauto.
  - eapply pres_E_ex; eauto.
  - eapply pres_B_fr; eauto.
  - eapply pres_A_new; eauto.
  - eapply pres_E_new; eauto.
  - eapply pres_I_tot; eauto.
  - eapply pres_A_ctr; eauto.
  - eapply pres_A_dp; eauto.
  - eapply pres_A_jst; eauto.
  - eapply pres_A_res; eauto.
  - eapply pres_A_k0; eauto.
  - eapply pres_A_susp; eauto.
  - eapply pres_A_aw; eauto.
  - eapply pres_E_cnt; eauto.
  - eapply pres_E_arm; eauto.
  - eapply pres_E_pop0; eauto.
  - eapply pres_E_pop1; eauto.
  - eapply pres_E_kw; eauto.
  - eapply pres_K_cnt; eauto.
  - eapply pres_Q_norm; eauto.
  - eapply pres_Q_done; eauto.
  - eapply pres_Q_nd; eauto.
  - eapply pres_C_cnt; eauto.
  - eapply pres_S_sel; eauto.
  - eapply pres_D_join; eauto.
  - eapply pres_O_chk; eauto.
  - eapply pres_O_chk2; eauto.
  - eapply pres_O_c3; eauto.
  - eapply pres_O_dis; eauto.
  - eapply pres_O_co; eauto.
  - eapply pres_W_tw; eauto.
  - eapply pres_W_ob; eauto.
  - eapply pres_W_tok; eauto.
  - eapply pres_W_q; eauto.
  - eapply pres_J_live; eauto.
  - eapply pres_L_all; eauto.
  - eapply pres_M_gone; eauto.
  - eapply pres_X_left; eauto.
  - eapply pres_R_run; eauto.
  - eapply pres_R_inl; eauto.
  - eapply pres_P_rer; eauto.
  - eapply pres_P_pan; eauto.
  - eapply pres_N_bug; eauto.
  - eapply pres_O_fin; eauto.
  - eapply pres_T_dl; eauto.
Qed.

Theorem inv_reach s : Reach current s -> Inv s.
Proof. induction 1; [apply inv_init | eapply inv_step; eauto]. Qed.
