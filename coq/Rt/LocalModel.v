(* Model of coroutine-local storage and of the recycling of pooled coroutine stacks (property C15).
   Definitions only.  Sources: src/local.rs (CoroutineLocal, LocalKey::with and its thread fallback),
   src/coroutine_impl.rs (Builder::spawn_impl, run_coroutine, Done::drop_coroutine), src/pool.rs,
   src/yield_now.rs (yield_with and its cancelled short-cut, get_co_para / set_co_para), src/cancel.rs
   (check_cancel, cancel), and the `para` slot of generator-0.8.9 (`GeneratorImpl.para`: written by
   `set_para` / `co_set_para`, taken by `co_get_yield`, NOT touched by `init_code`, so it survives the
   recycling of a generator through the pool).

   (a) Storage.  A `CoroutineLocal` is allocated per spawn and identified here with the coroutine id c;
   `alivem c` = the box exists, `lmapm c` = its `local_data` map (key -> value).  The generator g carries
   the raw pointer `gldm g` (Context.local_data) to it.  `LocalKey::with` is executed BY A THREAD t:
   `get_co_local_data()` looks at the generator that runs on t (`trunm t = Some c`, generator `genm c`) and
   follows ITS pointer; with no generator on t the per-thread LOCALMAP (`tmapm t`) is used.  `SetV` is a
   `with` whose closure stores through interior mutability (Cell/RefCell).  A dangling pointer (box freed)
   disables the step: the storage theorems show that this never happens for a running coroutine.
   Migration: a suspended coroutine is resumed by ANY thread whose context is free (`Resume t c`).

   (b) Hygiene.  Life cycle of a coroutine c on generator g = genm c:
     Spawn c g     spawn_impl: g is the head of the pool (FIFO SegQueue) or, with the pool empty, a new
                   generator (para = None); init_code; fresh handle (cancel bit 0, disable count 0, fresh Park:
                   token false), fresh CoroutineLocal (empty map) attached with set_local_data          -> PNew
     Resume t c    run_coroutine on thread t                                             PNew -> PBody, PReady k -> PBack k
     PBody         user code (or, with `panim c`, Drop code run by the unwinding): With/SetV, Call k,
                   Disable/Enable (disable_cancel / enable_cancel), Panic, Finish
     Call c k      a blocking call of kind k.  BPark with the token set: check_park consumes it, Ok(()).
                   BSelect: EventSender::send calls check_cancel first.  Then yield_with: cancelled and not
                   disabled (`state == 1`) -> co_set_para(Canceled), no yield                         -> PShort k
                   otherwise co_yield_with: the thread is free again, subscribe (atomic here)        -> PSusp k
     wakers        Wake c (the event waited for: re-schedule of yield_now, io readiness, sender, poller, unpark),
                   Unpark c (Park::unpark: token, wakes a parked coroutine), Timer c (timer thread /
                   Park::subscribe's own timeout / io timeout_handler: set_co_para(TimedOut)), Cancel c
                   (Coroutine::cancel: fetch_or 1, then a coroutine registered with set_co is taken,
                   set_co_para(Canceled), scheduled; one registered with set_io is scheduled WITHOUT para;
                   whatever the disable count), Recheck c (the re-check of the cancel status at the end of
                   subscribe: since commit d874713 Park / fast Park / Sleep take the coroutine themselves,
                   set_co_para(Canceled), schedule; the io sources call cancel.cancel())                                                   PSusp k -> PReady k
     Back c        EventSource::yield_back after the short-cut or after the resumption (table yb_of):
                   YCheck  check_cancel: state == 1 -> get_co_para(), then Cancel panic unless panicking
                   YNone   Park with ignore_cancel: nothing
                   YSelect EventSender: get_co_para().is_some() -> Cancel panic (a second panic aborts: no step)
                   YClear  RawIoBlock (wait_io): [cfg fixW: get_co_para, since commit 172d8b3] clear_cancel_bit  -> PAfter k | PBody
     After c       the rest of the blocking function (table consumes): park_timeout / sleep / fast park (src/sync/fast_blocking.rs,
                   at present not compiled into the crate) / co_io_result call get_co_para (the verdict); yield_now, spsc recv, select send and
                   wait_io do not                                                                     -> PBody
     Finish c      the closure returns or the unwinding reaches the generator                          -> PEnd
     DPut c keep   Done::drop_coroutine: pool.put(co) (or the generator is discarded: pool full / other
                   stack size)                                                                        -> PPut
     DFree c       end of drop_coroutine: the Box<CoroutineLocal> is dropped: every value dropped      -> PDone
   Who may set para, and that exactly one waker holds a suspended coroutine, is the subject of C02 (ParkModel:
   single resumption); here subscribe + wake are atomic.

   Ghost (never read by step): ninitm/tninitm (runs of the initialiser per (coroutine|thread, key)), ndropm
   (drops per (coroutine, key)), ncanm (cancel() calls addressed to c), leakm g (a Canceled para was left
   behind by wait_io's short-cut on g), lastrm t (value seen by the last `with` of thread t), verm/vkindm
   (verdict and kind of the last consuming blocking call). *)
From Coq Require Import List Arith Bool ZArith Lia.
Import ListNotations.

Definition upd {X} (f : nat -> X) i v := fun j => if Nat.eqb j i then v else f j.

Inductive perr := ETimeout | ECanceled.             (* io::ErrorKind::TimedOut / Other("Canceled") *)
Inductive bkind := BYield | BPark (ign tmo : bool) | BSleep | BFast | BIo (tmo : bool) | BSelect | BSpsc | BWaitIo.
Inductive ybk := YCheck | YNone | YSelect | YClear.
Definition yb_of (k : bkind) : ybk :=
  match k with BPark true _ => YNone | BSelect => YSelect | BWaitIo => YClear | _ => YCheck end.
Definition consumes (k : bkind) : bool := match k with BPark _ _ | BSleep | BFast | BIo _ => true | _ => false end.
Definition cancel_para (k : bkind) : bool := match k with BPark _ _ | BSleep | BFast => true | _ => false end.
Definition cancel_plain (k : bkind) : bool := match k with BIo _ | BWaitIo => true | _ => false end.
Definition has_timer (k : bkind) : bool := match k with BPark _ true | BSleep | BIo true => true | _ => false end.
Definition plain_wake (k : bkind) : bool := match k with BSleep => false | _ => true end.
Definition is_park (k : bkind) : bool := match k with BPark _ _ => true | _ => false end.
Definition is_select (k : bkind) : bool := match k with BSelect => true | _ => false end.

Inductive pc := PNone | PNew | PBody | PShort (k : bkind) | PSusp (k : bkind) | PReady (k : bkind)
              | PBack (k : bkind) | PAfter (k : bkind) | PEnd | PPut | PDone.

(* fixW: RawIoBlock::yield_back also consumes the para (finding F30, repaired by /repo commit 172d8b3); initv: the initialiser
   expression of each key; cap: pool capacity *)
Record cfg := { fixW : bool; initv : nat -> Z; cap : nat }.

Record st := mkst {
  pcm : nat -> pc;
  genm : nat -> nat;
  thrm : nat -> nat;
  cbitm : nat -> bool;
  cdism : nat -> nat;
  ptokm : nat -> bool;
  panim : nat -> bool;
  alivem : nat -> bool;
  lmapm : nat -> nat -> option Z;
  verm : nat -> option (option perr);
  vkindm : nat -> bkind;
  ninitm : nat -> nat -> nat;
  ndropm : nat -> nat -> nat;
  ncanm : nat -> nat;
  goccm : nat -> option nat;
  gusedm : nat -> bool;
  param : nat -> option perr;
  gldm : nat -> option nat;
  leakm : nat -> bool;
  pool : list nat;
  trunm : nat -> option nat;
  tmapm : nat -> nat -> option Z;
  tninitm : nat -> nat -> nat;
  lastrm : nat -> option Z }.

Definition set_pcm (v : nat -> pc) (s : st) : st :=
  {| pcm := v; genm := genm s; thrm := thrm s; cbitm := cbitm s; cdism := cdism s; ptokm := ptokm s; panim := panim s; alivem := alivem s; lmapm := lmapm s; verm := verm s; vkindm := vkindm s; ninitm := ninitm s; ndropm := ndropm s; ncanm := ncanm s; goccm := goccm s; gusedm := gusedm s; param := param s; gldm := gldm s; leakm := leakm s; pool := pool s; trunm := trunm s; tmapm := tmapm s; tninitm := tninitm s; lastrm := lastrm s |}.
Definition set_genm (v : nat -> nat) (s : st) : st :=
  {| pcm := pcm s; genm := v; thrm := thrm s; cbitm := cbitm s; cdism := cdism s; ptokm := ptokm s; panim := panim s; alivem := alivem s; lmapm := lmapm s; verm := verm s; vkindm := vkindm s; ninitm := ninitm s; ndropm := ndropm s; ncanm := ncanm s; goccm := goccm s; gusedm := gusedm s; param := param s; gldm := gldm s; leakm := leakm s; pool := pool s; trunm := trunm s; tmapm := tmapm s; tninitm := tninitm s; lastrm := lastrm s |}.
Definition set_thrm (v : nat -> nat) (s : st) : st :=
  {| pcm := pcm s; genm := genm s; thrm := v; cbitm := cbitm s; cdism := cdism s; ptokm := ptokm s; panim := panim s; alivem := alivem s; lmapm := lmapm s; verm := verm s; vkindm := vkindm s; ninitm := ninitm s; ndropm := ndropm s; ncanm := ncanm s; goccm := goccm s; gusedm := gusedm s; param := param s; gldm := gldm s; leakm := leakm s; pool := pool s; trunm := trunm s; tmapm := tmapm s; tninitm := tninitm s; lastrm := lastrm s |}.
Definition set_cbitm (v : nat -> bool) (s : st) : st :=
  {| pcm := pcm s; genm := genm s; thrm := thrm s; cbitm := v; cdism := cdism s; ptokm := ptokm s; panim := panim s; alivem := alivem s; lmapm := lmapm s; verm := verm s; vkindm := vkindm s; ninitm := ninitm s; ndropm := ndropm s; ncanm := ncanm s; goccm := goccm s; gusedm := gusedm s; param := param s; gldm := gldm s; leakm := leakm s; pool := pool s; trunm := trunm s; tmapm := tmapm s; tninitm := tninitm s; lastrm := lastrm s |}.
Definition set_cdism (v : nat -> nat) (s : st) : st :=
  {| pcm := pcm s; genm := genm s; thrm := thrm s; cbitm := cbitm s; cdism := v; ptokm := ptokm s; panim := panim s; alivem := alivem s; lmapm := lmapm s; verm := verm s; vkindm := vkindm s; ninitm := ninitm s; ndropm := ndropm s; ncanm := ncanm s; goccm := goccm s; gusedm := gusedm s; param := param s; gldm := gldm s; leakm := leakm s; pool := pool s; trunm := trunm s; tmapm := tmapm s; tninitm := tninitm s; lastrm := lastrm s |}.
Definition set_ptokm (v : nat -> bool) (s : st) : st :=
  {| pcm := pcm s; genm := genm s; thrm := thrm s; cbitm := cbitm s; cdism := cdism s; ptokm := v; panim := panim s; alivem := alivem s; lmapm := lmapm s; verm := verm s; vkindm := vkindm s; ninitm := ninitm s; ndropm := ndropm s; ncanm := ncanm s; goccm := goccm s; gusedm := gusedm s; param := param s; gldm := gldm s; leakm := leakm s; pool := pool s; trunm := trunm s; tmapm := tmapm s; tninitm := tninitm s; lastrm := lastrm s |}.
Definition set_panim (v : nat -> bool) (s : st) : st :=
  {| pcm := pcm s; genm := genm s; thrm := thrm s; cbitm := cbitm s; cdism := cdism s; ptokm := ptokm s; panim := v; alivem := alivem s; lmapm := lmapm s; verm := verm s; vkindm := vkindm s; ninitm := ninitm s; ndropm := ndropm s; ncanm := ncanm s; goccm := goccm s; gusedm := gusedm s; param := param s; gldm := gldm s; leakm := leakm s; pool := pool s; trunm := trunm s; tmapm := tmapm s; tninitm := tninitm s; lastrm := lastrm s |}.
Definition set_alivem (v : nat -> bool) (s : st) : st :=
  {| pcm := pcm s; genm := genm s; thrm := thrm s; cbitm := cbitm s; cdism := cdism s; ptokm := ptokm s; panim := panim s; alivem := v; lmapm := lmapm s; verm := verm s; vkindm := vkindm s; ninitm := ninitm s; ndropm := ndropm s; ncanm := ncanm s; goccm := goccm s; gusedm := gusedm s; param := param s; gldm := gldm s; leakm := leakm s; pool := pool s; trunm := trunm s; tmapm := tmapm s; tninitm := tninitm s; lastrm := lastrm s |}.
Definition set_lmapm (v : nat -> nat -> option Z) (s : st) : st :=
  {| pcm := pcm s; genm := genm s; thrm := thrm s; cbitm := cbitm s; cdism := cdism s; ptokm := ptokm s; panim := panim s; alivem := alivem s; lmapm := v; verm := verm s; vkindm := vkindm s; ninitm := ninitm s; ndropm := ndropm s; ncanm := ncanm s; goccm := goccm s; gusedm := gusedm s; param := param s; gldm := gldm s; leakm := leakm s; pool := pool s; trunm := trunm s; tmapm := tmapm s; tninitm := tninitm s; lastrm := lastrm s |}.
Definition set_verm (v : nat -> option (option perr)) (s : st) : st :=
  {| pcm := pcm s; genm := genm s; thrm := thrm s; cbitm := cbitm s; cdism := cdism s; ptokm := ptokm s; panim := panim s; alivem := alivem s; lmapm := lmapm s; verm := v; vkindm := vkindm s; ninitm := ninitm s; ndropm := ndropm s; ncanm := ncanm s; goccm := goccm s; gusedm := gusedm s; param := param s; gldm := gldm s; leakm := leakm s; pool := pool s; trunm := trunm s; tmapm := tmapm s; tninitm := tninitm s; lastrm := lastrm s |}.
Definition set_vkindm (v : nat -> bkind) (s : st) : st :=
  {| pcm := pcm s; genm := genm s; thrm := thrm s; cbitm := cbitm s; cdism := cdism s; ptokm := ptokm s; panim := panim s; alivem := alivem s; lmapm := lmapm s; verm := verm s; vkindm := v; ninitm := ninitm s; ndropm := ndropm s; ncanm := ncanm s; goccm := goccm s; gusedm := gusedm s; param := param s; gldm := gldm s; leakm := leakm s; pool := pool s; trunm := trunm s; tmapm := tmapm s; tninitm := tninitm s; lastrm := lastrm s |}.
Definition set_ninitm (v : nat -> nat -> nat) (s : st) : st :=
  {| pcm := pcm s; genm := genm s; thrm := thrm s; cbitm := cbitm s; cdism := cdism s; ptokm := ptokm s; panim := panim s; alivem := alivem s; lmapm := lmapm s; verm := verm s; vkindm := vkindm s; ninitm := v; ndropm := ndropm s; ncanm := ncanm s; goccm := goccm s; gusedm := gusedm s; param := param s; gldm := gldm s; leakm := leakm s; pool := pool s; trunm := trunm s; tmapm := tmapm s; tninitm := tninitm s; lastrm := lastrm s |}.
Definition set_ndropm (v : nat -> nat -> nat) (s : st) : st :=
  {| pcm := pcm s; genm := genm s; thrm := thrm s; cbitm := cbitm s; cdism := cdism s; ptokm := ptokm s; panim := panim s; alivem := alivem s; lmapm := lmapm s; verm := verm s; vkindm := vkindm s; ninitm := ninitm s; ndropm := v; ncanm := ncanm s; goccm := goccm s; gusedm := gusedm s; param := param s; gldm := gldm s; leakm := leakm s; pool := pool s; trunm := trunm s; tmapm := tmapm s; tninitm := tninitm s; lastrm := lastrm s |}.
Definition set_ncanm (v : nat -> nat) (s : st) : st :=
  {| pcm := pcm s; genm := genm s; thrm := thrm s; cbitm := cbitm s; cdism := cdism s; ptokm := ptokm s; panim := panim s; alivem := alivem s; lmapm := lmapm s; verm := verm s; vkindm := vkindm s; ninitm := ninitm s; ndropm := ndropm s; ncanm := v; goccm := goccm s; gusedm := gusedm s; param := param s; gldm := gldm s; leakm := leakm s; pool := pool s; trunm := trunm s; tmapm := tmapm s; tninitm := tninitm s; lastrm := lastrm s |}.
Definition set_goccm (v : nat -> option nat) (s : st) : st :=
  {| pcm := pcm s; genm := genm s; thrm := thrm s; cbitm := cbitm s; cdism := cdism s; ptokm := ptokm s; panim := panim s; alivem := alivem s; lmapm := lmapm s; verm := verm s; vkindm := vkindm s; ninitm := ninitm s; ndropm := ndropm s; ncanm := ncanm s; goccm := v; gusedm := gusedm s; param := param s; gldm := gldm s; leakm := leakm s; pool := pool s; trunm := trunm s; tmapm := tmapm s; tninitm := tninitm s; lastrm := lastrm s |}.
Definition set_gusedm (v : nat -> bool) (s : st) : st :=
  {| pcm := pcm s; genm := genm s; thrm := thrm s; cbitm := cbitm s; cdism := cdism s; ptokm := ptokm s; panim := panim s; alivem := alivem s; lmapm := lmapm s; verm := verm s; vkindm := vkindm s; ninitm := ninitm s; ndropm := ndropm s; ncanm := ncanm s; goccm := goccm s; gusedm := v; param := param s; gldm := gldm s; leakm := leakm s; pool := pool s; trunm := trunm s; tmapm := tmapm s; tninitm := tninitm s; lastrm := lastrm s |}.
Definition set_param (v : nat -> option perr) (s : st) : st :=
  {| pcm := pcm s; genm := genm s; thrm := thrm s; cbitm := cbitm s; cdism := cdism s; ptokm := ptokm s; panim := panim s; alivem := alivem s; lmapm := lmapm s; verm := verm s; vkindm := vkindm s; ninitm := ninitm s; ndropm := ndropm s; ncanm := ncanm s; goccm := goccm s; gusedm := gusedm s; param := v; gldm := gldm s; leakm := leakm s; pool := pool s; trunm := trunm s; tmapm := tmapm s; tninitm := tninitm s; lastrm := lastrm s |}.
Definition set_gldm (v : nat -> option nat) (s : st) : st :=
  {| pcm := pcm s; genm := genm s; thrm := thrm s; cbitm := cbitm s; cdism := cdism s; ptokm := ptokm s; panim := panim s; alivem := alivem s; lmapm := lmapm s; verm := verm s; vkindm := vkindm s; ninitm := ninitm s; ndropm := ndropm s; ncanm := ncanm s; goccm := goccm s; gusedm := gusedm s; param := param s; gldm := v; leakm := leakm s; pool := pool s; trunm := trunm s; tmapm := tmapm s; tninitm := tninitm s; lastrm := lastrm s |}.
Definition set_leakm (v : nat -> bool) (s : st) : st :=
  {| pcm := pcm s; genm := genm s; thrm := thrm s; cbitm := cbitm s; cdism := cdism s; ptokm := ptokm s; panim := panim s; alivem := alivem s; lmapm := lmapm s; verm := verm s; vkindm := vkindm s; ninitm := ninitm s; ndropm := ndropm s; ncanm := ncanm s; goccm := goccm s; gusedm := gusedm s; param := param s; gldm := gldm s; leakm := v; pool := pool s; trunm := trunm s; tmapm := tmapm s; tninitm := tninitm s; lastrm := lastrm s |}.
Definition set_pool (v : list nat) (s : st) : st :=
  {| pcm := pcm s; genm := genm s; thrm := thrm s; cbitm := cbitm s; cdism := cdism s; ptokm := ptokm s; panim := panim s; alivem := alivem s; lmapm := lmapm s; verm := verm s; vkindm := vkindm s; ninitm := ninitm s; ndropm := ndropm s; ncanm := ncanm s; goccm := goccm s; gusedm := gusedm s; param := param s; gldm := gldm s; leakm := leakm s; pool := v; trunm := trunm s; tmapm := tmapm s; tninitm := tninitm s; lastrm := lastrm s |}.
Definition set_trunm (v : nat -> option nat) (s : st) : st :=
  {| pcm := pcm s; genm := genm s; thrm := thrm s; cbitm := cbitm s; cdism := cdism s; ptokm := ptokm s; panim := panim s; alivem := alivem s; lmapm := lmapm s; verm := verm s; vkindm := vkindm s; ninitm := ninitm s; ndropm := ndropm s; ncanm := ncanm s; goccm := goccm s; gusedm := gusedm s; param := param s; gldm := gldm s; leakm := leakm s; pool := pool s; trunm := v; tmapm := tmapm s; tninitm := tninitm s; lastrm := lastrm s |}.
Definition set_tmapm (v : nat -> nat -> option Z) (s : st) : st :=
  {| pcm := pcm s; genm := genm s; thrm := thrm s; cbitm := cbitm s; cdism := cdism s; ptokm := ptokm s; panim := panim s; alivem := alivem s; lmapm := lmapm s; verm := verm s; vkindm := vkindm s; ninitm := ninitm s; ndropm := ndropm s; ncanm := ncanm s; goccm := goccm s; gusedm := gusedm s; param := param s; gldm := gldm s; leakm := leakm s; pool := pool s; trunm := trunm s; tmapm := v; tninitm := tninitm s; lastrm := lastrm s |}.
Definition set_tninitm (v : nat -> nat -> nat) (s : st) : st :=
  {| pcm := pcm s; genm := genm s; thrm := thrm s; cbitm := cbitm s; cdism := cdism s; ptokm := ptokm s; panim := panim s; alivem := alivem s; lmapm := lmapm s; verm := verm s; vkindm := vkindm s; ninitm := ninitm s; ndropm := ndropm s; ncanm := ncanm s; goccm := goccm s; gusedm := gusedm s; param := param s; gldm := gldm s; leakm := leakm s; pool := pool s; trunm := trunm s; tmapm := tmapm s; tninitm := v; lastrm := lastrm s |}.
Definition set_lastrm (v : nat -> option Z) (s : st) : st :=
  {| pcm := pcm s; genm := genm s; thrm := thrm s; cbitm := cbitm s; cdism := cdism s; ptokm := ptokm s; panim := panim s; alivem := alivem s; lmapm := lmapm s; verm := verm s; vkindm := vkindm s; ninitm := ninitm s; ndropm := ndropm s; ncanm := ncanm s; goccm := goccm s; gusedm := gusedm s; param := param s; gldm := gldm s; leakm := leakm s; pool := pool s; trunm := trunm s; tmapm := tmapm s; tninitm := tninitm s; lastrm := v |}.

Notation "s |> f" := (f s) (at level 45, left associativity, only parsing).

Definition emptyZ : nat -> option Z := fun _ => None.

Definition init (cf : cfg) : st :=
  {| pcm := fun _ => PNone; genm := fun _ => 0; thrm := fun _ => 0; cbitm := fun _ => false; cdism := fun _ => 0;
     ptokm := fun _ => false; panim := fun _ => false; alivem := fun _ => false; lmapm := fun _ => emptyZ;
     verm := fun _ => None; vkindm := fun _ => BYield;
     ninitm := fun _ _ => 0; ndropm := fun _ _ => 0; ncanm := fun _ => 0;
     goccm := fun _ => None; gusedm := fun g => g <? cap cf; param := fun _ => None; gldm := fun _ => None;
     leakm := fun _ => false; pool := seq 0 (cap cf);
     trunm := fun _ => None; tmapm := fun _ => emptyZ; tninitm := fun _ _ => 0; lastrm := fun _ => None |}.

Inductive action :=
  | Spawn (c g : nat)
  | Resume (t c : nat)
  | With (t k : nat)
  | SetV (t k : nat) (v : Z)
  | Call (c : nat) (k : bkind)
  | Wake (c : nat) | Unpark (c : nat) | Timer (c : nat) | Cancel (c : nat) | Recheck (c : nat)
  | Back (c : nat) | After (c : nat)
  | Disable (c : nat) | Enable (c : nat)
  | Panic (c : nat) | Finish (c : nat)
  | DPut (c : nat) (keep : bool) | DFree (c : nat).

Definition canceled (s : st) (c : nat) : bool := cbitm s c && Nat.eqb (cdism s c) 0.
Definition para_of (s : st) (c : nat) : option perr := param s (genm s c).
Definition set_para_of (c : nat) (v : option perr) (s : st) : st := set_param (upd (param s) (genm s c) v) s.
Definition set_pc (c : nat) (p : pc) (s : st) : st := set_pcm (upd (pcm s) c p) s.
Definition isSome {X} (o : option X) : bool := match o with Some _ => true | None => false end.

(* the CoroutineLocal that get_co_local_data() finds on thread t *)
Definition cur_local (s : st) (t : nat) : option nat :=
  match trunm s t with Some c => gldm s (genm s c) | None => None end.

(* raise a Cancel panic in coroutine c: the unwinding continues at PBody with the panicking flag set *)
Definition raise (c : nat) (s : st) : st := s |> set_panim (upd (panim s) c true) |> set_pc c PBody.

(* what a cancel (or the re-check of subscribe) does with a suspended coroutine *)
Definition cancel_wake (c : nat) (s : st) : st :=
  match pcm s c with
  | PSusp k => if cancel_para k then s |> set_para_of c (Some ECanceled) |> set_pc c (PReady k)
               else if cancel_plain k then s |> set_pc c (PReady k) else s
  | _ => s
  end.

(* LocalKey::with on a map: the entry is created by the initialiser on first access *)
Definition entry (cf : cfg) (m : nat -> option Z) (k : nat) : Z := match m k with Some v => v | None => initv cf k end.
Definition fresh01 (m : nat -> option Z) (k : nat) : nat := match m k with Some _ => 0 | None => 1 end.

(* one access through `with`: f = None reads, f = Some v stores v *)
Definition access (cf : cfg) (s : st) (t k : nat) (w : option Z) : option st :=
  match trunm s t with
  | Some c =>
      match pcm s c, gldm s (genm s c) with
      | PBody, Some d =>
          if alivem s d then
            let m := lmapm s d in
            let v := match w with Some v => v | None => entry cf m k end in
            Some (s |> set_ninitm (upd (ninitm s) d (upd (ninitm s d) k (ninitm s d k + fresh01 m k)))
                    |> set_lmapm (upd (lmapm s) d (upd m k (Some v)))
                    |> set_lastrm (upd (lastrm s) t (Some v)))
          else None
      | _, _ => None
      end
  | None =>
      let m := tmapm s t in
      let v := match w with Some v => v | None => entry cf m k end in
      Some (s |> set_tninitm (upd (tninitm s) t (upd (tninitm s t) k (tninitm s t k + fresh01 m k)))
              |> set_tmapm (upd (tmapm s) t (upd m k (Some v)))
              |> set_lastrm (upd (lastrm s) t (Some v)))
  end.

Definition step (cf : cfg) (s : st) (a : action) : option st :=
  match a with
  | Spawn c g =>
      match pcm s c with
      | PNone =>
          let go (rest : list nat) :=
            Some (s |> set_pool rest
                    |> set_goccm (upd (goccm s) g (Some c)) |> set_gusedm (upd (gusedm s) g true)
                    |> set_gldm (upd (gldm s) g (Some c))
                    |> set_genm (upd (genm s) c g) |> set_cbitm (upd (cbitm s) c false) |> set_cdism (upd (cdism s) c 0)
                    |> set_ptokm (upd (ptokm s) c false) |> set_panim (upd (panim s) c false)
                    |> set_alivem (upd (alivem s) c true) |> set_lmapm (upd (lmapm s) c emptyZ)
                    |> set_verm (upd (verm s) c None) |> set_ncanm (upd (ncanm s) c 0)
                    |> set_pc c PNew) in
          match pool s with
          | g' :: rest => if Nat.eqb g g' then go rest else None
          | [] => if gusedm s g then None else go []
          end
      | _ => None
      end
  | Resume t c =>
      match trunm s t with
      | None =>
          let go (p : pc) := Some (s |> set_trunm (upd (trunm s) t (Some c)) |> set_thrm (upd (thrm s) c t) |> set_pc c p) in
          match pcm s c with
          | PNew => go PBody
          | PReady k => go (PBack k)
          | _ => None
          end
      | Some _ => None
      end
  | With t k => access cf s t k None
  | SetV t k v => access cf s t k (Some v)
  | Call c k =>
      match pcm s c with
      | PBody =>
          if is_park k && ptokm s c then
            Some (s |> set_ptokm (upd (ptokm s) c false) |> set_verm (upd (verm s) c (Some None)) |> set_vkindm (upd (vkindm s) c k))
          else if canceled s c then
            if is_select k && negb (panim s c) then Some (s |> set_para_of c None |> raise c)
            else Some (s |> set_para_of c (Some ECanceled) |> set_pc c (PShort k))
          else Some (s |> set_trunm (upd (trunm s) (thrm s c) None) |> set_pc c (PSusp k))
      | _ => None
      end
  | Wake c =>
      match pcm s c with
      | PSusp k => if plain_wake k then Some (s |> set_pc c (PReady k)) else None
      | _ => None
      end
  | Unpark c =>
      match pcm s c with
      | PNone => None
      | PSusp k =>
          if ptokm s c then Some s
          else if is_park k then Some (s |> set_ptokm (upd (ptokm s) c true) |> set_pc c (PReady k))
          else Some (s |> set_ptokm (upd (ptokm s) c true))
      | _ => Some (s |> set_ptokm (upd (ptokm s) c true))
      end
  | Timer c =>
      match pcm s c with
      | PSusp k => if has_timer k then Some (s |> set_para_of c (Some ETimeout) |> set_pc c (PReady k)) else None
      | _ => None
      end
  | Cancel c =>
      match pcm s c with
      | PNone => None
      | _ => Some (s |> set_cbitm (upd (cbitm s) c true) |> set_ncanm (upd (ncanm s) c (S (ncanm s c))) |> cancel_wake c)
      end
  | Recheck c =>
      match pcm s c with
      | PSusp _ => if canceled s c then Some (cancel_wake c s) else None
      | _ => None
      end
  | Back c =>
      let go (k : bkind) :=
        match yb_of k with
        | YCheck =>
            if canceled s c then
              if panim s c then Some (s |> set_para_of c None |> set_pc c (PAfter k))
              else Some (s |> set_para_of c None |> raise c)
            else Some (s |> set_pc c (PAfter k))
        | YNone => Some (s |> set_pc c (PAfter k))
        | YSelect =>
            match para_of s c with
            | Some _ => if panim s c then None else Some (s |> set_para_of c None |> raise c)
            | None => Some (s |> set_pc c (PAfter k))
            end
        | YClear =>
            if fixW cf then Some (s |> set_cbitm (upd (cbitm s) c false) |> set_para_of c None |> set_pc c (PAfter k))
            else Some (s |> set_cbitm (upd (cbitm s) c false)
                         |> set_leakm (upd (leakm s) (genm s c) (leakm s (genm s c) || isSome (para_of s c)))
                         |> set_pc c (PAfter k))
        end in
      match pcm s c with
      | PShort k => go k
      | PBack k => go k
      | _ => None
      end
  | After c =>
      match pcm s c with
      | PAfter k =>
          let s1 := s |> set_ptokm (upd (ptokm s) c (negb (is_park k) && ptokm s c)) in
          if consumes k then
            Some (s1 |> set_verm (upd (verm s) c (Some (para_of s c))) |> set_vkindm (upd (vkindm s) c k)
                     |> set_para_of c None |> set_pc c PBody)
          else Some (s1 |> set_pc c PBody)
      | _ => None
      end
  | Disable c =>
      match pcm s c with PBody => Some (s |> set_cdism (upd (cdism s) c (S (cdism s c)))) | _ => None end
  | Enable c =>
      match pcm s c, cdism s c with
      | PBody, S n => Some (s |> set_cdism (upd (cdism s) c n))
      | _, _ => None
      end
  | Panic c =>
      match pcm s c with
      | PBody => if panim s c then None else Some (s |> set_panim (upd (panim s) c true))
      | _ => None
      end
  | Finish c =>
      match pcm s c with
      | PBody => Some (s |> set_trunm (upd (trunm s) (thrm s c) None) |> set_pc c PEnd)
      | _ => None
      end
  | DPut c keep =>
      match pcm s c with
      | PEnd =>
          let g := genm s c in
          Some (s |> set_goccm (upd (goccm s) g None) |> set_pool (if keep then pool s ++ [g] else pool s) |> set_pc c PPut)
      | _ => None
      end
  | DFree c =>
      match pcm s c with
      | PPut =>
          Some (s |> set_alivem (upd (alivem s) c false)
                  |> set_ndropm (upd (ndropm s) c (fun k => ndropm s c k + (1 - fresh01 (lmapm s c) k)))
                  |> set_lmapm (upd (lmapm s) c emptyZ)
                  |> set_pc c PDone)
      | _ => None
      end
  end.

Inductive Reach (cf : cfg) : st -> Prop :=
  | R0 : Reach cf (init cf)
  | RS s a s' : Reach cf s -> step cf s a = Some s' -> Reach cf s'.

Fixpoint run (cf : cfg) (s : st) (l : list action) : option st :=
  match l with
  | [] => Some s
  | a :: l' => match step cf s a with Some s' => run cf s' l' | None => None end
  end.

(* the code as it is in /repo (pool capacity n), and as it was before commit 172d8b3 (finding F30) *)
Definition initv0 (k : nat) : Z := Z.of_nat (100 * (k + 1)).
Definition current (n : nat) : cfg := {| fixW := true; initv := initv0; cap := n |}.
Definition prefix (n : nat) : cfg := {| fixW := false; initv := initv0; cap := n |}.
