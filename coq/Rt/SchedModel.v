(* SchedModel + JoinModel: the life cycle of coroutines in `may` at the upper layer (C01, C13).
   Definitions only.

   Code modelled (CURRENT tree): src/coroutine_impl.rs (spawn_impl, the closure wrapper
   `their_packet.store(f()); their_join.trigger(); subscriber(Done)`, run_coroutine with its panic path,
   Done::drop_coroutine), src/join.rs (Join::trigger, Join::wait - the loop that re-registers until
   `state` is false -, JoinHandle::{is_done, wait, join}), src/scheduler.rs (schedule, schedule_global,
   schedule_global_with_id, collect_global, run_queued_tasks, the timer thread running a coroutine
   itself), src/yield_now.rs (yield_with: context switch to the kernel half `subscribe`).

   Lower layers are the abstract objects of DESIGN 2.1:
     * run queues (global mpsc queue k, local spmc queue of thread t) are atomic FIFOs: push at the
       back, removal at the front.  bulk_pop / steal batches are sequences of single removals (`Grab`)
       into the thread's hand followed by `Put` (push_back into the own local queue) - every
       interleaving of the atomic batch operation is one of these.
     * a Blocker is its token `tok`; `unpark` is detached from the caller: Join::trigger's
       `w.unpark()` adds w to `punp`, the effect (`DoUnpark`: token set, a parked coroutine owner is
       moved from its slot to a run queue) happens at some later step.  This over-approximates the
       real unpark, which completes before trigger returns.
     * "suspended in a slot" is the list `slots` (Park::wait_co, timer entries, io data, cqueue ...):
       the kernel half stores the coroutine there (`KStore`), a waker removes it (`Wake` into a run
       queue: unparker / canceller; `TakeSlot` into the hand of the timer thread, which resumes it
       itself; `KSelfTake`: the fast path of Park::subscribe running the coroutine itself).

   WHO may operate on which queue is deliberately not restricted (any thread without a coroutine on
   its stack may Grab from any queue): worker k's loop, stealing from the ring and the timer thread
   are all instances, and the safety theorems hold for the larger system.  The worker loop with its
   eventfd / idle wait is the separate small model Rt/SchedLoop.v (progress, C01.v).

   One transition per shared-memory access of join.rs and of the wrapper, in program order:

     Join::wait      JW0 state.load  JW1 to_wake.store(cur)  JW2 state.load  JW3 cur.park  JW4 to_wake.take
     join            JT1 packet.take  JT2 panic.take (else Cancel)
     is_done         ID0 state.load
     wrapper         CF  packet.store(v)  CT1 state.store(false)  CT2 to_wake.take  CT3 w.unpark  CRet return Done
     panic path      PP0 panic.store(v)   PT1 state.store(false)  PT2 to_wake.take  PT3 w.unpark  PD drop_coroutine
     spawn           SG  NEXT_THREAD_ID.fetch_add  SP global.push  SW wakeup(k)   |  SL run_coroutine (spawn_local)

   Ghost state (never read by the code part of `step`): loc (where the coroutine token is), bodycnt
   (how often the closure body was entered), outcome (how the body ended), jret (what join returned),
   ptaken. *)
From Coq Require Import List Arith ZArith Bool Lia.
Import ListNotations.

Inductive ag := AT (t : nat) | AC (c : nat).
Inductive res := RVal (v : Z) | RPan (v : Z) | RCancel.
Inductive jmode := MJoin | MWait.
Inductive gstate := GInit | GLive | GFin.
Inductive place := LNone | LG (k : nat) | LL (t : nat) | LH (t : nat) | LRun (t : nat) | LSlot | LDead.
Inductive qid := QG (k : nat) | QL (t : nat).

(* control point of the wait()/join() call in progress on a JoinHandle; it is kept with the Join object
   (the handle has one owner, so there is at most one such call) *)
Inductive jpc :=
  | JW0 (m : jmode) | JW1 (m : jmode) | JW2 (m : jmode) (b : nat)
  | JW3 (m : jmode) (b : nat) | JW3p (m : jmode) (b : nat) | JW4 (m : jmode) (b : nat)
  | JT1 | JT2.

Inductive pc :=
  | Idle
  | SG (c : nat) | SP (c k : nat) | SW (k : nat) | SL (c : nat)
  | InJ (d : nat)                      (* inside wait()/join() of coroutine d: see jcall *)
  | ID0 (d : nat)
  | CF (v : Z) | CT1 | CT2 | CT3 (w : nat) | CRet
  | PP0 (v : Z) | PT1 | PT2 | PT3 (w : nat) | PD.

Inductive kpc := K0 | KG (k : nat) | KW (k : nat) | KRe | KRun | KD | KEnd.
Inductive frame := FRun (c : nat) | FKer (c : nat) (k : kpc) | FPan (c : nat).

Record cor := {
  spawned : bool;
  gst : gstate;             (* generator: closure not entered yet / entered / returned or unwound *)
  upc : pc;                 (* control point of the coroutine's own code (user half, wrapper, panic path) *)
  cancelled : bool;         (* Cancel.state bit 0 *)
  (* the Join object and the two result slots *)
  jstate : bool;            (* Join.state: true = not finished *)
  jwake : option nat;       (* Join.to_wake: a blocker *)
  pkt : option Z;           (* packet *)
  pan : option Z;           (* panic payload *)
  jcall : option (ag * jpc); (* the wait()/join() call in progress on the JoinHandle: who, and where it is *)
  jdone : bool;             (* join(self) consumed the handle *)
  (* ghost *)
  loc : place;
  bodycnt : nat;
  outcome : option res;
  ptaken : bool;
  jret : option res }.

Record st := {
  co : nat -> cor;
  gq : nat -> list nat;     (* global queue k *)
  lq : nat -> list nat;     (* local queue of thread t *)
  hand : nat -> list nat;   (* coroutines held in local variables of thread t *)
  stk : nat -> list frame;  (* what thread t executes: innermost first *)
  slots : list nat;
  dead : list nat;
  tpc : nat -> pc;          (* control point of thread t's own code *)
  tok : nat -> bool;        (* token of blocker b (Blocker::current() makes a new one for every iteration of Join::wait) *)
  bjoin : nat -> nat;       (* ghost: the Join object blocker b was made for *)
  nextb : nat;
  punp : list nat;          (* unpark(b) issued by a trigger, effect pending *)
  rr : nat;                 (* NEXT_THREAD_ID *)
  nw : nat }.               (* workers *)

Definition upd {X} (f : nat -> X) i v := fun j => if Nat.eqb j i then v else f j.
Definition ag_eqb (x y : ag) : bool :=
  match x, y with AT a, AT b => Nat.eqb a b | AC a, AC b => Nat.eqb a b | _, _ => false end.

Definition cor0 := {| spawned := false; gst := GInit; upc := Idle; cancelled := false; jstate := true; jwake := None;
                      pkt := None; pan := None; jcall := None; jdone := false;
                      loc := LNone; bodycnt := 0; outcome := None; ptaken := false; jret := None |}.
Definition cor_new (l : place) := {| spawned := true; gst := GInit; upc := Idle; cancelled := false; jstate := true; jwake := None;
                      pkt := None; pan := None; jcall := None; jdone := false;
                      loc := l; bodycnt := 0; outcome := None; ptaken := false; jret := None |}.

Definition mkc sp g u cn js jw pk pn jb jd l bc oc pt jr :=
  {| spawned := sp; gst := g; upc := u; cancelled := cn; jstate := js; jwake := jw; pkt := pk; pan := pn; jcall := jb; jdone := jd;
     loc := l; bodycnt := bc; outcome := oc; ptaken := pt; jret := jr |}.
Definition c_upc (x : cor) u := mkc (spawned x) (gst x) u (cancelled x) (jstate x) (jwake x) (pkt x) (pan x) (jcall x) (jdone x) (loc x) (bodycnt x) (outcome x) (ptaken x) (jret x).
Definition c_loc (x : cor) l := mkc (spawned x) (gst x) (upc x) (cancelled x) (jstate x) (jwake x) (pkt x) (pan x) (jcall x) (jdone x) l (bodycnt x) (outcome x) (ptaken x) (jret x).
Definition c_canc (x : cor) b := mkc (spawned x) (gst x) (upc x) b (jstate x) (jwake x) (pkt x) (pan x) (jcall x) (jdone x) (loc x) (bodycnt x) (outcome x) (ptaken x) (jret x).
Definition c_jstate (x : cor) b := mkc (spawned x) (gst x) (upc x) (cancelled x) b (jwake x) (pkt x) (pan x) (jcall x) (jdone x) (loc x) (bodycnt x) (outcome x) (ptaken x) (jret x).
Definition c_jwake (x : cor) w := mkc (spawned x) (gst x) (upc x) (cancelled x) (jstate x) w (pkt x) (pan x) (jcall x) (jdone x) (loc x) (bodycnt x) (outcome x) (ptaken x) (jret x).
Definition c_pkt (x : cor) p := mkc (spawned x) (gst x) (upc x) (cancelled x) (jstate x) (jwake x) p (pan x) (jcall x) (jdone x) (loc x) (bodycnt x) (outcome x) (ptaken x) (jret x).
Definition c_pan (x : cor) p := mkc (spawned x) (gst x) (upc x) (cancelled x) (jstate x) (jwake x) (pkt x) p (jcall x) (jdone x) (loc x) (bodycnt x) (outcome x) (ptaken x) (jret x).
Definition c_jcall (x : cor) b := mkc (spawned x) (gst x) (upc x) (cancelled x) (jstate x) (jwake x) (pkt x) (pan x) b (jdone x) (loc x) (bodycnt x) (outcome x) (ptaken x) (jret x).
(* join returns r: the handle is consumed *)
Definition c_jfin (x : cor) r := mkc (spawned x) (gst x) (upc x) (cancelled x) (jstate x) (jwake x) (pkt x) (pan x) None true (loc x) (bodycnt x) (outcome x) (ptaken x) (Some r).
Definition c_ptaken (x : cor) := mkc (spawned x) (gst x) (upc x) (cancelled x) (jstate x) (jwake x) (pkt x) (pan x) (jcall x) (jdone x) (loc x) (bodycnt x) (outcome x) true (jret x).
(* the generator is resumed: the first resumption enters the closure body *)
Definition c_resume (x : cor) l :=
  mkc (spawned x) (match gst x with GInit => GLive | g => g end) (upc x) (cancelled x) (jstate x) (jwake x) (pkt x) (pan x) (jcall x) (jdone x) l
      (match gst x with GInit => S (bodycnt x) | _ => bodycnt x end) (outcome x) (ptaken x) (jret x).
(* the body ends: by return (still GLive until the wrapper returns), by panic / cancel unwinding *)
Definition c_end (x : cor) g u o := mkc (spawned x) g u (cancelled x) (jstate x) (jwake x) (pkt x) (pan x) (jcall x) (jdone x) (loc x) (bodycnt x) (Some o) (ptaken x) (jret x).
Definition c_gst (x : cor) g := mkc (spawned x) g (upc x) (cancelled x) (jstate x) (jwake x) (pkt x) (pan x) (jcall x) (jdone x) (loc x) (bodycnt x) (outcome x) (ptaken x) (jret x).

Definition mk c g l h k sl d tp tk bo nb pu r n :=
  {| co := c; gq := g; lq := l; hand := h; stk := k; slots := sl; dead := d; tpc := tp; tok := tk; bjoin := bo; nextb := nb; punp := pu; rr := r; nw := n |}.
Definition s_co s f := mk f (gq s) (lq s) (hand s) (stk s) (slots s) (dead s) (tpc s) (tok s) (bjoin s) (nextb s) (punp s) (rr s) (nw s).
Definition s_gq s f := mk (co s) f (lq s) (hand s) (stk s) (slots s) (dead s) (tpc s) (tok s) (bjoin s) (nextb s) (punp s) (rr s) (nw s).
Definition s_lq s f := mk (co s) (gq s) f (hand s) (stk s) (slots s) (dead s) (tpc s) (tok s) (bjoin s) (nextb s) (punp s) (rr s) (nw s).
Definition s_hand s f := mk (co s) (gq s) (lq s) f (stk s) (slots s) (dead s) (tpc s) (tok s) (bjoin s) (nextb s) (punp s) (rr s) (nw s).
Definition s_stk s f := mk (co s) (gq s) (lq s) (hand s) f (slots s) (dead s) (tpc s) (tok s) (bjoin s) (nextb s) (punp s) (rr s) (nw s).
Definition s_slots s f := mk (co s) (gq s) (lq s) (hand s) (stk s) f (dead s) (tpc s) (tok s) (bjoin s) (nextb s) (punp s) (rr s) (nw s).
Definition s_dead s f := mk (co s) (gq s) (lq s) (hand s) (stk s) (slots s) f (tpc s) (tok s) (bjoin s) (nextb s) (punp s) (rr s) (nw s).
Definition s_tpc s f := mk (co s) (gq s) (lq s) (hand s) (stk s) (slots s) (dead s) f (tok s) (bjoin s) (nextb s) (punp s) (rr s) (nw s).
Definition s_tok s f := mk (co s) (gq s) (lq s) (hand s) (stk s) (slots s) (dead s) (tpc s) f (bjoin s) (nextb s) (punp s) (rr s) (nw s).
Definition s_newb s d := mk (co s) (gq s) (lq s) (hand s) (stk s) (slots s) (dead s) (tpc s) (upd (tok s) (nextb s) false) (upd (bjoin s) (nextb s) d) (S (nextb s)) (punp s) (rr s) (nw s).
Definition s_punp s f := mk (co s) (gq s) (lq s) (hand s) (stk s) (slots s) (dead s) (tpc s) (tok s) (bjoin s) (nextb s) f (rr s) (nw s).
Definition s_rr s f := mk (co s) (gq s) (lq s) (hand s) (stk s) (slots s) (dead s) (tpc s) (tok s) (bjoin s) (nextb s) (punp s) f (nw s).

Definition rm := remove Nat.eq_dec.
Definition memb (c : nat) (l : list nat) : bool := existsb (Nat.eqb c) l.
Fixpoint rm1 (w : nat) (l : list nat) : list nat :=
  match l with [] => [] | x :: r => if Nat.eqb x w then r else x :: rm1 w r end.

(* update coroutine c with f *)
Definition on_co s c (f : cor -> cor) := s_co s (upd (co s) c (f (co s c))).
Definition getq s q := match q with QG k => gq s k | QL t => lq s t end.
Definition setq s q l := match q with QG k => s_gq s (upd (gq s) k l) | QL t => s_lq s (upd (lq s) t l) end.
Definition qloc q := match q with QG k => LG k | QL t => LL t end.
Definition pushq s q c := setq s q (getq s q ++ [c]).
Definition add_hand s t c := s_hand s (upd (hand s) t (hand s t ++ [c])).
Definition del_hand s t c := s_hand s (upd (hand s) t (rm c (hand s t))).
Definition set_stk s t l := s_stk s (upd (stk s) t l).

(* the agent whose user-level code thread t executes, if any *)
Definition cur s t : option ag :=
  match stk s t with
  | [] => Some (AT t)
  | FRun c :: _ => Some (AC c)
  | _ => None end.
Definition apc s (a : ag) : pc := match a with AT t => tpc s t | AC c => upc (co s c) end.
Definition set_apc s (a : ag) (p : pc) : st :=
  match a with AT t => s_tpc s (upd (tpc s) t p) | AC c => on_co s c (fun x => c_upc x p) end.
(* a coroutine executes user code only while its closure is live *)
Definition live_ag s (a : ag) : bool := match a with AT _ => true | AC c => match gst (co s c) with GLive => true | _ => false end end.
Definition base_idle s t : bool := match stk s t, tpc s t with [], Idle => true | _, _ => false end.

Inductive action :=
  (* user level: executed by the agent that is current on thread t *)
  | ASpawn (t c : nat) (id : option nat) (local : bool)
  | AJoin (t d : nat) (m : jmode)
  | AIsDone (t d : nat)
  | ACancel (t d : nat)
  | AYield (t : nat)                  (* the coroutine yields to its kernel half (any event source; Blocker::park inside Join::wait) *)
  | AFinish (t : nat) (v : Z)         (* the closure body returns v *)
  | APanic (t : nat) (v : option Z)   (* the closure body panics with payload v / unwinds by cancellation (None) *)
  | AStep (t : nat)                   (* next shared access of the operation in progress (also wrapper and panic path) *)
  | AFire (t : nat)                   (* a parked thread is woken without its token (timeout / spurious) *)
  (* kernel half `subscribe` of the coroutine that just yielded on thread t *)
  | KLocal (t : nat) | KFA (t : nat) | KStep (t : nat) | KStore (t : nat) | KSelfTake (t : nat) | KSkip (t : nat)
  | KDrop (t : nat) | KSubscribed (t : nat)
  (* scheduler side *)
  | Grab (t : nat) (q : qid) | Put (t : nat) | TakeSlot (t c : nat) | Resume (t c : nat)
  | Wake (c : nat) (q : qid)
  | DoUnpark (w : nat) (q : qid).

(* the control point of agent a's call on the handle of d *)
Definition call_of s (a : ag) (d : nat) : option jpc :=
  match jcall (co s d) with Some (a', p) => if ag_eqb a' a then Some p else None | None => None end.
Definition set_call s (a : ag) (d : nat) (p : jpc) : st := on_co s d (fun x => c_jcall x (Some (a, p))).
Definition end_call s (d : nat) : st := on_co s d (fun x => c_jcall x None).

(* coroutine c is resumed: if it was suspended in Blocker::park of Join::wait the park returns;
   Park::park_timeout clears the token after it was resumed, whatever the reason *)
Definition park_ret (s : st) (c : nat) : st :=
  match upc (co s c) with
  | InJ d => match call_of s (AC c) d with
             | Some (JW3p m b) => s_tok (set_call s (AC c) d (JW0 m)) (upd (tok s) b false)
             | _ => s end
  | _ => s end.

Definition pc_idle (p : pc) : bool := match p with Idle => true | _ => false end.

(* Join::trigger's two accesses after the store, shared by wrapper and panic path *)
Definition take_wake s c (some : nat -> pc) (none : pc) : st :=
  match jwake (co s c) with
  | Some w => on_co s c (fun x => c_upc (c_jwake x None) (some w))
  | None => on_co s c (fun x => c_upc x none) end.

Definition step (s : st) (ac : action) : option st :=
  match ac with
  | ASpawn t c id local =>
      match cur s t with
      | Some a =>
        if pc_idle (apc s a) && live_ag s a && negb (spawned (co s c))
        then let s1 := add_hand (s_co s (upd (co s) c (cor_new (LH t)))) t c in
             Some (set_apc s1 a (if local then SL c else match id with None => SG c | Some i => SP c (i mod nw s) end))
        else None
      | None => None end
  | AJoin t d m =>
      match cur s t with
      | Some a =>
        if pc_idle (apc s a) && live_ag s a && spawned (co s d) && negb (jdone (co s d))
        then match jcall (co s d) with
             | None => Some (set_apc (set_call s a d (JW0 m)) a (InJ d))
             | Some _ => None end
        else None
      | None => None end
  | AIsDone t d =>
      match cur s t with
      | Some a => if pc_idle (apc s a) && live_ag s a && spawned (co s d) then Some (set_apc s a (ID0 d)) else None
      | None => None end
  | ACancel t d =>
      match cur s t with
      | Some a => if pc_idle (apc s a) && live_ag s a && spawned (co s d) then Some (on_co s d (fun x => c_canc x true)) else None
      | None => None end
  | AYield t =>
      match stk s t with
      | FRun c :: rest =>
          let go (s0 : st) := Some (add_hand (set_stk (on_co s0 c (fun x => c_loc x (LH t))) t (FKer c K0 :: rest)) t c) in
          match gst (co s c), upc (co s c) with
          | GLive, Idle => go s
          | GLive, CRet => go s        (* trigger drops the last reference to the waiter's blocker: Park::drop waits for the kernel half with yield_now() *)
          | GLive, InJ d =>
              match call_of s (AC c) d with
              | Some (JW0 _) => go s   (* the same when Join::wait drops its blocker after the park *)
              | Some (JW3 m b) => go (set_call s (AC c) d (JW3p m b))    (* Blocker::park *)
              | _ => None end
          | _, _ => None end
      | _ => None end
  | AFinish t v =>
      match stk s t with
      | FRun c :: _ =>
          match gst (co s c), upc (co s c) with
          | GLive, Idle => Some (on_co s c (fun x => c_end x GLive (CF v) (RVal v)))
          | _, _ => None end
      | _ => None end
  | APanic t v =>
      match stk s t with
      | FRun c :: rest =>
          let go (s0 : st) :=
            Some (add_hand (set_stk (on_co s0 c (fun x => c_loc (c_end x GFin (match v with Some p => PP0 p | None => PT1 end)
                                                                   (match v with Some p => RPan p | None => RCancel end)) (LH t)))
                                    t (FPan c :: rest)) t c) in
          if (match v with None => cancelled (co s c) | Some _ => true end)
          then match gst (co s c), upc (co s c) with
               | GLive, Idle => go s
               | GLive, InJ d =>      (* unwinding out of Join::wait (cancelled in park) releases the handle *)
                   match call_of s (AC c) d with
                   | Some (JW0 _) | Some (JW3 _ _) => go (end_call s d)
                   | _ => None end
               | _, _ => None end
          else None
      | _ => None end
  | AFire t =>
      match stk s t, tpc s t with
      | [], InJ d => match call_of s (AT t) d with
                     | Some (JW3p m b) => Some (s_tok (set_call s (AT t) d (JW0 m)) (upd (tok s) b false))
                     | _ => None end
      | _, _ => None end
  | AStep t =>
      match stk s t with
      | FPan c :: rest =>
          match upc (co s c) with
          | PP0 v => Some (on_co s c (fun x => c_upc (c_pan x (Some v)) PT1))
          | PT1 => Some (on_co s c (fun x => c_upc (c_jstate x false) PT2))
          | PT2 => Some (take_wake s c PT3 PD)
          | PT3 w => Some (on_co (s_punp s (punp s ++ [w])) c (fun x => c_upc x PD))
          | PD => if memb c (hand s t)
                  then Some (s_dead (set_stk (del_hand (on_co s c (fun x => c_loc x LDead)) t c) t rest) (c :: dead s))
                  else None
          | _ => None end
      | FKer _ _ :: _ => None
      | _ =>
        match cur s t with
        | None => None
        | Some a =>
          if live_ag s a then
          match apc s a with
          | SG c => Some (s_rr (set_apc s a (SP c (rr s mod nw s))) (S (rr s)))
          | SP c k => if memb c (hand s t)
                      then Some (set_apc (pushq (del_hand (on_co s c (fun x => c_loc x (LG k))) t c) (QG k) c) a (SW k))
                      else None
          | SW k => Some (set_apc s a Idle)
          | InJ d =>
              match call_of s a d with
              | Some (JW0 m) => if jstate (co s d) then Some (set_call s a d (JW1 m))
                                else match m with
                                     | MWait => Some (set_apc (end_call s d) a Idle)
                                     | MJoin => Some (set_call s a d JT1) end
              | Some (JW1 m) => let b := nextb s in Some (on_co (s_newb s d) d (fun x => c_jcall (c_jwake x (Some b)) (Some (a, JW2 m b))))
              | Some (JW2 m b) => Some (set_call s a d (if jstate (co s d) then JW3 m b else JW4 m b))
              | Some (JW4 m b) => Some (on_co s d (fun x => c_jcall (c_jwake x None) (Some (a, JW0 m))))
              | Some (JW3 m b) => if tok s b then Some (s_tok (set_call s a d (JW0 m)) (upd (tok s) b false))
                                  else match a with
                                       | AT _ => Some (set_call s a d (JW3p m b))
                                       | AC _ => None end     (* a coroutine parks by AYield *)
              | Some (JW3p m b) => match a with
                                   | AT _ => if tok s b then Some (s_tok (set_call s a d (JW0 m)) (upd (tok s) b false)) else None
                                   | AC _ => None end
              | Some JT1 => match pkt (co s d) with
                            | Some v => Some (set_apc (on_co s d (fun x => c_jfin (c_ptaken (c_pkt x None)) (RVal v))) a Idle)
                            | None => Some (set_call s a d JT2) end
              | Some JT2 => match pan (co s d) with
                            | Some v => Some (set_apc (on_co s d (fun x => c_jfin (c_pan x None) (RPan v))) a Idle)
                            | None => Some (set_apc (on_co s d (fun x => c_jfin x RCancel)) a Idle) end
              | None => None end
          | ID0 d => Some (set_apc s a Idle)
          | CF v => match a with AC c => Some (on_co s c (fun x => c_upc (c_pkt x (Some v)) CT1)) | _ => None end
          | CT1 => match a with AC c => Some (on_co s c (fun x => c_upc (c_jstate x false) CT2)) | _ => None end
          | CT2 => match a with AC c => Some (take_wake s c CT3 CRet) | _ => None end
          | CT3 w => match a with AC c => Some (on_co (s_punp s (punp s ++ [w])) c (fun x => c_upc x CRet)) | _ => None end
          | CRet => match a, stk s t with
                    | AC c, _ :: rest => Some (add_hand (set_stk (on_co s c (fun x => c_loc (c_gst x GFin) (LH t))) t (FKer c KD :: rest)) t c)
                    | _, _ => None end
          | _ => None end
          else None
        end
      end
  | KLocal t =>
      match stk s t with
      | FKer c K0 :: rest => if memb c (hand s t)
                             then Some (set_stk (pushq (del_hand (on_co s c (fun x => c_loc x (LL t))) t c) (QL t) c) t (FKer c KEnd :: rest))
                             else None
      | _ => None end
  | KFA t =>
      match stk s t with
      | FKer c K0 :: rest => Some (s_rr (set_stk s t (FKer c (KG (rr s mod nw s)) :: rest)) (S (rr s)))
      | _ => None end
  | KStep t =>
      match stk s t with
      | FKer c (KG k) :: rest => if memb c (hand s t)
                                 then Some (set_stk (pushq (del_hand (on_co s c (fun x => c_loc x (LG k))) t c) (QG k) c) t (FKer c (KW k) :: rest))
                                 else None
      | FKer c (KW k) :: rest => Some (set_stk s t (FKer c KEnd :: rest))
      | _ => None end
  | KStore t =>
      match stk s t with
      | FKer c K0 :: rest => if memb c (hand s t)
                             then Some (set_stk (s_slots (del_hand (on_co s c (fun x => c_loc x LSlot)) t c) (slots s ++ [c])) t (FKer c KRe :: rest))
                             else None
      | _ => None end
  | KSelfTake t =>
      match stk s t with
      | FKer c KRe :: rest => if memb c (slots s)
                              then Some (set_stk (add_hand (s_slots (on_co s c (fun x => c_loc x (LH t))) (rm c (slots s))) t c) t (FKer c KRun :: rest))
                              else None
      | _ => None end
  | KSkip t =>
      match stk s t with
      | FKer c KRe :: rest => Some (set_stk s t (FKer c KEnd :: rest))
      | _ => None end
  | KDrop t =>
      match stk s t with
      | FKer c KD :: rest => if memb c (hand s t)
                             then Some (s_dead (set_stk (del_hand (on_co s c (fun x => c_loc x LDead)) t c) t (FKer c KEnd :: rest)) (c :: dead s))
                             else None
      | _ => None end
  | KSubscribed t =>
      match stk s t with
      | FKer c KEnd :: rest => Some (set_stk s t rest)
      | _ => None end
  | Grab t q =>
      if base_idle s t then
        match getq s q with
        | c :: r => Some (add_hand (setq (on_co s c (fun x => c_loc x (LH t))) q r) t c)
        | [] => None end
      else None
  | Put t =>
      if base_idle s t then
        match hand s t with
        | c :: _ => Some (pushq (del_hand (on_co s c (fun x => c_loc x (LL t))) t c) (QL t) c)
        | [] => None end
      else None
  | TakeSlot t c =>
      if base_idle s t && memb c (slots s)
      then Some (add_hand (s_slots (on_co s c (fun x => c_loc x (LH t))) (rm c (slots s))) t c)
      else None
  | Wake c q =>
      if memb c (slots s)
      then Some (pushq (s_slots (on_co s c (fun x => c_loc x (qloc q))) (rm c (slots s))) q c)
      else None
  | DoUnpark w q =>
      if memb w (punp s)
      then let s1 := s_tok (s_punp s (rm1 w (punp s))) (upd (tok s) w true) in
           match jcall (co s (bjoin s w)) with
           | Some (AC c, JW3p _ b) => if memb c (slots s1) && Nat.eqb b w
                                      then Some (pushq (s_slots (on_co s1 c (fun x => c_loc x (qloc q))) (rm c (slots s1))) q c)
                                      else Some s1
           | _ => Some s1 end
      else None
  | Resume t c =>
      if memb c (hand s t) then
        match gst (co s c) with
        | GFin => None
        | _ =>
          let s1 := del_hand (on_co (park_ret s c) c (fun x => c_resume x (LRun t))) t c in
          match stk s t with
          | FKer c' KRun :: rest => if Nat.eqb c' c then Some (set_stk s1 t (FRun c :: FKer c KEnd :: rest)) else None
          | l =>
            match cur s t with
            | Some a => match apc s a with
                        | Idle => match l with [] => Some (set_stk s1 t [FRun c]) | _ => None end
                        | SL c' => if Nat.eqb c' c && live_ag s a then Some (set_stk (set_apc s1 a Idle) t (FRun c :: l)) else None
                        | _ => None end
            | None => None end
          end
        end
      else None
  end.

Definition init (workers : nat) : st :=
  mk (fun _ => cor0) (fun _ => []) (fun _ => []) (fun _ => []) (fun _ => []) [] [] (fun _ => Idle) (fun _ => false) (fun _ => 0) 0 [] 0 workers.

Inductive Reach (w : nat) : st -> Prop :=
| R0 : Reach w (init w)
| RS s a s' : Reach w s -> step s a = Some s' -> Reach w s'.

Fixpoint steps (s : st) (l : list action) : option st :=
  match l with
  | [] => Some s
  | a :: l' => match step s a with Some s' => steps s' l' | None => None end
  end.

Lemma steps_reach w l : forall s s', Reach w s -> steps s l = Some s' -> Reach w s'.
Proof.
  induction l as [|a l IH]; cbn [steps]; intros s s' R H; [inversion H; subst; exact R|].
  destruct (step s a) as [s1|] eqn:E; [|discriminate]. eapply IH; [eapply RS; eauto | exact H].
Qed.
