(* C02 - model of src/park.rs (Park: check_park, park_timeout, unpark_impl, wake_up, subscribe, DropGuard,
   Park::drop), the cancelled short-cut of yield_with (src/yield_now.rs), Cancel::cancel / set_co
   (src/cancel.rs), the timer callback of src/scheduler.rs (take, set para TimedOut, run) and the
   AtomicDuration hand-over of the timeout (src/sync/atomic_dur.rs).

   ONE coroutine ("the parker") and ONE Park object at a time: the per-coroutine Park of
   `coroutine::park` (never replaced) or the Park of a fresh `Blocker` (action [ANewPark] replaces the
   object: everything that still refers to the old object can no longer reach the coroutine - except, before
   the repair of F31, the set_co of a kernel half that is still in flight, see [oldk] / AStaleSetco; with
   fixF31 the registration precedes the publication of the coroutine and [oldk] stays 0).  One transition = one shared-memory
   access of the Rust code, in program order; the schedule (list of actions) chooses the interleaving,
   the client program (which park calls with which timeouts, how many unparkers / cancellers, when time
   passes).  Definitions only; proofs are in ParkInv*.v / ParkThm.v.

   Parameters [fixF8], [fixF12], [fixF31]: the code as it is in /repo is [step true true true].
   [step false true true] is subscribe without the deadline self-check (before commit "Park::subscribe times
   out by itself when it was stalled past the deadline"), [step true false true] releases the kernel guard
   only after the nested resume (before commit "Park::subscribe releases the kernel guard before it resumes
   the coroutine itself"), [step true true false] registers the slot with the Cancel AFTER it has published
   the coroutine and re-checks the cancel by calling Cancel::cancel (before commit "Park, fast Park and Sleep
   register the cancel data before they publish the coroutine; the re-check wakes it up itself"); all three
   are kept for the `_refuted` witnesses. *)
From Coq Require Import List ZArith Bool Arith.
Import ListNotations.
Require Import MayV.Rt.AtomicDur MayV.Base.BlockerSpec.
Open Scope Z_scope.

Inductive cslot := CNone | CThis | CStale.          (* Cancel.co: empty / this Park's wait_co / the wait_co of an earlier Park *)
Inductive perr := PTimeout | PCanceled.             (* generator para: io::ErrorKind::TimedOut / Other *)

(* user half: Park::park_timeout, with yield_with and yield_now inlined *)
Inductive upc :=
| UIdle                                   (* between park calls (running) *)
| UCp1Load | UCp1Store | UCp1Swap         (* check_park #1: state.load / store(false) / swap(false) *)
| UWk                                     (* wait_kernel.load *)
| UWkD | UWkY1 | UWkY2 | UWkQ | UWkY3 | UWkE  (* wait_kernel_yield: disable_cancel, yield_now (is_canceled, co_yield, (queued), check_cancel), enable_cancel *)
| UTo                                     (* timeout.store(dur) *)
| UYc                                     (* yield_with: cancel.is_canceled() *)
| UYield                                  (* co_yield_with(park) *)
| USusp                                   (* suspended in this park *)
| UYb                                     (* yield_back: check_cancel flag load *)
| UCc                                     (* cancel.check_cancel(): state load, panic if set *)
| UCp2Load | UCp2Store | UCp2Swap         (* check_park #2 *)
| URm                                     (* remove_timeout_handle: timeout_handle.swap(null) *)
| UPara                                   (* get_co_para: the verdict *)
| UAway                                   (* yielded to some other event source from UIdle *)
| UDead.                                  (* finished or died by the cancel panic *)

(* kernel half: Park::subscribe, executed by whoever resumed the coroutine, after the context switch *)
Inductive kpc :=
| KIdle
| KDur                                    (* timeout.take(): swap(0) *)
| KNow                                    (* deadline = now() + dur *)
| KArm                                    (* add_timer(dur, wait_co.clone()) *)
| KHandle                                 (* set_timeout_handle: swap *)
| KGon                                    (* delay_drop: wait_kernel.store(true) *)
| KReg                                    (* cancel.set_co(wait_co.clone()) BEFORE the coroutine is published (fixF31) *)
| KStore                                  (* wait_co.store(co) *)
| KChk                                    (* now() >= deadline ? *)
| KStake                                  (* wait_co.take() of the self time-out *)
| KSgoff (got : bool)                     (* drop(g) *)
| KSrun                                   (* set_co_para(TimedOut); run_coroutine(co) *)
| KSload                                  (* state.load: the re-check *)
| KFtake                                  (* wait_co.take() of the self wake-up *)
| KFgoff (got : bool)
| KFrun                                   (* run_coroutine(co) *)
| KNest                                   (* only without fixF12: waiting for the nested run_coroutine to return *)
| KSetco                                  (* only without fixF31: cancel.set_co(wait_co.clone()) after the re-check of the token *)
| KCchk                                   (* cancel.is_canceled() *)
| KC1 | KC2 | KC3s                        (* only without fixF31: cancel.cancel(): fetch_or, co.take, take of a stale slot *)
| KC3 | KC4                               (* wait_co.take() of the cancel re-check (without fixF31: inside cancel()); set para + schedule *)
| KGoff.                                  (* DropGuard::drop at the end of subscribe *)

Inductive npc := NIdle | NTake (stale : bool) | NHold.       (* unparker: after swap(true) that returned false / holding the coroutine *)
Inductive cpc := CIdle | CTakeCo | CTake | CTakeS | CHold.   (* canceller *)
(* a timer entry: armed (linked) / removal requested by remove_timeout_handle but still linked / popped by the timer
   thread, callback pending / the callback has taken the coroutine / gone.  Its deadline is [tdl]. *)
Inductive tmst := TmNone | TmArmed | TmCanc | TmFired | TmHold | TmDone.
Inductive hold := HNone | HUn (i : nat) | HCn (i : nat) | HTm (i : nat).
Inductive wake := WNone | WUn (stale : bool) | WTm (spur : bool) | WCn | WSelfTok | WSelfTmo.

Record st := {
  pstate : bool;
  slot : bool;
  wk : bool;
  tmo : Z;
  hnd : option nat;
  ccheck : bool;
  cbit : bool;
  cdis : bool;
  cco : cslot;
  para : option perr;
  running : bool;
  rq : nat;
  up : upc;
  ud : option Z;
  kp : kpc;
  kdur : option Z;
  kdl : option Z;
  un : nat -> npc;
  cn : nat -> cpc;
  tm : nat -> tmst;
  tdl : nat -> Z;
  ntm : nat;
  now : Z;
  nested : bool;
  dropping : bool;
  oldk : nat;
  holder : hold;
  tcall : Z;
  tok0 : bool;
  ctok : bool;
  wsrc : wake;
  nclr : nat;
  lastv : option verdict;
  tainted : bool;
  susp : bool;
  ncall : nat
}.

Definition set_pstate (v : bool) (s : st) : st :=
  {| pstate := v; slot := slot s; wk := wk s; tmo := tmo s; hnd := hnd s; ccheck := ccheck s; cbit := cbit s; cdis := cdis s; cco := cco s; para := para s; running := running s; rq := rq s; up := up s; ud := ud s; kp := kp s; kdur := kdur s; kdl := kdl s; un := un s; cn := cn s; tm := tm s; tdl := tdl s; ntm := ntm s; now := now s; nested := nested s; dropping := dropping s; oldk := oldk s; holder := holder s; tcall := tcall s; tok0 := tok0 s; ctok := ctok s; wsrc := wsrc s; nclr := nclr s; lastv := lastv s; tainted := tainted s; susp := susp s; ncall := ncall s |}.
Definition set_slot (v : bool) (s : st) : st :=
  {| pstate := pstate s; slot := v; wk := wk s; tmo := tmo s; hnd := hnd s; ccheck := ccheck s; cbit := cbit s; cdis := cdis s; cco := cco s; para := para s; running := running s; rq := rq s; up := up s; ud := ud s; kp := kp s; kdur := kdur s; kdl := kdl s; un := un s; cn := cn s; tm := tm s; tdl := tdl s; ntm := ntm s; now := now s; nested := nested s; dropping := dropping s; oldk := oldk s; holder := holder s; tcall := tcall s; tok0 := tok0 s; ctok := ctok s; wsrc := wsrc s; nclr := nclr s; lastv := lastv s; tainted := tainted s; susp := susp s; ncall := ncall s |}.
Definition set_wk (v : bool) (s : st) : st :=
  {| pstate := pstate s; slot := slot s; wk := v; tmo := tmo s; hnd := hnd s; ccheck := ccheck s; cbit := cbit s; cdis := cdis s; cco := cco s; para := para s; running := running s; rq := rq s; up := up s; ud := ud s; kp := kp s; kdur := kdur s; kdl := kdl s; un := un s; cn := cn s; tm := tm s; tdl := tdl s; ntm := ntm s; now := now s; nested := nested s; dropping := dropping s; oldk := oldk s; holder := holder s; tcall := tcall s; tok0 := tok0 s; ctok := ctok s; wsrc := wsrc s; nclr := nclr s; lastv := lastv s; tainted := tainted s; susp := susp s; ncall := ncall s |}.
Definition set_tmo (v : Z) (s : st) : st :=
  {| pstate := pstate s; slot := slot s; wk := wk s; tmo := v; hnd := hnd s; ccheck := ccheck s; cbit := cbit s; cdis := cdis s; cco := cco s; para := para s; running := running s; rq := rq s; up := up s; ud := ud s; kp := kp s; kdur := kdur s; kdl := kdl s; un := un s; cn := cn s; tm := tm s; tdl := tdl s; ntm := ntm s; now := now s; nested := nested s; dropping := dropping s; oldk := oldk s; holder := holder s; tcall := tcall s; tok0 := tok0 s; ctok := ctok s; wsrc := wsrc s; nclr := nclr s; lastv := lastv s; tainted := tainted s; susp := susp s; ncall := ncall s |}.
Definition set_hnd (v : option nat) (s : st) : st :=
  {| pstate := pstate s; slot := slot s; wk := wk s; tmo := tmo s; hnd := v; ccheck := ccheck s; cbit := cbit s; cdis := cdis s; cco := cco s; para := para s; running := running s; rq := rq s; up := up s; ud := ud s; kp := kp s; kdur := kdur s; kdl := kdl s; un := un s; cn := cn s; tm := tm s; tdl := tdl s; ntm := ntm s; now := now s; nested := nested s; dropping := dropping s; oldk := oldk s; holder := holder s; tcall := tcall s; tok0 := tok0 s; ctok := ctok s; wsrc := wsrc s; nclr := nclr s; lastv := lastv s; tainted := tainted s; susp := susp s; ncall := ncall s |}.
Definition set_ccheck (v : bool) (s : st) : st :=
  {| pstate := pstate s; slot := slot s; wk := wk s; tmo := tmo s; hnd := hnd s; ccheck := v; cbit := cbit s; cdis := cdis s; cco := cco s; para := para s; running := running s; rq := rq s; up := up s; ud := ud s; kp := kp s; kdur := kdur s; kdl := kdl s; un := un s; cn := cn s; tm := tm s; tdl := tdl s; ntm := ntm s; now := now s; nested := nested s; dropping := dropping s; oldk := oldk s; holder := holder s; tcall := tcall s; tok0 := tok0 s; ctok := ctok s; wsrc := wsrc s; nclr := nclr s; lastv := lastv s; tainted := tainted s; susp := susp s; ncall := ncall s |}.
Definition set_cbit (v : bool) (s : st) : st :=
  {| pstate := pstate s; slot := slot s; wk := wk s; tmo := tmo s; hnd := hnd s; ccheck := ccheck s; cbit := v; cdis := cdis s; cco := cco s; para := para s; running := running s; rq := rq s; up := up s; ud := ud s; kp := kp s; kdur := kdur s; kdl := kdl s; un := un s; cn := cn s; tm := tm s; tdl := tdl s; ntm := ntm s; now := now s; nested := nested s; dropping := dropping s; oldk := oldk s; holder := holder s; tcall := tcall s; tok0 := tok0 s; ctok := ctok s; wsrc := wsrc s; nclr := nclr s; lastv := lastv s; tainted := tainted s; susp := susp s; ncall := ncall s |}.
Definition set_cdis (v : bool) (s : st) : st :=
  {| pstate := pstate s; slot := slot s; wk := wk s; tmo := tmo s; hnd := hnd s; ccheck := ccheck s; cbit := cbit s; cdis := v; cco := cco s; para := para s; running := running s; rq := rq s; up := up s; ud := ud s; kp := kp s; kdur := kdur s; kdl := kdl s; un := un s; cn := cn s; tm := tm s; tdl := tdl s; ntm := ntm s; now := now s; nested := nested s; dropping := dropping s; oldk := oldk s; holder := holder s; tcall := tcall s; tok0 := tok0 s; ctok := ctok s; wsrc := wsrc s; nclr := nclr s; lastv := lastv s; tainted := tainted s; susp := susp s; ncall := ncall s |}.
Definition set_cco (v : cslot) (s : st) : st :=
  {| pstate := pstate s; slot := slot s; wk := wk s; tmo := tmo s; hnd := hnd s; ccheck := ccheck s; cbit := cbit s; cdis := cdis s; cco := v; para := para s; running := running s; rq := rq s; up := up s; ud := ud s; kp := kp s; kdur := kdur s; kdl := kdl s; un := un s; cn := cn s; tm := tm s; tdl := tdl s; ntm := ntm s; now := now s; nested := nested s; dropping := dropping s; oldk := oldk s; holder := holder s; tcall := tcall s; tok0 := tok0 s; ctok := ctok s; wsrc := wsrc s; nclr := nclr s; lastv := lastv s; tainted := tainted s; susp := susp s; ncall := ncall s |}.
Definition set_para (v : option perr) (s : st) : st :=
  {| pstate := pstate s; slot := slot s; wk := wk s; tmo := tmo s; hnd := hnd s; ccheck := ccheck s; cbit := cbit s; cdis := cdis s; cco := cco s; para := v; running := running s; rq := rq s; up := up s; ud := ud s; kp := kp s; kdur := kdur s; kdl := kdl s; un := un s; cn := cn s; tm := tm s; tdl := tdl s; ntm := ntm s; now := now s; nested := nested s; dropping := dropping s; oldk := oldk s; holder := holder s; tcall := tcall s; tok0 := tok0 s; ctok := ctok s; wsrc := wsrc s; nclr := nclr s; lastv := lastv s; tainted := tainted s; susp := susp s; ncall := ncall s |}.
Definition set_running (v : bool) (s : st) : st :=
  {| pstate := pstate s; slot := slot s; wk := wk s; tmo := tmo s; hnd := hnd s; ccheck := ccheck s; cbit := cbit s; cdis := cdis s; cco := cco s; para := para s; running := v; rq := rq s; up := up s; ud := ud s; kp := kp s; kdur := kdur s; kdl := kdl s; un := un s; cn := cn s; tm := tm s; tdl := tdl s; ntm := ntm s; now := now s; nested := nested s; dropping := dropping s; oldk := oldk s; holder := holder s; tcall := tcall s; tok0 := tok0 s; ctok := ctok s; wsrc := wsrc s; nclr := nclr s; lastv := lastv s; tainted := tainted s; susp := susp s; ncall := ncall s |}.
Definition set_rq (v : nat) (s : st) : st :=
  {| pstate := pstate s; slot := slot s; wk := wk s; tmo := tmo s; hnd := hnd s; ccheck := ccheck s; cbit := cbit s; cdis := cdis s; cco := cco s; para := para s; running := running s; rq := v; up := up s; ud := ud s; kp := kp s; kdur := kdur s; kdl := kdl s; un := un s; cn := cn s; tm := tm s; tdl := tdl s; ntm := ntm s; now := now s; nested := nested s; dropping := dropping s; oldk := oldk s; holder := holder s; tcall := tcall s; tok0 := tok0 s; ctok := ctok s; wsrc := wsrc s; nclr := nclr s; lastv := lastv s; tainted := tainted s; susp := susp s; ncall := ncall s |}.
Definition set_up (v : upc) (s : st) : st :=
  {| pstate := pstate s; slot := slot s; wk := wk s; tmo := tmo s; hnd := hnd s; ccheck := ccheck s; cbit := cbit s; cdis := cdis s; cco := cco s; para := para s; running := running s; rq := rq s; up := v; ud := ud s; kp := kp s; kdur := kdur s; kdl := kdl s; un := un s; cn := cn s; tm := tm s; tdl := tdl s; ntm := ntm s; now := now s; nested := nested s; dropping := dropping s; oldk := oldk s; holder := holder s; tcall := tcall s; tok0 := tok0 s; ctok := ctok s; wsrc := wsrc s; nclr := nclr s; lastv := lastv s; tainted := tainted s; susp := susp s; ncall := ncall s |}.
Definition set_ud (v : option Z) (s : st) : st :=
  {| pstate := pstate s; slot := slot s; wk := wk s; tmo := tmo s; hnd := hnd s; ccheck := ccheck s; cbit := cbit s; cdis := cdis s; cco := cco s; para := para s; running := running s; rq := rq s; up := up s; ud := v; kp := kp s; kdur := kdur s; kdl := kdl s; un := un s; cn := cn s; tm := tm s; tdl := tdl s; ntm := ntm s; now := now s; nested := nested s; dropping := dropping s; oldk := oldk s; holder := holder s; tcall := tcall s; tok0 := tok0 s; ctok := ctok s; wsrc := wsrc s; nclr := nclr s; lastv := lastv s; tainted := tainted s; susp := susp s; ncall := ncall s |}.
Definition set_kp (v : kpc) (s : st) : st :=
  {| pstate := pstate s; slot := slot s; wk := wk s; tmo := tmo s; hnd := hnd s; ccheck := ccheck s; cbit := cbit s; cdis := cdis s; cco := cco s; para := para s; running := running s; rq := rq s; up := up s; ud := ud s; kp := v; kdur := kdur s; kdl := kdl s; un := un s; cn := cn s; tm := tm s; tdl := tdl s; ntm := ntm s; now := now s; nested := nested s; dropping := dropping s; oldk := oldk s; holder := holder s; tcall := tcall s; tok0 := tok0 s; ctok := ctok s; wsrc := wsrc s; nclr := nclr s; lastv := lastv s; tainted := tainted s; susp := susp s; ncall := ncall s |}.
Definition set_kdur (v : option Z) (s : st) : st :=
  {| pstate := pstate s; slot := slot s; wk := wk s; tmo := tmo s; hnd := hnd s; ccheck := ccheck s; cbit := cbit s; cdis := cdis s; cco := cco s; para := para s; running := running s; rq := rq s; up := up s; ud := ud s; kp := kp s; kdur := v; kdl := kdl s; un := un s; cn := cn s; tm := tm s; tdl := tdl s; ntm := ntm s; now := now s; nested := nested s; dropping := dropping s; oldk := oldk s; holder := holder s; tcall := tcall s; tok0 := tok0 s; ctok := ctok s; wsrc := wsrc s; nclr := nclr s; lastv := lastv s; tainted := tainted s; susp := susp s; ncall := ncall s |}.
Definition set_kdl (v : option Z) (s : st) : st :=
  {| pstate := pstate s; slot := slot s; wk := wk s; tmo := tmo s; hnd := hnd s; ccheck := ccheck s; cbit := cbit s; cdis := cdis s; cco := cco s; para := para s; running := running s; rq := rq s; up := up s; ud := ud s; kp := kp s; kdur := kdur s; kdl := v; un := un s; cn := cn s; tm := tm s; tdl := tdl s; ntm := ntm s; now := now s; nested := nested s; dropping := dropping s; oldk := oldk s; holder := holder s; tcall := tcall s; tok0 := tok0 s; ctok := ctok s; wsrc := wsrc s; nclr := nclr s; lastv := lastv s; tainted := tainted s; susp := susp s; ncall := ncall s |}.
Definition set_un (v : nat -> npc) (s : st) : st :=
  {| pstate := pstate s; slot := slot s; wk := wk s; tmo := tmo s; hnd := hnd s; ccheck := ccheck s; cbit := cbit s; cdis := cdis s; cco := cco s; para := para s; running := running s; rq := rq s; up := up s; ud := ud s; kp := kp s; kdur := kdur s; kdl := kdl s; un := v; cn := cn s; tm := tm s; tdl := tdl s; ntm := ntm s; now := now s; nested := nested s; dropping := dropping s; oldk := oldk s; holder := holder s; tcall := tcall s; tok0 := tok0 s; ctok := ctok s; wsrc := wsrc s; nclr := nclr s; lastv := lastv s; tainted := tainted s; susp := susp s; ncall := ncall s |}.
Definition set_cn (v : nat -> cpc) (s : st) : st :=
  {| pstate := pstate s; slot := slot s; wk := wk s; tmo := tmo s; hnd := hnd s; ccheck := ccheck s; cbit := cbit s; cdis := cdis s; cco := cco s; para := para s; running := running s; rq := rq s; up := up s; ud := ud s; kp := kp s; kdur := kdur s; kdl := kdl s; un := un s; cn := v; tm := tm s; tdl := tdl s; ntm := ntm s; now := now s; nested := nested s; dropping := dropping s; oldk := oldk s; holder := holder s; tcall := tcall s; tok0 := tok0 s; ctok := ctok s; wsrc := wsrc s; nclr := nclr s; lastv := lastv s; tainted := tainted s; susp := susp s; ncall := ncall s |}.
Definition set_tm (v : nat -> tmst) (s : st) : st :=
  {| pstate := pstate s; slot := slot s; wk := wk s; tmo := tmo s; hnd := hnd s; ccheck := ccheck s; cbit := cbit s; cdis := cdis s; cco := cco s; para := para s; running := running s; rq := rq s; up := up s; ud := ud s; kp := kp s; kdur := kdur s; kdl := kdl s; un := un s; cn := cn s; tm := v; tdl := tdl s; ntm := ntm s; now := now s; nested := nested s; dropping := dropping s; oldk := oldk s; holder := holder s; tcall := tcall s; tok0 := tok0 s; ctok := ctok s; wsrc := wsrc s; nclr := nclr s; lastv := lastv s; tainted := tainted s; susp := susp s; ncall := ncall s |}.
Definition set_tdl (v : nat -> Z) (s : st) : st :=
  {| pstate := pstate s; slot := slot s; wk := wk s; tmo := tmo s; hnd := hnd s; ccheck := ccheck s; cbit := cbit s; cdis := cdis s; cco := cco s; para := para s; running := running s; rq := rq s; up := up s; ud := ud s; kp := kp s; kdur := kdur s; kdl := kdl s; un := un s; cn := cn s; tm := tm s; tdl := v; ntm := ntm s; now := now s; nested := nested s; dropping := dropping s; oldk := oldk s; holder := holder s; tcall := tcall s; tok0 := tok0 s; ctok := ctok s; wsrc := wsrc s; nclr := nclr s; lastv := lastv s; tainted := tainted s; susp := susp s; ncall := ncall s |}.
Definition set_ntm (v : nat) (s : st) : st :=
  {| pstate := pstate s; slot := slot s; wk := wk s; tmo := tmo s; hnd := hnd s; ccheck := ccheck s; cbit := cbit s; cdis := cdis s; cco := cco s; para := para s; running := running s; rq := rq s; up := up s; ud := ud s; kp := kp s; kdur := kdur s; kdl := kdl s; un := un s; cn := cn s; tm := tm s; tdl := tdl s; ntm := v; now := now s; nested := nested s; dropping := dropping s; oldk := oldk s; holder := holder s; tcall := tcall s; tok0 := tok0 s; ctok := ctok s; wsrc := wsrc s; nclr := nclr s; lastv := lastv s; tainted := tainted s; susp := susp s; ncall := ncall s |}.
Definition set_now (v : Z) (s : st) : st :=
  {| pstate := pstate s; slot := slot s; wk := wk s; tmo := tmo s; hnd := hnd s; ccheck := ccheck s; cbit := cbit s; cdis := cdis s; cco := cco s; para := para s; running := running s; rq := rq s; up := up s; ud := ud s; kp := kp s; kdur := kdur s; kdl := kdl s; un := un s; cn := cn s; tm := tm s; tdl := tdl s; ntm := ntm s; now := v; nested := nested s; dropping := dropping s; oldk := oldk s; holder := holder s; tcall := tcall s; tok0 := tok0 s; ctok := ctok s; wsrc := wsrc s; nclr := nclr s; lastv := lastv s; tainted := tainted s; susp := susp s; ncall := ncall s |}.
Definition set_nested (v : bool) (s : st) : st :=
  {| pstate := pstate s; slot := slot s; wk := wk s; tmo := tmo s; hnd := hnd s; ccheck := ccheck s; cbit := cbit s; cdis := cdis s; cco := cco s; para := para s; running := running s; rq := rq s; up := up s; ud := ud s; kp := kp s; kdur := kdur s; kdl := kdl s; un := un s; cn := cn s; tm := tm s; tdl := tdl s; ntm := ntm s; now := now s; nested := v; dropping := dropping s; oldk := oldk s; holder := holder s; tcall := tcall s; tok0 := tok0 s; ctok := ctok s; wsrc := wsrc s; nclr := nclr s; lastv := lastv s; tainted := tainted s; susp := susp s; ncall := ncall s |}.
Definition set_dropping (v : bool) (s : st) : st :=
  {| pstate := pstate s; slot := slot s; wk := wk s; tmo := tmo s; hnd := hnd s; ccheck := ccheck s; cbit := cbit s; cdis := cdis s; cco := cco s; para := para s; running := running s; rq := rq s; up := up s; ud := ud s; kp := kp s; kdur := kdur s; kdl := kdl s; un := un s; cn := cn s; tm := tm s; tdl := tdl s; ntm := ntm s; now := now s; nested := nested s; dropping := v; oldk := oldk s; holder := holder s; tcall := tcall s; tok0 := tok0 s; ctok := ctok s; wsrc := wsrc s; nclr := nclr s; lastv := lastv s; tainted := tainted s; susp := susp s; ncall := ncall s |}.
Definition set_oldk (v : nat) (s : st) : st :=
  {| pstate := pstate s; slot := slot s; wk := wk s; tmo := tmo s; hnd := hnd s; ccheck := ccheck s; cbit := cbit s; cdis := cdis s; cco := cco s; para := para s; running := running s; rq := rq s; up := up s; ud := ud s; kp := kp s; kdur := kdur s; kdl := kdl s; un := un s; cn := cn s; tm := tm s; tdl := tdl s; ntm := ntm s; now := now s; nested := nested s; dropping := dropping s; oldk := v; holder := holder s; tcall := tcall s; tok0 := tok0 s; ctok := ctok s; wsrc := wsrc s; nclr := nclr s; lastv := lastv s; tainted := tainted s; susp := susp s; ncall := ncall s |}.
Definition set_holder (v : hold) (s : st) : st :=
  {| pstate := pstate s; slot := slot s; wk := wk s; tmo := tmo s; hnd := hnd s; ccheck := ccheck s; cbit := cbit s; cdis := cdis s; cco := cco s; para := para s; running := running s; rq := rq s; up := up s; ud := ud s; kp := kp s; kdur := kdur s; kdl := kdl s; un := un s; cn := cn s; tm := tm s; tdl := tdl s; ntm := ntm s; now := now s; nested := nested s; dropping := dropping s; oldk := oldk s; holder := v; tcall := tcall s; tok0 := tok0 s; ctok := ctok s; wsrc := wsrc s; nclr := nclr s; lastv := lastv s; tainted := tainted s; susp := susp s; ncall := ncall s |}.
Definition set_tcall (v : Z) (s : st) : st :=
  {| pstate := pstate s; slot := slot s; wk := wk s; tmo := tmo s; hnd := hnd s; ccheck := ccheck s; cbit := cbit s; cdis := cdis s; cco := cco s; para := para s; running := running s; rq := rq s; up := up s; ud := ud s; kp := kp s; kdur := kdur s; kdl := kdl s; un := un s; cn := cn s; tm := tm s; tdl := tdl s; ntm := ntm s; now := now s; nested := nested s; dropping := dropping s; oldk := oldk s; holder := holder s; tcall := v; tok0 := tok0 s; ctok := ctok s; wsrc := wsrc s; nclr := nclr s; lastv := lastv s; tainted := tainted s; susp := susp s; ncall := ncall s |}.
Definition set_tok0 (v : bool) (s : st) : st :=
  {| pstate := pstate s; slot := slot s; wk := wk s; tmo := tmo s; hnd := hnd s; ccheck := ccheck s; cbit := cbit s; cdis := cdis s; cco := cco s; para := para s; running := running s; rq := rq s; up := up s; ud := ud s; kp := kp s; kdur := kdur s; kdl := kdl s; un := un s; cn := cn s; tm := tm s; tdl := tdl s; ntm := ntm s; now := now s; nested := nested s; dropping := dropping s; oldk := oldk s; holder := holder s; tcall := tcall s; tok0 := v; ctok := ctok s; wsrc := wsrc s; nclr := nclr s; lastv := lastv s; tainted := tainted s; susp := susp s; ncall := ncall s |}.
Definition set_ctok (v : bool) (s : st) : st :=
  {| pstate := pstate s; slot := slot s; wk := wk s; tmo := tmo s; hnd := hnd s; ccheck := ccheck s; cbit := cbit s; cdis := cdis s; cco := cco s; para := para s; running := running s; rq := rq s; up := up s; ud := ud s; kp := kp s; kdur := kdur s; kdl := kdl s; un := un s; cn := cn s; tm := tm s; tdl := tdl s; ntm := ntm s; now := now s; nested := nested s; dropping := dropping s; oldk := oldk s; holder := holder s; tcall := tcall s; tok0 := tok0 s; ctok := v; wsrc := wsrc s; nclr := nclr s; lastv := lastv s; tainted := tainted s; susp := susp s; ncall := ncall s |}.
Definition set_wsrc (v : wake) (s : st) : st :=
  {| pstate := pstate s; slot := slot s; wk := wk s; tmo := tmo s; hnd := hnd s; ccheck := ccheck s; cbit := cbit s; cdis := cdis s; cco := cco s; para := para s; running := running s; rq := rq s; up := up s; ud := ud s; kp := kp s; kdur := kdur s; kdl := kdl s; un := un s; cn := cn s; tm := tm s; tdl := tdl s; ntm := ntm s; now := now s; nested := nested s; dropping := dropping s; oldk := oldk s; holder := holder s; tcall := tcall s; tok0 := tok0 s; ctok := ctok s; wsrc := v; nclr := nclr s; lastv := lastv s; tainted := tainted s; susp := susp s; ncall := ncall s |}.
Definition set_nclr (v : nat) (s : st) : st :=
  {| pstate := pstate s; slot := slot s; wk := wk s; tmo := tmo s; hnd := hnd s; ccheck := ccheck s; cbit := cbit s; cdis := cdis s; cco := cco s; para := para s; running := running s; rq := rq s; up := up s; ud := ud s; kp := kp s; kdur := kdur s; kdl := kdl s; un := un s; cn := cn s; tm := tm s; tdl := tdl s; ntm := ntm s; now := now s; nested := nested s; dropping := dropping s; oldk := oldk s; holder := holder s; tcall := tcall s; tok0 := tok0 s; ctok := ctok s; wsrc := wsrc s; nclr := v; lastv := lastv s; tainted := tainted s; susp := susp s; ncall := ncall s |}.
Definition set_lastv (v : option verdict) (s : st) : st :=
  {| pstate := pstate s; slot := slot s; wk := wk s; tmo := tmo s; hnd := hnd s; ccheck := ccheck s; cbit := cbit s; cdis := cdis s; cco := cco s; para := para s; running := running s; rq := rq s; up := up s; ud := ud s; kp := kp s; kdur := kdur s; kdl := kdl s; un := un s; cn := cn s; tm := tm s; tdl := tdl s; ntm := ntm s; now := now s; nested := nested s; dropping := dropping s; oldk := oldk s; holder := holder s; tcall := tcall s; tok0 := tok0 s; ctok := ctok s; wsrc := wsrc s; nclr := nclr s; lastv := v; tainted := tainted s; susp := susp s; ncall := ncall s |}.
Definition set_tainted (v : bool) (s : st) : st :=
  {| pstate := pstate s; slot := slot s; wk := wk s; tmo := tmo s; hnd := hnd s; ccheck := ccheck s; cbit := cbit s; cdis := cdis s; cco := cco s; para := para s; running := running s; rq := rq s; up := up s; ud := ud s; kp := kp s; kdur := kdur s; kdl := kdl s; un := un s; cn := cn s; tm := tm s; tdl := tdl s; ntm := ntm s; now := now s; nested := nested s; dropping := dropping s; oldk := oldk s; holder := holder s; tcall := tcall s; tok0 := tok0 s; ctok := ctok s; wsrc := wsrc s; nclr := nclr s; lastv := lastv s; tainted := v; susp := susp s; ncall := ncall s |}.
Definition set_susp (v : bool) (s : st) : st :=
  {| pstate := pstate s; slot := slot s; wk := wk s; tmo := tmo s; hnd := hnd s; ccheck := ccheck s; cbit := cbit s; cdis := cdis s; cco := cco s; para := para s; running := running s; rq := rq s; up := up s; ud := ud s; kp := kp s; kdur := kdur s; kdl := kdl s; un := un s; cn := cn s; tm := tm s; tdl := tdl s; ntm := ntm s; now := now s; nested := nested s; dropping := dropping s; oldk := oldk s; holder := holder s; tcall := tcall s; tok0 := tok0 s; ctok := ctok s; wsrc := wsrc s; nclr := nclr s; lastv := lastv s; tainted := tainted s; susp := v; ncall := ncall s |}.
Definition set_ncall (v : nat) (s : st) : st :=
  {| pstate := pstate s; slot := slot s; wk := wk s; tmo := tmo s; hnd := hnd s; ccheck := ccheck s; cbit := cbit s; cdis := cdis s; cco := cco s; para := para s; running := running s; rq := rq s; up := up s; ud := ud s; kp := kp s; kdur := kdur s; kdl := kdl s; un := un s; cn := cn s; tm := tm s; tdl := tdl s; ntm := ntm s; now := now s; nested := nested s; dropping := dropping s; oldk := oldk s; holder := holder s; tcall := tcall s; tok0 := tok0 s; ctok := ctok s; wsrc := wsrc s; nclr := nclr s; lastv := lastv s; tainted := tainted s; susp := susp s; ncall := v |}.

Definition upd {A} (f : nat -> A) (i : nat) (v : A) : nat -> A := fun j => if Nat.eqb j i then v else f j.
Notation "x |> f" := (f x) (at level 50, left associativity, only parsing).

Definition init : st :=
  {| pstate := false; slot := false; wk := false; tmo := 0; hnd := None; ccheck := true;
     cbit := false; cdis := false; cco := CNone; para := None; running := true; rq := 0%nat;
     up := UIdle; ud := None; kp := KIdle; kdur := None; kdl := None;
     un := fun _ => NIdle; cn := fun _ => CIdle; tm := fun _ => TmNone; tdl := fun _ => 0; ntm := 0%nat; now := 0;
     nested := false; dropping := false; oldk := 0%nat;
     holder := HNone; tcall := 0; tok0 := false; ctok := false; wsrc := WNone; nclr := 0%nat;
     lastv := None; tainted := false; susp := false; ncall := 0%nat |}.

Inductive action :=
| APark (d : option Z)        (* the parker calls park_timeout(d), d in ns *)
| AU                          (* next access of the user half *)
| AAway                       (* the parker yields to something else between two parks *)
| AExit (drop_here : bool)    (* the coroutine finishes; drop_here: it was the last owner of its handle, Park::drop runs here *)
| ANewPark (ign : bool)       (* the parker turns to a fresh Blocker (ign = ignore_cancel) *)
| AK                          (* next access of the kernel half *)
| AUnSwap (i : nat) | AUnTake (i : nat) | AUnSched (i : nat) | AUnRun (i : nat)
| ACnOr (i : nat) | ACnTakeCo (i : nat) | ACnTake (i : nat) | ACnSched (i : nat)
| ATFire (i : nat) | ATDrop (i : nat) | ATTake (i : nat) | ATRun (i : nat)
| ATick (d : Z)
| AResume                     (* a worker pops the coroutine from a run queue and resumes it *)
| AStaleSetco | AOldKDone     (* the kernel half of an earlier Blocker, still in flight, reaches / skips its set_co *)
| ADrop.                      (* Park::drop: while wait_kernel.load() { yield_now() } *)

Definition verdict_of (p : option perr) : verdict :=
  match p with None => VOk | Some PTimeout => VTimeout | Some PCanceled => VCanceled end.

(* every unparker that has swapped but not yet taken now refers to a token that was consumed *)
Definition mark_stale (f : nat -> npc) : nat -> npc :=
  fun i => match f i with NTake _ => NTake true | x => x end.

(* the clearing access of check_park *)
Definition clear_tok (s : st) : st :=
  if pstate s then s |> set_pstate false |> set_un (mark_stale (un s)) |> set_nclr (S (nclr s)) else s.

(* cancel panic / end of the coroutine *)
Definition die (s : st) : st :=
  s |> set_up UDead |> set_running false |> set_para None |> set_nested false.

(* Cancel::is_canceled: state == 1 (bit 0 set, not disabled) *)
Definition canceled (s : st) : bool := cbit s && negb (cdis s).

Definition armed_of (d : option Z) : option Z := dec (enc d).

Definition optnat_eqb (a b : option nat) : bool :=
  match a, b with Some x, Some y => Nat.eqb x y | None, None => true | _, _ => false end.

Section Step.
Variables fixF8 fixF12 fixF31 : bool.

Definition after_stake (b : bool) : kpc := if fixF12 then KSgoff b else if b then KSrun else KGoff.
Definition after_ftake (b : bool) : kpc := if fixF12 then KFgoff b else if b then KFrun else KGoff.
Definition after_run : kpc := if fixF12 then KIdle else KNest.

(* the kernel half of an earlier Blocker that has stored the coroutine but not yet reached set_co *)
Definition setco_ahead (k : kpc) : bool :=
  if fixF31 then false else match k with KChk | KSload | KSetco => true | _ => false end.

Definition ustep (s : st) : option st :=
  if negb (running s) then None else
  match up s with
  | UIdle | USusp | UWkQ | UAway | UDead => None
  | UCp1Load => Some (s |> set_up (if pstate s then UCp1Store else UCp1Swap))
  | UCp1Store => Some (clear_tok s |> set_lastv (Some VOk) |> set_up UIdle)
  | UCp1Swap => if pstate s then Some (clear_tok s |> set_lastv (Some VOk) |> set_up UIdle)
                else Some (s |> set_up UWk)
  | UWk => Some (s |> set_up (if wk s then UWkD else UTo))
  | UWkD => Some (s |> set_cdis true |> set_up UWkY1)
  | UWkY1 => if canceled s then Some (s |> set_para (Some PCanceled) |> set_up UWkY3) else Some (s |> set_up UWkY2)
  | UWkY2 => Some (s |> set_running false |> set_rq (S (rq s)) |> set_nested false |> set_up UWkQ)
  | UWkY3 => if canceled s then Some (die s) else Some (s |> set_up UWkE)
  | UWkE => Some (s |> set_cdis false |> set_up UWk)
  | UTo => Some (s |> set_tmo (enc (ud s)) |> set_up UYc)
  | UYc => if canceled s then Some (s |> set_para (Some PCanceled) |> set_up UYb) else Some (s |> set_up UYield)
  | UYield => match kp s with
              | KIdle => Some (s |> set_running false |> set_nested false |> set_kp KDur |> set_susp true |> set_up USusp)
              | _ => None end
  | UYb => Some (s |> set_up (if ccheck s then UCc else UCp2Load))
  | UCc => if canceled s then Some (die s) else Some (s |> set_up UCp2Load)
  | UCp2Load => Some (s |> set_up (if pstate s then UCp2Store else UCp2Swap))
  | UCp2Store => Some (clear_tok s |> set_ctok true |> set_up URm)
  | UCp2Swap => Some (clear_tok s |> set_ctok (pstate s) |> set_up URm)
  | URm => match hnd s with
           | Some i => Some (s |> set_hnd None
                               |> set_tm (match tm s i with TmArmed => upd (tm s) i TmCanc | _ => tm s end)
                               |> set_up UPara)
           | None => Some (s |> set_up UPara) end
  | UPara => Some (s |> set_lastv (Some (verdict_of (para s))) |> set_para None |> set_up UIdle)
  end.

Definition kstep (s : st) : option st :=
  match kp s with
  | KIdle => None
  | KDur => let d := dec (tmo s) in
            Some (s |> set_kdur d |> set_kdl None |> set_tmo 0 |> set_kp (match d with Some _ => KNow | None => KHandle end))
  | KNow => match kdur s with
            | Some d => Some (s |> set_kdl (Some (now s + d)) |> set_kp KArm)
            | None => None end
  | KArm => match kdur s with
            | Some d => Some (s |> set_tm (upd (tm s) (ntm s) TmArmed) |> set_tdl (upd (tdl s) (ntm s) (now s + d)) |> set_hnd (Some (ntm s))
                               |> set_ntm (S (ntm s)) |> set_kp KHandle)
            | None => None end
  | KHandle => Some (s |> set_kp KGon)   (* the handle of the entry just armed ([hnd], set with KArm) is published; the old one is null *)
  | KGon => Some (s |> set_wk true |> set_kp (if fixF31 then KReg else KStore))
  | KReg => Some (s |> set_cco CThis |> set_kp KStore)
  | KStore => Some (s |> set_slot true |> set_kp (if fixF8 then KChk else KSload))
  | KChk => Some (s |> set_kp (match kdl s with Some t => if t <=? now s then KStake else KSload | None => KSload end))
  | KStake => if slot s then Some (s |> set_slot false |> set_wsrc WSelfTmo |> set_kp (after_stake true))
              else Some (s |> set_kp (after_stake false))
  | KSgoff b => Some (s |> set_wk false |> set_kp (if b then KSrun else KIdle))
  | KSrun => Some (s |> set_para (Some PTimeout) |> set_running true |> set_up UYb |> set_nested (negb fixF12) |> set_kp after_run)
  | KSload => Some (s |> set_kp (if pstate s then KFtake else if fixF31 then KCchk else KSetco))
  | KFtake => if slot s then Some (s |> set_slot false |> set_wsrc WSelfTok |> set_kp (after_ftake true))
              else Some (s |> set_kp (after_ftake false))
  | KFgoff b => Some (s |> set_wk false |> set_kp (if b then KFrun else KIdle))
  | KFrun => Some (s |> set_running true |> set_up UYb |> set_nested (negb fixF12) |> set_kp after_run)
  | KNest => if nested s then None else Some (s |> set_kp KGoff)
  | KSetco => Some (s |> set_cco CThis |> set_kp KCchk)
  | KCchk => Some (s |> set_kp (if canceled s then (if fixF31 then KC3 else KC1) else KGoff))
  | KC1 => Some (s |> set_cbit true |> set_kp KC2)
  | KC2 => match cco s with
           | CThis => Some (s |> set_cco CNone |> set_kp KC3)
           | CStale => Some (s |> set_cco CNone |> set_kp KC3s)
           | CNone => Some (s |> set_kp KGoff) end
  | KC3 => if slot s then Some (s |> set_slot false |> set_wsrc WCn |> set_kp KC4) else Some (s |> set_kp KGoff)
  | KC3s => Some (s |> set_kp KGoff)
  | KC4 => Some (s |> set_para (Some PCanceled) |> set_rq (S (rq s)) |> set_kp KGoff)
  | KGoff => Some (s |> set_wk false |> set_kp KIdle)
  end.

Definition step (s : st) (a : action) : option st :=
  match a with
  | APark d =>
      match up s with
      | UIdle => if running s && match d with Some x => 0 <=? x | None => true end
                 then Some (s |> set_ud d |> set_tcall (now s) |> set_tok0 (pstate s) |> set_ctok false
                              |> set_wsrc WNone |> set_susp false |> set_ncall (S (ncall s)) |> set_up UCp1Load)
                 else None
      | _ => None end
  | AU => ustep s
  | AAway => match up s with
             | UIdle => if running s then Some (s |> set_running false |> set_rq (S (rq s)) |> set_nested false |> set_up UAway) else None
             | _ => None end
  | AExit b => match up s with
               | UIdle => if running s
                          then Some (s |> set_up UDead |> set_running false |> set_dropping b |> set_nested (b && nested s))
                          else None
               | _ => None end
  | ANewPark ign =>
      match up s with
      | UIdle => if running s
                 then Some (s |> set_pstate false |> set_slot false |> set_wk false |> set_tmo 0 |> set_hnd None
                              |> set_ccheck (negb ign)
                              |> set_cco (match cco s with CNone => CNone | _ => CStale end)
                              |> set_oldk (if setco_ahead (kp s) then S (oldk s) else oldk s)
                              |> set_kp KIdle |> set_kdur None |> set_kdl None
                              |> set_un (fun _ => NIdle)
                              |> set_cn (fun i => match cn s i with CTake => CTakeS | x => x end)
                              |> set_tm (fun _ => TmNone) |> set_ntm 0%nat
                              |> set_nested false |> set_nclr 0%nat |> set_tainted false |> set_ctok false |> set_wsrc WNone
                              |> set_ncall 0%nat)
                 else None
      | _ => None end
  | AK => kstep s
  | AUnSwap i => match un s i with
                 | NIdle => Some (s |> set_pstate true |> set_un (upd (un s) i (if pstate s then NIdle else NTake false)))
                 | _ => None end
  | AUnTake i => match un s i with
                 | NTake b => if slot s
                              then Some (s |> set_slot false |> set_un (upd (un s) i NHold) |> set_holder (HUn i) |> set_wsrc (WUn b))
                              else Some (s |> set_un (upd (un s) i NIdle))
                 | _ => None end
  | AUnSched i => match un s i with
                  | NHold => Some (s |> set_rq (S (rq s)) |> set_un (upd (un s) i NIdle) |> set_holder HNone)
                  | _ => None end
  | AUnRun i => match un s i with
                | NHold => Some (s |> set_running true |> set_up UYb |> set_un (upd (un s) i NIdle) |> set_holder HNone)
                | _ => None end
  | ACnOr i => match cn s i with
               | CIdle => Some (s |> set_cbit true |> set_cn (upd (cn s) i CTakeCo))
               | _ => None end
  | ACnTakeCo i => match cn s i with
                   | CTakeCo => match cco s with
                                | CThis => Some (s |> set_cco CNone |> set_cn (upd (cn s) i CTake))
                                | CStale => Some (s |> set_cco CNone |> set_cn (upd (cn s) i CTakeS))
                                | CNone => Some (s |> set_cn (upd (cn s) i CIdle)) end
                   | _ => None end
  | ACnTake i => match cn s i with
                 | CTake => if slot s
                            then Some (s |> set_slot false |> set_cn (upd (cn s) i CHold) |> set_holder (HCn i) |> set_wsrc WCn)
                            else Some (s |> set_cn (upd (cn s) i CIdle))
                 | CTakeS => Some (s |> set_cn (upd (cn s) i CIdle))
                 | _ => None end
  | ACnSched i => match cn s i with
                  | CHold => Some (s |> set_para (Some PCanceled) |> set_rq (S (rq s)) |> set_cn (upd (cn s) i CIdle) |> set_holder HNone)
                  | _ => None end
  | ATFire i => match tm s i with
                | TmArmed | TmCanc => if tdl s i <=? now s then Some (s |> set_tm (upd (tm s) i TmFired)) else None
                | _ => None end
  | ATDrop i => match tm s i with
                | TmCanc => Some (s |> set_tm (upd (tm s) i TmDone))
                | _ => None end
  | ATTake i => match tm s i with
                | TmFired => if slot s
                                then Some (s |> set_slot false |> set_tm (upd (tm s) i TmHold) |> set_holder (HTm i)
                                             |> set_wsrc (WTm (negb (optnat_eqb (hnd s) (Some i)))))
                                else Some (s |> set_tm (upd (tm s) i TmDone))
                | _ => None end
  | ATRun i => match tm s i with
               | TmHold => Some (s |> set_para (Some PTimeout) |> set_running true |> set_up UYb
                                      |> set_tm (upd (tm s) i TmDone) |> set_holder HNone)
               | _ => None end
  | ATick d => if 0 <? d then Some (s |> set_now (now s + d)) else None
  | AResume => match rq s with
               | S n => if running s then None else
                        match up s with
                        | USusp => Some (s |> set_rq n |> set_running true |> set_up UYb)
                        | UWkQ => Some (s |> set_rq n |> set_running true |> set_up UWkY3)
                        | UAway => Some (s |> set_rq n |> set_running true |> set_up UIdle)
                        | _ => None end
               | O => None end
  | AStaleSetco => match oldk s with
                   | S n => Some (s |> set_cco CStale |> set_oldk n |> set_tainted true)
                   | O => None end
  | AOldKDone => match oldk s with
                 | S n => Some (s |> set_oldk n)
                 | O => None end
  | ADrop => if dropping s then (if wk s then Some s else Some (s |> set_dropping false |> set_nested false)) else None
  end.

Inductive Reach : st -> Prop :=
| R0 : Reach init
| RS s a s' : Reach s -> step s a = Some s' -> Reach s'.

Fixpoint run (s : st) (l : list action) : option st :=
  match l with
  | [] => Some s
  | a :: r => match step s a with Some s' => run s' r | None => None end
  end.

End Step.

(* ---- observations used by the theorems ---- *)

(* the kernel half has the coroutine in its hands *)
Definition kholds (k : kpc) : bool :=
  match k with
  | KDur | KNow | KArm | KHandle | KGon | KReg | KStore | KSgoff true | KSrun | KFgoff true | KFrun | KC4 => true
  | _ => false end.

Definition b2n (b : bool) : nat := if b then 1%nat else 0%nat.
Definition held (h : hold) : bool := match h with HNone => false | _ => true end.

(* in how many places the coroutine is (theorem: exactly one while it is alive) *)
Definition places (s : st) : nat :=
  (b2n (running s) + b2n (slot s) + rq s + b2n (kholds (kp s)) + b2n (held (holder s)))%nat.

Definition timers_quiet (s : st) : Prop :=
  forall i, match tm s i with
            | TmArmed | TmCanc => now s < tdl s i
            | TmFired | TmHold => False
            | _ => True end.

(* nobody but the clock and the client (a new unpark / cancel call) can move *)
Definition Quiescent (s : st) : Prop :=
  running s = false /\ rq s = 0%nat /\ kp s = KIdle /\ oldk s = 0%nat /\
  (forall i, un s i = NIdle) /\ (forall i, cn s i = CIdle) /\ timers_quiet s.

(* deadline of the current call: call time + armed duration *)
Definition call_deadline (s : st) : option Z :=
  match armed_of (ud s) with Some a => Some (tcall s + a) | None => None end.

(* the user half is inside park_timeout, up to and including the final clearing access *)
Definition in_park (u : upc) : bool :=
  match u with
  | UCp1Load | UCp1Store | UCp1Swap | UWk | UWkD | UWkY1 | UWkY2 | UWkQ | UWkY3 | UWkE | UTo | UYc | UYield | USusp
  | UYb | UCc | UCp2Load | UCp2Store | UCp2Swap => true
  | _ => false end.

(* abstraction to the Blocker token *)
Definition abs (s : st) : bst :=
  {| btok := pstate s; bpark := if in_park (up s) then Some (call_deadline s) else None |}.
