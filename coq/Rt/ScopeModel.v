(* Model of may::coroutine::scope / join! (src/scoped.rs) over the join protocol (src/join.rs), the
   cancel word (src/cancel.rs) and the Blocker token (src/park.rs `Park`, `ThreadPark`; DESIGN 2.1).
   Definitions only.

   Actors are tasks: roots (threads or coroutines, created by the environment action `Root`) and scoped
   children (coroutines, created by `Spawn`).  EVERY task may itself open scopes, to any depth, spawn into
   any of its open scopes, join handles explicitly, panic, hit cancellable points and finish: the
   program of a task is chosen by the schedule (body actions are enabled at control point PBody), so
   quantifying over schedules quantifies over all client programs, all numbers and nestings of scoped
   coroutines and all interleavings.  A task's open scopes are the frames 0 .. depth-1 (innermost =
   depth-1); `frm a d` is the dtor chain of frame d (head = next dtor to run = last child spawned).

   Owner side, one transition per shared access (program order):
     scope(f): f runs (PBody) ... `Close` = f returned: drop_all                          -> PDrop
     PDrop   drop_all loop head: chain empty -> the frame is LEFT (normal return -> PBody of the
             enclosing code, unwinding -> Drop for Scope of the enclosing frame / end of the task);
             else UNLINK the head dtor, then run it: JoinState::join (skipped if already Joined)  -> PJ0
     PJ0     JoinState::join: state := Joined; [coroutine, cfg cdis] cancel.disable_cancel()      -> PW0
     PW0     Join::wait: state.load          (done -> PT1)                                        -> PW1
     PW1     to_wake.store(Blocker::current())  (a fresh blocker)                                 -> PW2
     PW2     state.load (re-check)            (done -> PW3)                                       -> PPark
     PW3     to_wake.take()                   -> [cfg cloop] PW0 | PT1
     PPark   Blocker::park: token set -> consume it, return; coroutine that is cancelled and not disabled:
             yield_with's short-cut, yield_back = check_cancel (raises Cancel unless already unwinding);
             otherwise suspend                                                                    -> PWW
     PWW     suspended; resumed with a reason (unpark token / a cancel() took the coroutine); the token is
             cleared whatever the reason; yield_back = check_cancel                               -> [cloop] PW0 | PT1
     PT1     JoinHandle::join: packet.take()   (Some -> Ok)                                       -> PT2
     PT2     panic.take()                      (Some p -> Err p, None -> Err Cancel)
     PEn     [coroutine, cdis] cancel.enable_cancel()      (dtor run by Drop for Scope: skip PCk)  -> PCk | PRes
     PCk     cancel.check_cancel(): cancelled, not disabled, not unwinding -> raise Cancel        -> PRes
     PRes    if !unwinding { res.unwrap_or_else(resume_unwind) }: the child's panic is re-raised  -> PDrop | PRet
     PRet    ScopedJoinHandle::join: self.packet.take().unwrap()   (None = the unwrap panic: no transition)
   Raising (a panic of the body, a Cancel at a cancellable point, a re-raised child panic) sets the
   per-task unwinding state and transfers control to Drop for Scope of the innermost frame (PDrop with
   `unw` set) or, with no frame left, to the end of the task.  With cfg ctrans = false (mutant: dtor run
   before the chain is re-linked) a raise inside a dtor loses the rest of the chain.
   Since commit 6bc550e (F14) the scoped join is TOLD whether it runs during unwinding (`drop_all(true)` from
   Drop for Scope) instead of asking the per-thread `thread::panicking()`: that is this per-task flag.

   Task end (coroutine wrapper / run_coroutine panic path):
     PF1     result published: packet.store (inner and scoped packet) | set_panic_data | nothing (Cancel)
     PF2     Join::trigger: state.store(false)      PF3  to_wake.take()      PF4  w.unpark()  (token := true)

   Environment: `Cancel a` = Coroutine::cancel(): sets the cancel bit and takes a suspended coroutine
   (whatever its disable count); `Recheck a` = the re-check of Park::subscribe (cancelled and not disabled).

   Ghost: parentm/cdepthm (which frame of which owner a child belongs to), cleftm c = "the scope c was
   spawned in has been left", outm (how the task ended), gotm (results handed out by explicit joins),
   tkm (the join result of c has been taken). *)
From Coq Require Import List Arith Bool Lia.
Import ListNotations.

Inductive kind := KThread | KCo.
Inductive unwst := UNone | UPanic (p : nat) | UCancel.
Inductive outcome := ORun | OOk (v : nat) | OPanic (p : nat) | OCancel.
Inductive jresult := ROk | RPanic (p : nat) | RCancel.
Inductive rsn := RU | RC.
Inductive pc := PNone | PBody | PDrop | PJ0 | PW0 | PW1 | PW2 | PW3 | PPark | PWW | PT1 | PT2 | PEn | PCk | PRes | PRet
              | PF1 | PF2 | PF3 | PF4 | PDone.

(* which repairs are in the code: cdis = scoped joins wait with the cancel disabled, cloop = Join::wait
   loops until done (both: commit 06c1f59), ctrans = drop_all unlinks a dtor before running it *)
Record cfg := { cdis : bool; cloop : bool; ctrans : bool }.
Definition current : cfg := {| cdis := true; cloop := true; ctrans := true |}.
Definition prefix : cfg := {| cdis := false; cloop := false; ctrans := true |}.

Record st := mkst {
  pcm : nat -> pc;
  kindm : nat -> kind;
  depthm : nat -> nat;
  frm : nat -> nat -> list nat;
  unwm : nat -> unwst;
  cbitm : nat -> bool;
  dism : nat -> nat;
  jcm : nat -> nat;
  jbm : nat -> nat;
  jexpm : nat -> bool;
  jresm : nat -> jresult;
  awm : nat -> nat;
  jstm : nat -> bool;
  jwakem : nat -> option nat;
  ipktm : nat -> bool;
  pktm : nat -> option nat;
  panm : nat -> option nat;
  joinedm : nat -> bool;
  handlem : nat -> bool;
  parentm : nat -> option nat;
  cdepthm : nat -> nat;
  cleftm : nat -> bool;
  cvalm : nat -> nat;
  outm : nat -> outcome;
  gotm : nat -> nat;
  tkm : nat -> bool;
  tokm : nat -> bool;
  parkedm : nat -> bool;
  reasonm : nat -> option rsn;
  bownerm : nat -> nat;
  nexta : nat;
  nextb : nat }.
Definition set_pcm (s : st) (v : nat -> pc) : st := {| pcm := v; kindm := kindm s; depthm := depthm s; frm := frm s; unwm := unwm s; cbitm := cbitm s; dism := dism s; jcm := jcm s; jbm := jbm s; jexpm := jexpm s; jresm := jresm s; awm := awm s; jstm := jstm s; jwakem := jwakem s; ipktm := ipktm s; pktm := pktm s; panm := panm s; joinedm := joinedm s; handlem := handlem s; parentm := parentm s; cdepthm := cdepthm s; cleftm := cleftm s; cvalm := cvalm s; outm := outm s; gotm := gotm s; tkm := tkm s; tokm := tokm s; parkedm := parkedm s; reasonm := reasonm s; bownerm := bownerm s; nexta := nexta s; nextb := nextb s |}.
Definition set_kindm (s : st) (v : nat -> kind) : st := {| pcm := pcm s; kindm := v; depthm := depthm s; frm := frm s; unwm := unwm s; cbitm := cbitm s; dism := dism s; jcm := jcm s; jbm := jbm s; jexpm := jexpm s; jresm := jresm s; awm := awm s; jstm := jstm s; jwakem := jwakem s; ipktm := ipktm s; pktm := pktm s; panm := panm s; joinedm := joinedm s; handlem := handlem s; parentm := parentm s; cdepthm := cdepthm s; cleftm := cleftm s; cvalm := cvalm s; outm := outm s; gotm := gotm s; tkm := tkm s; tokm := tokm s; parkedm := parkedm s; reasonm := reasonm s; bownerm := bownerm s; nexta := nexta s; nextb := nextb s |}.
Definition set_depthm (s : st) (v : nat -> nat) : st := {| pcm := pcm s; kindm := kindm s; depthm := v; frm := frm s; unwm := unwm s; cbitm := cbitm s; dism := dism s; jcm := jcm s; jbm := jbm s; jexpm := jexpm s; jresm := jresm s; awm := awm s; jstm := jstm s; jwakem := jwakem s; ipktm := ipktm s; pktm := pktm s; panm := panm s; joinedm := joinedm s; handlem := handlem s; parentm := parentm s; cdepthm := cdepthm s; cleftm := cleftm s; cvalm := cvalm s; outm := outm s; gotm := gotm s; tkm := tkm s; tokm := tokm s; parkedm := parkedm s; reasonm := reasonm s; bownerm := bownerm s; nexta := nexta s; nextb := nextb s |}.
Definition set_frm (s : st) (v : nat -> nat -> list nat) : st := {| pcm := pcm s; kindm := kindm s; depthm := depthm s; frm := v; unwm := unwm s; cbitm := cbitm s; dism := dism s; jcm := jcm s; jbm := jbm s; jexpm := jexpm s; jresm := jresm s; awm := awm s; jstm := jstm s; jwakem := jwakem s; ipktm := ipktm s; pktm := pktm s; panm := panm s; joinedm := joinedm s; handlem := handlem s; parentm := parentm s; cdepthm := cdepthm s; cleftm := cleftm s; cvalm := cvalm s; outm := outm s; gotm := gotm s; tkm := tkm s; tokm := tokm s; parkedm := parkedm s; reasonm := reasonm s; bownerm := bownerm s; nexta := nexta s; nextb := nextb s |}.
Definition set_unwm (s : st) (v : nat -> unwst) : st := {| pcm := pcm s; kindm := kindm s; depthm := depthm s; frm := frm s; unwm := v; cbitm := cbitm s; dism := dism s; jcm := jcm s; jbm := jbm s; jexpm := jexpm s; jresm := jresm s; awm := awm s; jstm := jstm s; jwakem := jwakem s; ipktm := ipktm s; pktm := pktm s; panm := panm s; joinedm := joinedm s; handlem := handlem s; parentm := parentm s; cdepthm := cdepthm s; cleftm := cleftm s; cvalm := cvalm s; outm := outm s; gotm := gotm s; tkm := tkm s; tokm := tokm s; parkedm := parkedm s; reasonm := reasonm s; bownerm := bownerm s; nexta := nexta s; nextb := nextb s |}.
Definition set_cbitm (s : st) (v : nat -> bool) : st := {| pcm := pcm s; kindm := kindm s; depthm := depthm s; frm := frm s; unwm := unwm s; cbitm := v; dism := dism s; jcm := jcm s; jbm := jbm s; jexpm := jexpm s; jresm := jresm s; awm := awm s; jstm := jstm s; jwakem := jwakem s; ipktm := ipktm s; pktm := pktm s; panm := panm s; joinedm := joinedm s; handlem := handlem s; parentm := parentm s; cdepthm := cdepthm s; cleftm := cleftm s; cvalm := cvalm s; outm := outm s; gotm := gotm s; tkm := tkm s; tokm := tokm s; parkedm := parkedm s; reasonm := reasonm s; bownerm := bownerm s; nexta := nexta s; nextb := nextb s |}.
Definition set_dism (s : st) (v : nat -> nat) : st := {| pcm := pcm s; kindm := kindm s; depthm := depthm s; frm := frm s; unwm := unwm s; cbitm := cbitm s; dism := v; jcm := jcm s; jbm := jbm s; jexpm := jexpm s; jresm := jresm s; awm := awm s; jstm := jstm s; jwakem := jwakem s; ipktm := ipktm s; pktm := pktm s; panm := panm s; joinedm := joinedm s; handlem := handlem s; parentm := parentm s; cdepthm := cdepthm s; cleftm := cleftm s; cvalm := cvalm s; outm := outm s; gotm := gotm s; tkm := tkm s; tokm := tokm s; parkedm := parkedm s; reasonm := reasonm s; bownerm := bownerm s; nexta := nexta s; nextb := nextb s |}.
Definition set_jcm (s : st) (v : nat -> nat) : st := {| pcm := pcm s; kindm := kindm s; depthm := depthm s; frm := frm s; unwm := unwm s; cbitm := cbitm s; dism := dism s; jcm := v; jbm := jbm s; jexpm := jexpm s; jresm := jresm s; awm := awm s; jstm := jstm s; jwakem := jwakem s; ipktm := ipktm s; pktm := pktm s; panm := panm s; joinedm := joinedm s; handlem := handlem s; parentm := parentm s; cdepthm := cdepthm s; cleftm := cleftm s; cvalm := cvalm s; outm := outm s; gotm := gotm s; tkm := tkm s; tokm := tokm s; parkedm := parkedm s; reasonm := reasonm s; bownerm := bownerm s; nexta := nexta s; nextb := nextb s |}.
Definition set_jbm (s : st) (v : nat -> nat) : st := {| pcm := pcm s; kindm := kindm s; depthm := depthm s; frm := frm s; unwm := unwm s; cbitm := cbitm s; dism := dism s; jcm := jcm s; jbm := v; jexpm := jexpm s; jresm := jresm s; awm := awm s; jstm := jstm s; jwakem := jwakem s; ipktm := ipktm s; pktm := pktm s; panm := panm s; joinedm := joinedm s; handlem := handlem s; parentm := parentm s; cdepthm := cdepthm s; cleftm := cleftm s; cvalm := cvalm s; outm := outm s; gotm := gotm s; tkm := tkm s; tokm := tokm s; parkedm := parkedm s; reasonm := reasonm s; bownerm := bownerm s; nexta := nexta s; nextb := nextb s |}.
Definition set_jexpm (s : st) (v : nat -> bool) : st := {| pcm := pcm s; kindm := kindm s; depthm := depthm s; frm := frm s; unwm := unwm s; cbitm := cbitm s; dism := dism s; jcm := jcm s; jbm := jbm s; jexpm := v; jresm := jresm s; awm := awm s; jstm := jstm s; jwakem := jwakem s; ipktm := ipktm s; pktm := pktm s; panm := panm s; joinedm := joinedm s; handlem := handlem s; parentm := parentm s; cdepthm := cdepthm s; cleftm := cleftm s; cvalm := cvalm s; outm := outm s; gotm := gotm s; tkm := tkm s; tokm := tokm s; parkedm := parkedm s; reasonm := reasonm s; bownerm := bownerm s; nexta := nexta s; nextb := nextb s |}.
Definition set_jresm (s : st) (v : nat -> jresult) : st := {| pcm := pcm s; kindm := kindm s; depthm := depthm s; frm := frm s; unwm := unwm s; cbitm := cbitm s; dism := dism s; jcm := jcm s; jbm := jbm s; jexpm := jexpm s; jresm := v; awm := awm s; jstm := jstm s; jwakem := jwakem s; ipktm := ipktm s; pktm := pktm s; panm := panm s; joinedm := joinedm s; handlem := handlem s; parentm := parentm s; cdepthm := cdepthm s; cleftm := cleftm s; cvalm := cvalm s; outm := outm s; gotm := gotm s; tkm := tkm s; tokm := tokm s; parkedm := parkedm s; reasonm := reasonm s; bownerm := bownerm s; nexta := nexta s; nextb := nextb s |}.
Definition set_awm (s : st) (v : nat -> nat) : st := {| pcm := pcm s; kindm := kindm s; depthm := depthm s; frm := frm s; unwm := unwm s; cbitm := cbitm s; dism := dism s; jcm := jcm s; jbm := jbm s; jexpm := jexpm s; jresm := jresm s; awm := v; jstm := jstm s; jwakem := jwakem s; ipktm := ipktm s; pktm := pktm s; panm := panm s; joinedm := joinedm s; handlem := handlem s; parentm := parentm s; cdepthm := cdepthm s; cleftm := cleftm s; cvalm := cvalm s; outm := outm s; gotm := gotm s; tkm := tkm s; tokm := tokm s; parkedm := parkedm s; reasonm := reasonm s; bownerm := bownerm s; nexta := nexta s; nextb := nextb s |}.
Definition set_jstm (s : st) (v : nat -> bool) : st := {| pcm := pcm s; kindm := kindm s; depthm := depthm s; frm := frm s; unwm := unwm s; cbitm := cbitm s; dism := dism s; jcm := jcm s; jbm := jbm s; jexpm := jexpm s; jresm := jresm s; awm := awm s; jstm := v; jwakem := jwakem s; ipktm := ipktm s; pktm := pktm s; panm := panm s; joinedm := joinedm s; handlem := handlem s; parentm := parentm s; cdepthm := cdepthm s; cleftm := cleftm s; cvalm := cvalm s; outm := outm s; gotm := gotm s; tkm := tkm s; tokm := tokm s; parkedm := parkedm s; reasonm := reasonm s; bownerm := bownerm s; nexta := nexta s; nextb := nextb s |}.
Definition set_jwakem (s : st) (v : nat -> option nat) : st := {| pcm := pcm s; kindm := kindm s; depthm := depthm s; frm := frm s; unwm := unwm s; cbitm := cbitm s; dism := dism s; jcm := jcm s; jbm := jbm s; jexpm := jexpm s; jresm := jresm s; awm := awm s; jstm := jstm s; jwakem := v; ipktm := ipktm s; pktm := pktm s; panm := panm s; joinedm := joinedm s; handlem := handlem s; parentm := parentm s; cdepthm := cdepthm s; cleftm := cleftm s; cvalm := cvalm s; outm := outm s; gotm := gotm s; tkm := tkm s; tokm := tokm s; parkedm := parkedm s; reasonm := reasonm s; bownerm := bownerm s; nexta := nexta s; nextb := nextb s |}.
Definition set_ipktm (s : st) (v : nat -> bool) : st := {| pcm := pcm s; kindm := kindm s; depthm := depthm s; frm := frm s; unwm := unwm s; cbitm := cbitm s; dism := dism s; jcm := jcm s; jbm := jbm s; jexpm := jexpm s; jresm := jresm s; awm := awm s; jstm := jstm s; jwakem := jwakem s; ipktm := v; pktm := pktm s; panm := panm s; joinedm := joinedm s; handlem := handlem s; parentm := parentm s; cdepthm := cdepthm s; cleftm := cleftm s; cvalm := cvalm s; outm := outm s; gotm := gotm s; tkm := tkm s; tokm := tokm s; parkedm := parkedm s; reasonm := reasonm s; bownerm := bownerm s; nexta := nexta s; nextb := nextb s |}.
Definition set_pktm (s : st) (v : nat -> option nat) : st := {| pcm := pcm s; kindm := kindm s; depthm := depthm s; frm := frm s; unwm := unwm s; cbitm := cbitm s; dism := dism s; jcm := jcm s; jbm := jbm s; jexpm := jexpm s; jresm := jresm s; awm := awm s; jstm := jstm s; jwakem := jwakem s; ipktm := ipktm s; pktm := v; panm := panm s; joinedm := joinedm s; handlem := handlem s; parentm := parentm s; cdepthm := cdepthm s; cleftm := cleftm s; cvalm := cvalm s; outm := outm s; gotm := gotm s; tkm := tkm s; tokm := tokm s; parkedm := parkedm s; reasonm := reasonm s; bownerm := bownerm s; nexta := nexta s; nextb := nextb s |}.
Definition set_panm (s : st) (v : nat -> option nat) : st := {| pcm := pcm s; kindm := kindm s; depthm := depthm s; frm := frm s; unwm := unwm s; cbitm := cbitm s; dism := dism s; jcm := jcm s; jbm := jbm s; jexpm := jexpm s; jresm := jresm s; awm := awm s; jstm := jstm s; jwakem := jwakem s; ipktm := ipktm s; pktm := pktm s; panm := v; joinedm := joinedm s; handlem := handlem s; parentm := parentm s; cdepthm := cdepthm s; cleftm := cleftm s; cvalm := cvalm s; outm := outm s; gotm := gotm s; tkm := tkm s; tokm := tokm s; parkedm := parkedm s; reasonm := reasonm s; bownerm := bownerm s; nexta := nexta s; nextb := nextb s |}.
Definition set_joinedm (s : st) (v : nat -> bool) : st := {| pcm := pcm s; kindm := kindm s; depthm := depthm s; frm := frm s; unwm := unwm s; cbitm := cbitm s; dism := dism s; jcm := jcm s; jbm := jbm s; jexpm := jexpm s; jresm := jresm s; awm := awm s; jstm := jstm s; jwakem := jwakem s; ipktm := ipktm s; pktm := pktm s; panm := panm s; joinedm := v; handlem := handlem s; parentm := parentm s; cdepthm := cdepthm s; cleftm := cleftm s; cvalm := cvalm s; outm := outm s; gotm := gotm s; tkm := tkm s; tokm := tokm s; parkedm := parkedm s; reasonm := reasonm s; bownerm := bownerm s; nexta := nexta s; nextb := nextb s |}.
Definition set_handlem (s : st) (v : nat -> bool) : st := {| pcm := pcm s; kindm := kindm s; depthm := depthm s; frm := frm s; unwm := unwm s; cbitm := cbitm s; dism := dism s; jcm := jcm s; jbm := jbm s; jexpm := jexpm s; jresm := jresm s; awm := awm s; jstm := jstm s; jwakem := jwakem s; ipktm := ipktm s; pktm := pktm s; panm := panm s; joinedm := joinedm s; handlem := v; parentm := parentm s; cdepthm := cdepthm s; cleftm := cleftm s; cvalm := cvalm s; outm := outm s; gotm := gotm s; tkm := tkm s; tokm := tokm s; parkedm := parkedm s; reasonm := reasonm s; bownerm := bownerm s; nexta := nexta s; nextb := nextb s |}.
Definition set_parentm (s : st) (v : nat -> option nat) : st := {| pcm := pcm s; kindm := kindm s; depthm := depthm s; frm := frm s; unwm := unwm s; cbitm := cbitm s; dism := dism s; jcm := jcm s; jbm := jbm s; jexpm := jexpm s; jresm := jresm s; awm := awm s; jstm := jstm s; jwakem := jwakem s; ipktm := ipktm s; pktm := pktm s; panm := panm s; joinedm := joinedm s; handlem := handlem s; parentm := v; cdepthm := cdepthm s; cleftm := cleftm s; cvalm := cvalm s; outm := outm s; gotm := gotm s; tkm := tkm s; tokm := tokm s; parkedm := parkedm s; reasonm := reasonm s; bownerm := bownerm s; nexta := nexta s; nextb := nextb s |}.
Definition set_cdepthm (s : st) (v : nat -> nat) : st := {| pcm := pcm s; kindm := kindm s; depthm := depthm s; frm := frm s; unwm := unwm s; cbitm := cbitm s; dism := dism s; jcm := jcm s; jbm := jbm s; jexpm := jexpm s; jresm := jresm s; awm := awm s; jstm := jstm s; jwakem := jwakem s; ipktm := ipktm s; pktm := pktm s; panm := panm s; joinedm := joinedm s; handlem := handlem s; parentm := parentm s; cdepthm := v; cleftm := cleftm s; cvalm := cvalm s; outm := outm s; gotm := gotm s; tkm := tkm s; tokm := tokm s; parkedm := parkedm s; reasonm := reasonm s; bownerm := bownerm s; nexta := nexta s; nextb := nextb s |}.
Definition set_cleftm (s : st) (v : nat -> bool) : st := {| pcm := pcm s; kindm := kindm s; depthm := depthm s; frm := frm s; unwm := unwm s; cbitm := cbitm s; dism := dism s; jcm := jcm s; jbm := jbm s; jexpm := jexpm s; jresm := jresm s; awm := awm s; jstm := jstm s; jwakem := jwakem s; ipktm := ipktm s; pktm := pktm s; panm := panm s; joinedm := joinedm s; handlem := handlem s; parentm := parentm s; cdepthm := cdepthm s; cleftm := v; cvalm := cvalm s; outm := outm s; gotm := gotm s; tkm := tkm s; tokm := tokm s; parkedm := parkedm s; reasonm := reasonm s; bownerm := bownerm s; nexta := nexta s; nextb := nextb s |}.
Definition set_cvalm (s : st) (v : nat -> nat) : st := {| pcm := pcm s; kindm := kindm s; depthm := depthm s; frm := frm s; unwm := unwm s; cbitm := cbitm s; dism := dism s; jcm := jcm s; jbm := jbm s; jexpm := jexpm s; jresm := jresm s; awm := awm s; jstm := jstm s; jwakem := jwakem s; ipktm := ipktm s; pktm := pktm s; panm := panm s; joinedm := joinedm s; handlem := handlem s; parentm := parentm s; cdepthm := cdepthm s; cleftm := cleftm s; cvalm := v; outm := outm s; gotm := gotm s; tkm := tkm s; tokm := tokm s; parkedm := parkedm s; reasonm := reasonm s; bownerm := bownerm s; nexta := nexta s; nextb := nextb s |}.
Definition set_outm (s : st) (v : nat -> outcome) : st := {| pcm := pcm s; kindm := kindm s; depthm := depthm s; frm := frm s; unwm := unwm s; cbitm := cbitm s; dism := dism s; jcm := jcm s; jbm := jbm s; jexpm := jexpm s; jresm := jresm s; awm := awm s; jstm := jstm s; jwakem := jwakem s; ipktm := ipktm s; pktm := pktm s; panm := panm s; joinedm := joinedm s; handlem := handlem s; parentm := parentm s; cdepthm := cdepthm s; cleftm := cleftm s; cvalm := cvalm s; outm := v; gotm := gotm s; tkm := tkm s; tokm := tokm s; parkedm := parkedm s; reasonm := reasonm s; bownerm := bownerm s; nexta := nexta s; nextb := nextb s |}.
Definition set_gotm (s : st) (v : nat -> nat) : st := {| pcm := pcm s; kindm := kindm s; depthm := depthm s; frm := frm s; unwm := unwm s; cbitm := cbitm s; dism := dism s; jcm := jcm s; jbm := jbm s; jexpm := jexpm s; jresm := jresm s; awm := awm s; jstm := jstm s; jwakem := jwakem s; ipktm := ipktm s; pktm := pktm s; panm := panm s; joinedm := joinedm s; handlem := handlem s; parentm := parentm s; cdepthm := cdepthm s; cleftm := cleftm s; cvalm := cvalm s; outm := outm s; gotm := v; tkm := tkm s; tokm := tokm s; parkedm := parkedm s; reasonm := reasonm s; bownerm := bownerm s; nexta := nexta s; nextb := nextb s |}.
Definition set_tkm (s : st) (v : nat -> bool) : st := {| pcm := pcm s; kindm := kindm s; depthm := depthm s; frm := frm s; unwm := unwm s; cbitm := cbitm s; dism := dism s; jcm := jcm s; jbm := jbm s; jexpm := jexpm s; jresm := jresm s; awm := awm s; jstm := jstm s; jwakem := jwakem s; ipktm := ipktm s; pktm := pktm s; panm := panm s; joinedm := joinedm s; handlem := handlem s; parentm := parentm s; cdepthm := cdepthm s; cleftm := cleftm s; cvalm := cvalm s; outm := outm s; gotm := gotm s; tkm := v; tokm := tokm s; parkedm := parkedm s; reasonm := reasonm s; bownerm := bownerm s; nexta := nexta s; nextb := nextb s |}.
Definition set_tokm (s : st) (v : nat -> bool) : st := {| pcm := pcm s; kindm := kindm s; depthm := depthm s; frm := frm s; unwm := unwm s; cbitm := cbitm s; dism := dism s; jcm := jcm s; jbm := jbm s; jexpm := jexpm s; jresm := jresm s; awm := awm s; jstm := jstm s; jwakem := jwakem s; ipktm := ipktm s; pktm := pktm s; panm := panm s; joinedm := joinedm s; handlem := handlem s; parentm := parentm s; cdepthm := cdepthm s; cleftm := cleftm s; cvalm := cvalm s; outm := outm s; gotm := gotm s; tkm := tkm s; tokm := v; parkedm := parkedm s; reasonm := reasonm s; bownerm := bownerm s; nexta := nexta s; nextb := nextb s |}.
Definition set_parkedm (s : st) (v : nat -> bool) : st := {| pcm := pcm s; kindm := kindm s; depthm := depthm s; frm := frm s; unwm := unwm s; cbitm := cbitm s; dism := dism s; jcm := jcm s; jbm := jbm s; jexpm := jexpm s; jresm := jresm s; awm := awm s; jstm := jstm s; jwakem := jwakem s; ipktm := ipktm s; pktm := pktm s; panm := panm s; joinedm := joinedm s; handlem := handlem s; parentm := parentm s; cdepthm := cdepthm s; cleftm := cleftm s; cvalm := cvalm s; outm := outm s; gotm := gotm s; tkm := tkm s; tokm := tokm s; parkedm := v; reasonm := reasonm s; bownerm := bownerm s; nexta := nexta s; nextb := nextb s |}.
Definition set_reasonm (s : st) (v : nat -> option rsn) : st := {| pcm := pcm s; kindm := kindm s; depthm := depthm s; frm := frm s; unwm := unwm s; cbitm := cbitm s; dism := dism s; jcm := jcm s; jbm := jbm s; jexpm := jexpm s; jresm := jresm s; awm := awm s; jstm := jstm s; jwakem := jwakem s; ipktm := ipktm s; pktm := pktm s; panm := panm s; joinedm := joinedm s; handlem := handlem s; parentm := parentm s; cdepthm := cdepthm s; cleftm := cleftm s; cvalm := cvalm s; outm := outm s; gotm := gotm s; tkm := tkm s; tokm := tokm s; parkedm := parkedm s; reasonm := v; bownerm := bownerm s; nexta := nexta s; nextb := nextb s |}.
Definition set_bownerm (s : st) (v : nat -> nat) : st := {| pcm := pcm s; kindm := kindm s; depthm := depthm s; frm := frm s; unwm := unwm s; cbitm := cbitm s; dism := dism s; jcm := jcm s; jbm := jbm s; jexpm := jexpm s; jresm := jresm s; awm := awm s; jstm := jstm s; jwakem := jwakem s; ipktm := ipktm s; pktm := pktm s; panm := panm s; joinedm := joinedm s; handlem := handlem s; parentm := parentm s; cdepthm := cdepthm s; cleftm := cleftm s; cvalm := cvalm s; outm := outm s; gotm := gotm s; tkm := tkm s; tokm := tokm s; parkedm := parkedm s; reasonm := reasonm s; bownerm := v; nexta := nexta s; nextb := nextb s |}.
Definition set_nexta (s : st) (v : nat) : st := {| pcm := pcm s; kindm := kindm s; depthm := depthm s; frm := frm s; unwm := unwm s; cbitm := cbitm s; dism := dism s; jcm := jcm s; jbm := jbm s; jexpm := jexpm s; jresm := jresm s; awm := awm s; jstm := jstm s; jwakem := jwakem s; ipktm := ipktm s; pktm := pktm s; panm := panm s; joinedm := joinedm s; handlem := handlem s; parentm := parentm s; cdepthm := cdepthm s; cleftm := cleftm s; cvalm := cvalm s; outm := outm s; gotm := gotm s; tkm := tkm s; tokm := tokm s; parkedm := parkedm s; reasonm := reasonm s; bownerm := bownerm s; nexta := v; nextb := nextb s |}.
Definition set_nextb (s : st) (v : nat) : st := {| pcm := pcm s; kindm := kindm s; depthm := depthm s; frm := frm s; unwm := unwm s; cbitm := cbitm s; dism := dism s; jcm := jcm s; jbm := jbm s; jexpm := jexpm s; jresm := jresm s; awm := awm s; jstm := jstm s; jwakem := jwakem s; ipktm := ipktm s; pktm := pktm s; panm := panm s; joinedm := joinedm s; handlem := handlem s; parentm := parentm s; cdepthm := cdepthm s; cleftm := cleftm s; cvalm := cvalm s; outm := outm s; gotm := gotm s; tkm := tkm s; tokm := tokm s; parkedm := parkedm s; reasonm := reasonm s; bownerm := bownerm s; nexta := nexta s; nextb := v |}.

Definition upd {X} (f : nat -> X) i v := fun j => if Nat.eqb j i then v else f j.

Inductive action :=
  | Root (k : kind)
  | Open (a : nat) | Spawn (a d : nat) | Close (a : nat) | Join (a c : nat) | Panic (a p : nat) | CPoint (a : nat)
  | Finish (a v : nat)
  | Cancel (a : nat) | Recheck (a : nat)
  | Step (a : nat).

Definition is_co (k : kind) : bool := match k with KCo => true | KThread => false end.
Definition unwinding (u : unwst) : bool := match u with UNone => false | _ => true end.
Definition onat_eqb (x : option nat) (y : nat) : bool := match x with Some z => Nat.eqb z y | None => false end.
Definition pc_is_ww (p : pc) : bool := match p with PWW => true | _ => false end.
Definition pc_is_none (p : pc) : bool := match p with PNone => true | _ => false end.
Definition pc_is_body (p : pc) : bool := match p with PBody => true | _ => false end.
Definition is_none {X} (o : option X) : bool := match o with None => true | Some _ => false end.

Section Model.
Variable cf : cfg.

Definition wpc (s : st) a p := set_pcm s (upd (pcm s) a p).

(* a fresh task n (one record literal: every field of n that the invariants speak about is initialised) *)
Definition new_task (s : st) (n : nat) (k : kind) (par : option nat) (d : nat) (h : bool) : st :=
  {| pcm := upd (pcm s) n PBody;
     kindm := upd (kindm s) n k;
     depthm := upd (depthm s) n 0;
     frm := upd (frm s) n (fun _ => []);
     unwm := upd (unwm s) n UNone;
     cbitm := upd (cbitm s) n false;
     dism := upd (dism s) n 0;
     jcm := jcm s;
     jbm := jbm s;
     jexpm := jexpm s;
     jresm := jresm s;
     awm := awm s;
     jstm := upd (jstm s) n true;
     jwakem := upd (jwakem s) n None;
     ipktm := upd (ipktm s) n false;
     pktm := upd (pktm s) n None;
     panm := upd (panm s) n None;
     joinedm := upd (joinedm s) n false;
     handlem := upd (handlem s) n h;
     parentm := upd (parentm s) n par;
     cdepthm := upd (cdepthm s) n d;
     cleftm := upd (cleftm s) n false;
     cvalm := cvalm s;
     outm := upd (outm s) n ORun;
     gotm := upd (gotm s) n 0;
     tkm := upd (tkm s) n false;
     tokm := tokm s;
     parkedm := parkedm s;
     reasonm := reasonm s;
     bownerm := bownerm s;
     nexta := S n;
     nextb := nextb s |}.

(* start unwinding in task a; indtor: raised inside a dtor of drop_all *)
Definition raise (s : st) (a : nat) (u : unwst) (indtor : bool) : st :=
  let d := depthm s a in
  let s := set_unwm s (upd (unwm s) a u) in
  let s := if negb (ctrans cf) && indtor then set_frm s (upd (frm s) a (upd (frm s a) (d - 1) [])) else s in
  wpc s a (match d with O => PF1 | S _ => PDrop end).

Definition after_park : pc := if cloop cf then PW0 else PT1.
Definition after_take (s : st) (a : nat) : pc := if is_co (kindm s a) && cdis cf then PEn else PRes.
Definition cancel_due (s : st) (a : nat) : bool := is_co (kindm s a) && cbitm s a && Nat.eqb (dism s a) 0.

Definition step (s : st) (ac : action) : option st :=
  match ac with
  | Root k => Some (new_task s (nexta s) k None 0 false)
  | Open a => if pc_is_body (pcm s a)
              then let d := depthm s a in
                   let s := set_frm s (upd (frm s) a (upd (frm s a) d [])) in
                   Some (set_depthm s (upd (depthm s) a (S d)))
              else None
  | Spawn a d => if pc_is_body (pcm s a) && Nat.ltb d (depthm s a)
                 then let n := nexta s in
                      let s := set_frm s (upd (frm s) a (upd (frm s a) d (n :: frm s a d))) in
                      Some (new_task s n KCo (Some a) d true)
                 else None
  | Close a => if pc_is_body (pcm s a) && Nat.ltb 0 (depthm s a) then Some (wpc s a PDrop) else None
  | Join a c => if pc_is_body (pcm s a) && onat_eqb (parentm s c) a && negb (cleftm s c) && handlem s c && negb (joinedm s c)
                then let s := set_handlem s (upd (handlem s) c false) in
                     let s := set_joinedm s (upd (joinedm s) c true) in
                     let s := set_jcm s (upd (jcm s) a c) in
                     let s := set_jexpm s (upd (jexpm s) a true) in
                     Some (wpc s a PJ0)
                else None
  | Panic a p => if pc_is_body (pcm s a) then Some (raise s a (UPanic p) false) else None
  | CPoint a => if pc_is_body (pcm s a) && cancel_due s a then Some (raise s a UCancel false) else None
  | Finish a v => if pc_is_body (pcm s a) && Nat.eqb (depthm s a) 0
                  then Some (wpc (set_cvalm s (upd (cvalm s) a v)) a PF1) else None
  | Cancel a => if negb (pc_is_none (pcm s a)) && is_co (kindm s a)
                then let s := set_cbitm s (upd (cbitm s) a true) in
                     if pc_is_ww (pcm s a) && is_none (reasonm s (jbm s a))
                     then Some (set_reasonm s (upd (reasonm s) (jbm s a) (Some RC)))
                     else Some s
                else None
  | Recheck a => if pc_is_ww (pcm s a) && cancel_due s a && is_none (reasonm s (jbm s a))
                 then Some (set_reasonm s (upd (reasonm s) (jbm s a) (Some RC)))
                 else None
  | Step a =>
      let c := jcm s a in let b := jbm s a in
      match pcm s a with
      | PNone | PBody | PDone => None
      | PDrop =>
          match depthm s a with
          | O => None
          | S d =>
              match frm s a d with
              | [] => (* the frame is left *)
                  let s := set_cleftm s (fun x => cleftm s x || (onat_eqb (parentm s x) a && Nat.eqb (cdepthm s x) d)) in
                  let s := set_depthm s (upd (depthm s) a d) in
                  Some (wpc s a (if unwinding (unwm s a) then match d with O => PF1 | S _ => PDrop end else PBody))
              | x :: ds =>
                  let s := set_frm s (upd (frm s) a (upd (frm s a) d ds)) in
                  if joinedm s x then Some s
                  else let s := set_joinedm s (upd (joinedm s) x true) in
                       let s := set_jcm s (upd (jcm s) a x) in
                       let s := set_jexpm s (upd (jexpm s) a false) in
                       Some (wpc s a PJ0)
              end
          end
      | PJ0 => let s := if is_co (kindm s a) && cdis cf then set_dism s (upd (dism s) a (S (dism s a))) else s in
               Some (wpc s a PW0)
      | PW0 => Some (wpc s a (if jstm s c then PW1 else PT1))
      | PW1 => let n := nextb s in
               let s := set_tokm s (upd (tokm s) n false) in
               let s := set_parkedm s (upd (parkedm s) n false) in
               let s := set_reasonm s (upd (reasonm s) n None) in
               let s := set_bownerm s (upd (bownerm s) n a) in
               let s := set_nextb s (S n) in
               let s := set_jwakem s (upd (jwakem s) c (Some n)) in
               let s := set_jbm s (upd (jbm s) a n) in
               Some (wpc s a PW2)
      | PW2 => Some (wpc s a (if jstm s c then PPark else PW3))
      | PW3 => Some (wpc (set_jwakem s (upd (jwakem s) c None)) a (if cloop cf then PW0 else PT1))
      | PPark =>
          if tokm s b then Some (wpc (set_tokm s (upd (tokm s) b false)) a after_park)
          else if cancel_due s a
               then (if unwinding (unwm s a) then Some (wpc s a after_park) else Some (raise s a UCancel (negb (jexpm s a))))
               else Some (wpc (set_parkedm s (upd (parkedm s) b true)) a PWW)
      | PWW =>
          match reasonm s b with
          | None => None
          | Some _ =>
              let s := set_tokm s (upd (tokm s) b false) in
              let s := set_parkedm s (upd (parkedm s) b false) in
              let s := set_reasonm s (upd (reasonm s) b None) in
              if cancel_due s a && negb (unwinding (unwm s a))
              then Some (raise s a UCancel (negb (jexpm s a)))
              else Some (wpc s a after_park)
          end
      | PT1 => if ipktm s c
               then let s' := set_ipktm s (upd (ipktm s) c false) in
                    let s' := set_jresm s' (upd (jresm s') a ROk) in
                    let s' := set_tkm s' (upd (tkm s') c true) in
                    Some (wpc s' a (after_take s a))
               else Some (wpc s a PT2)
      | PT2 => let r := match panm s c with Some p => RPanic p | None => RCancel end in
               let s' := set_panm s (upd (panm s) c None) in
               let s' := set_jresm s' (upd (jresm s') a r) in
               let s' := set_tkm s' (upd (tkm s') c true) in
               Some (wpc s' a (after_take s a))
      | PEn => (* `if !unwinding { check_cancel() }`: a dtor run by Drop for Scope is told that the owner unwinds *)
               Some (wpc (set_dism s (upd (dism s) a (dism s a - 1))) a
                         (if negb (jexpm s a) && unwinding (unwm s a) then PRes else PCk))
      | PCk => if cancel_due s a && negb (unwinding (unwm s a))
               then Some (raise s a UCancel (negb (jexpm s a)))
               else Some (wpc s a PRes)
      | PRes =>
          let cont := wpc s a (if jexpm s a then PRet else PDrop) in
          match unwm s a with
          | UNone => match jresm s a with
                     | ROk => Some cont
                     | RPanic p => Some (raise s a (UPanic p) (negb (jexpm s a)))
                     | RCancel => Some (raise s a UCancel (negb (jexpm s a)))
                     end
          | _ => Some cont
          end
      | PRet => match pktm s c with
                | Some v => let s := set_pktm s (upd (pktm s) c None) in
                            let s := set_gotm s (upd (gotm s) c (S (gotm s c))) in
                            Some (wpc s a PBody)
                | None => None
                end
      | PF1 => let s := match unwm s a with
                        | UNone => let s := set_pktm s (upd (pktm s) a (Some (cvalm s a))) in
                                   let s := set_ipktm s (upd (ipktm s) a true) in
                                   set_outm s (upd (outm s) a (OOk (cvalm s a)))
                        | UPanic p => let s := set_panm s (upd (panm s) a (Some p)) in
                                      set_outm s (upd (outm s) a (OPanic p))
                        | UCancel => set_outm s (upd (outm s) a OCancel)
                        end in
               Some (wpc s a PF2)
      | PF2 => Some (wpc (set_jstm s (upd (jstm s) a false)) a PF3)
      | PF3 => match jwakem s a with
               | Some w => let s := set_jwakem s (upd (jwakem s) a None) in
                           let s := set_awm s (upd (awm s) a w) in
                           Some (wpc s a PF4)
               | None => Some (wpc s a PDone)
               end
      | PF4 => let w := awm s a in
               let s' := set_tokm s (upd (tokm s) w true) in
               let s' := if parkedm s w && is_none (reasonm s w) then set_reasonm s' (upd (reasonm s') w (Some RU)) else s' in
               Some (wpc s' a PDone)
      end
  end.

Definition init : st :=
  {| pcm := fun _ => PNone; kindm := fun _ => KThread; depthm := fun _ => 0; frm := fun _ _ => [];
     unwm := fun _ => UNone; cbitm := fun _ => false; dism := fun _ => 0; jcm := fun _ => 0; jbm := fun _ => 0;
     jexpm := fun _ => false; jresm := fun _ => ROk; awm := fun _ => 0;
     jstm := fun _ => true; jwakem := fun _ => None; ipktm := fun _ => false; pktm := fun _ => None; panm := fun _ => None;
     joinedm := fun _ => false; handlem := fun _ => false; parentm := fun _ => None; cdepthm := fun _ => 0;
     cleftm := fun _ => false; cvalm := fun _ => 0; outm := fun _ => ORun; gotm := fun _ => 0; tkm := fun _ => false;
     tokm := fun _ => false; parkedm := fun _ => false; reasonm := fun _ => None; bownerm := fun _ => 0;
     nexta := 0; nextb := 1 |}.

Inductive Reach : st -> Prop :=
| R0 : Reach init
| RS s a s' : Reach s -> step s a = Some s' -> Reach s'.

(* run a schedule; a disabled action stops the run (None) *)
Fixpoint run (s : st) (l : list action) : option st :=
  match l with [] => Some s | a :: l' => match step s a with Some s' => run s' l' | None => None end end.

End Model.

(* the property's vocabulary *)
Definition is_child (s : st) (c : nat) : Prop := exists a, parentm s c = Some a.
Definition scope_left (s : st) (c : nat) : Prop := cleftm s c = true.       (* the owner has left the scope c was spawned in *)
Definition done (s : st) (c : nat) : Prop := jstm s c = false.              (* c has finished: Join::trigger's store happened *)
