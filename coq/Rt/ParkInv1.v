(* C02 - structural invariant of ParkModel: where the coroutine is (single resumption), which control
   points run, when the kernel guard is on. *)
From Coq Require Import List ZArith Bool Arith Lia.
Import ListNotations.
Require Import MayV.Rt.AtomicDur MayV.Base.BlockerSpec MayV.Rt.ParkModel MayV.Rt.ParkTac.
Open Scope Z_scope.

Record Inv1 (s : st) : Prop := {
  i_places : places s = (match up s with UDead => 0 | _ => 1 end)%nat;
  i_hun : forall i, un s i = NHold -> holder s = HUn i;
  i_hcn : forall i, cn s i = CHold -> holder s = HCn i;
  i_htm : forall i, tm s i = TmHold -> holder s = HTm i;
  i_run : running s = urun (up s);
  i_susp : slot s = true \/ kholds (kp s) = true \/ held (holder s) = true -> up s = USusp;
  i_wk : wk s = guard_on (kp s);
  i_nonest : kp s <> KNest /\ nested s = false;
  i_pre : match up s with UTo | UYc | UYield => kp s = KIdle | _ => True end;
  i_cdis : cdis s = wkloop (up s);
  (* control points of the pre-F31 order are never entered; no kernel half of an earlier Blocker can still
     register with the Cancel: the ghosts [oldk] and [tainted] stay at their initial values *)
  i_dead : (kp s <> KSetco /\ kp s <> KC1 /\ kp s <> KC2 /\ kp s <> KC3s) /\ oldk s = 0%nat /\ tainted s = false
}.

Lemma inv1_init : Inv1 init.
Proof. constructor; cbn; intros; fin. Qed.

Lemma one_place (r sl : bool) (q : nat) (kh : bool) (h : hold) :
  (b2n r + b2n sl + q + b2n kh + b2n (held h) = 1)%nat ->
  (r = true /\ sl = false /\ q = 0%nat /\ kh = false /\ h = HNone) \/
  (r = false /\ sl = true /\ q = 0%nat /\ kh = false /\ h = HNone) \/
  (r = false /\ sl = false /\ q = 1%nat /\ kh = false /\ h = HNone) \/
  (r = false /\ sl = false /\ q = 0%nat /\ kh = true /\ h = HNone) \/
  (r = false /\ sl = false /\ q = 0%nat /\ kh = false /\ held h = true).
Proof. destruct r, sl, kh, h; cbn; intros; try lia; intuition (try reflexivity; lia). Qed.
Lemma no_place (r sl : bool) (q : nat) (kh : bool) (h : hold) :
  (b2n r + b2n sl + q + b2n kh + b2n (held h) = 0)%nat ->
  r = false /\ sl = false /\ q = 0%nat /\ kh = false /\ h = HNone.
Proof. destruct r, sl, kh, h; cbn; intros; try lia; intuition (try reflexivity; lia). Qed.

(* rewrite the known field values of the pre-state everywhere *)
Ltac rw1 E := try rewrite E in *.
Ltac rwE E s r := lazymatch r with context [s] => fail | _ => rewrite E in * end.
Ltac rw :=
  repeat match goal with
  | E : up ?s = ?r |- _ => is_var s; rwE E s r
  | E : kp ?s = ?r |- _ => is_var s; rwE E s r
  | E : running ?s = ?r |- _ => is_var s; rwE E s r
  | E : slot ?s = ?r |- _ => is_var s; rwE E s r
  | E : holder ?s = ?r |- _ => is_var s; rwE E s r
  | E : rq ?s = ?r |- _ => is_var s; rwE E s r
  | E : kholds (kp ?s) = ?r |- _ => is_var s; rwE E s r
  | E : held (holder ?s) = ?r |- _ => is_var s; rwE E s r
  | E : wk ?s = ?r |- _ => is_var s; rwE E s r
  | E : cdis ?s = ?r |- _ => is_var s; rwE E s r
  | E : nested ?s = ?r |- _ => is_var s; rwE E s r
  | E : kdur ?s = ?r |- _ => is_var s; rwE E s r
  | E : kdl ?s = ?r |- _ => is_var s; rwE E s r
  | E : hnd ?s = ?r |- _ => is_var s; rwE E s r
  | E : wsrc ?s = ?r |- _ => is_var s; rwE E s r
  | E : para ?s = ?r |- _ => is_var s; rwE E s r
  | E : cco ?s = ?r |- _ => is_var s; rwE E s r
  | E : cbit ?s = ?r |- _ => is_var s; rwE E s r
  | E : pstate ?s = ?r |- _ => is_var s; rwE E s r
  | E : ccheck ?s = ?r |- _ => is_var s; rwE E s r
  | E : oldk ?s = ?r |- _ => is_var s; rwE E s r
  | E : dropping ?s = ?r |- _ => is_var s; rwE E s r
  end.

(* case analysis on where the coroutine is, from the places equation (hypothesis Ipl) *)
Ltac where_ Ipl :=
  unfold places in Ipl; cbn in Ipl;
  first
  [ (apply one_place in Ipl; destruct Ipl as [Ipl|[Ipl|[Ipl|[Ipl|Ipl]]]]; destruct Ipl as (?&?&?&?&?); try discriminate; try congruence)
  | (apply no_place in Ipl; destruct Ipl as (?&?&?&?&?); try discriminate; try congruence)
  | idtac ].

Ltac sp :=
  repeat match goal with
  | H : ?a = ?a -> _ |- _ => specialize (H eq_refl)
  | H : (?a = ?a \/ _) -> _ |- _ => specialize (H (or_introl eq_refl))
  | H : (_ \/ ?a = ?a \/ _) -> _ |- _ => specialize (H (or_intror (or_introl eq_refl)))
  | H : (_ \/ _ \/ ?a = ?a) -> _ |- _ => specialize (H (or_intror (or_intror eq_refl)))
  end.

(* one clause of Inv1 for the post-state; the pre-state facts are in the context *)
Ltac use_h :=
  try match goal with
      | Hh : forall i, un _ i = NHold -> _, Hj : un _ ?j = NHold |- _ => specialize (Hh j Hj)
      end;
  try match goal with
      | Hh : forall i, cn _ i = CHold -> _, Hj : cn _ ?j = CHold |- _ => specialize (Hh j Hj)
      end;
  try match goal with
      | Hh : forall i, tm _ i = TmHold -> _, Hj : tm _ ?j = TmHold |- _ => specialize (Hh j Hj)
      end.
Ltac cl :=
  unfold places; cbn; rw; cbn; intros;
  try match goal with |- context [upd _ _ _ ?j] => upd_at j end;
  try match goal with H : context [upd _ _ _ ?j] |- _ => cbn in H; upd_at j end;
  try match goal with
      | H : context [mark_stale (un ?s) ?j] |- _ => unfold mark_stale in H; destruct (un s j) eqn:?
      end;
  try match goal with
      | H : context [match cn ?s ?j with _ => _ end] |- _ => destruct (cn s j) eqn:?
      end;
  fin0; use_h; fin0;
  try solve [fin];
  try match goal with
      | |- context [match up ?s with _ => _ end] => destruct (up s) eqn:?; cbn in *; fin
      end;
  try match goal with
      | |- kp ?s = _ => destruct (kp s) eqn:?; cbn in *; fin
      end.

Ltac absurd_hyp :=
  try match goal with
      | H : false = true |- _ => discriminate H
      | H : true = false |- _ => discriminate H
      | H : _ && false = true |- _ => rewrite andb_false_r in H; discriminate H
      | H : ?k <> ?k |- _ => exfalso; apply H; reflexivity
      | H : S _ = 0%nat |- _ => discriminate H
      | H : 0%nat = S _ |- _ => discriminate H
      end.
Ltac holder_fact :=
  try match goal with E : un ?s ?i = NHold, Hh : forall i, un ?s i = NHold -> _ |- _ => pose proof (Hh i E) end;
  try match goal with E : cn ?s ?i = CHold, Hh : forall i, cn ?s i = CHold -> _ |- _ => pose proof (Hh i E) end;
  try match goal with E : tm ?s ?i = TmHold, Hh : forall i, tm ?s i = TmHold -> _ |- _ => pose proof (Hh i E) end.
Ltac pre Ipl :=
  unfold canceled in *; holder_fact; rw; cbn in *|-; sp; rw; cbn in *|-; where_ Ipl; rw; sp; rw; cbn in *|-; absurd_hyp.

Lemma inv1_step s a s' : Inv1 s -> stepF s a = Some s' -> Inv1 s'.
Proof.
  intros [Ipl Ihun Ihcn Ihtm Irun Isusp Iwk [Inn Ine] Ipre Icd ((Id1 & Id2 & Id3 & Id4) & Iok & Itn)] H.
  destruct a.
  all: step_inv H.
  all: pre Ipl.
  all: constructor.
  all: solve [cl].
Qed.

Theorem inv1_reach s : ReachF s -> Inv1 s.
Proof. induction 1; [apply inv1_init | eapply inv1_step; eauto]. Qed.

(* (i) single resumption: the coroutine is in exactly one place while it is alive - running, in the
   wait_co slot, in a run queue, in the hands of the kernel half, or in the hands of exactly one of
   unparker / canceller / timer callback - and nowhere once it is gone *)
Theorem single_resumption s : ReachF s ->
  places s = (match up s with UDead => 0 | _ => 1 end)%nat.
Proof. intros R. apply (i_places s (inv1_reach s R)). Qed.

(* whoever holds the taken coroutine is the one recorded holder: at most one of them at a time *)
Theorem taken_by_exactly_one s : ReachF s ->
  (forall i, un s i = NHold -> holder s = HUn i) /\
  (forall i, cn s i = CHold -> holder s = HCn i) /\
  (forall i, tm s i = TmHold -> holder s = HTm i).
Proof. intros R. destruct (inv1_reach s R). auto. Qed.

Corollary holders_unique s : ReachF s ->
  (forall i j, un s i = NHold -> un s j = NHold -> i = j) /\
  (forall i j, cn s i = CHold -> cn s j = CHold -> i = j) /\
  (forall i j, tm s i = TmHold -> tm s j = TmHold -> i = j) /\
  (forall i j, un s i = NHold -> cn s j = CHold -> False) /\
  (forall i j, un s i = NHold -> tm s j = TmHold -> False) /\
  (forall i j, cn s i = CHold -> tm s j = TmHold -> False).
Proof.
  intros R. destruct (taken_by_exactly_one s R) as (A & B & C).
  repeat split; intros;
    repeat match goal with
    | H : un s _ = NHold |- _ => apply A in H
    | H : cn s _ = CHold |- _ => apply B in H
    | H : tm s _ = TmHold |- _ => apply C in H
    end; congruence.
Qed.
