(* SchedLoopModel: (b) how many iterations of its worker's loop a queued coroutine waits. *)
From Coq Require Import List Arith ZArith NArith Bool Lia.
Import ListNotations.
Require Import MayV.Rt.SchedModel MayV.Rt.SchedInv MayV.Rt.SchedTac MayV.Rt.SchedThm MayV.Rt.SchedLoopModel MayV.Rt.SchedLoopBase
  MayV.Rt.SchedLoopInv MayV.Rt.SchedLoopStruct MayV.Rt.SchedLoopQueues MayV.Rt.SchedLoopSleep.

Lemma lstep_pop_nonempty P l w l' x r : lstep P l (LPop w) = Some l' -> lq (base l) w = x :: r ->
  lq (base l') w = r /\ ntake l' x = S (ntake l x).
Proof.
  intros H E. destruct (lstep_inv _ _ _ _ H) as (G & s' & -> & S). rewrite base_ctl. cbn [proj] in S. rewrite E in S.
  apply step_grab in S. destruct S as (_ & c & A & _). cbn [getq] in A. rewrite E in A. inversion A; subst. split; [reflexivity|].
  unfold ctl. rewrite E. unfold taken, inc. lsimp. now rewrite upd_eq.
Qed.

Lemma laction_pop_dec (a : laction) w : {a = LPop w} + {a <> LPop w}.
Proof. destruct a; try (right; discriminate). destruct (Nat.eq_dec w0 w) as [->|N]; [left; reflexivity | right; congruence]. Qed.

(* ---- local queue: FIFO position ---- *)
Lemma local_pos_step P l a l' w c pre post : lstep P l a = Some l' -> lq (base l) w = pre ++ c :: post ->
  ntake l c < ntake l' c \/
  exists pre' post', lq (base l') w = pre' ++ c :: post' /\ length pre' + (npop l' w - npop l w) <= length pre.
Proof.
  intros H E. destruct (laction_pop_dec a w) as [->|NP].
  - destruct pre as [|x pre1]; cbn [app] in E; destruct (lstep_pop_nonempty _ _ _ _ _ _ H E) as (A & B).
    + left. lia.
    + right. exists pre1, post. split; [exact A|]. destruct (lstep_npop _ _ _ _ w H) as [->|(_ & ->)]; cbn [length]; lia.
  - assert (NPOP : npop l' w = npop l w) by (destruct (lstep_npop _ _ _ _ w H) as [X|(X & _)]; [exact X | contradiction]).
    rewrite NPOP, Nat.sub_diag.
    destruct (lstep_lq _ _ _ _ w H) as [A|[(x & A & B & _)|(x & A & _)]].
    + right. exists pre, post. split; [congruence | lia].
    + destruct pre as [|y pre1]; cbn [app] in E; rewrite E in A; inversion A; subst.
      * left. lia.
      * right. exists pre1, post. split; [reflexivity | cbn [length]; lia].
    + right. exists pre, (post ++ [x]). split; [rewrite A, E, <- app_assoc; reflexivity | lia].
Qed.

(* a coroutine at position |pre| of the local queue of worker w is taken out of it - by w's local.pop or by a thief - before
   w has called local.pop |pre|+1 more times *)
Theorem local_fifo_bound P w c tr : forall l l' pre post, lruns P l tr = Some l' ->
  lq (base l) w = pre ++ c :: post -> npop l w + length pre < npop l' w -> ntake l c < ntake l' c.
Proof.
  induction tr as [|a tr IH]; cbn [lruns]; intros l l' pre post H E B; [inversion H; subst; lia|].
  destruct (lstep P l a) as [l1|] eqn:S; [|discriminate].
  destruct (lruns_mono _ _ _ _ H w c) as (_ & _ & _ & M & _).
  destruct (local_pos_step _ _ _ _ w c pre post S E) as [A|(pre' & post' & A & C)]; [lia|].
  pose proof (lstep_ntake_mono _ _ _ _ c S). pose proof (lstep_npop_mono _ _ _ _ w S).
  specialize (IH l1 l' pre' post' H A). lia.
Qed.

(* ---- global queue: the next completed collect_global ---- *)
Lemma global_step P l a l' w c : lstep P l a = Some l' -> In c (gq (base l) w) ->
  ngrab l c < ngrab l' c \/ (In c (gq (base l') w) /\ ncoll l' w = ncoll l w).
Proof.
  intros H I.
  assert (NC : ncoll l' w = ncoll l w).
  { destruct (lstep_ncoll _ _ _ _ w H) as [X|(_ & X & _)]; [exact X | rewrite X in I; destruct I]. }
  destruct (lstep_gq2 _ _ _ _ w H) as [A|[(x & A & B & _)|(x & b & A & _)]].
  - right. split; [congruence | exact NC].
  - rewrite A in I. destruct I as [->|I]; [left; lia | right; auto].
  - right. split; [rewrite A; apply in_or_app; auto | exact NC].
Qed.

(* a coroutine in the global queue of w is taken by the collect_global of w that completes next (a collect_global ends
   with an empty bulk_pop) *)
Theorem global_collect_bound P w c tr : forall l l', lruns P l tr = Some l' ->
  In c (gq (base l) w) -> ncoll l w < ncoll l' w -> ngrab l c < ngrab l' c.
Proof.
  induction tr as [|a tr IH]; cbn [lruns]; intros l l' H I B; [inversion H; subst; lia|].
  destruct (lstep P l a) as [l1|] eqn:S; [|discriminate].
  destruct (lruns_mono _ _ _ _ H w c) as (_ & _ & _ & _ & M).
  destruct (global_step _ _ _ _ w c S I) as [A|(A & C)]; [lia|].
  pose proof (lstep_ngrab_mono _ _ _ _ c S). specialize (IH l1 l' H A). lia.
Qed.

(* ---- rounds of the loop (work_steal; coll_ok: the loop before the fix, or 1 <= interval < budget): every call of select
   completes a collect_global ---- *)
Lemma round_aux P n w tr : work_steal P = true -> coll_ok P -> forall l l', LReach P n l -> lruns P l tr = Some l' ->
  nsel l w < nsel l' w -> coll0 l w < ncoll l' w.
Proof.
  intros WS OK. induction tr as [|a tr IH]; cbn [lruns]; intros l l' R H B; [inversion H; subst; lia|].
  destruct (lstep P l a) as [l1|] eqn:S; [|discriminate].
  destruct (lruns_mono _ _ _ _ H w 0) as (M & _).
  destruct (lstep_nsel _ _ _ _ w S) as [[A1 A2]|(nx & _ & A1 & _)].
  - rewrite <- A2. apply IH; [eapply LRS; eauto | exact H | lia].
  - destruct (rcinv_reach _ _ _ R) as (_ & RC & _). specialize (RC WS OK w). rewrite A1 in RC. specialize (RC eq_refl).
    pose proof (lstep_ncoll_mono _ _ _ _ w S). lia.
Qed.

Theorem round_collects P n w tr : work_steal P = true -> coll_ok P -> forall l l', LReach P n l -> lruns P l tr = Some l' ->
  nsel l w + 2 <= nsel l' w -> ncoll l w < ncoll l' w.
Proof.
  intros WS OK. induction tr as [|a tr IH]; cbn [lruns]; intros l l' R H B; [inversion H; subst; lia|].
  destruct (lstep P l a) as [l1|] eqn:S; [|discriminate].
  assert (R1 : LReach P n l1) by (eapply LRS; eauto).
  destruct (lstep_nsel _ _ _ _ w S) as [[A1 A2]|(nx & _ & _ & A1 & A2)].
  - pose proof (lstep_ncoll_mono _ _ _ _ w S). specialize (IH l1 l' R1 H). lia.
  - rewrite <- A2. eapply round_aux; eauto. lia.
Qed.

(* a coroutine in the global queue of w has been collected when w has completed two more rounds of its loop *)
Theorem global_round_bound P n w c tr l l' : work_steal P = true -> coll_ok P -> LReach P n l -> lruns P l tr = Some l' ->
  In c (gq (base l) w) -> nsel l w + 2 <= nsel l' w -> ngrab l c < ngrab l' c.
Proof.
  intros WS OK R H I B. eapply global_collect_bound; eauto. eapply round_collects; eauto.
Qed.
