(* Invariant of CqueueModel for the CURRENT code (cfg `current`), counting lemmas and the tactics used to prove
   that every transition preserves it (CqueuePres*.v).  Owicki-Gries style: per-arm assertions keyed by the
   control point, per-event assertions, queue contents, the owner's control points, and the wake-up chain.

   Groups of clauses:
     A_*  select coroutines: existence, the counters tops/sent/bots/botd per control point, Done-event counters,
          join flag, result, kernel counter zero once EventSender::drop got past its wait, suspension in an event
     E_*  events: pushed at most once, popped only if pushed, the arm of an unconsumed event is suspended IN IT,
          a consumed event's bottom half has been started (bots >= its round)
     K_cnt the `kernel` word counts the kernel halves between fetch_add and fetch_sub
     Q_*  queue contents = events pushed and not popped (the entry held by the owner between the re-check pop and
          to_wake.take counts as queued: qall)
     C_cnt `cnt` = arms counted in - arms past their fetch_sub
     S_sel / D_join / O_* the owner: handle present iff Done not consumed, a consumed Done event's arm is done or being
          joined right now, check_panic's locals, cancel-disable balance
     W_*  wake-up chain (no lost wake-up), J_live / L_all / M_gone (Finished, drain, scope exit)
     R_*  inline execution of the bottom half, P_* panic re-raise bookkeeping, T_dl deadline *)
From Coq Require Import List Arith Bool ZArith Lia.
Import ListNotations.
Require Import MayV.Rt.CqueueModel.

(* ---- control-point classes ---- *)
Definition dset (p : apc) : bool := match p with AD2 | AD3 | AD4 | AF1 | ADone => true | _ => false end.
Definition decd (p : apc) : bool := match p with AD3 | AD4 | AF1 | ADone => true | _ => false end.
Definition endset (p : apc) : bool := match p with AD0 | AD1 | AD2 | AD3 | AD4 | AF1 | ADone => true | _ => false end.
Definition postd0 (p : apc) : bool := match p with AD1 | AD2 | AD3 | AD4 | AF1 | ADone => true | _ => false end.
Definition is_adone (p : apc) : bool := match p with ADone => true | _ => false end.
Definition running (p : apc) : bool := match p with ANone | ASusp | ADone => false | _ => true end.
Definition kact4 (p : kpcT) : bool := match p with K1 | K2 | K3 | K4 => true | _ => false end.
Definition kpost (p : kpcT) : bool := match p with K2 | K3 | K4 | KDone => true | _ => false end.
Definition inpoll (p : opcT) : bool :=
  match p with P1 | P2 | P2b | P3 | P4 | P4t | P5 | P5w | P6 | PRun | Cpre | C0 | CJ | C1 | C2 | C3 => true | _ => false end.
Definition adding (p : opcT) : bool := match p with OA2 | OA3 => true | _ => false end.
Definition is_oa2 (p : opcT) : bool := match p with OA2 => true | _ => false end.
Definition is_oexit (p : opcT) : bool := match p with OExit => true | _ => false end.
Definition cpcs (p : opcT) : bool := match p with C0 | CJ | C1 | C2 | C3 => true | _ => false end.
Definition cjoin (p : opcT) : bool := match p with C0 | CJ => true | _ => false end.
Definition cres (p : opcT) : bool := match p with C1 | C2 | C3 => true | _ => false end.
Definition cdis1 (p : opcT) : bool := match p with CJ | C1 => true | _ => false end.
Definition copcs (p : opcT) : bool := match p with C0 | C1 | FD0 | FE0 => true | _ => false end.
Definition drainset (p : opcT) : bool := inpoll p || match p with FE0 => true | _ => false end.
Definition parkset (p : opcT) : bool := match p with P4 | P4t | P5 | P5w | P6 => true | _ => false end.
Definition waitset (p : opcT) : bool := match p with P4 | P5 | P5w => true | _ => false end.
Definition sleepset (p : opcT) : bool := match p with P5 | P5w => true | _ => false end.
Definition goneset (p : opcT) : bool := match p with FE0 | FE1 | OExit => true | _ => false end.
Definition jset (s : st) : bool :=
  match opc s with P3 | P4 | P5 | P5w => true | P2 => negb (oalld s) | _ => false end.
Definition finrel (p : opcT) (f : nat) : Prop :=
  match p with
  | ONone | OBody | OA2 | OA3 | OUnw => f = 0
  | FC0 | FC1 | FD0 | FE0 | FE1 => f = 1 \/ f = 2
  | OExit => f = 2
  | _ => f <= 2
  end.

(* the queue as the invariant sees it: the entry popped by the re-check is still "in" until to_wake.take is through *)
Definition qall (s : st) : list qent := match opc s with P4t => ostash s :: evq s | _ => evq s end.

(* per control point: top halves completed T, events created N, bottom halves started B / ended D *)
Definition ctr (p : apc) (T N B D : nat) : Prop :=
  match p with
  | ANone => T = 0 /\ N = 0 /\ B = 0 /\ D = 0
  | ATop => T = N /\ N = B /\ D = B
  | AS0 | AS1 => T = S N /\ N = B /\ D = B
  | ASusp => T = N /\ N = S B /\ D = B
  | ABot => T = N /\ N = B /\ S D = B
  | _ => N = B /\ D = B /\ (T = N \/ T = S N)
  end.

(* number of i < n with f i = true *)
Fixpoint cntif (f : nat -> bool) (n : nat) : nat :=
  match n with O => 0 | S m => (if f m then 1 else 0) + cntif f m end.

Record Inv (s : st) : Prop := {
  A_ex   : forall a, pc s a = ANone <-> nexta s <= a;
  E_ex   : forall e, kpc s e = KNone <-> nexte s <= e;
  B_fr   : forall b, nextb s <= b -> tok s b = false;
  A_new  : forall a, nexta s <= a -> sel s a = false /\ dpop s a = 0 /\ kern s a = 0 /\ inl s a = false;
  E_new  : forall e, nexte s <= e -> epush s e = 0 /\ epop s e = 0;
  I_tot  : nexta s = if adding (opc s) then S (total s) else total s;
  A_ctr  : forall a, ctr (pc s a) (tops s a) (sent s a) (bots s a) (botd s a);
  A_dp   : forall a, dpush s a = (if dset (pc s a) then 1 else 0) /\ dpop s a <= dpush s a;
  A_jst  : forall a, jst s a = negb (is_adone (pc s a));
  A_res  : forall a, endset (pc s a) = false <-> ares s a = RRun;
  A_k0   : forall a, postd0 (pc s a) = true -> kern s a = 0;
  A_susp : forall a, pc s a = ASusp ->
             acur s a < nexte s /\ earm s (acur s a) = a /\ epop s (acur s a) = 0 /\ ernd s (acur s a) = tops s a;
  A_aw   : forall a, pc s a = AD4 -> aw s a < nextb s;
  E_cnt  : forall e, epop s e <= epush s e /\ epush s e = (if kpost (kpc s e) then 1 else 0);
  E_arm  : forall e, e < nexte s -> earm s e < nexta s /\ 1 <= ernd s e /\ ernd s e <= tops s (earm s e);
  E_pop0 : forall e, e < nexte s -> epop s e = 0 -> pc s (earm s e) = ASusp /\ acur s (earm s e) = e;
  E_pop1 : forall e, epop s e = 1 -> ernd s e <= bots s (earm s e);
  E_kw   : forall e, kpc s e = K3 -> kw s e < nextb s;
  K_cnt  : forall a, kern s a = cntif (fun e => Nat.eqb (earm s e) a && kact4 (kpc s e)) (nexte s);
  Q_norm : forall e, In (ENormal e) (qall s) <-> (epush s e = 1 /\ epop s e = 0);
  Q_done : forall a, In (EDone a) (qall s) <-> (dpush s a = 1 /\ dpop s a = 0);
  Q_nd   : NoDup (qall s);
  C_cnt  : cnt s = (Z.of_nat (nexta s) - (if is_oa2 (opc s) then 1 else 0) - Z.of_nat (cntif (fun a => decd (pc s a)) (nexta s)))%Z;
  S_sel  : forall a, a < nexta s ->
             if adding (opc s) && Nat.eqb (S a) (nexta s) then sel s a = false /\ dpop s a = 0
             else sel s a = Nat.eqb (dpop s a) 0;
  D_join : forall a, dpop s a = 1 -> jst s a = false \/ (cjoin (opc s) = true /\ ocur s = a);
  O_chk  : cpcs (opc s) = true -> dpop s (ocur s) = 1;
  O_chk2 : cres (opc s) = true -> jst s (ocur s) = false /\ ojres s = ares s (ocur s);
  O_c3   : opc s = C3 -> ispan s = false /\ exists p, ojres s = RPanic p;
  O_dis  : odis s = if oco s
                    then (if cdis1 (opc s) then 1 else 0) + (if negb (Nat.eqb (ofin s) 0) && drainset (opc s) then 1 else 0)
                    else 0;
  O_co   : copcs (opc s) = true -> oco s = true;
  W_tw   : forall b, towake s = Some b -> b = ob s /\ b < nextb s;
  W_ob   : parkset (opc s) = true -> ob s < nextb s;
  W_tok  : waitset (opc s) = true ->
             tok s (ob s) = true \/ towake s = Some (ob s) \/ (exists e, kpc s e = K3 /\ kw s e = ob s)
             \/ (exists a, pc s a = AD4 /\ aw s a = ob s);
  W_q    : sleepset (opc s) = true -> towake s = Some (ob s) -> evq s <> [] ->
             (exists e, kpc s e = K2) \/ (exists a, pc s a = AD2 \/ pc s a = AD3);
  J_live : jset s = true -> cnt s <> 0%Z \/ evq s <> [];
  L_all  : opc s = P2 -> oalld s = true -> forall a, a < nexta s -> dset (pc s a) = true;
  M_gone : goneset (opc s) = true ->
             (forall a, a < nexta s -> pc s a = ADone /\ dpop s a = 1) /\
             (forall e, e < nexte s -> kpc s e = KDone /\ epop s e = 1) /\ evq s = [];
  X_left : oleft s = is_oexit (opc s);
  R_run  : opc s = PRun ->
             earm s (oev s) = ocur s /\ epop s (oev s) = 1 /\ bots s (ocur s) = ernd s (oev s) /\
             (inl s (ocur s) = false -> botd s (ocur s) = bots s (ocur s) \/ byield s (ocur s) = true);
  R_inl  : forall a, inl s a = true -> opc s = PRun /\ ocur s = a /\ running (pc s a) = true;
  P_rer  : rer s = (if ispan s then 1 else 0) /\ (ispan s = true <-> rerp s <> None) /\
           (forall p, rerp s = Some p -> exists a, ares s a = RPanic p);
  P_pan  : forall a p, dpop s a = 1 -> ares s a = RPanic p -> (cpcs (opc s) = true /\ ocur s = a) \/ ispan s = true;
  N_bug  : opc s <> OBug /\ opc s <> Cpre /\ opc s <> P2b;
  O_fin  : finrel (opc s) (ofin s) /\ fi s <= total s /\ (opc s = FC1 -> fi s < total s);
  T_dl   : inpoll (opc s) = true ->
             if Nat.eqb (ofin s) 0 then odl s = zadd_opt (ocall s) (oto s) /\ (ocall s <= now s)%Z
             else odl s = None /\ oto s = None }.

(* ---- upd ---- *)
Lemma upd_eq {X} (f : nat -> X) i v : upd f i v i = v.
Proof. unfold upd. now rewrite Nat.eqb_refl. Qed.
Lemma upd_neq {X} (f : nat -> X) i j v : j <> i -> upd f i v j = f j.
Proof. unfold upd. intros H. destruct (Nat.eqb_spec j i); congruence. Qed.

(* ---- counting ---- *)
Lemma cntif_ext f g n : (forall i, i < n -> f i = g i) -> cntif f n = cntif g n.
Proof. induction n; cbn; intros H; [reflexivity|]. rewrite (H n) by lia. rewrite IHn; [reflexivity|]. intros; apply H; lia. Qed.
Lemma cntif_le f n : cntif f n <= n.
Proof. induction n; cbn; [lia|]. destruct (f n); lia. Qed.
Lemma cntif_set f g n e : e < n -> (forall i, i <> e -> g i = f i) ->
  cntif g n + (if f e then 1 else 0) = cntif f n + (if g e then 1 else 0).
Proof.
  induction n; intros L H; [lia|]. cbn [cntif].
  destruct (Nat.eq_dec e n) as [->|N].
  - rewrite (cntif_ext g f n) by (intros; apply H; lia). lia.
  - rewrite (H n) by lia. specialize (IHn ltac:(lia) H). lia.
Qed.
Lemma cntif_zero f n : cntif f n = 0 -> forall i, i < n -> f i = false.
Proof.
  induction n; cbn; intros H i L; [lia|]. destruct (f n) eqn:E; [lia|].
  destruct (Nat.eq_dec i n) as [->|N]; [exact E | apply IHn; lia].
Qed.
Lemma cntif_none f n : (forall i, i < n -> f i = false) -> cntif f n = 0.
Proof. induction n; cbn; intros H; [reflexivity|]. rewrite (H n) by lia. rewrite IHn; [reflexivity|]. intros; apply H; lia. Qed.
Lemma cntif_full f n : cntif f n = n -> forall i, i < n -> f i = true.
Proof.
  induction n; cbn; intros H i L; [lia|]. pose proof (cntif_le f n).
  destruct (f n) eqn:E; [|lia]. destruct (Nat.eq_dec i n) as [->|N]; [exact E | apply IHn; lia].
Qed.
Lemma cntif_pos f n i : i < n -> f i = true -> 1 <= cntif f n.
Proof. intros L E. destruct (cntif f n) eqn:C; [|lia]. rewrite (cntif_zero f n C i L) in E. discriminate. Qed.

Lemma run_reach cf l : forall s s', Reach cf s -> run cf s l = Some s' -> Reach cf s'.
Proof.
  induction l as [|a l IH]; cbn [run]; intros s s' R H; [inversion H; subst; exact R|].
  destruct (step cf s a) as [s1|] eqn:E; [|discriminate]. eapply IH; [eapply RS; eauto | exact H].
Qed.

(* ---- tactics ---- *)
Ltac inv_some := match goal with H : Some _ = Some _ |- _ => inversion H; subst; clear H end.

(* all projections and setters of the state *)
Ltac simp :=
  cbn [evq cnt towake sel total ispan pc cbit inl kern ares jst aw acur kpc earm kw tok nextb opc oco ocbit odis ounw ofin opay
       oto odl opdl ocall oalld ob ocur oev ojres fi ostash owk now nexta nexte tops bots botd sent byield epush epop ernd dpush dpop
       olast rer rerp oleft
       set_evq set_cnt set_towake set_sel set_total set_ispan set_pc set_cbit set_inl set_kern set_ares set_jst set_aw set_acur
       set_kpc set_earm set_kw set_tok set_nextb set_opc set_oco set_ocbit set_odis set_ounw set_ofin set_opay set_oto set_odl
       set_opdl set_ocall set_oalld set_ob set_ocur set_oev set_ojres set_fi set_ostash set_owk set_now set_nexta set_nexte set_tops
       set_bots set_botd set_sent set_byield set_epush set_epop set_ernd set_dpush set_dpop set_olast set_rer set_rerp set_oleft
       wpc wkpc negb andb orb] in *.

(* split the step function into its cases; H : step current s ac = Some s' *)
Ltac sc1 H :=
  match type of H with
  | context [match ?ac with Start _ => _ | OAdd => _ | OPoll _ => _ | ORemove _ => _ | OClose => _ | OPanicA _ => _ | OCancelled => _
             | OCatch => _ | OStep => _ | CancelOwner => _ | Tick _ => _ | ASend _ => _ | ANext _ => _ | AFinish _ => _
             | APanic _ _ => _ | ACancelled _ => _ | AYield _ => _ | AStep _ => _ | KStep _ => _ end] => destruct ac
  | context [match opc ?s with _ => _ end] => let E := fresh "Eo" in destruct (opc s) eqn:E
  | context [match pc ?s ?a with _ => _ end] => let E := fresh "Ep" in destruct (pc s a) eqn:E
  | context [match kpc ?s ?e with _ => _ end] => let E := fresh "Ek" in destruct (kpc s e) eqn:E
  | context [match evq ?s with _ => _ end] => let E := fresh "Eq" in destruct (evq s) eqn:E
  | context [match ostash ?s with _ => _ end] => let E := fresh "Es" in destruct (ostash s) eqn:E
  | context [match towake ?s with _ => _ end] => let E := fresh "Ew" in destruct (towake s) eqn:E
  | context [match ojres ?s with _ => _ end] => let E := fresh "Ej" in destruct (ojres s) eqn:E
  | context [match ofin ?s with _ => _ end] => let E := fresh "Ef" in destruct (ofin s) as [|[|?]] eqn:E
  | context [match ?q with ENormal _ => _ | EDone _ => _ end] => let E := fresh "Ee" in destruct q eqn:E
  | context [if ?c then _ else _] => let E := fresh "Ec" in destruct c eqn:E
  | _ => progress cbv zeta in H
  end; cbv beta iota in H; try discriminate.
Ltac step_cases H :=
  unfold step, ostep, astep, kstep, handle_ev, take_handle, raise_poll, ret_ok, ret_finished, ret_timeout, start_drain, arm_end in H;
  cbn [c_cntfirst c_joinalways c_kwait c_sendraise current andb] in H;
  repeat (sc1 H); try inv_some.

Ltac bools :=
  repeat match goal with
  | H : (_ && _)%bool = true |- _ => apply andb_prop in H; destruct H
  | H : (_ || _)%bool = false |- _ => apply orb_false_elim in H; destruct H
  | H : negb _ = true |- _ => apply negb_true_iff in H
  | H : negb _ = false |- _ => apply negb_false_iff in H
  | H : Nat.eqb _ _ = true |- _ => apply Nat.eqb_eq in H
  | H : Nat.eqb _ _ = false |- _ => apply Nat.eqb_neq in H
  | H : Nat.ltb _ _ = true |- _ => apply Nat.ltb_lt in H
  | H : Nat.ltb _ _ = false |- _ => apply Nat.ltb_ge in H
  | H : Z.eqb _ _ = true |- _ => apply Z.eqb_eq in H
  | H : Z.eqb _ _ = false |- _ => apply Z.eqb_neq in H
  | H : Z.leb _ _ = true |- _ => apply Z.leb_le in H
  | H : Z.leb _ _ = false |- _ => apply Z.leb_gt in H
  | H : user_pc ?p = true |- _ => destruct p eqn:?; cbn [user_pc] in H; try discriminate; clear H
  | H : is_asusp ?p = true |- _ => destruct p eqn:?; cbn [is_asusp] in H; try discriminate; clear H
  end.

(* decide every comparison of indices that an `upd` in the goal or in a hypothesis depends on *)
Ltac upds :=
  unfold upd in *;
  repeat match goal with
  | |- context [Nat.eqb ?x ?y] => destruct (Nat.eqb_spec x y); subst
  | H : context [Nat.eqb ?x ?y] |- _ => destruct (Nat.eqb_spec x y); subst
  end.
(* rewrite the known control points everywhere and evaluate the class predicates *)
Ltac pcs :=
  repeat match goal with
  | E : pc ?s ?a = _ |- _ => rewrite E in *
  | E : kpc ?s ?a = _ |- _ => rewrite E in *
  | E : opc ?s = _ |- _ => rewrite E in *
  end;
  cbn [dset decd endset postd0 is_adone running kact4 kpost inpoll adding is_oa2 is_oexit cpcs cjoin cres cdis1 copcs drainset parkset
       waitset sleepset goneset finrel ctr is_abot is_asusp user_pc is_onone negb andb orb] in *.
