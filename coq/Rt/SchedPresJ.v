(* Preservation of JInv: the blocker registered by a wait()/join() call in progress is still in to_wake,
   or its unpark is on the way, or its token is set (no lost wake-up of the joiner). *)
From Coq Require Import List Arith ZArith Bool Lia.
Import ListNotations.
Require Import MayV.Rt.SchedModel MayV.Rt.SchedInv MayV.Rt.SchedTac MayV.Rt.SchedPresC.

Lemma park_ret_cases s c : park_ret s c = s \/
  exists d m b, upc (co s c) = InJ d /\ jcall (co s d) = Some (AC c, JW3p m b) /\
                park_ret s c = s_tok (set_call s (AC c) d (JW0 m)) (upd (tok s) b false).
Proof.
  unfold park_ret. destruct (upc (co s c)) eqn:U; auto.
  destruct (call_of s (AC c) d) as [[]|] eqn:E; auto. apply call_of_some in E. right. eauto 8.
Qed.

Ltac leaf := first [ assumption | reflexivity | congruence | lia | solve [auto] ].
Ltac tdj := first [ solve [leaf] | solve [left; tdj] | solve [right; tdj] ].
Ltac dj := repeat match goal with H : _ \/ _ |- _ => destruct H end.
Ltac fin_j :=
  splh; repeat split; intros;
  try match goal with H2 : ?P -> ?Q -> _ \/ _ |- _ =>
        first [ specialize (H2 ltac:(leaf) ltac:(leaf)) | clear H2 ] end;
  dj; first [ solve [leaf] | tdj ].

Lemma jinv_step s a s' : FInv s -> JInv s -> step s a = Some s' -> JInv s'.
Proof.
  intros (F1 & F2 & F3 & F4) HJ H. destruct a.
  all: step_inv H.
  all: try match goal with E : cur _ _ = Some ?a |- _ => destruct (cur_cases _ _ _ E) as [[? ?]|[? [? [? ?]]]]; subst a end.
  all: prep.
  all: unfold take_wake in *.
  all: try match goal with |- context [park_ret ?s0 ?c] => destruct (park_ret_cases s0 c) as [->|(dd & mm & bb & UU & JJ & ->)] end.
  all: try match goal with q : qid |- _ => destruct q end.
  all: repeat match goal with |- context [match jwake ?x with _ => _ end] => destruct (jwake x) eqn:? end.
  all: repeat match goal with E : jcall (co ?s0 ?d) = Some _ |- _ => lazymatch goal with K : jinv s0 d |- _ => fail | _ => pose proof (HJ d) as K; unfold jinv in K; rewrite E in K end end.
  all: intros d0; pose proof (HJ d0) as OLD; unfold jinv, wcoming, trig_pending in *.
  all: sst; bools.
  all: upds; sco.
  all: try exact OLD.
  all: try exact I.
  all: try match goal with |- context [match jcall (co ?s0 ?d) with _ => _ end] => destruct (jcall (co s0 d)) as [[? []]|]; try exact I; try exact OLD end.
  all: idle.
  all: try match goal with |- context [if ?b then SL _ else _] => destruct b end.
  all: try match goal with |- context [match ?i with Some _ => SP _ _ | None => SG _ end] => destruct i end.
  all: try match goal with |- context [match ?v with Some _ => PP0 _ | None => PT1 end] => destruct v end.
  all: try match goal with |- context [if jstate ?x then _ else _] => destruct (jstate x) eqn:? end.
  all: splh.
  all: rewrite ?upd_eq.
  all: repeat match goal with |- context [upd ?f ?i ?v ?j] => rewrite (upd_neq f i j v) by first [lia | congruence | (intro; subst; congruence)] end.
  all: rewrite ?in_snoc.
  all: try match goal with |- context [In ?b (rm1 ?w ?l)] => destruct (Nat.eq_dec b w) as [->|ne]; [rewrite upd_eq | rewrite (upd_neq _ _ _ _ ne); assert (In b l -> In b (rm1 w l)) by (intro; apply in_rm1_other; assumption)] end.
  all: try solve [fin_j].

Qed.
