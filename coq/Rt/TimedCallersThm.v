(* C08 (callers) - proofs, part 1: never early, quiescence (never hang), for the model DL of TimedCallers.v.
   All statements are for every kind of caller (the code KFull, the textbook loop KRem, the slip KRecomp, the
   single park KSingle), any arming function that never arms less than it was asked for. *)
From Coq Require Import ZArith List Bool Lia.
Import ListNotations.
Require Import MayV.Rt.AtomicDur MayV.Rt.TimedCallers.
Open Scope Z_scope.

Ltac inv_some :=
  match goal with
  | H : Some _ = Some _ |- _ => injection H as <-
  | H : None = Some _ |- _ => discriminate H
  end.

(* split the conditionals of a step hypothesis, innermost scrutinee first *)
Ltac split_match H :=
  repeat match type of H with
  | context [match ?c with _ => _ end] =>
      lazymatch c with
      | context [match _ with _ => _ end] => fail
      | _ => destruct c eqn:?
      end
  | context [if ?c then _ else _] =>
      lazymatch c with
      | context [if _ then _ else _] => fail
      | context [match _ with _ => _ end] => fail
      | _ => destruct c eqn:?
      end
  end.

Ltac zb :=
  repeat match goal with
  | H : (_ <=? _) = true |- _ => apply Z.leb_le in H
  | H : (_ <=? _) = false |- _ => apply Z.leb_gt in H
  | H : (_ <? _) = true |- _ => apply Z.ltb_lt in H
  | H : (_ <? _) = false |- _ => apply Z.ltb_ge in H
  end.

Ltac spec_all :=
  repeat match goal with
  | H : ?A -> _, H' : ?A |- _ => match type of A with Prop => specialize (H H') end
  | H : ?a = ?a -> _ |- _ => specialize (H eq_refl)
  | H : (?a = ?a \/ _) -> _ |- _ => specialize (H (or_introl eq_refl))
  | H : (_ \/ ?a = ?a) -> _ |- _ => specialize (H (or_intror eq_refl))
  | H : ?x <> ?y -> _ |- _ =>
      let X := fresh in assert (X : x <> y) by (congruence || discriminate); specialize (H X); clear X
  end.
Ltac brk := repeat match goal with
  | H : _ /\ _ |- _ => destruct H
  | H : exists _, _ |- _ => destruct H
  end.
Ltac leaf :=
  intros; spec_all; brk; zb;
  try match goal with
      | H : forall t y, ?r = Some (RTimeout, t, y) -> _, H' : ?r = Some (RTimeout, _, _) |- _ => specialize (H _ _ H')
      end;
  try lia; try discriminate; try congruence; try assumption;
  try match goal with H : _ \/ _ |- _ => destruct H; (discriminate || congruence) end;
  try (split; (lia || assumption));
  try (eexists; split; [eassumption | lia]).

Ltac fin0 :=
  intros; try lia; try discriminate; try tauto;
  try match goal with H : _ \/ _ |- _ => destruct H; discriminate end.

Section NeverEarly.
Variable K : kind.
Variable retry : bool.
Variable arm : Z -> option Z.
Variable DMAX : Z.      (* up to this duration the arming function never arms less than it was asked for *)
Hypothesis arm_lo : forall x a, 0 <= x <= DMAX -> arm x = Some a -> x <= a.

Definition loopk := negb (is_single K).

Definition dl_set (p : pc) : bool :=
  match p with Top | Enter | Parked | After _ | Chk | Ret RTimeout => true | _ => false end.

Definition InvNE (s : st) : Prop :=
  0 <= dur s /\
  (loopk = true \/ dur s <= DMAX -> forall t y, res s = Some (RTimeout, t, y) -> tcall s + dur s <= t) /\
  (pcs s <> Idle -> tcall s <= now s) /\
  (loopk = true -> dl_set (pcs s) = true -> tcall s + dur s <= dl s) /\
  (pcs s = Parked \/ pcs s = After VTimeout -> tcall s <= tp s <= now s) /\
  (pcs s = After VTimeout -> exists a, ar s = Some a /\ tp s + a <= now s) /\
  (loopk = false -> pcs s = Parked \/ pcs s = After VTimeout -> ar s = arm (dur s)) /\
  (loopk = false -> pcs s <> ReadDl /\ pcs s <> Chk) /\
  (pcs s = Ret RTimeout ->
     if loopk then obs s = true /\ dl s <= now s else dur s <= DMAX -> tcall s + dur s <= now s).

Lemma invne_init : InvNE init.
Proof. unfold InvNE, init; cbn. repeat split; fin0. Qed.

Lemma invne_step s a s' : InvNE s -> step K retry arm s a = Some s' -> InvNE s'.
Proof.
  intros (Hd & Hres & Hnow & Hdl & Htp & Haft & Har & Hsg & Hret) H.
  unfold InvNE, loopk, first_pc in *.
  destruct a as [dt| | | |d|to]; cbn [step] in H.
  - (* Tick *)
    destruct (dt <? 0) eqn:E; [discriminate|]. inv_some. zb. cbn.
    destruct K; cbn [is_single negb] in *; repeat split; leaf.
  - inv_some. cbn. repeat split; leaf.
  - inv_some. cbn. repeat split; leaf.
  - inv_some. cbn. repeat split; leaf.
  - (* Call *)
    destruct (pcs s) eqn:P; try discriminate. destruct (d <? 0) eqn:E; [discriminate|]. inv_some. zb.
    destruct K, retry; cbn; repeat split; leaf.
  - (* Step *)
    unfold cstep, try, park_arg in H.
    destruct (pcs s) eqn:P; try discriminate.
    all: destruct K eqn:EK; cbn [is_single negb] in *.
    all: split_match H; try discriminate; try inv_some.
    all: cbn; rewrite ?P in *; cbn [dl_set] in *.
    all: repeat split; leaf.
    all: try (match goal with Hi : Some _ = Some _ |- _ => injection Hi as -> <- <- end; leaf).
    all: match goal with Ha : ar ?s = arm _, Hx : ar ?s = Some _ |- _ => rewrite Ha in Hx; apply arm_lo in Hx; lia end.
Qed.

Lemma invne_reach s : Reach K retry arm s -> InvNE s.
Proof. induction 1; [apply invne_init | eapply invne_step; eassumption]. Qed.

(* never early, every kind of caller: a call that returned Timeout returned at or after call + d
   (the deadline loops: for EVERY duration; the single parks: up to the cap of the arming function) *)
Theorem timeout_never_early s :
  Reach K retry arm s -> is_single K = false \/ dur s <= DMAX ->
  forall t y, res s = Some (RTimeout, t, y) -> tcall s + dur s <= t.
Proof.
  intros R C. destruct (invne_reach s R) as (_ & H & _). apply H. unfold loopk.
  destruct C as [C|C]; [left; rewrite C; reflexivity | right; exact C].
Qed.

(* the deadline loops leave with Timeout only after `Instant::now() >= deadline` was observed, and the deadline is
   never before call + d (no arithmetic slip: it is computed from a clock reading taken after the call) *)
Theorem loop_timeout_only_after_deadline_observed s :
  Reach K retry arm s -> is_single K = false -> pcs s = Ret RTimeout ->
  obs s = true /\ dl s <= now s /\ tcall s + dur s <= dl s.
Proof.
  intros R Hk P. destruct (invne_reach s R) as (_ & _ & _ & Hdl & _ & _ & _ & _ & Hret).
  unfold loopk in *. rewrite Hk in *. cbn in *. specialize (Hret P). rewrite P in Hdl. cbn in Hdl.
  destruct Hret. repeat split; auto.
Qed.

(* the single parks report Timeout only with the park's own Timeout verdict, which comes at or after entry + armed *)
Theorem single_timeout_not_early s :
  Reach K retry arm s -> is_single K = true -> pcs s = Ret RTimeout -> dur s <= DMAX -> tcall s + dur s <= now s.
Proof.
  intros R Hk P. destruct (invne_reach s R) as (_ & _ & _ & _ & _ & _ & _ & _ & Hret).
  unfold loopk in *. rewrite Hk in *. cbn in *. exact (Hret P).
Qed.

(* never hang, quiescence form: a call none of whose steps is enabled is parked, without a token, BEFORE the
   deadline its park was armed with - i.e. its timer entry is still pending and not yet due.  (That the Timeout
   return is enabled from tp + a on is the liveness input: C08_timer_quiescent_wakes_in_time for the timer thread,
   C02_park_past_deadline_not_stuck for Park.) *)
Theorem quiescent_is_parked_before_its_deadline s :
  pcs s <> Idle -> Quiescent K retry arm s ->
  pcs s = Parked /\ tok s = false /\ forall a, ar s = Some a -> now s < tp s + a.
Proof.
  intros P Q. pose proof (Q true) as Q1. pose proof (Q false) as Q2. unfold cstep, try in *.
  destruct (pcs s) eqn:E; try congruence; try discriminate.
  - destruct (tok s); discriminate.
  - split; [reflexivity|]. destruct (tok s); [discriminate|]. split; [reflexivity|].
    intros a A. rewrite A in Q1. destruct (tp s + a <=? now s) eqn:L; [discriminate|]. zb. exact L.
  - destruct (is_single K); [discriminate|]. destruct v, retry, (q s), (gone s); discriminate.
  - destruct (dl s <=? now s); discriminate.
Qed.

(* a park past its armed deadline can always leave *)
Theorem parked_past_deadline_can_leave s a :
  pcs s = Parked -> ar s = Some a -> tp s + a <= now s -> exists s', cstep K retry arm s true = Some s'.
Proof.
  intros P A L. unfold cstep. rewrite P, A. apply Z.leb_le in L. rewrite L. eauto.
Qed.

End NeverEarly.
