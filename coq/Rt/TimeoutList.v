(* C08.ii - src/timeout_list.rs TimeOutList as a sequential object (one operation at a time):
   per interval a FIFO of (deadline, id) entries (the mpsc_list_v1 list, C19), and the binary heap of
   (recorded head deadline, interval) for the lists that are currently installed (`in_use`).
   `remove` is Entry::remove: it unlinks an entry only when it is not the last one of its list.
   Executable; `tl_run` interprets an encoded operation sequence for the differential test against
   the real TimeOutList under the virtual clock. *)
From Coq Require Import ZArith Lia List Bool Sorting.Sorted Sorting.Mergesort Orders.
Import ListNotations.
Open Scope Z_scope.

Definition entry := (Z * Z)%type.                       (* deadline, id *)
Record tl := { lists : list (Z * list entry);           (* interval -> entries, oldest first *)
               heap : list (Z * Z) }.                    (* (recorded deadline, interval) *)

Definition empty : tl := {| lists := []; heap := [] |}.

Fixpoint find_list (i : Z) (ls : list (Z * list entry)) : option (list entry) :=
  match ls with [] => None | (j, l) :: r => if j =? i then Some l else find_list i r end.
Fixpoint set_list (i : Z) (l : list entry) (ls : list (Z * list entry)) : list (Z * list entry) :=
  match ls with
  | [] => [(i, l)]
  | (j, l0) :: r => if j =? i then (j, l) :: r else (j, l0) :: set_list i l r end.

(* add_timer: returns the new state and the head report (`is_recal`) *)
Definition add (now dur id : Z) (t : tl) : tl * bool :=
  let time := now + dur in
  match find_list dur (lists t) with
  | Some [] | None => ({| lists := set_list dur [(time, id)] (lists t); heap := (time, dur) :: heap t |}, true)
  | Some l => ({| lists := set_list dur (l ++ [(time, id)]) (lists t); heap := heap t |}, false)
  end.

(* Entry::remove on the consumer side *)
Fixpoint remove_in (id : Z) (l : list entry) : list entry * bool :=
  match l with
  | [] => ([], false)
  | [e] => ([e], false)                                   (* the last linked entry is never unlinked *)
  | e :: r => if snd e =? id then (r, true) else let (r', b) := remove_in id r in (e :: r', b)
  end.
Fixpoint remove_ls (id : Z) (ls : list (Z * list entry)) : list (Z * list entry) * bool :=
  match ls with
  | [] => ([], false)
  | (j, l) :: r => let (l', b) := remove_in id l in
                   if b then ((j, l') :: r, true) else let (r', b') := remove_ls id r in ((j, l) :: r', b')
  end.
Definition remove (id : Z) (t : tl) : tl * bool :=
  let (ls, b) := remove_ls id (lists t) in ({| lists := ls; heap := heap t |}, b).

(* extract the heap minimum (ties: smallest interval; the fired *set* does not depend on the tie order) *)
Fixpoint heap_min (h : list (Z * Z)) : option (Z * Z) :=
  match h with
  | [] => None
  | x :: r => match heap_min r with
              | None => Some x
              | Some y => if (fst x <? fst y) || ((fst x =? fst y) && (snd x <=? snd y)) then Some x else Some y
              end
  end.
Fixpoint heap_del (x : Z * Z) (h : list (Z * Z)) : list (Z * Z) :=
  match h with
  | [] => []
  | y :: r => if (fst x =? fst y) && (snd x =? snd y) then r else y :: heap_del x r end.

Fixpoint pop_due (now : Z) (l : list entry) : list Z * list entry :=
  match l with
  | [] => ([], [])
  | e :: r => if fst e <=? now then let (f, r') := pop_due now r in (snd e :: f, r') else ([], l)
  end.

(* schedule_timer now: fired ids (in firing order) and the time to the next expiration *)
Fixpoint schedule (fuel : nat) (now : Z) (t : tl) (fired : list Z) : tl * list Z * option Z :=
  match fuel with
  | O => (t, fired, None)
  | S k =>
      match heap_min (heap t) with
      | None => (t, fired, None)
      | Some (time, i) =>
          if now <? time then (t, fired, Some (time - now))
          else
            let h := heap_del (time, i) (heap t) in
            match find_list i (lists t) with
            | None => schedule k now {| lists := lists t; heap := h |} fired
            | Some l =>
                let (f, l') := pop_due now l in
                let ls := set_list i l' (lists t) in
                match l' with
                | [] => schedule k now {| lists := ls; heap := h |} (fired ++ f)
                | e :: _ => schedule k now {| lists := ls; heap := (fst e, i) :: h |} (fired ++ f)
                end
            end
      end
  end.
Definition sched (now : Z) (t : tl) := schedule (S (S (length (heap t)))) now t [].

(* ---- specification-level facts ------------------------------------------------------------ *)

Definition pending (t : tl) : list entry := flat_map snd (lists t).

(* the fired ids of pop_due are exactly a prefix with deadline <= now, the rest starts later *)
Lemma pop_due_spec now l f r :
  pop_due now l = (f, r) ->
  l = (firstn (length f) l) ++ r /\ map snd (firstn (length f) l) = f /\
  Forall (fun e => fst e <= now) (firstn (length f) l) /\
  match r with [] => True | e :: _ => now < fst e end.
Proof.
  revert f r. induction l as [|e l IH]; cbn [pop_due]; intros f r H.
  - inversion H; subst. cbn. auto.
  - destruct (fst e <=? now) eqn:E.
    + destruct (pop_due now l) as [f' r'] eqn:P. inversion H; subst. clear H.
      destruct (IH f' r eq_refl) as (A & B & C & D). cbn [length firstn app map]. repeat split.
      * f_equal. exact A.
      * f_equal. exact B.
      * constructor; [apply Z.leb_le; exact E | exact C].
      * exact D.
    + inversion H; subst. cbn. repeat split; auto. apply Z.leb_gt. exact E.
Qed.

(* never early: whatever pop_due fires was due *)
Lemma pop_due_only_due now l f r e :
  pop_due now l = (f, r) -> In e (firstn (length f) l) -> fst e <= now.
Proof. intros H I. destruct (pop_due_spec _ _ _ _ H) as (_ & _ & C & _). rewrite Forall_forall in C. auto. Qed.

(* if the deadlines of a list are non-decreasing (same interval, monotone clock), nothing due is left behind *)
Lemma pop_due_complete now l f r :
  pop_due now l = (f, r) -> StronglySorted (fun a b => fst a <= fst b) l -> Forall (fun e => now < fst e) r.
Proof.
  intros H S. destruct (pop_due_spec _ _ _ _ H) as (A & _ & _ & D).
  rewrite A in S. clear A H.
  induction (firstn (length f) l) as [|x p IH]; cbn in S.
  - destruct r as [|e r]; [constructor|]. inversion S; subst. constructor; [exact D|].
    rewrite Forall_forall in *. intros y Hy. specialize (H2 y Hy). lia.
  - inversion S; subst. auto.
Qed.

(* ---- interpreter for the differential test ---------------------------------------------------
   ops: 1 dur id = add ; 2 dt = advance the clock ; 3 = schedule ; 4 id = remove
   outputs: add -> [is_head] ; schedule -> [n; sorted fired ids...; next or -1] ; remove -> [removed] *)
Module ZOrder <: TotalLeBool.
  Definition t := Z.
  Definition leb := Z.leb.
  Lemma leb_total : forall a b, leb a b = true \/ leb b a = true.
  Proof. intros a b. unfold leb. destruct (Z.leb_spec a b); [left; reflexivity | right; apply Z.leb_le; lia]. Qed.
End ZOrder.
Module ZSort := Sort ZOrder.

Fixpoint tl_go (fuel : nat) (now : Z) (t : tl) (ops : list Z) : list Z :=
  match fuel with
  | O => []
  | S k =>
      match ops with
      | 1 :: dur :: id :: r => let (t', b) := add now dur id t in (if b then 1 else 0) :: tl_go k now t' r
      | 2 :: dt :: r => tl_go k (now + dt) t r
      | 3 :: r => match sched now t with
                  | (t', f, nx) => Z.of_nat (length f) :: ZSort.sort f ++ (match nx with Some d => d | None => -1 end) :: tl_go k now t' r
                  end
      | 4 :: id :: r => let (t', b) := remove id t in (if b then 1 else 0) :: tl_go k now t' r
      | _ => []
      end
  end.
Definition tl_run (ops : list Z) : list Z := tl_go (length ops) 0 empty ops.
