(* C02 - no lost wake-up (definitions and tactics; the preservation lemmas are in ParkInv4a..g.v, one group of actions each, so that they build in parallel): whenever the coroutine sits in the wait_co slot and a reason to wake it exists
   (token set / cancel bit set / armed deadline passed) some actor is at a control point from
   which it takes the coroutine out of the slot. *)
From Coq Require Import List ZArith Bool Arith Lia.
Import ListNotations.
Require Import MayV.Rt.AtomicDur MayV.Base.BlockerSpec MayV.Rt.ParkModel MayV.Rt.ParkTac MayV.Rt.ParkInv1 MayV.Rt.ParkInv2 MayV.Rt.ParkInv3.
Open Scope Z_scope.

Definition un_taking (s : st) : Prop := exists i b, un s i = NTake b.
Definition cn_taking (s : st) : Prop := exists i, cn s i = CTake.
Definition cn_tco (s : st) : Prop := exists i, cn s i = CTakeCo.

Record Inv4 (s : st) : Prop := {
  w_tok : slot s = true -> pstate s = true ->
          match kp s with KChk | KStake | KSload | KFtake => True | _ => un_taking s end;
  w_can : slot s = true -> cbit s = true ->
          match kp s with
          | KChk | KStake | KSload | KFtake | KCchk | KC3 => True
          | _ => cn_taking s \/ (cco s = CThis /\ cn_tco s) end;
  w_reg : slot s = true -> cbit s = false -> cco s = CThis;
  w_prereg : kp s = KStore -> cbit s = false -> cco s = CThis;
  w_kp : slot s = true ->
         match kp s with
         | KChk | KStake | KSload | KFtake | KCchk | KC3 | KGoff | KIdle => True
         | _ => False end;
  w_dead : slot s = true -> forall i, hnd s = Some i ->
           (tm s i = TmArmed \/ tm s i = TmFired) \/ kp s = KStake \/
           (kp s = KChk /\ exists t, kdl s = Some t /\ t <= now s);
  w_pre : up s = USusp ->
          match kp s with
          | KHandle | KGon | KReg | KStore =>
              (forall i, hnd s = Some i -> (tm s i = TmArmed \/ tm s i = TmFired) \/ exists t, kdl s = Some t /\ t <= now s) /\
              (kdur s <> None -> hnd s <> None)
          | _ => True end;
  w_timed : slot s = true -> armed_of (ud s) <> None -> hnd s <> None;
  w_holder : match holder s with
             | HUn i => un s i = NHold
             | HCn i => cn s i = CHold
             | HTm i => tm s i = TmHold
             | HNone => True end
}.

Lemma inv4_init : Inv4 init.
Proof. constructor; cbn; intros; fin. Qed.

Lemma un_taking_keep (f : nat -> npc) j v : (exists i b, f i = NTake b) -> (forall b, f j <> NTake b) ->
  exists i b, upd f j v i = NTake b.
Proof. intros (i & b & H) N. exists i, b. rewrite upd_other; [exact H|]. intro; subst. eapply N; eauto. Qed.
Lemma un_taking_new (f : nat -> npc) j b : exists i b', upd f j (NTake b) i = NTake b'.
Proof. exists j, b. apply upd_same. Qed.
Lemma cn_keep (f : nat -> cpc) j v c : (exists i, f i = c) -> f j <> c -> exists i, upd f j v i = c.
Proof. intros (i & H) N. exists i. rewrite upd_other; [exact H|]. intro; subst. congruence. Qed.
Lemma cn_new (f : nat -> cpc) j c : exists i, upd f j c i = c.
Proof. exists j. apply upd_same. Qed.

Ltac ex4 :=
  unfold un_taking, cn_taking, cn_tco in *; cbn;
  first
  [ assumption
  | apply un_taking_new
  | apply cn_new
  | (apply un_taking_keep; [assumption | intros; congruence])
  | (apply cn_keep; [assumption | congruence]) ].

Ltac dmg4 :=
  match goal with
  | |- context [match kp ?s with _ => _ end] => destruct (kp s) eqn:?
  | |- context [match holder ?s with _ => _ end] => destruct (holder s) eqn:?
  | |- context [match cco ?s with _ => _ end] => destruct (cco s) eqn:?
  | |- context [if ?b then _ else _] => destruct b eqn:?
  end.
Ltac dmh4 :=
  match goal with
  | H : context [match holder ?s with _ => _ end] |- _ => destruct (holder s) eqn:?
  | H : context [match hnd ?s with _ => _ end] |- _ => destruct (hnd s) eqn:?
  | H : context [match kdur ?s with _ => _ end] |- _ => destruct (kdur s) eqn:?
  | H : context [match kdl ?s with _ => _ end] |- _ => destruct (kdl s) eqn:?
  | H : context [match cco ?s with _ => _ end] |- _ => destruct (cco s) eqn:?
  | H : context [if ?b then _ else _] |- _ => destruct b eqn:?
  | H : context [match kp ?s with _ => _ end] |- _ => destruct (kp s) eqn:?
  end.

Ltac ante :=
  repeat match goal with H : ?a = ?a -> _ |- _ => specialize (H eq_refl) end;
  repeat match goal with H : ?P -> _, H' : ?P |- _ => match type of P with Prop => specialize (H H') end end;
  repeat match goal with
         | H : ?P -> _ |- _ =>
             match type of P with Prop => let X := fresh "X" in assert (X : P) by (clear H; fin0); specialize (H X) end
         end.

Ltac alt4 :=
  first [ solve [fin]
        | solve [ex4]
        | solve [left; alt4]
        | solve [right; alt4]
        | solve [split; alt4]
        | solve [eexists; split; [eassumption | lia]] ].

Ltac cl4a :=
  intros; repeat match goal with |- _ /\ _ => split end; intros; rw; cbn in *|-; brk; zb;
  try match goal with |- context [upd _ _ _ ?j] => is_var j; upd_at j end;
  try match goal with H : context [upd _ _ _ ?j] |- _ => is_var j; cbn in H; upd_at j end;
  try match goal with
      | H : context [mark_stale (un ?s) ?j] |- _ => unfold mark_stale in H; destruct (un s j) as [|[|]|] eqn:?
      end;
  cbn in *|-; subst;
  ante; brk;
  rw; cbn in *|-;
  repeat match goal with
         | H : negb _ = false |- _ => apply negb_false_iff in H
         | H : negb _ = true |- _ => apply negb_true_iff in H
         | H : _ && _ = true |- _ => apply andb_true_iff in H; destruct H
         end;
  rw; cbn in *|-; fin0;
  repeat match goal with H : Some _ = Some _ |- _ => injection H as H; subst end;
  repeat rewrite upd_same in *;
  repeat match goal with
         | Hh : forall i, hnd ?s = Some i -> _, Hj : hnd ?s = Some ?j |- _ =>
             let N := fresh "N" in pose proof (Hh j Hj) as N; clear Hh; brk
         | Hh : forall i, Some ?k = Some i -> _ |- _ =>
             let N := fresh "N" in pose proof (Hh k eq_refl) as N; clear Hh; brk
         end;
  repeat match goal with H : _ \/ _ |- _ => destruct H; brk end;
  repeat match goal with H : Some _ = Some _ |- _ => injection H as H; subst end;
  repeat match goal with
         | A : ?l = Some ?a, B : ?l = Some ?b |- _ => assert (a = b) by congruence; subst; clear B
         end;
  repeat rewrite upd_same in *;
  repeat match goal with
         | Hh : forall i, tm ?s i = TmFired \/ _ -> _, E : tm ?s ?i = TmFired |- _ =>
             lazymatch goal with _ : tdl s i <= now s |- _ => fail | _ => assert (tdl s i <= now s) by (eapply Hh; left; exact E) end
         end;
  try solve [alt4].

Ltac cl4 :=
  unfold places, canceled, armed_of in *; cbn; rw; cbn;
  try assumption;
  intros; rw; cbn in *|-;
  try solve [cl4a];
  try solve [repeat (dmg4; cbn in * ); cl4a];
  try solve [repeat (dmg4; cbn in * ); dmh4; cbn in *; cl4a];
  try solve [repeat (dmg4; cbn in * ); dmh4; cbn in *; dmh4; cbn in *; cl4a].

Ltac step4 Ipl H :=
  step_inv H; pre Ipl; constructor; try solve [cl4].
Ltac intro4 :=
  intros [Ipl Ihun Ihcn Ihtm Irun Isusp Iwk [Inn Ine] Ipre Icd ((Id1 & Id2 & Id3 & Id4) & Iok & Itn)] [Tn Tf Kt Kd Kl Kp Ka Hs He Hd Wd]
         I3 [Wt Wc Wr Wpr Wk Wdd Wp Wti Wh] H;
  pose proof (c_bit _ I3) as Cb;
  clear I3 Tn Kt Kl Ka Hd Wd.
Ltac show4 := unfold canceled, armed_of in *; cbn; rw; cbn; intros;
  try match goal with E : kp _ = ?k |- _ => idtac "KP" k end;
  try match goal with E : up _ = ?k |- _ => idtac "UP" k end;
  match goal with |- ?G => idtac "GOAL" G end.

