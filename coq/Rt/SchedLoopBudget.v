(* SchedLoopModel, the code as it is (budgeted P = true: RUN_BUDGET / GLOBAL_INTERVAL of run_queued_tasks, has_local_tasks in
   select): a worker never blocks in epoll_wait over a non-empty local queue; it completes a collect_global, or returns to
   select, at the latest after `interval` run_coroutine calls. *)
From Coq Require Import List Arith ZArith NArith Bool Lia.
Import ListNotations.
Require Import MayV.Rt.SchedModel MayV.Rt.SchedInv MayV.Rt.SchedTac MayV.Rt.SchedThm MayV.Rt.SchedLoopModel MayV.Rt.SchedLoopBase
  MayV.Rt.SchedLoopInv MayV.Rt.SchedLoopStruct MayV.Rt.SchedLoopQueues MayV.Rt.SchedLoopSleep MayV.Rt.SchedLoopThm MayV.Rt.SchedLoopLive.

Lemma laction_eq_dec (a b : laction) : {a = b} + {a <> b}.
Proof.
  repeat decide equality.
Qed.

(* ---- select never sleeps with a non-empty local queue ---- *)
Definition NSInv (l : lst) : Prop :=
  forall w, (wpc l w = PWait -> lq (base l) w = [] \/ is_zero (tmo l w) = true) /\ (wpc l w = PSleep -> lq (base l) w = []).

Lemma lq_stays_empty P l a l' w : lstep P l a = Some l' -> is_co (wpc l w) = false ->
  (forall r, wpc l w <> PPut r) -> wpc l w <> PStPut -> (forall e, wpc l w <> PIo e) ->
  lq (base l) w = [] -> lq (base l') w = [].
Proof.
  intros H NC N1 N2 N3 E. destruct (lstep_inv _ _ _ _ H) as (G & _).
  destruct (lstep_lq _ _ _ _ w H) as [A|[(x & A & _)|(x & A & [B|(b & B & C)])]].
  - congruence.
  - rewrite E in A. discriminate.
  - subst a. cbn [guard] in G. gsplit G. destruct (wpc l w); try discriminate G1; exfalso; [eapply N3 | eapply N1 | apply N2]; reflexivity.
  - subst a. cbn [guard] in G. apply (base_ok_local _ _ _ _ G) in C. congruence.
Qed.

Lemma nsinv_step P l a l' : budgeted P = true -> NSInv l -> lstep P l a = Some l' -> NSInv l'.
Proof.
  intros BU I H w. destruct (I w) as (I1 & I2). destruct (lstep_inv _ _ _ _ H) as (G & s' & E & S).
  destruct (option_nat_dec (actor a) (Some w)) as [A|NA].
  - split; intro PC.
    + subst l'. destruct (sleepy_actor P l a s' w A G (or_introl PC)) as [(nx & -> & _ & X)|(io & -> & _ & _)].
      * cbn [proj] in S. subst s'. rewrite base_ctl. destruct (lq (base l) w) eqn:EL; [now left|].
        right. rewrite (X BU) by discriminate. reflexivity.
      * exfalso. unfold ctl in PC. destruct (evfd l w || io || is_zero (tmo l w)); lsimp; rewrite upd_eq in PC; discriminate PC.
    + subst l'. destruct (sleepy_actor P l a s' w A G (or_intror PC)) as [(nx & -> & _)|(io & -> & PW & _ & Y)].
      * exfalso. unfold ctl in PC. lsimp. rewrite upd_eq in PC. discriminate PC.
      * destruct (Y PC) as (_ & _ & _ & Z). cbn [proj] in S. subst s'. rewrite base_ctl.
        destruct (I1 PW) as [X|X]; [exact X | congruence].
  - assert (WP : wpc l' w = wpc l w) by (subst l'; apply wpc_ctl_other; exact NA).
    assert (TM : tmo l' w = tmo l w) by (subst l'; apply (own_fields_other P l a s' w NA)).
    rewrite WP, TM. split; intro PC.
    + destruct (I1 PC) as [X|X]; [left | now right].
      apply (lq_stays_empty _ _ _ _ w H); rewrite ?PC; try discriminate; auto.
    + apply (lq_stays_empty _ _ _ _ w H); rewrite ?PC; try discriminate; auto.
Qed.

Lemma nsinv_reach P n l : budgeted P = true -> LReach P n l -> NSInv l.
Proof.
  intro BU. induction 1; [|eapply nsinv_step; eauto].
  intro w. split; [intros _; now left | intro X; discriminate X].
Qed.

Theorem sleeping_worker_has_empty_local_queue P n l w : budgeted P = true -> LReach P n l -> wpc l w = PSleep -> lq (base l) w = [].
Proof. intros BU R. apply (nsinv_reach _ _ _ BU R w). Qed.

(* select is left with next_expire = 0 when the local queue is not empty: the next epoll_wait only polls *)
Theorem nonempty_local_queue_only_polls P n l w : budgeted P = true -> LReach P n l -> w < n -> wpc l w = PWait ->
  lq (base l) w <> [] ->
  tmo l w = Some 0%N /\
  exists l', lstep P l (LPoll w false) = Some l' /\ wpc l' w = PEvs (evfd l w) /\ base l' = base l.
Proof.
  intros BU R L PC NE. destruct (nsinv_reach _ _ _ BU R w) as (I1 & _). destruct (I1 PC) as [X|X]; [contradiction|].
  assert (T : tmo l w = Some 0%N) by (destruct (tmo l w) as [[|?]|]; try discriminate X; reflexivity).
  split; [exact T|]. eexists. unfold lstep. cbn [guard proj]. rewrite PC, (lreach_nw _ _ _ R).
  apply Nat.ltb_lt in L. rewrite L. cbn [andb]. split; [reflexivity|]. unfold ctl. rewrite T.
  rewrite orb_true_r. lsimp. rewrite upd_eq. auto.
Qed.

(* quiescence for the code as it is: every run queue of every worker is empty, nothing is held *)
Theorem quiescent_all_queues_empty P n l : push_first P = true -> budgeted P = true -> LReach P n l -> LQuiescent n l ->
  forall w, w < n -> gq (base l) w = [] /\ lq (base l) w = [] /\ hand (base l) w = [].
Proof.
  intros PF BU R Q w L. destruct (Q w L) as (S & _). split; [eapply quiescent_global_queues_empty; eauto|].
  split; [eapply sleeping_worker_has_empty_local_queue; eauto|].
  pose proof (t_hand _ _ (tinv_reach _ _ _ R) w L) as H. rewrite S in H. exact H.
Qed.

(* ---- at most `interval` run_coroutine calls between two looks at the global queue ---- *)
Definition in_run (p : lpc) : bool := in_call p && negb (bud_coll p).

(* `since w` counts the run_coroutine calls after local.pop since the call of run_queued_tasks started or w completed a
   collect_global, whichever is later (ctl: + 1 at LCoRet from PCo RRun, := 0 at LEvDone and at every LBulkEnd that ends a
   collect_global) *)
Definition SBInv (P : params) (l : lst) : Prop :=
  forall w, since l w <= interval P /\
    (in_run (wpc l w) = true ->
       exists k r, bud l w = k * interval P + r /\ 1 <= r <= interval P /\ since l w + r <= interval P) /\
    (bud_coll (wpc l w) = true -> exists k, bud l w = S k * interval P).

Lemma since_fields_base P l b l0 : since (ctl_base P l b l0) = since l0.
Proof. unfold ctl_base. dmatch; reflexivity. Qed.
Lemma since_other P l a s' w : actor a <> Some w -> since (ctl P l a s') w = since l w.
Proof.
  intro NA. destruct a; cbn [actor] in NA; unfold ctl; try (rewrite since_fields_base; reflexivity);
    dmatch; unfold grabbed, taken, inc; dmatch; lsimp; rewrite ?upd_neq by congruence; reflexivity.
Qed.

(* the actions of worker w that leave budget and counter alone and stay within the same part of the loop *)
Lemma sb_same_actor P l a s' w : actor a = Some w -> guard P l a = true ->
  (a <> LEvDone w) -> (a <> LCoRet w) -> (a <> LBulkEnd w) ->
  bud (ctl P l a s') w = bud l w /\ since (ctl P l a s') w = since l w /\
  (in_run (wpc (ctl P l a s') w) = true -> in_run (wpc l w) = true) /\
  (bud_coll (wpc (ctl P l a s') w) = true -> bud_coll (wpc l w) = true).
Proof.
  intros A G N1 N2 N3. destruct a; cbn [actor] in A; try discriminate A; inversion A; subst w0; clear A; try congruence;
    cbn [guard] in G; gsplit G.
  all: match goal with G : _ |- _ => progress pcs G end.
  all: unfold ctl; rewrite ?E.
  all: try (dmatch; unfold grabbed, taken; dmatch; lsimp; rewrite ?upd_eq, ?E; cbn [in_run in_call bud_coll andb negb];
            repeat split; try reflexivity; intro X; try discriminate X; auto; fail).
Qed.

Lemma budget_decomp B I : 1 <= I -> 1 <= B -> exists k r, B = k * I + r /\ 1 <= r <= I.
Proof.
  intros HI HB. exists ((B - 1) / I), ((B - 1) mod I + 1).
  pose proof (Nat.div_mod (B - 1) I ltac:(lia)). pose proof (Nat.mod_upper_bound (B - 1) I ltac:(lia)). nia.
Qed.
Lemma mod_mul_zero k I : I <> 0 -> (k * I) mod I = 0.
Proof. intro. now apply Nat.mod_mul. Qed.
Lemma mod_rest k I r : r < I -> (k * I + r) mod I = r.
Proof. intro H. rewrite Nat.add_comm, Nat.mod_add by lia. now apply Nat.mod_small. Qed.

Lemma sbinv_step P l a l' : budgeted P = true -> 1 <= interval P <= budget P -> SBInv P l -> lstep P l a = Some l' -> SBInv P l'.
Proof.
  intros BU IB I H w. destruct (I w) as (I1 & I2 & I3). destruct (lstep_inv _ _ _ _ H) as (G & s' & E & _). subst l'.
  destruct (option_nat_dec (actor a) (Some w)) as [A|NA].
  2: { rewrite wpc_ctl_other, bud_other, since_other by exact NA. auto. }
  destruct (laction_eq_dec a (LEvDone w)) as [->|N1].
  { (* a new call of run_queued_tasks *)
    cbn [guard] in G. gsplit G. pcs G1. unfold ctl. lsimp. rewrite !upd_eq. cbn [in_run in_call bud_coll andb negb].
    split; [lia|]. split; [|intro X; discriminate X]. intros _.
    destruct (budget_decomp (budget P) (interval P)) as (k & r & D1 & D2); [lia | lia|]. exists k, r. repeat split; lia. }
  destruct (laction_eq_dec a (LBulkEnd w)) as [->|N3].
  { cbn [guard] in G. gsplit G. pcs G1. try rewrite E in I2; try rewrite E in I3. unfold ctl. rewrite E.
    destruct (hand (base l) w) eqn:EH.
    - (* the collect_global is complete *)
      destruct r; lsimp; rewrite !upd_eq; cbn [in_run in_call bud_coll andb negb] in *; (split; [lia|]);
        (split; [|intro X; discriminate X]); intro X; try discriminate X.
      + destruct (I2 eq_refl) as (k & r & D1 & D2 & D3). exists k, r. repeat split; lia.
      + destruct (I3 eq_refl) as (k & D1). exists k, (interval P). repeat split; lia.
    - destruct r; lsimp; rewrite !upd_eq; cbn [in_run in_call bud_coll andb negb] in *; auto. }
  destruct (laction_eq_dec a (LCoRet w)) as [->|N2].
  { cbn [guard] in G. gsplit G. pcs G1. try rewrite E in I2; try rewrite E in I3. unfold ctl. rewrite E, BU.
    destruct r; try (lsimp; rewrite !upd_eq; cbn [in_run in_call bud_coll andb negb] in *; (split; [lia|]);
                     split; intro X; try discriminate X; auto; fail).
    (* run_coroutine after local.pop returns: budget - 1 *)
    destruct (I2 eq_refl) as (k & r & D1 & D2 & D3). unfold inc.
    assert (PB : Nat.pred (bud l w) = k * interval P + (r - 1)) by lia.
    destruct (Nat.eq_dec r 1) as [->|R1].
    - assert (PB' : Nat.pred (bud l w) = k * interval P) by lia. rewrite PB'.
      destruct k as [|k].
      + cbn [Nat.mul Nat.eqb]. lsimp. rewrite !upd_eq. cbn [in_run in_call bud_coll andb negb].
        split; [lia|]. split; intro X; discriminate X.
      + assert (Z : Nat.eqb (S k * interval P) 0 = false) by (apply Nat.eqb_neq; nia). rewrite Z.
        rewrite mod_mul_zero by lia. cbn [Nat.eqb]. lsimp. rewrite !upd_eq. cbn [in_run in_call bud_coll andb negb].
        split; [lia|]. split; [intro X; discriminate X|]. intros _. exists k. reflexivity.
    - rewrite PB. assert (Z : Nat.eqb (k * interval P + (r - 1)) 0 = false) by (apply Nat.eqb_neq; lia). rewrite Z.
      rewrite mod_rest by lia. assert (Z2 : Nat.eqb (r - 1) 0 = false) by (apply Nat.eqb_neq; lia). rewrite Z2.
      lsimp. rewrite !upd_eq. cbn [in_run in_call bud_coll andb negb].
      split; [lia|]. split; [|intro X; discriminate X]. intros _. exists k, (r - 1). repeat split; lia. }
  destruct (sb_same_actor P l a s' w A G N1 N2 N3) as (S1 & S2 & S3 & S4). rewrite S1, S2. auto.
Qed.

Lemma sbinv_reach P n l : budgeted P = true -> 1 <= interval P <= budget P -> LReach P n l -> SBInv P l.
Proof.
  intros BU IB. induction 1; [|eapply sbinv_step; eauto].
  intro w. cbn. split; [lia|]. split; intro X; discriminate X.
Qed.

(* worker w never completes more than `interval` run_coroutine calls (from its local queue) without completing a
   collect_global or returning to select in between *)
Theorem at_most_interval_runs_between_collects P n l w : budgeted P = true -> 1 <= interval P <= budget P -> LReach P n l ->
  since l w <= interval P.
Proof. intros BU IB R. apply (sbinv_reach _ _ _ BU IB R w). Qed.

(* and every call of run_queued_tasks completes a collect_global (work_steal, interval < budget): two round ends later the
   worker has collected its global queue *)
Theorem budgeted_round_collects P n w tr l l' : work_steal P = true -> budgeted P = true -> 1 <= interval P < budget P ->
  LReach P n l -> lruns P l tr = Some l' -> nsel l w + 2 <= nsel l' w -> ncoll l w < ncoll l' w.
Proof. intros WS BU IB. apply SchedLoopLive.round_collects; [exact WS | right; exact IB]. Qed.
