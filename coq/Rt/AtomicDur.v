(* C08.i - src/sync/atomic_dur.rs as arithmetic on nanoseconds (Z, 0 <= d; usize = u64).
   `enc` is what `store` writes into the AtomicUsize, `dec` what `take`/`get` return (ns);
   `armed d = dec (enc (Some d))` is the timeout a caller that asked for `d` really gets.
   `enc0/dec0` are the encoding before the repair (finding F3), kept as a refutation witness. *)
From Coq Require Import ZArith Lia List.
Import ListNotations.
Open Scope Z_scope.
Ltac Zify.zify_post_hook ::= Z.div_mod_to_equations.

Definition MS := 1000000.
Definition W := 2 ^ 64.
(* MAX_MS = (u64::MAX / 2_000_000) *)
Definition CAP := (W - 1) / 2000000.

Definition ceil_ms (d : Z) := (d + MS - 1) / MS.
(* d.as_nanos().div_ceil(1_000_000).min(MAX_MS) as usize + 1 ; None => 0 *)
Definition enc (d : option Z) : Z := match d with None => 0 | Some d => Z.min (ceil_ms d) CAP + 1 end.
(* 0 => None ; d => Duration::from_millis(d - 1) *)
Definition dec (v : Z) : option Z := if v =? 0 then None else Some ((v - 1) * MS).
Definition armed (d : Z) := dec (enc (Some d)).

(* executable interface for the differential test: [-1] encodes None *)
Definition armed_z (l : list Z) : list Z :=
  match l with
  | [d] => match (if d <? 0 then dec (enc None) else armed d) with None => [-1] | Some t => [t] end
  | _ => [] end.

Lemma none_round_trip : dec (enc None) = None.
Proof. reflexivity. Qed.

Lemma enc_fits d : 0 <= d -> 0 < enc (Some d) < W.
Proof.
  unfold enc, ceil_ms, MS, CAP, W. intros.
  assert (0 <= (d + 1000000 - 1) / 1000000) by (apply Z.div_pos; lia).
  assert (0 <= (2 ^ 64 - 1) / 2000000 < 2^63) by (split; [apply Z.div_pos; lia | apply Z.div_lt_upper_bound; lia]).
  lia.
Qed.

Lemma some_is_never_none d : 0 <= d -> exists t, armed d = Some t.
Proof.
  intros H. unfold armed, dec. pose proof (enc_fits d H) as F.
  destruct (enc (Some d) =? 0) eqn:E; [lia | eauto].
Qed.

(* never early, less than one millisecond late, for every duration up to the cap (about 292 years) *)
Lemma armed_bounds d t : 0 <= d -> ceil_ms d <= CAP -> armed d = Some t -> d <= t < d + MS.
Proof.
  unfold armed, dec, enc. intros H0 Hs. rewrite Z.min_l by exact Hs.
  assert (0 <= ceil_ms d) by (unfold ceil_ms, MS; apply Z.div_pos; lia).
  destruct (ceil_ms d + 1 =? 0) eqn:E; [lia|]. intros [= <-]. unfold ceil_ms, MS in *. lia.
Qed.

Lemma armed_zero : armed 0 = Some 0.
Proof. reflexivity. Qed.

(* beyond the cap the wait saturates instead of wrapping around *)
Lemma armed_saturates d : CAP < ceil_ms d -> armed d = Some (CAP * MS).
Proof.
  unfold armed, dec, enc. intros H. rewrite Z.min_r by lia.
  replace (CAP + 1 =? 0) with false; [f_equal; f_equal; lia|].
  symmetry. apply Z.eqb_neq. unfold CAP, W. assert (0 <= (2 ^ 64 - 1) / 2000000) by (apply Z.div_pos; lia). lia.
Qed.

(* the armed nanoseconds always fit the timer's u64 clock with room for `now` up to 2^63 *)
Lemma armed_fits_clock d t : 0 <= d -> armed d = Some t -> 0 <= t /\ t + 2 ^ 63 < W.
Proof.
  unfold armed, dec, enc. intros H0.
  assert (0 <= ceil_ms d) by (unfold ceil_ms, MS; apply Z.div_pos; lia).
  assert (C : 0 <= CAP /\ CAP * MS + 2 ^ 63 < W).
  { unfold CAP, MS, W. split; [apply Z.div_pos; lia|]. vm_compute. reflexivity. }
  destruct (Z.min (ceil_ms d) CAP + 1 =? 0) eqn:E; [lia|]. intros [= <-]. unfold MS in *. nia.
Qed.

(* the encoding before the repair: d.as_millis() as usize (floor, truncating cast), 0 = none *)
Definition enc0 (d : option Z) : Z := match d with None => 0 | Some d => (d / MS) mod W end.
Definition dec0 (v : Z) : option Z := if v =? 0 then None else Some (v * MS).
Definition armed0 (d : Z) := dec0 (enc0 (Some d)).

Lemma armed0_refuted :
  armed0 500000 = None /\                       (* recv_timeout(500 us): no timer at all *)
  armed0 0 = None /\                            (* Some(0): parks for ever *)
  armed0 1900000 = Some 1000000 /\              (* wait_timeout(1.9 ms) fires after 1 ms *)
  armed0 (W * MS + 5 * MS) = Some (5 * MS).     (* the cast wraps: an astronomically long wait becomes 5 ms *)
Proof. vm_compute. repeat split. Qed.
