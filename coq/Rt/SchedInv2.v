(* Further invariants of SchedModel, kept apart from SchedInv.v so that the proofs over Inv are not rebuilt:
   XInv  (per coroutine) a Cancel outcome only for a coroutine whose cancel bit was set; the packet is marked taken
         only by the join() that returned its value *)
From Coq Require Import List Arith ZArith Bool Lia.
Import ListNotations.
Require Import MayV.Rt.SchedModel MayV.Rt.SchedInv MayV.Rt.SchedTac MayV.Rt.SchedPresC MayV.Rt.SchedPresJ.

Definition xinv (x : cor) : Prop :=
  (outcome x = Some RCancel -> cancelled x = true) /\
  (ptaken x = true -> exists v, jret x = Some (RVal v)).
Definition XInv (s : st) : Prop := forall c, xinv (co s c).

Lemma xinv_init w : XInv (init w).
Proof. intro c. split; cbn; discriminate. Qed.

Lemma xinv_step s a s' : CInv s -> XInv s -> step s a = Some s' -> XInv s'.
Proof.
  intros HC HX H. destruct a.
  all: step_inv H.
  all: try match goal with E : cur _ _ = Some ?a |- _ => destruct (cur_cases _ _ _ E) as [[? ?]|[? [? [? ?]]]]; subst a end.
  all: prep.
  all: unfold take_wake in *.
  all: try match goal with |- context [park_ret ?s0 ?c] => destruct (park_ret_cases s0 c) as [->|(dd & mm & bb & UU & JJ & ->)] end.
  all: try match goal with q : qid |- _ => destruct q end.
  all: repeat match goal with |- context [match jwake ?x with _ => _ end] => destruct (jwake x) eqn:? end.
  all: repeat match goal with E : jcall (co ?s0 ?d) = Some _ |- _ =>
         lazymatch goal with K : callinv (co s0 d) |- _ => fail | _ =>
           assert (K : callinv (co s0 d)) by apply (HC d); pose proof K as K'; unfold callinv in K'; rewrite E in K' end end.
  all: intros c'; pose proof (HX c') as OLD; unfold xinv in *.
  all: sst; bools; upds; sco.
  all: try exact OLD.
  all: try match goal with |- context [match ?v with Some _ => RPan _ | None => RCancel end] => destruct v end.
  all: splh; split; intros; try discriminate; try congruence; eauto.
Qed.
