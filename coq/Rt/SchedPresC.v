(* Preservation of the per-coroutine invariant cinv: one lemma per record transformer of the step function. *)
From Coq Require Import List Arith ZArith Bool Lia.
Import ListNotations.
Require Import MayV.Rt.SchedModel MayV.Rt.SchedInv MayV.Rt.SchedTac.

Ltac cstart := unfold cinv, endinv, callinv, not_val; sco.
Ltac rdc := cbn [eph post_trig is_cret negb] in *.
Lemma post_trig_eph u : post_trig u = true -> eph u = EC \/ eph u = EP.
Proof. destruct u; cbn; intro; try discriminate; auto. Qed.
Ltac splh := repeat match goal with H : _ /\ _ |- _ => destruct H end.
Ltac spl := splh; repeat match goal with |- _ /\ _ => split end.
Ltac ptq := match goal with H : ?j = negb (post_trig ?u), K : ?j = false |- _ =>
  let Q := fresh "Q" in assert (Q : post_trig u = true) by (destruct (post_trig u) eqn:?; [reflexivity | cbn in *; congruence]);
  let E := fresh "E" in destruct (post_trig_eph _ Q) as [E|E]; rewrite E in * end.
Ltac s0 := intros; subst; try reflexivity; try assumption; try exact I; try discriminate; try congruence.
Ltac imp :=
  repeat match goal with
  | H : ?a = ?a -> _ |- _ => specialize (H eq_refl)
  | H : ?a <> ?b -> _ |- _ => let N := fresh in assert (N : a <> b) by discriminate; specialize (H N); clear N
  | H : ?a = ?b -> _ |- _ => let N := fresh in assert (N : a <> b) by discriminate; clear H N
  | H : ?a <> ?a |- _ => exfalso; apply H; reflexivity
  | H : False |- _ => destruct H
  end.
Ltac s1 := s0; imp; spl; s0; try tauto.

(* fields no clause talks about *)
Lemma L_jwake x w : cinv x -> cinv (c_jwake x w).
Proof. destruct x; cstart; auto. Qed.
Lemma L_loc x l : cinv x -> cinv (c_loc x l).
Proof. destruct x; cstart; auto. Qed.
Lemma L_canc x b : cinv x -> cinv (c_canc x b).
Proof. destruct x; cstart; auto. Qed.

Lemma eph_user_pt p : eph p = EU -> post_trig p = false /\ is_cret p = false.
Proof. destruct p; cbn; intro; try discriminate; auto. Qed.

(* the user code moves between control points that are not part of the end of the body *)
Lemma L_user x p : cinv x -> eph (upc x) = EU -> gst x = GLive -> eph p = EU -> cinv (c_upc x p).
Proof.
  destruct x; cstart. intros H E G Ep. destruct (eph_user_pt _ E) as [Q1 _]. destruct (eph_user_pt _ Ep) as [Q2 _].
  rewrite E in H. rewrite Ep. rewrite Q1 in H. rewrite Q2. spl; s1.
Qed.

Definition call_ok (x : cor) (p : jpc) : Prop :=
  match p with
  | JT1 => jstate x = false
  | JT2 => jstate x = false /\ pkt x = None /\ not_val (outcome x)
  | _ => True end.

Lemma L_call_new x a p : cinv x -> spawned x = true -> jdone x = false -> call_ok x p -> cinv (c_jcall x (Some (a, p))).
Proof.
  destruct x; unfold call_ok; cstart. intros H S D K. destruct jret; destruct ptaken; spl; s1.
Qed.
Lemma L_call x a0 p0 a p : cinv x -> jcall x = Some (a0, p0) -> call_ok x p -> cinv (c_jcall x (Some (a, p))).
Proof.
  destruct x; unfold call_ok; cstart. intros H J K. rewrite J in H. spl; s1.
Qed.
Lemma L_call_none x : cinv x -> cinv (c_jcall x None).
Proof. destruct x; cstart. intros H. spl; s1. Qed.

(* JT1 found the packet empty *)
Ltac ephs := match goal with H : context [eph ?u] |- _ => destruct (eph u) eqn:?; spl; s1 end.
Ltac outs := repeat match goal with
  | H : context [match ?o with Some _ => _ | None => _ end] |- _ => is_var o; destruct o as [[]|]; spl; s1
  end.

Lemma L_jt2_ok x a : cinv x -> jcall x = Some (a, JT1) -> pkt x = None -> call_ok x JT2.
Proof.
  destruct x; unfold call_ok; cstart. intros H J Pk. rewrite J in H. splh. ptq; spl; s1.
  all: destruct outcome as [[]|]; s1.
Qed.

Lemma L_jfin_val x a v : cinv x -> jcall x = Some (a, JT1) -> pkt x = Some v -> cinv (c_jfin (c_ptaken (c_pkt x None)) (RVal v)).
Proof.
  destruct x; cstart. intros H J Pk. rewrite J in H. splh.
  assert (Pn : pan = None) by (destruct pan; [subst; congruence | reflexivity]).
  ptq; spl; s1.
  all: destruct outcome as [[]|]; s1.
Qed.
Lemma L_jfin_pan x a v : cinv x -> jcall x = Some (a, JT2) -> pan x = Some v -> cinv (c_jfin (c_pan x None) (RPan v)).
Proof.
  destruct x; cstart. intros H J Pn. rewrite J in H. splh. ptq; spl; s1.
Qed.
Lemma L_jfin_can x a : cinv x -> jcall x = Some (a, JT2) -> pan x = None -> cinv (c_jfin x RCancel).
Proof.
  destruct x; cstart. intros H J Pn. rewrite J in H. splh. ptq; spl; s1.
  all: destruct outcome as [[]|]; s1.
Qed.

Ltac cj := try (match goal with j : option (ag * jpc) |- _ => destruct j as [[? []]|]; spl; s1 end).
(* the end of the body *)
Lemma L_finish x v : cinv x -> upc x = Idle -> gst x = GLive -> cinv (c_end x GLive (CF v) (RVal v)).
Proof. destruct x; cstart. intros H U G. subst. rdc. spl; s1. Qed.
Lemma L_panic x p o : cinv x -> eph (upc x) = EU -> gst x = GLive ->
  (exists v, p = PP0 v /\ o = RPan v) \/ (p = PT1 /\ o = RCancel) -> cinv (c_end x GFin p o).
Proof.
  destruct x; cstart. intros H E G K. rewrite E in H. destruct (eph_user_pt _ E) as [Q _]. rewrite Q in H.
  destruct K as [[v [-> ->]]|[-> ->]]; subst; rdc; spl; s1.
  all: destruct jcall as [[? []]|]; spl; s1.
Qed.
Lemma L_cf x v : cinv x -> upc x = CF v -> cinv (c_upc (c_pkt x (Some v)) CT1).
Proof. destruct x; cstart. intros H U. subst. rdc. spl; s1. all: cj. Qed.
Lemma L_trig1 x : cinv x -> upc x = CT1 -> cinv (c_upc (c_jstate x false) CT2).
Proof. destruct x; cstart. intros H U. subst. rdc. spl; s1. all: try (destruct jret; spl; s1). all: cj. Qed.
Lemma L_ctx x p : cinv x -> eph (upc x) = EC -> post_trig (upc x) = true -> is_cret (upc x) = false -> eph p = EC -> post_trig p = true -> cinv (c_upc x p).
Proof.
  destruct x; cstart. intros H E Q R Ep Qp. rewrite E in H. rewrite Ep. rewrite Q in H. rewrite Qp. spl; s1.
  all: try (destruct gst; s1).
Qed.
Lemma L_cret x : cinv x -> upc x = CRet -> cinv (c_gst x GFin).
Proof. destruct x; cstart. intros H U. subst. rdc. spl; s1. all: cj. Qed.
Lemma L_pp0 x v : cinv x -> upc x = PP0 v -> cinv (c_upc (c_pan x (Some v)) PT1).
Proof. destruct x; cstart. intros H U. subst. rdc. spl; s1. all: cj. Qed.
Lemma L_ptrig1 x : cinv x -> upc x = PT1 -> cinv (c_upc (c_jstate x false) PT2).
Proof. destruct x; cstart. intros H U. subst. rdc. spl; s1. all: try (destruct jret; spl; s1). all: cj. Qed.
Lemma L_ptx x p : cinv x -> eph (upc x) = EP -> post_trig (upc x) = true -> eph p = EP -> post_trig p = true -> cinv (c_upc x p).
Proof.
  destruct x; cstart. intros H E Q Ep Qp. rewrite E in H. rewrite Ep. rewrite Q in H. rewrite Qp. spl; s1.
Qed.
Lemma L_resume x l : cinv x -> spawned x = true -> gst x <> GFin -> cinv (c_resume x l).
Proof.
  destruct x; cstart. intros H S G. destruct gst; splh; imp; splh; subst; rdc; spl; s1.
Qed.
Lemma L_new l : cinv (cor_new l).
Proof. cstart. rdc. spl; s1. all: cj. Qed.

(* ---- the step lemma ---- *)
Lemma live_gst s c : live_ag s (AC c) = true -> gst (co s c) = GLive.
Proof. unfold live_ag. destruct (gst (co s c)); intro; congruence. Qed.

Lemma ag_eqb_eq a b : ag_eqb a b = true -> a = b.
Proof. destruct a, b; cbn; intro H; try discriminate; apply Nat.eqb_eq in H; congruence. Qed.
Lemma call_of_some s a d p : call_of s a d = Some p -> jcall (co s d) = Some (a, p).
Proof.
  unfold call_of. destruct (jcall (co s d)) as [[a' p']|]; [|discriminate].
  destruct (ag_eqb a' a) eqn:E; [|discriminate]. intro H. inversion H; subst. apply ag_eqb_eq in E. now subst.
Qed.

Ltac prep :=
  repeat match goal with
  | H : call_of _ _ _ = Some _ |- _ => apply call_of_some in H
  | E : stk ?s ?t = _, H : stk ?s ?t = _ |- _ => rewrite E in H; inversion H; subst; clear H
  | E : stk ?s ?t = _, H : cur ?s ?t = Some _ |- _ => unfold cur in H; rewrite E in H; inversion H; subst; clear H
  end.
Ltac idle :=
  repeat match goal with
  | H : pc_idle ?p = true |- _ => destruct p eqn:?; try discriminate H; clear H
  | H : live_ag _ (AC _) = true |- _ => apply live_gst in H
  end.
(* side conditions of the transformer lemmas *)
Ltac sc := solve [
  sco;
  repeat match goal with E : ?f (co ?s ?c) = _ |- _ => rewrite E end;
  unfold call_ok; sco; cbn [eph post_trig is_cret negb];
  try reflexivity; try assumption; try discriminate; try congruence; eauto ].

Ltac cl HC :=
  lazymatch goal with
  | |- cinv (co _ _) => apply HC
  | |- cinv (cor_new _) => apply L_new
  | |- cinv (c_loc _ _) => apply L_loc; cl HC
  | |- cinv (c_canc _ _) => apply L_canc; cl HC
  | |- cinv (c_jwake _ _) => apply L_jwake; cl HC
  | |- cinv (c_jcall _ None) => apply L_call_none; cl HC
  | |- cinv (c_jcall _ (Some (_, JT2))) => eapply L_call; [cl HC | sc | eapply L_jt2_ok; [cl HC | sc | sc]]
  | |- cinv (c_jcall _ (Some _)) => first [ eapply L_call; [cl HC | sc | sc] | eapply L_call_new; [cl HC | sc | sc | sc] ]
  | |- cinv (c_jfin (c_ptaken (c_pkt _ None)) (RVal _)) => eapply L_jfin_val; [cl HC | sc | sc]
  | |- cinv (c_jfin (c_pan _ None) (RPan _)) => eapply L_jfin_pan; [cl HC | sc | sc]
  | |- cinv (c_jfin _ RCancel) => eapply L_jfin_can; [cl HC | sc | sc]
  | |- cinv (c_end _ GLive (CF _) (RVal _)) => eapply L_finish; [cl HC | sc | sc]
  | |- cinv (c_end _ GFin _ _) => eapply L_panic; [cl HC | sc | sc | sc]
  | |- cinv (c_upc (c_pkt _ (Some _)) CT1) => eapply L_cf; [cl HC | sc]
  | |- cinv (c_upc (c_jstate _ false) CT2) => eapply L_trig1; [cl HC | sc]
  | |- cinv (c_upc (c_pan _ (Some _)) PT1) => eapply L_pp0; [cl HC | sc]
  | |- cinv (c_upc (c_jstate _ false) PT2) => eapply L_ptrig1; [cl HC | sc]
  | |- cinv (c_gst _ GFin) => eapply L_cret; [cl HC | sc]
  | |- cinv (c_resume _ _) => eapply L_resume; [cl HC | sc | sc]
  | |- cinv (c_upc _ _) => first [ eapply L_user; [cl HC | sc | sc | sc]
                                 | eapply L_ctx; [cl HC | sc | sc | sc | sc | sc]
                                 | eapply L_ptx; [cl HC | sc | sc | sc | sc] ]
  end.

Lemma park_ret_cinv s c : CInv s -> CInv (park_ret s c).
Proof.
  intros HC c'. unfold park_ret.
  destruct (upc (co s c)) eqn:Eu; try apply HC.
  destruct (call_of s (AC c) d) as [[]|] eqn:Ej; try apply HC.
  apply call_of_some in Ej. sst. upds; try apply HC. cl HC.
Qed.
Lemma park_ret_fields s c c' :
  gst (co (park_ret s c) c') = gst (co s c') /\ spawned (co (park_ret s c) c') = spawned (co s c') /\
  upc (co (park_ret s c) c') = upc (co s c') /\ loc (co (park_ret s c) c') = loc (co s c').
Proof.
  unfold park_ret. destruct (upc (co s c)); auto. destruct (call_of s (AC c) d) as [[]|]; auto.
  sst. upds; sco; auto.
Qed.
Lemma hand_spawned s t c : PInv s -> In c (hand s t) -> spawned (co s c) = true.
Proof.
  intros HP I. apply (p_hand s HP) in I. destruct (spawned (co s c)) eqn:E; [reflexivity|].
  apply (p_none s HP) in E. congruence.
Qed.

Lemma cinv_step s a s' : PInv s -> CInv s -> step s a = Some s' -> CInv s'.
Proof.
  intros HP HC H c'. destruct a.
  all: step_inv H.
  all: try match goal with E : cur _ _ = Some ?a |- _ => destruct (cur_cases _ _ _ E) as [[? ?]|[? [? [? ?]]]]; subst a end.
  all: prep.
  all: unfold take_wake in *.
  all: sst; bools.
  all: try (upds; solve [apply HC]).
  all: try match goal with |- context [match jwake ?x with _ => _ end] => destruct (jwake x) eqn:?; sst end.
  all: try match goal with q : qid |- _ => destruct q; sst end.
  all: try match goal with |- context [if ?b then SL _ else _] => destruct b end.
  all: try match goal with |- context [match ?i with Some _ => SP _ _ | None => SG _ end] => destruct i end.
  all: try match goal with |- context [match ?v with Some _ => PP0 _ | None => PT1 end] => destruct v end.
  all: try match goal with |- context [if jstate ?x then _ else _] => destruct (jstate x) eqn:? end.
  all: idle.
  all: try match goal with |- context [park_ret ?s ?c] =>
         pose proof (park_ret_cinv s c HC) as HC';
         pose proof (fun c' => proj1 (park_ret_fields s c c')) as PG;
         pose proof (fun c' => proj1 (proj2 (park_ret_fields s c c'))) as PS;
         pose proof (fun c' => proj1 (proj2 (proj2 (park_ret_fields s c c')))) as PU
       end.
  all: upds; try solve [apply HC].
  all: try (exfalso; match goal with H1 : spawned (co ?s ?c) = false, H2 : gst (co ?s ?c) = GLive |- _ =>
         destruct (HC c) as [K _]; rewrite (K H1) in H2; discriminate end).
  all: try solve [cl HC].
  all: try solve [apply HC'].
  all: try solve [eapply L_resume; [apply HC' | rewrite PS; eapply hand_spawned; eauto | rewrite PG; congruence]].
  all: try solve [eapply L_user; [first [apply HC' | eapply L_resume; [apply HC' | rewrite PS; eapply hand_spawned; eauto | rewrite PG; congruence]]
                                 | sco; rewrite ?PU; sc | sco; rewrite ?PG; sc | sc]].
Qed.
