(* Preservation of SInv (frames on the thread stacks belong to coroutines in the matching generator state)
   and of DInv (a dropped coroutine has finished). *)
From Coq Require Import List Arith ZArith Bool Lia.
Import ListNotations.
Require Import MayV.Rt.SchedModel MayV.Rt.SchedInv MayV.Rt.SchedTac MayV.Rt.SchedPresC.

Lemma in_frun c l : In (FRun c) l <-> In c (frun l).
Proof.
  unfold frun. rewrite in_flat_map. split.
  - intro I. exists (FRun c). split; [exact I | now left].
  - intros [f [I J]]. destruct f; cbn in J; try tauto. destruct J as [<-|[]]. exact I.
Qed.
Lemma frun_unique s t c rest t' : PInv s -> stk s t = FRun c :: rest -> In (FRun c) (stk s t') -> t' = t /\ ~ In (FRun c) rest.
Proof.
  intros HP E I. apply in_frun in I.
  assert (L1 : loc (co s c) = LRun t') by (apply (p_run s HP); exact I).
  assert (L2 : loc (co s c) = LRun t) by (apply (p_run s HP); rewrite E; cbn; auto).
  split; [congruence|]. pose proof (n_run s HP t) as N. rewrite E in N. cbn in N. inversion N; subst.
  rewrite in_frun. assumption.
Qed.
Lemma frun_spawned s t c : PInv s -> In (FRun c) (stk s t) -> spawned (co s c) = true.
Proof.
  intros HP I. apply in_frun in I. apply (p_run s HP) in I. destruct (spawned (co s c)) eqn:E; [reflexivity|].
  apply (p_none s HP) in E. congruence.
Qed.
Lemma fin_spawned s c : CInv s -> gst (co s c) = GFin -> spawned (co s c) = true.
Proof.
  intros HC G. destruct (spawned (co s c)) eqn:E; [reflexivity|]. destruct (HC c) as [K _]. rewrite (K E) in G. discriminate.
Qed.

Lemma park_ret_gst s c c' : gst (co (park_ret s c) c') = gst (co s c').
Proof. apply park_ret_fields. Qed.
Lemma park_ret_upc s c c' : upc (co (park_ret s c) c') = upc (co s c').
Proof. apply park_ret_fields. Qed.
Lemma park_ret_stk s c : stk (park_ret s c) = stk s.
Proof.
  unfold park_ret. destruct (upc (co s c)); auto. destruct (call_of s (AC c) d) as [[]|]; auto.
Qed.

Lemma sinv_step s a s' : PInv s -> CInv s -> SInv s -> step s a = Some s' -> SInv s'.
Proof.
  intros HP HC HS H. destruct a.
  all: step_inv H.
  all: try match goal with E : cur _ _ = Some ?a |- _ => destruct (cur_cases _ _ _ E) as [[? ?]|[? [? [? ?]]]]; subst a end.
  all: prep.
  all: unfold take_wake in *.
  all: try match goal with q : qid |- _ => destruct q end.
  all: repeat match goal with |- context [match jwake ?x with _ => _ end] => destruct (jwake x) eqn:? end.
  all: try match goal with E : stk ?s0 ?t = ?F :: _ |- _ => assert (TOP : finv s0 F) by (apply (HS t); rewrite E; left; reflexivity) end.
  all: intros t' f I.
  all: sst; bools.
  all: rewrite ?park_ret_stk in *.
  all: try match goal with
       | I : In ?f (stk ?s0 ?t0) |- _ => pose proof (HS t0 f I) as OLD
       | I : In ?f (upd (stk ?s0) ?t0 ?l ?t1) |- _ =>
           destruct (Nat.eq_dec t1 t0) as [e|e]; [subst; rewrite upd_eq in I | rewrite upd_neq in I by exact e; pose proof (HS t1 f I) as OLD]
       end.
  all: repeat match goal with I : In ?f (_ :: _) |- _ => destruct I as [<-|I] end.
  all: try match goal with I : In _ [] |- _ => destruct I end.
  all: try match goal with
       | I : In ?f ?r, E : stk ?s0 ?t0 = _ :: ?r |- _ => assert (OLD : finv s0 f) by (apply (HS t0); rewrite E; right; exact I)
       | I : In ?f ?r, E : stk ?s0 ?t0 = _ :: _ :: ?r |- _ => assert (OLD : finv s0 f) by (apply (HS t0); rewrite E; right; right; exact I)
       end.
  all: try match goal with |- finv _ ?f => is_var f; destruct f as [c'|c' []|c'] end.
  all: unfold finv in *; sst; try exact I.
  all: idle.
  all: try match goal with H1 : spawned (co ?s0 ?c) = false |- _ => pose proof (proj1 (HC c) H1) end.
  all: upds; sco; splh; rewrite ?park_ret_gst, ?park_ret_upc; try tauto; try congruence.
  all: try (exfalso; match goal with
       | E : stk ?s0 ?t0 = FRun ?c :: ?l, I : In (FRun ?c) ?l |- _ => apply (proj2 (frun_unique s0 t0 c l t0 HP E ltac:(rewrite E; left; reflexivity))); exact I
       | E : stk ?s0 ?t0 = FRun ?c :: ?l, I : In (FRun ?c) (stk ?s0 ?t1) |- _ => pose proof (proj1 (frun_unique s0 t0 c l t1 HP E I)); congruence
       end).
  all: repeat match goal with E : gst (co _ _) = _ |- _ => rewrite E in * end; try tauto; try congruence.
Qed.

Lemma park_ret_dead s c : dead (park_ret s c) = dead s.
Proof.
  unfold park_ret. destruct (upc (co s c)); auto. destruct (call_of s (AC c) d) as [[]|]; auto.
Qed.

Lemma dinv_step s a s' : PInv s -> CInv s -> SInv s -> DInv s -> step s a = Some s' -> DInv s'.
Proof.
  intros HP HC HS HD H. destruct a.
  all: step_inv H.
  all: try match goal with E : cur _ _ = Some ?a |- _ => destruct (cur_cases _ _ _ E) as [[? ?]|[? [? [? ?]]]]; subst a end.
  all: prep.
  all: unfold take_wake in *.
  all: try match goal with q : qid |- _ => destruct q end.
  all: repeat match goal with |- context [match jwake ?x with _ => _ end] => destruct (jwake x) eqn:? end.
  all: try match goal with E : stk ?s0 ?t = ?F :: _ |- _ => assert (TOP : finv s0 F) by (apply (HS t); rewrite E; left; reflexivity) end.
  all: intros c' I.
  all: sst; bools.
  all: rewrite ?park_ret_dead in *.
  all: try match goal with I : In _ (_ :: _) |- _ => destruct I as [<-|I] end.
  all: try match goal with I : In ?c (dead ?s0) |- _ => pose proof (HD c I) as OLD end.
  all: unfold finv in *.
  all: idle.
  all: try match goal with H1 : spawned (co ?s0 ?c) = false |- _ => pose proof (proj1 (HC c) H1) end.
  all: upds; sco; splh; rewrite ?park_ret_gst, ?park_ret_upc; try tauto; try congruence.
  all: exfalso; match goal with H0 : _ \/ _ |- _ => destruct H0; congruence end.
Qed.
