(* C02 - time and timers: what the kernel half knows about the timeout of the current call, deadlines
   of timer entries, and why a (non stale) Timeout wake-up is never early. *)
From Coq Require Import List ZArith Bool Arith Lia.
Import ListNotations.
Require Import MayV.Rt.AtomicDur MayV.Base.BlockerSpec MayV.Rt.ParkModel MayV.Rt.ParkTac MayV.Rt.ParkInv1.
Open Scope Z_scope.

Record Inv2 (s : st) : Prop := {
  t_now : tcall s <= now s;
  t_fired : forall i, tm s i = TmFired \/ tm s i = TmHold -> tdl s i <= now s;
  k_tmo : match up s with
          | UYc | UYield => tmo s = enc (ud s)
          | USusp => kp s = KDur -> tmo s = enc (ud s)
          | _ => True end;
  k_dur : up s = USusp ->
          match kp s with
          | KNow | KArm | KHandle | KGon | KReg | KStore | KChk | KStake | KSgoff true | KSrun => kdur s = armed_of (ud s)
          | _ => True end;
  k_dl : up s = USusp ->
         match kp s with
         | KArm | KHandle | KGon | KReg | KStore | KChk | KStake | KSgoff true | KSrun =>
             match kdur s with
             | Some a => exists t, kdl s = Some t /\ tcall s + a <= t
             | None => kdl s = None /\ hnd s = None end
         | _ => True end;
  k_pass : match kp s with
           | KStake | KSgoff _ | KSrun => exists t, kdl s = Some t /\ t <= now s
           | _ => True end;
  k_arm : kp s = KArm -> exists d t, kdur s = Some d /\ kdl s = Some t /\ t <= now s + d;
  h_scope : match hnd s with
            | Some _ => match up s with
                        | USusp => match kp s with KDur | KNow | KArm => False | _ => True end
                        | UYb | UCc | UCp2Load | UCp2Store | UCp2Swap | URm | UDead => True
                        | _ => False end
            | None => True end;
  h_entry : up s = USusp ->
            match kp s with
            | KHandle | KGon | KReg | KStore | KChk =>
                forall i, hnd s = Some i -> exists t, kdl s = Some t /\ t <= tdl s i
            | _ => True end;
  h_dl : forall i, hnd s = Some i -> exists c, call_deadline s = Some c /\ c <= tdl s i;
  w_dl : match wsrc s with
         | WTm false | WSelfTmo => exists c, call_deadline s = Some c /\ c <= now s
         | _ => True end
}.

Lemma inv2_init : Inv2 init.
Proof. constructor; cbn; intros; fin. Qed.

Ltac zb :=
  repeat match goal with
  | H : (_ <=? _) = true |- _ => apply Z.leb_le in H
  | H : (_ <=? _) = false |- _ => apply Z.leb_gt in H
  | H : (_ <? _) = true |- _ => apply Z.ltb_lt in H
  | H : (_ <? _) = false |- _ => apply Z.ltb_ge in H
  end.

Ltac ex_close :=
  first [ solve [fin]
        | solve [eexists; split; [reflexivity | lia]]
        | solve [eexists; split; [eassumption | lia]]
        | solve [do 2 eexists; split; [reflexivity | split; [reflexivity | lia]]]
        | solve [do 2 eexists; split; [eassumption | split; [eassumption | lia]]]
        | solve [do 2 eexists; split; [reflexivity | split; [eassumption | lia]]]
        | solve [do 2 eexists; split; [eassumption | split; [reflexivity | lia]]]
        | solve [split; [reflexivity | reflexivity]]
        | solve [repeat (first [eexists | split]); first [eassumption | reflexivity | lia]] ].

Ltac dmg :=
  match goal with
  | |- context [match hnd ?s with _ => _ end] => destruct (hnd s) eqn:?
  | |- context [match kdur ?s with _ => _ end] => destruct (kdur s) eqn:?
  | |- context [match wsrc ?s with _ => _ end] => destruct (wsrc s) eqn:?
  | |- context [match up ?s with _ => _ end] => destruct (up s) eqn:?
  | |- context [match kp ?s with _ => _ end] => destruct (kp s) eqn:?
  | |- context [if ?b then _ else _] => destruct b eqn:?
  | |- context [match dec ?x with _ => _ end] => destruct (dec x) eqn:?
  end.
Ltac dmh :=
  match goal with
  | H : context [match hnd ?s with _ => _ end] |- _ => destruct (hnd s) eqn:?
  | H : context [match kdur ?s with _ => _ end] |- _ => destruct (kdur s) eqn:?
  | H : context [match wsrc ?s with _ => _ end] |- _ => destruct (wsrc s) eqn:?
  | H : context [if ?b then _ else _] |- _ => destruct b eqn:?
  | H : context [match dec ?x with _ => _ end] |- _ => destruct (dec x) eqn:?
  | H : context [match kp ?s with _ => _ end] |- _ => destruct (kp s) eqn:?
  end.

Ltac cl2a :=
  intros; brk; zb;
  repeat match goal with H : _ \/ _ |- _ => destruct H end;
  repeat match goal with
         | H : Some _ = dec _ |- _ => rewrite <- H in *
         | H : None = dec _ |- _ => rewrite <- H in *
         | H : dec _ = Some _ |- _ => rewrite H in *
         | H : dec _ = None |- _ => rewrite H in *
         end;
  repeat match goal with
         | H : negb _ = false |- _ => apply negb_false_iff in H
         | H : negb _ = true |- _ => apply negb_true_iff in H
         | H : optnat_eqb _ (Some _) = true |- _ => apply optnat_eqb_some in H
         end;
  try match goal with |- context [upd _ _ _ ?j] => upd_at j end;
  try match goal with H : context [upd _ _ _ ?j] |- _ => cbn in H; upd_at j end;
  cbn in *|-; subst;
  repeat match goal with H : Some _ = Some _ |- _ => injection H as H; subst end;
  repeat match goal with H : ?a = ?a -> _ |- _ => specialize (H eq_refl) end;
  repeat match goal with H : ?P -> _, H' : ?P |- _ => match type of P with Prop => specialize (H H') end end;
  brk;
  repeat match goal with
         | Hh : forall i, tm ?s i = TmFired \/ _ -> _, E : tm ?s ?i = TmFired |- _ =>
             lazymatch goal with _ : tdl s i <= now s |- _ => fail | _ => assert (tdl s i <= now s) by (eapply Hh; left; exact E) end
         | Hh : forall i, tm ?s i = TmFired \/ _ -> _, E : tm ?s ?i = TmHold |- _ =>
             lazymatch goal with _ : tdl s i <= now s |- _ => fail | _ => assert (tdl s i <= now s) by (eapply Hh; right; exact E) end
         end;
  repeat match goal with
         | Hh : forall i, hnd ?s = Some i -> _, Hj : hnd ?s = Some ?j |- _ =>
             let N := fresh "N" in pose proof (Hh j Hj) as N; clear Hh; brk
         | Hh : forall i, Some ?k = Some i -> _ |- _ =>
             let N := fresh "N" in pose proof (Hh k eq_refl) as N; clear Hh; brk
         end;
  repeat match goal with
         | A : ?l = Some ?a, B : ?l = Some ?b |- _ =>
             assert (a = b) by congruence; subst; clear B
         end;
  try solve [ex_close].

Ltac cl2 :=
  unfold places, call_deadline, armed_of in *; cbn; rw; cbn;
  try assumption;
  try solve [cl2a];
  try solve [repeat (dmg; cbn in * ); cl2a];
  try solve [repeat (dmg; cbn in * ); dmh; cbn in *; cl2a];
  try solve [repeat (dmg; cbn in * ); dmh; cbn in *; dmh; cbn in *; cl2a].

Lemma inv2_step s a s' : Inv1 s -> Inv2 s -> stepF s a = Some s' -> Inv2 s'.
Proof.
  intros [Ipl Ihun Ihcn Ihtm Irun Isusp Iwk [Inn Ine] Ipre Icd ((Id1 & Id2 & Id3 & Id4) & Iok & Itn)] [Tn Tf Kt Kd Kl Kp Ka Hs He Hd Wd] H.
  destruct a.
  all: step_inv H.
  all: pre Ipl.
  all: constructor.
  all: solve [cl2].
Qed.

Theorem inv2_reach s : ReachF s -> Inv1 s /\ Inv2 s.
Proof.
  induction 1 as [|s a s' R [I1 I2] H]; [split; [apply inv1_init | apply inv2_init]|].
  split; [eapply inv1_step; eauto | eapply inv2_step; eauto].
Qed.
