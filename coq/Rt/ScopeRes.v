(* Results and panic propagation for the CURRENT code's scope model (second invariant, on top of ScopeInv.Inv):
   the join result the owner computes is the way the child ended; a child's panic is re-raised in an owner
   that is not already unwinding and becomes the owner's own outcome; ScopedJoinHandle::join's unwrap never
   fails, returns the child's value, and a result is handed out at most once. *)
From Coq Require Import List Arith Bool Lia.
Import ListNotations.
Require Import MayV.Rt.ScopeModel MayV.Rt.ScopeInv MayV.Rt.ScopeSafe.

Definition fin (p : pc) : bool := match p with PF2 | PF3 | PF4 | PDone => true | _ => false end.
Definition fin3 (p : pc) : bool := match p with PF3 | PF4 | PDone => true | _ => false end.
Definition out_of (u : unwst) (v : nat) : outcome := match u with UNone => OOk v | UPanic p => OPanic p | UCancel => OCancel end.
Definition res_of (u : unwst) : jresult := match u with UNone => ROk | UPanic p => RPanic p | UCancel => RCancel end.
Definition pan_of (u : unwst) : option nat := match u with UPanic p => Some p | _ => None end.
Definition prejoin (p : pc) : bool := match p with PJ0 | PW0 | PW1 | PW2 | PW3 | PPark | PWW | PT1 | PT2 => true | _ => false end.
Definition postwait (p : pc) : bool := match p with PT1 | PT2 | PEn | PCk | PRes | PRet => true | _ => false end.
Definition hasres (p : pc) : bool := match p with PEn | PCk | PRes => true | _ => false end.

Record Inv2 (s : st) : Prop := {
  K1 : forall a, pcm s a = PBody -> unwm s a = UNone;
  K2 : forall a, jexpm s a = true -> jpcs (pcm s a) = true -> unwm s a = UNone;
  K3 : forall c, outm s c = if fin (pcm s c) then out_of (unwm s c) (cvalm s c) else ORun;
  K4 : forall c, jstm s c = false -> fin3 (pcm s c) = true;
  K5 : forall c, fin (pcm s c) = true -> tkm s c = false ->
         ipktm s c = negb (unwinding (unwm s c)) /\ panm s c = pan_of (unwm s c);
  K6 : forall c, fin (pcm s c) = true -> unwm s c = UNone -> gotm s c = 0 -> pktm s c = Some (cvalm s c);
  K7 : forall a, prejoin (pcm s a) = true -> tkm s (jcm s a) = false;
  K8 : forall c, joinedm s c = false -> tkm s c = false;
  K9 : forall a, postwait (pcm s a) = true -> jstm s (jcm s a) = false;
  K10 : forall a, hasres (pcm s a) = true -> jresm s a = res_of (unwm s (jcm s a));
  K10b : forall a, pcm s a = PT2 -> unwinding (unwm s (jcm s a)) = true;
  K11 : forall a, pcm s a = PRet -> unwm s (jcm s a) = UNone;
  K12 : forall c, gotm s c <= 1 /\ (handlem s c = true -> gotm s c = 0);
  K13 : forall a, jexpm s a = true -> jpcs (pcm s a) = true -> gotm s (jcm s a) = 0 /\ handlem s (jcm s a) = false;
  K14 : forall a, pcm s a = PRet -> jexpm s a = true;
  K15 : forall a, jpcs (pcm s a) = true -> joinedm s (jcm s a) = true;
  K16 : forall c, fin (pcm s c) = false -> ipktm s c = false /\ panm s c = None }.

Ltac facts2 I2 :=
  pose proof (K1 _ I2) as R1; pose proof (K2 _ I2) as R2; pose proof (K3 _ I2) as R3; pose proof (K4 _ I2) as R4;
  pose proof (K5 _ I2) as R5; pose proof (K6 _ I2) as R6; pose proof (K7 _ I2) as R7; pose proof (K8 _ I2) as R8;
  pose proof (K9 _ I2) as R9; pose proof (K10 _ I2) as R10; pose proof (K10b _ I2) as R10b; pose proof (K11 _ I2) as R11;
  pose proof (K12 _ I2) as R12; pose proof (K13 _ I2) as R13; pose proof (K14 _ I2) as R14; pose proof (K15 _ I2) as R15; pose proof (K16 _ I2) as R16.
Ltac start2 I I2 H := facts I; facts2 I2; step_cases H; simp; bools; known; try nodis; try headchild.

Lemma prejoin_jpcs p : prejoin p = true -> jpcs p = true.  Proof. destruct p; cbn; auto. Qed.
Lemma postwait_jpcs p : postwait p = true -> jpcs p = true.  Proof. destruct p; cbn; auto. Qed.
Lemma hasres_jpcs p : hasres p = true -> jpcs p = true.  Proof. destruct p; cbn; auto. Qed.

(* the child being joined by a task somewhere inside a join exists and is that task's child *)
Ltac jc_known2 :=
  repeat match goal with
  | Q7 : forall a, jpcs (pcm ?s a) = true -> parentm ?s (jcm ?s a) = Some a, Q6 : forall c a, parentm ?s c = Some a -> _ |- _ =>
      match goal with
      | P : jpcs (pcm s ?a) = true |- _ =>
          lazymatch goal with _ : parentm s (jcm s a) = Some a |- _ => fail | _ => idtac end;
          let X := fresh "X7" in assert (X : parentm s (jcm s a) = Some a) by (apply Q7; exact P); pose proof (Q6 _ _ X)
      | P : prejoin (pcm s ?a) = true |- _ =>
          lazymatch goal with _ : parentm s (jcm s a) = Some a |- _ => fail | _ => idtac end;
          let X := fresh "X7" in assert (X : parentm s (jcm s a) = Some a) by (apply Q7; apply prejoin_jpcs; exact P); pose proof (Q6 _ _ X)
      | P : postwait (pcm s ?a) = true |- _ =>
          lazymatch goal with _ : parentm s (jcm s a) = Some a |- _ => fail | _ => idtac end;
          let X := fresh "X7" in assert (X : parentm s (jcm s a) = Some a) by (apply Q7; apply postwait_jpcs; exact P); pose proof (Q6 _ _ X)
      | P : hasres (pcm s ?a) = true |- _ =>
          lazymatch goal with _ : parentm s (jcm s a) = Some a |- _ => fail | _ => idtac end;
          let X := fresh "X7" in assert (X : parentm s (jcm s a) = Some a) by (apply Q7; apply hasres_jpcs; exact P); pose proof (Q6 _ _ X)
      end
  end.
(* two different tasks never join the same child *)
Ltac samejc :=
  match goal with
  | e : jcm ?s ?a0 = jcm ?s ?a, n : ?a0 <> ?a, X : parentm ?s (jcm ?s ?a0) = Some ?a0, Y : parentm ?s (jcm ?s ?a) = Some ?a |- _ =>
      exfalso; rewrite e in X; rewrite X in Y; inversion Y; congruence
  end.
Ltac unwd := repeat match goal with
  | H : unwinding (unwm ?s ?a) = false |- _ => destruct (unwm s a) eqn:?; cbn [unwinding] in H; try discriminate; clear H
  | H : unwinding ?u = _ |- _ => progress cbn [unwinding] in H
  end.
Ltac gen := upds; simp; dm; simp; try discriminate; try lia; eauto.

Lemma fin3_fin p : fin3 p = true -> fin p = true.  Proof. destruct p; cbn; auto. Qed.
(* a task past Join::wait joins a finished child *)
Ltac childfin :=
  repeat match goal with
  | R9 : forall a, postwait (pcm ?s a) = true -> jstm ?s (jcm ?s a) = false,
    R4 : forall c, jstm ?s c = false -> fin3 (pcm ?s c) = true, P : pcm ?s ?a = ?p |- _ =>
      lazymatch goal with _ : fin3 (pcm s (jcm s a)) = true |- _ => fail | _ => idtac end;
      let X := fresh "XF" in
      assert (X : fin3 (pcm s (jcm s a)) = true) by (apply R4; apply R9; rewrite P; reflexivity)
  end.
Ltac finpc := repeat match goal with
  | X : fin3 (pcm ?s ?c) = true, E : pcm ?s ?c = _ |- _ => rewrite E in X; cbn [fin3] in X; try discriminate
  end.

Lemma hasres_postwait p : hasres p = true -> postwait p = true.  Proof. destruct p; cbn; auto. Qed.
Ltac childfin2 :=
  repeat match goal with
  | R9 : forall a, postwait (pcm ?s a) = true -> jstm ?s (jcm ?s a) = false,
    R4 : forall c, jstm ?s c = false -> fin3 (pcm ?s c) = true |- _ =>
      match goal with
      | P : postwait (pcm s ?a) = true |- _ =>
          lazymatch goal with _ : fin3 (pcm s (jcm s a)) = true |- _ => fail | _ => idtac end;
          let X := fresh "XF" in assert (X : fin3 (pcm s (jcm s a)) = true) by (apply R4; apply R9; exact P)
      | P : hasres (pcm s ?a) = true |- _ =>
          lazymatch goal with _ : fin3 (pcm s (jcm s a)) = true |- _ => fail | _ => idtac end;
          let X := fresh "XF" in assert (X : fin3 (pcm s (jcm s a)) = true) by (apply R4; apply R9; apply hasres_postwait; exact P)
      end
  end.
(* the join result slots of a finished child that nobody has taken yet *)
Ltac slots :=
  match goal with
  | E : pcm ?s ?a = ?p, X : fin3 (pcm ?s (jcm ?s ?a)) = true,
    R5 : forall c, fin (pcm ?s c) = true -> tkm ?s c = false -> _,
    R7 : forall a, prejoin (pcm ?s a) = true -> tkm ?s (jcm ?s a) = false |- _ =>
      let G1 := fresh "G1" in let G2 := fresh "G2" in
      destruct (R5 _ (fin3_fin _ X)) as [G1 G2]; [apply R7; rewrite E; reflexivity|]
  end.
Ltac start3 I I2 H := start2 I I2 H; childfin; finpc.
Ltac mid := gen; unwd; try reflexivity; try discriminate; childfin; childfin2; finpc;
            jc_known; jc_known2; try lia; try samejc; try (exfalso; congruence).
