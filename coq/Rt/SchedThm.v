(* SchedModel: the invariant holds in every reachable state; the theorems of C01 in user terms. *)
From Coq Require Import List Arith ZArith Bool Lia.
Import ListNotations.
Require Import MayV.Rt.SchedModel MayV.Rt.SchedInv MayV.Rt.SchedTac MayV.Rt.SchedPresP MayV.Rt.SchedPresC
               MayV.Rt.SchedPresF MayV.Rt.SchedPresS MayV.Rt.SchedPresJ.

Lemma inv_init w : Inv (init w).
Proof.
  constructor.
  - constructor; cbn; intros; try constructor; try reflexivity; try tauto; try discriminate.
  - intro c. cbn. unfold cinv, endinv, callinv. cbn. repeat split; try discriminate; congruence.
  - intro d. unfold jinv. cbn. exact I.
  - repeat split; cbn; intros; try discriminate; try tauto. destruct H; discriminate.
  - intros t f []. 
  - intros c [].
Qed.

Lemma inv_step s a s' : Inv s -> step s a = Some s' -> Inv s'.
Proof.
  intros [HP HC HJ HF HS HD] H. constructor.
  - eapply pinv_step; eauto.
  - eapply cinv_step; eauto.
  - eapply jinv_step; eauto.
  - eapply finv_step; eauto.
  - eapply sinv_step; eauto.
  - eapply dinv_step; eauto.
Qed.

Theorem inv_reach w s : Reach w s -> Inv s.
Proof. induction 1; [apply inv_init | eapply inv_step; eauto]. Qed.

(* ------------------------------------------------------------------ (i) conservation *)
(* the structures a coroutine token can be in: global queue k, local queue of thread t, a local variable
   (hand) of thread t, running on the stack of thread t, a suspension slot, the graveyard *)
Definition holds (s : st) (A : cont) (c : nat) : Prop := In c (cget s A).

Theorem token_conservation w s c : Reach w s -> spawned (co s c) = true ->
  exists A, holds s A c /\ (forall B, holds s B c -> B = A) /\ NoDup (cget s A).
Proof.
  intros R S. pose proof (iP s (inv_reach w s R)) as HP. apply pinv_cont in HP. destruct HP as (I & N & Z).
  assert (L : loc (co s c) <> LNone) by (intro L; apply Z in L; congruence).
  assert (E : exists A, loc (co s c) = cplace A).
  { destruct (loc (co s c)) eqn:Q; [congruence| | | | | |].
    - exists (CG k); reflexivity. - exists (CL t); reflexivity. - exists (CH t); reflexivity.
    - exists (CR t); reflexivity. - exists CS; reflexivity. - exists CD; reflexivity. }
  destruct E as [A E]. exists A. split; [apply I; exact E|]. split; [|apply N].
  intros B H. apply I in H. rewrite E in H. apply cplace_inj. congruence.
Qed.

Theorem unspawned_nowhere w s c A : Reach w s -> spawned (co s c) = false -> ~ holds s A c.
Proof.
  intros R S H. pose proof (iP s (inv_reach w s R)) as HP. apply pinv_cont in HP. destruct HP as (I & N & Z).
  apply I in H. apply Z in S. rewrite S in H. destruct A; discriminate.
Qed.

Theorem never_on_two_threads w s c t1 t2 : Reach w s ->
  In (FRun c) (stk s t1) -> In (FRun c) (stk s t2) -> t1 = t2.
Proof.
  intros R H1 H2. pose proof (iP s (inv_reach w s R)) as HP.
  apply in_frun in H1, H2. apply (p_run s HP) in H1, H2. congruence.
Qed.

Theorem at_most_once_on_a_stack w s t : Reach w s -> NoDup (frun (stk s t)).
Proof. intro R. apply (n_run s (iP s (inv_reach w s R))). Qed.

Theorem never_in_two_queues w s c q1 q2 : Reach w s -> In c (getq s q1) -> In c (getq s q2) -> q1 = q2.
Proof.
  intros R H1 H2. pose proof (iP s (inv_reach w s R)) as HP.
  destruct q1, q2; cbn [getq] in *;
    repeat match goal with
    | H : In _ (gq _ _) |- _ => apply (p_gq s HP) in H
    | H : In _ (lq _ _) |- _ => apply (p_lq s HP) in H
    end; congruence.
Qed.

Theorem never_twice_in_a_queue w s q : Reach w s -> NoDup (getq s q).
Proof. intro R. destruct q; cbn [getq]; [apply n_gq | apply n_lq]; apply (iP s (inv_reach w s R)). Qed.

(* a coroutine that runs is in no queue, no hand, no slot (so nobody else can resume it) *)
Theorem running_is_nowhere_else w s c t A : Reach w s -> In (FRun c) (stk s t) -> holds s A c -> A = CR t.
Proof.
  intros R H1 H2. pose proof (iP s (inv_reach w s R)) as HP.
  apply in_frun in H1. apply (p_run s HP) in H1.
  apply pinv_cont in HP. destruct HP as (I & _). apply I in H2. apply cplace_inj. rewrite <- H2, H1. reflexivity.
Qed.

(* ------------------------------------------------------------------ (ii) the body runs at most once *)
Theorem body_at_most_once w s c : Reach w s -> bodycnt (co s c) <= 1.
Proof.
  intro R. destruct (iC s (inv_reach w s R) c) as (_ & A & B & _).
  destruct (gst (co s c)) eqn:G.
  - destruct (A eq_refl) as [-> _]. lia.
  - rewrite B by discriminate. lia.
  - rewrite B by discriminate. lia.
Qed.

Lemma outcome_entered x : cinv x -> outcome x <> None -> gst x <> GInit /\ bodycnt x = 1.
Proof.
  unfold cinv, endinv. intros (_ & A & B & _ & _ & _ & _ & _ & E & _) O.
  assert (G : gst x <> GInit).
  { intro G. destruct (A G) as [_ U]. rewrite U in E. cbn in E. tauto. }
  split; [exact G | exact (B G)].
Qed.

Theorem outcome_body_exactly_once w s c : Reach w s -> outcome (co s c) <> None -> bodycnt (co s c) = 1.
Proof. intros R O. apply (outcome_entered _ (iC s (inv_reach w s R) c) O). Qed.

Lemma fin_outcome x : cinv x -> gst x = GFin -> outcome x <> None.
Proof.
  unfold cinv, endinv. intros (_ & _ & _ & _ & _ & _ & _ & _ & E & _) G.
  destruct (eph (upc x)).
  - destruct E as (_ & _ & _ & N & _). congruence.
  - destruct E as (O & _). congruence.
  - destruct E as (_ & _ & _ & E). destruct (outcome x); [discriminate | tauto].
  - destruct E as (O & _). congruence.
  - destruct E as (_ & _ & E). destruct (outcome x); [discriminate | tauto].
Qed.

(* dropped (Done / drop_coroutine) only after the body has ended - by return, panic or cancellation *)
Theorem dead_only_after_body w s c : Reach w s -> In c (dead s) ->
  outcome (co s c) <> None /\ bodycnt (co s c) = 1 /\ jstate (co s c) = false.
Proof.
  intros R D. pose proof (inv_reach w s R) as [HP HC HJ HF HS HD].
  destruct (HD c D) as [G U]. pose proof (fin_outcome _ (HC c) G) as O.
  split; [exact O|]. split; [apply (outcome_entered _ (HC c) O)|].
  destruct (HC c) as (_ & _ & _ & Js & _). rewrite Js. destruct U as [-> | ->]; reflexivity.
Qed.

(* ------------------------------------------------------------------ (iii) state = false only after the end, results stored first *)
Definition result_ready (x : cor) : Prop :=
  match outcome x with
  | Some (RVal v) => pan x = None /\ (ptaken x = false -> pkt x = Some v)
  | Some (RPan v) => pkt x = None /\ (jret x = None -> pan x = Some v)
  | Some RCancel => pkt x = None /\ pan x = None
  | None => False end.

Lemma flag_false_ready x : cinv x -> jstate x = false -> result_ready x /\ bodycnt x = 1.
Proof.
  intros C J. assert (O : outcome x <> None /\ result_ready x).
  { revert C J. unfold cinv, endinv, result_ready. intros (_ & _ & _ & Js & _ & _ & _ & _ & E & _) J.
    rewrite J in Js. assert (Q : post_trig (upc x) = true) by (destruct (post_trig (upc x)); [reflexivity | discriminate]).
    destruct (post_trig_eph _ Q) as [Ep|Ep]; rewrite Ep in E.
    - destruct E as (_ & _ & Pn & E). destruct (outcome x) as [[v|v|]|]; try tauto. split; [discriminate | auto].
    - destruct E as (_ & Pk & E). destruct (outcome x) as [[v|v|]|]; try tauto; (split; [discriminate | auto]). }
  destruct O as [O Rr]. split; [exact Rr | apply (outcome_entered _ C O)].
Qed.

(* what is_done() (ID0), Join::wait (JW0, JW2) read: `state` is false only if the body has been entered exactly once and has
   ended, and the result slot of that outcome was written before (and is still there unless join() took it) *)
Theorem finished_flag_sound w s d : Reach w s -> jstate (co s d) = false ->
  outcome (co s d) <> None /\ bodycnt (co s d) = 1 /\ result_ready (co s d).
Proof.
  intros R J. destruct (flag_false_ready _ (iC s (inv_reach w s R) d) J) as [Rr B].
  split; [|split; assumption]. unfold result_ready in Rr. destruct (outcome (co s d)); [discriminate | tauto].
Qed.

(* the completion flag is monotone: once false it stays false *)
Theorem finished_stays w s a s' d : Reach w s -> step s a = Some s' -> jstate (co s d) = false -> jstate (co s' d) = false.
Proof.
  intros R H J. pose proof (inv_reach w s R) as [HP HC HJ HF HS HD].
  assert (Sp : spawned (co s d) = true).
  { destruct (spawned (co s d)) eqn:Sp; [reflexivity|]. destruct (HC d) as (A & B & _ & Js & _).
    destruct (B (A Sp)) as [_ U]. rewrite U in Js. cbn in Js. congruence. }
  destruct a.
  all: step_inv H.
  all: try match goal with E : cur _ _ = Some ?a |- _ => destruct (cur_cases _ _ _ E) as [[? ?]|[? [? [? ?]]]]; subst a end.
  all: prep.
  all: unfold take_wake in *.
  all: try match goal with |- context [park_ret ?s0 ?c] => destruct (park_ret_cases s0 c) as [->|(dd & mm & bb & UU & JJ & ->)] end.
  all: try match goal with q : qid |- _ => destruct q end.
  all: repeat match goal with |- context [match jwake ?x with _ => _ end] => destruct (jwake x) eqn:? end.
  all: sst; bools; upds; sco; try assumption; try reflexivity; try congruence.
Qed.

(* a wait()/join() call leaves Join::wait (JW0 -> return / JT1) only by reading state = false *)
Theorem wait_returns_only_when_finished w s t s' d a m : Reach w s -> step s (AStep t) = Some s' ->
  jcall (co s d) = Some (a, JW0 m) -> jcall (co s' d) <> Some (a, JW0 m) -> jcall (co s' d) <> Some (a, JW1 m) ->
  jstate (co s d) = false /\ outcome (co s d) <> None /\ result_ready (co s d).
Proof.
  intros R H J N0 N1.
  assert (K : jstate (co s d) = false).
  { step_inv H.
    all: try match goal with E : cur _ _ = Some ?a |- _ => destruct (cur_cases _ _ _ E) as [[? ?]|[? [? [? ?]]]]; subst end.
    all: prep.
    all: unfold take_wake in *.
    all: repeat match goal with |- context [match jwake ?x with _ => _ end] => destruct (jwake x) eqn:? end.
    all: repeat match goal with H : context [match jwake ?x with _ => _ end] |- _ => destruct (jwake x) eqn:? end.
    all: sst; upds; sco; try congruence. }
  split; [exact K|]. destruct (finished_flag_sound w s d R K) as (A & _ & B). split; assumption.
Qed.

(* ------------------------------------------------------------------ (iv) join returns exactly the outcome *)
Theorem join_returns_outcome w s d r : Reach w s -> jret (co s d) = Some r ->
  outcome (co s d) = Some r /\ bodycnt (co s d) = 1 /\ jstate (co s d) = false /\
  pkt (co s d) = None /\ pan (co s d) = None /\ jdone (co s d) = true.
Proof.
  intros R J. pose proof (iC s (inv_reach w s R) d) as C.
  assert (Q := C). destruct Q as (_ & _ & _ & _ & _ & _ & Jr & _). rewrite J in Jr.
  destruct Jr as (O & Js & Pk & Pn & Jd). repeat split; try assumption.
  apply (outcome_entered _ C). congruence.
Qed.

