(* Tactics and basic lemmas shared by the proofs about LocalModel. *)
From Coq Require Import List Arith Bool ZArith Lia.
Import ListNotations.
Require Import MayV.Rt.LocalModel.

Lemma upd_eq {X} (f : nat -> X) i v : upd f i v i = v.
Proof. unfold upd. now rewrite Nat.eqb_refl. Qed.
Lemma upd_neq {X} (f : nat -> X) i j v : j <> i -> upd f i v j = f j.
Proof. unfold upd. intro H. apply Nat.eqb_neq in H. now rewrite H. Qed.

(* split `step cf s a = Some s'` into one case per path through the step function *)
Ltac step_split H :=
  repeat (cbv beta iota zeta in H;
  lazymatch type of H with
  | Some _ = Some _ => fail
  | None = Some _ => discriminate H
  | (if ?x then _ else _) = Some _ => let E := fresh "E" in destruct x eqn:E
  | (match ?x with _ => _ end) = Some _ => let E := fresh "E" in destruct x eqn:E
  end).
Ltac inv_some H := match type of H with Some _ = Some _ => inversion H; subst; clear H end.

(* projections of the state transformers *)
Ltac sst := cbn [pcm genm thrm cbitm cdism ptokm panim alivem lmapm verm vkindm ninitm ndropm ncanm goccm gusedm
                 param gldm leakm pool trunm tmapm tninitm lastrm
                 set_pcm set_genm set_thrm set_cbitm set_cdism set_ptokm set_panim set_alivem set_lmapm set_verm
                 set_vkindm set_ninitm set_ndropm set_ncanm set_goccm set_gusedm set_param set_gldm set_leakm set_pool
                 set_trunm set_tmapm set_tninitm set_lastrm set_para_of set_pc raise para_of] in *.

Ltac bools :=
  repeat match goal with
  | H : _ && _ = true |- _ => apply andb_true_iff in H; destruct H
  | H : _ && _ = false |- _ => apply andb_false_iff in H
  | H : _ || _ = false |- _ => apply orb_false_iff in H; destruct H
  | H : negb _ = true |- _ => apply negb_true_iff in H
  | H : negb _ = false |- _ => apply negb_false_iff in H
  | H : Nat.eqb _ _ = true |- _ => apply Nat.eqb_eq in H; subst
  | H : Nat.eqb _ _ = false |- _ => apply Nat.eqb_neq in H
  end.

(* case analysis on the index of an updated map *)
Ltac upds :=
  repeat match goal with
  | |- context [upd ?f ?i ?v ?j] =>
      first [ rewrite (upd_eq f i v) | rewrite (upd_neq f i j v) by congruence
            | let e := fresh "e" in destruct (Nat.eq_dec j i) as [e|e];
              [ subst; rewrite ?upd_eq | rewrite (upd_neq f i j v) by congruence ] ]
  | H : context [upd ?f ?i ?v ?j] |- _ =>
      first [ rewrite (upd_eq f i v) in H | rewrite (upd_neq f i j v) in H by congruence
            | let e := fresh "e" in destruct (Nat.eq_dec j i) as [e|e];
              [ subst; rewrite ?upd_eq in H | rewrite (upd_neq f i j v) in H by congruence ] ]
  end.

Definition occ (p : pc) : bool := match p with PNone | PPut | PDone => false | _ => true end.
Definition oncpu (p : pc) : bool := match p with PBody | PShort _ | PBack _ | PAfter _ => true | _ => false end.
Definition live (p : pc) : bool := match p with PNone | PDone => false | _ => true end.

(* the access function of With / SetV, inverted *)
Lemma access_inv cf s t k w s' : access cf s t k w = Some s' ->
  (exists c d, trunm s t = Some c /\ pcm s c = PBody /\ gldm s (genm s c) = Some d /\ alivem s d = true /\
     s' = set_lastrm (upd (lastrm s) t (Some (match w with Some v => v | None => entry cf (lmapm s d) k end)))
         (set_lmapm (upd (lmapm s) d (upd (lmapm s d) k (Some (match w with Some v => v | None => entry cf (lmapm s d) k end))))
         (set_ninitm (upd (ninitm s) d (upd (ninitm s d) k (ninitm s d k + fresh01 (lmapm s d) k))) s)))
  \/ (trunm s t = None /\
     s' = set_lastrm (upd (lastrm s) t (Some (match w with Some v => v | None => entry cf (tmapm s t) k end)))
         (set_tmapm (upd (tmapm s) t (upd (tmapm s t) k (Some (match w with Some v => v | None => entry cf (tmapm s t) k end))))
         (set_tninitm (upd (tninitm s) t (upd (tninitm s t) k (tninitm s t k + fresh01 (tmapm s t) k))) s))).
Proof.
  unfold access. intro H. step_split H; inv_some H.
  - left. eexists _, _. repeat split; eauto.
  - right. split; auto.
Qed.
