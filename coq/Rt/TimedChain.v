(* C08 (callers) - the chain model CH (definitions only; proofs in TimedChainThm.v):
     requested d  ->  AtomicDuration word  enc (Some d)                    (Park::park_timeout: self.timeout.store(dur))
                  ->  kernel half takes it: dur = dec word = armed d        (Park::subscribe: self.timeout.take())
                  ->  its own deadline  now() + dur                         (the repair of F8)
                  ->  timer entry  time = now() + dur                       (TimeOutList::add_timer; another clock read)
                  ->  coroutine published                                   (self.wait_co.store(co))
                  ->  self check  now() >= deadline => time out by itself
                  ->  the timer thread fires the entry only at or after its time (C08_timer_handler_never_early) and,
                      being live, does fire it from then on (C08_timer_quiescent_wakes_in_time): action [Fire]
                  ->  whoever takes the coroutine out of the slot resumes it with the verdict
   and  sleep(d)  (src/sleep.rs):  Sleep::subscribe creates the slot with the coroutine in it, registers the cancel
   data, then add_timer(dur) with the EXACT duration (no AtomicDuration), no self check needed: the coroutine is in the
   slot before the entry exists.
   One Park object per call (what Blocker::current() / SyncBlocker::current() give every timed API); cancellation is
   C09's and left out.  Every clock read is its own transition; time moves by [CTick]. *)
From Coq Require Import ZArith List Bool Lia.
Import ListNotations.
Require Import MayV.Rt.AtomicDur MayV.Rt.TimedCallers.
Open Scope Z_scope.

Inductive ckind := CPark | CSleep.
Inductive cpc := CIdle | CStore | CYield | CResumed (v : verdict).
Inductive kpc := KNone | KTake | KNow | KAdd | KPub | KChk | KState | KDone.

Record cst := cmk {
  cnow : Z;
  cp : cpc;               (* the coroutine *)
  kp : kpc;               (* the kernel half (subscribe) of its yield *)
  ud : Z;                 (* requested duration *)
  tmo : Z;                (* Park.timeout: the AtomicUsize of AtomicDuration *)
  kdur : option Z;        (* kernel local: dur *)
  kdl : option Z;         (* kernel local: deadline *)
  ent : option Z;         (* the armed timer entry: its `time` *)
  slot : bool;            (* wait_co / sleep_co holds the coroutine *)
  ctok : bool;            (* Park.state *)
  (* ghost *)
  ctcall : Z;             (* clock at the call *)
  tadd : Z;               (* clock at add_timer *)
  cres : option (verdict * Z)
}.

Definition cset_now (v : Z) (s : cst) : cst :=
  cmk (v) (cp s) (kp s) (ud s) (tmo s) (kdur s) (kdl s) (ent s) (slot s) (ctok s) (ctcall s) (tadd s) (cres s).
Definition cset_cp (v : cpc) (s : cst) : cst :=
  cmk (cnow s) (v) (kp s) (ud s) (tmo s) (kdur s) (kdl s) (ent s) (slot s) (ctok s) (ctcall s) (tadd s) (cres s).
Definition cset_kp (v : kpc) (s : cst) : cst :=
  cmk (cnow s) (cp s) (v) (ud s) (tmo s) (kdur s) (kdl s) (ent s) (slot s) (ctok s) (ctcall s) (tadd s) (cres s).
Definition cset_tmo (v : Z) (s : cst) : cst :=
  cmk (cnow s) (cp s) (kp s) (ud s) (v) (kdur s) (kdl s) (ent s) (slot s) (ctok s) (ctcall s) (tadd s) (cres s).
Definition cset_kdur (v : option Z) (s : cst) : cst :=
  cmk (cnow s) (cp s) (kp s) (ud s) (tmo s) (v) (kdl s) (ent s) (slot s) (ctok s) (ctcall s) (tadd s) (cres s).
Definition cset_kdl (v : option Z) (s : cst) : cst :=
  cmk (cnow s) (cp s) (kp s) (ud s) (tmo s) (kdur s) (v) (ent s) (slot s) (ctok s) (ctcall s) (tadd s) (cres s).
Definition cset_ent (v : option Z) (s : cst) : cst :=
  cmk (cnow s) (cp s) (kp s) (ud s) (tmo s) (kdur s) (kdl s) (v) (slot s) (ctok s) (ctcall s) (tadd s) (cres s).
Definition cset_tadd (v : Z) (s : cst) : cst :=
  cmk (cnow s) (cp s) (kp s) (ud s) (tmo s) (kdur s) (kdl s) (ent s) (slot s) (ctok s) (ctcall s) (v) (cres s).
Definition cset_slot (v : bool) (s : cst) : cst :=
  cmk (cnow s) (cp s) (kp s) (ud s) (tmo s) (kdur s) (kdl s) (ent s) (v) (ctok s) (ctcall s) (tadd s) (cres s).
Definition cset_ctok (v : bool) (s : cst) : cst :=
  cmk (cnow s) (cp s) (kp s) (ud s) (tmo s) (kdur s) (kdl s) (ent s) (slot s) (v) (ctcall s) (tadd s) (cres s).
Definition cset_cres (v : option (verdict * Z)) (s : cst) : cst :=
  cmk (cnow s) (cp s) (kp s) (ud s) (tmo s) (kdur s) (kdl s) (ent s) (slot s) (ctok s) (ctcall s) (tadd s) (v).
Definition cstart (d : Z) (s : cst) : cst :=
  cmk (cnow s) (cp s) (kp s) (d) (0) (None) (None) (None) (false) (false) (cnow s) (tadd s) (None).

Definition cinit : cst := cmk 0 CIdle KNone 0 0 None None None false false 0 0 None.

Inductive cact :=
| CTick (dt : Z)
| CCall (d : Z)
| CStep            (* the coroutine *)
| KStep            (* the kernel half *)
| Fire             (* the timer thread pops the entry and runs the handler *)
| CUnpark.         (* Park::unpark *)

Section Chain.
Variable CK : ckind.

(* take the coroutine out of the slot and resume it with v; nothing if somebody else was faster *)
Definition take_resume (v : verdict) (s : cst) : cst :=
  if slot s then cset_cp (CResumed v) (cset_slot false s) else s.

Definition kstep (s : cst) : option cst :=
  match kp s with
  | KNone | KDone => None
  | KTake => Some (cset_kp KNow (cset_tmo 0 (cset_kdur (dec (tmo s)) s)))
  | KNow => Some (cset_kp KAdd (cset_kdl (option_map (fun a => cnow s + a) (kdur s)) s))
  | KAdd =>
      Some (cset_kp (match CK with CPark => KPub | CSleep => KDone end)
             (cset_tadd (cnow s) (cset_ent (option_map (fun a => cnow s + a) (kdur s)) s)))
  | KPub => Some (cset_kp KChk (cset_slot true s))
  | KChk =>
      match kdl s with
      | Some t => if t <=? cnow s then Some (cset_kp KDone (take_resume VTimeout s)) else Some (cset_kp KState s)
      | None => Some (cset_kp KState s)
      end
  | KState => if ctok s then Some (cset_kp KDone (take_resume VOk s)) else Some (cset_kp KDone s)
  end.

Definition fire (s : cst) : option cst :=
  match ent s with
  | Some e => if e <=? cnow s then Some (take_resume VTimeout (cset_ent None s)) else None
  | None => None
  end.

Definition chstep (s : cst) (a : cact) : option cst :=
  match a with
  | CTick dt => if dt <? 0 then None else Some (cset_now (cnow s + dt) s)
  | CCall d =>
      match cp s, kp s with
      | CIdle, (KNone | KDone) =>
          if d <? 0 then None else
          match CK with
          | CPark => Some (cset_cp CStore (cset_kp KNone (cstart d s)))
          | CSleep => Some (cset_cp CYield (cset_kp KAdd (cset_slot true (cset_kdur (Some d) (cstart d s)))))
          end
      | _, _ => None
      end
  | CStep =>
      match cp s with
      | CStore => Some (cset_cp CYield (cset_kp KTake (cset_tmo (enc (Some (ud s))) s)))
      | CResumed v => Some (cset_cp CIdle (cset_cres (Some (v, cnow s)) (cset_ent None (cset_ctok false s))))
      | _ => None
      end
  | KStep => kstep s
  | Fire => fire s
  | CUnpark =>
      match CK with
      | CSleep => None        (* nobody else has the sleeper's slot *)
      | CPark => if ctok s then Some s else Some (take_resume VOk (cset_ctok true s))
      end
  end.

Inductive CReach : cst -> Prop :=
| CR0 : CReach cinit
| CRS s a s' : CReach s -> chstep s a = Some s' -> CReach s'.

Fixpoint crun (s : cst) (l : list cact) : option cst :=
  match l with
  | [] => Some s
  | a :: l' => match chstep s a with Some s' => crun s' l' | None => None end
  end.

(* what the call is armed with *)
Definition armed_k (d : Z) : option Z := match CK with CPark => armed d | CSleep => Some d end.

(* the suspended coroutine can only be woken from outside: nothing of the runtime is enabled *)
Definition CQuiescent (s : cst) : Prop := kstep s = None /\ fire s = None.

End Chain.
