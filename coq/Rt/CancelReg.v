(* Which registration does a cancel find?  (C09: "after cancel() the target stops at its current or next
   cancellable blocking call: join returns without hanging" across SEVERAL blocking calls of the target.)

   The models of the single primitives (ParkModel, IoModel, ...) follow one blocking call.  This model follows the
   registration that a coroutine T leaves with its `Cancel` (src/cancel.rs: `io`, the EventData of an io call, and
   `co`, the slot of a Park) over a program of calls, with the subscriber of each call running on a worker thread
   AFTER the coroutine has yielded - so the tail of the subscriber of call k can still be running when T, resumed
   by another worker, is already in call k+1.

   Code order (one step each):
     io call on socket s   (src/io/sys/unix/net/*.rs ::subscribe)   S1  io_data.co.store(co)        publish
                                                                    S2  cancel.set_io(io_data)      register
                                                                    S3  if cancel.is_canceled() { cancel.cancel() }
     park                  (src/park.rs Park::subscribe, d874713)   P1  cancel.set_co(wait_co)      register
                                                                    P2  wait_co.store(co)           publish
                                                                    P3  if canceled { take the coroutine itself, Canceled }
     resumption            (yield_with)  yield_back: check_cancel (a cancelled T ends here); cancel.clear(): io := None
     cancel()              (CancelImpl::cancel) flag; if io = Some s: take it; if EventData(s).co = Some w: wake w, return;
                           then: if co registered: take it; if the Park slot holds the coroutine: Canceled, wake
   `cancel()` is ONE step here (coarser than the code; enough for the refutations, and stated as a premise of the positive
   theorem).  Another coroutine U may block on a socket that T has used before (UBlock; the receive calls of
   UdpSocket / UnixDatagram take &self), never while T's operation on it is pending (guard: the slot is empty). *)
From Coq Require Import List Arith Bool Lia.
Import ListNotations.

Inductive who := WT | WU.
Inductive call := CIo (s : nat) | CPark.
Inductive stage := S1 (s : nat) | S2 (s : nat) | S3 (s : nat) | P1 | P2 | P3.
Inductive tstate := TRun | TInSub | TSusp | TEnded.

Record st := {
  sco : nat -> option who;      (* EventData(s).co *)
  ioreg : option nat;           (* T's Cancel.io *)
  coreg : bool;                 (* T's Cancel.co holds the slot of T's Park *)
  pslot : bool;                 (* the Park slot holds T *)
  canceled : bool;
  tst : tstate;
  prog : list call;             (* T's remaining blocking calls *)
  subs : list stage;            (* subscribers (and their tails) still running, oldest first *)
  urun : bool }.                (* U is runnable *)

Definition upd {A} (f : nat -> A) (k : nat) (v : A) : nat -> A := fun x => if Nat.eqb x k then v else f x.

Definition init (p : list call) : st :=
  {| sco := fun _ => None; ioreg := None; coreg := false; pslot := false; canceled := false;
     tst := TRun; prog := p; subs := []; urun := true |}.

Inductive act :=
| TCall                (* T makes its next blocking call: yield_with *)
| Sub (i : nat)        (* the i-th running subscriber does its next step *)
| Wake (s : nat)       (* the selector delivers an event of socket s *)
| Cancel               (* somebody calls T.cancel() *)
| UBlock (s : nat).    (* U blocks in a receive on socket s *)

(* T comes back from a blocking call: yield_back (a cancelled T ends), cancel.clear() *)
Definition resume_t (s : st) : st :=
  {| sco := sco s; ioreg := None; coreg := coreg s; pslot := pslot s; canceled := canceled s;
     tst := if canceled s then TEnded else TRun; prog := prog s; subs := subs s; urun := urun s |}.

Definition wake (w : who) (s : st) : st :=
  match w with
  | WT => resume_t s
  | WU => {| sco := sco s; ioreg := ioreg s; coreg := coreg s; pslot := pslot s; canceled := canceled s;
             tst := tst s; prog := prog s; subs := subs s; urun := true |}
  end.

(* the body of CancelImpl::cancel after the flag is set *)
Definition cancel_body (s : st) : st :=
  let io_hit := match ioreg s with Some k => sco s k | None => None end in
  let s1 := {| sco := match ioreg s with Some k => upd (sco s) k None | None => sco s end;
               ioreg := None; coreg := coreg s; pslot := pslot s; canceled := canceled s;
               tst := tst s; prog := prog s; subs := subs s; urun := urun s |} in
  match io_hit with
  | Some w => wake w s1                                   (* Some(Ok(())): return *)
  | None =>
      if coreg s1 then
        let s2 := {| sco := sco s1; ioreg := ioreg s1; coreg := false; pslot := false; canceled := canceled s1;
                     tst := tst s1; prog := prog s1; subs := subs s1; urun := urun s1 |} in
        if pslot s1 then resume_t s2 else s2
      else s1
  end.

Definition set_subs (s : st) (l : list stage) : st :=
  {| sco := sco s; ioreg := ioreg s; coreg := coreg s; pslot := pslot s; canceled := canceled s;
     tst := tst s; prog := prog s; subs := l; urun := urun s |}.

Fixpoint replace_nth {A} (l : list A) (i : nat) (v : option A) : list A :=
  match l, i with
  | [], _ => []
  | _ :: t, 0 => match v with Some y => y :: t | None => t end
  | x :: t, S j => x :: replace_nth t j v
  end.

Definition sub_step (s : st) (i : nat) : option st :=
  match nth_error (subs s) i with
  | None => None
  | Some g =>
      let next v := replace_nth (subs s) i v in
      match g with
      | S1 k => match sco s k with
                | Some _ => None                              (* one operation at a time per socket *)
                | None => Some {| sco := upd (sco s) k (Some WT); ioreg := ioreg s; coreg := coreg s; pslot := pslot s;
                                  canceled := canceled s; tst := TSusp; prog := prog s; subs := next (Some (S2 k)); urun := urun s |}
                end
      | S2 k => Some {| sco := sco s; ioreg := Some k; coreg := coreg s; pslot := pslot s; canceled := canceled s;
                        tst := tst s; prog := prog s; subs := next (Some (S3 k)); urun := urun s |}
      | S3 k => Some (if canceled s then cancel_body (set_subs s (next None)) else set_subs s (next None))
      | P1 => Some {| sco := sco s; ioreg := ioreg s; coreg := true; pslot := pslot s; canceled := canceled s;
                      tst := tst s; prog := prog s; subs := next (Some P2); urun := urun s |}
      | P2 => Some {| sco := sco s; ioreg := ioreg s; coreg := coreg s; pslot := true; canceled := canceled s;
                      tst := TSusp; prog := prog s; subs := next (Some P3); urun := urun s |}
      | P3 => Some (if canceled s && pslot s then
                      resume_t {| sco := sco s; ioreg := ioreg s; coreg := coreg s; pslot := false; canceled := canceled s;
                                  tst := tst s; prog := prog s; subs := next None; urun := urun s |}
                    else set_subs s (next None))
      end
  end.

Definition step (s : st) (a : act) : option st :=
  match a with
  | TCall =>
      match tst s, prog s with
      | TRun, c :: rest =>
          if canceled s then
            Some {| sco := sco s; ioreg := ioreg s; coreg := coreg s; pslot := pslot s; canceled := true;
                    tst := TEnded; prog := rest; subs := subs s; urun := urun s |}
          else
            Some {| sco := sco s; ioreg := ioreg s; coreg := coreg s; pslot := pslot s; canceled := false;
                    tst := TInSub; prog := rest;
                    subs := subs s ++ [match c with CIo k => S1 k | CPark => P1 end]; urun := urun s |}
      | _, _ => None
      end
  | Sub i => sub_step s i
  | Wake k =>
      match sco s k with
      | Some w => Some (wake w {| sco := upd (sco s) k None; ioreg := ioreg s; coreg := coreg s; pslot := pslot s;
                                  canceled := canceled s; tst := tst s; prog := prog s; subs := subs s; urun := urun s |})
      | None => None
      end
  | Cancel =>
      if canceled s then None
      else Some (cancel_body {| sco := sco s; ioreg := ioreg s; coreg := coreg s; pslot := pslot s; canceled := true;
                                tst := tst s; prog := prog s; subs := subs s; urun := urun s |})
  | UBlock k =>
      if urun s then
        match sco s k with
        | None => Some {| sco := upd (sco s) k (Some WU); ioreg := ioreg s; coreg := coreg s; pslot := pslot s;
                          canceled := canceled s; tst := tst s; prog := prog s; subs := subs s; urun := false |}
        | Some _ => None
        end
      else None
  end.

Fixpoint run (s : st) (l : list act) : option st :=
  match l with
  | [] => Some s
  | a :: l' => match step s a with Some s' => run s' l' | None => None end
  end.

Definition Reach (p : list call) (s : st) : Prop := exists l, run (init p) l = Some s.

(* nothing of the runtime is left to do: no subscriber (tail) is running.  (Events and U's calls are the environment's.) *)
Definition Settled (s : st) : Prop := subs s = [].

(* the cancel was lost: the flag is set, everything has settled, and T is still suspended *)
Definition Lost (s : st) : Prop := canceled s = true /\ Settled s /\ tst s = TSusp.
