(* C08.iii - the timer-thread wake-up protocol of src/timeout_list.rs (TimerThread + the concurrent side
   of TimeOutList) as it is in /repo now.  Definitions only; proofs are in TimerThreadInv / Pres* / Thm.

   Small-step system, one transition per shared access (DESIGN 2.1), any number of adders
   (`TimerThread::add_timer`) and removers (`TimerThread::del_timer`), one timer thread (`run`):

     now        monotone clock (ns), advanced by Tick
     lst iv     the interval list of interval `iv` (mpsc_list_v1, C19) as an abstract list of pending entries in
                push (head swap) order; an entry is {id; stored deadline `edl` = clock reading of its adder + iv;
                ghost `eeff` = clock at the head swap + iv (>= edl: the skew between `now()` and the swap);
                `elk` = the predecessor's `next` points to it (push's `next.store` done)}.
                `push` is three transitions: head swap (A2: the entry is in the list), tail read (A3: `is_head`
                iff no pending entry precedes it = it is the first of the abstract list), link (A4).  The consumer
                can only pop a linked first entry (pop_if / peek spin on `next`), `Entry::remove` unlinks an entry
                only when its successor is linked (`next` non-null) - the last entry is never removed.
     inuse iv   the `in_use` counter of the list;  heap: the binary heap as a list of (time, iv), min extraction,
                ties free (the choice is the argument of the timer's step).  The heap mutex is not modelled (it
                only delays; without it the model has MORE behaviours: a heap push may overtake the window between
                the timer's pop and its `in_use.store(0)`).
     slot       `wakeup: AtomicOption<Arc<Thread>>` (only one thread ever stores: its content is a flag)
     tok        the park token of the timer thread (`thread::park` semantics: unpark sets it, park consumes it)
     rq         `remove_list` (may_queue::mpsc, C03) as an abstract FIFO of requests; an item is reserved at the
                tail CAS (R1) and becomes ready at `ready.store` (R2); `pop` returns None only when nothing is
                reserved, and spins for a reserved item that is not ready yet; `is_empty` looks at reservations.

   Abstractions (stated, not proved here): `interval_map` (RwLock<HashMap>) is a total map - every interval has
   its list from the start; lists are never deleted (the code deletes an empty list only beyond HASH_CAP = 1024
   intervals); block boundaries of the mpsc queue (every 32 requests) are not modelled; u64 wrap-around of
   `now() + interval` is not modelled.

   Timer thread control points (one loop iteration of `run`):
     D1 D2 D3   remove_list.pop(): try_get ready.load / push_index tail.load / get (spin on ready)
     DR DR2     h.remove(): next.load (nothing at all if the entry is gone) / prev.next.store (unlink)
     TS         wakeup.store(handle)
     TE TT TU   remove_list.is_empty() / wakeup.take() / unpark(self)
     TN         now()
     SK         timer_bh.lock(); peek: nothing due -> the sleep time; else pop the minimum
     SI         in_use.store(0)
     P1 P2 P3 PF   pop_if: head.load / next.load + deadline test / tail.write (pop) / the handler f(data)
     K1 K2      peek: head.load / next.load  -> Some(time)
     F1 SH      in_use.fetch_add == 0 -> heap push
     E1 F2 K3 K4   the list looked empty: is_empty (under the map write lock) / fetch_add / peek again
     PK W       park(T) / parked (woken by the token or, for park_timeout, by now >= wake time)

   `mut = true` is the MUTANT in which the timer thread computes the sleep time BEFORE it stores its handle
   (D.. -> TN -> schedule -> TS -> TE.. -> PK): used only for `*_refuted`. *)
From Coq Require Import List Arith NArith Bool Lia.
Import ListNotations.
Local Open Scope N_scope.

Record entry := { eid : nat; edl : N; eeff : N; elk : bool }.
Record qitem := { qL : N; qid : nat; qrdy : bool; qr : nat }.

Inductive apc_t := AIdle | A2 | A3 | A4 | A5 | A6 | A7 | A8.
Inductive rpc_t := RIdle | R1 | R2 | R3 | R4.
Inductive tpc_t := D1 | D2 | D3 | DR | DR2 | TS | TE | TT | TU | TN | SK | SI | P1 | P2 | P3 | PF
                 | K1 | K2 | F1 | SH | E1 | F2 | K3 | K4 | PK | W.

Record adder := { apc : apc_t; aiv : N; adl : N; aid : nat; ahd : bool }.
Record remover := { rpc : rpc_t; rL : N; rid : nat }.

Record st := {
  now : N;
  lst : N -> list entry;
  inuse : N -> nat;
  heap : list (N * N);                 (* (recorded time, interval) *)
  slot : bool;
  tok : bool;
  rq : list qitem;
  tpc : tpc_t; tL : N; tnow : N; ttm : N; tcur : entry; thL : N; thid : nat;
  aim : option N;                      (* absolute time of the heap minimum the sleep was computed from *)
  twake : option N;                    (* when a park_timeout ends by itself *)
  A : nat -> adder;
  R : nat -> remover;
  (* ghost *)
  tlag : N;                            (* clock at the park - clock reading the sleep time was computed from *)
  used : list nat;                     (* entry ids handed out *)
  fired : list (nat * N * N);          (* (id, stored deadline, clock when the handler ran) *)
  removed : list nat;                  (* ids unlinked by Entry::remove *)
  handles : list (N * nat)             (* handles returned by add_timer and not yet passed to del_timer *)
}.

Definition upd {X} (f : nat -> X) i v := fun j => if Nat.eqb j i then v else f j.
Definition updN {X} (f : N -> X) i v := fun j => if N.eqb j i then v else f j.

(* ---- field updates ------------------------------------------------------------------------- *)
Definition wA (s : st) a x : st :=
  {| now := now s; lst := lst s; inuse := inuse s; heap := heap s; slot := slot s; tok := tok s; rq := rq s;
     tpc := tpc s; tL := tL s; tnow := tnow s; ttm := ttm s; tcur := tcur s; thL := thL s; thid := thid s;
     aim := aim s; twake := twake s; A := upd (A s) a x; R := R s;
     tlag := tlag s; used := used s; fired := fired s; removed := removed s; handles := handles s |}.
Definition wR (s : st) r x : st :=
  {| now := now s; lst := lst s; inuse := inuse s; heap := heap s; slot := slot s; tok := tok s; rq := rq s;
     tpc := tpc s; tL := tL s; tnow := tnow s; ttm := ttm s; tcur := tcur s; thL := thL s; thid := thid s;
     aim := aim s; twake := twake s; A := A s; R := upd (R s) r x;
     tlag := tlag s; used := used s; fired := fired s; removed := removed s; handles := handles s |}.
Definition wLst (s : st) L l : st :=
  {| now := now s; lst := updN (lst s) L l; inuse := inuse s; heap := heap s; slot := slot s; tok := tok s; rq := rq s;
     tpc := tpc s; tL := tL s; tnow := tnow s; ttm := ttm s; tcur := tcur s; thL := thL s; thid := thid s;
     aim := aim s; twake := twake s; A := A s; R := R s;
     tlag := tlag s; used := used s; fired := fired s; removed := removed s; handles := handles s |}.
Definition wInuse (s : st) L n : st :=
  {| now := now s; lst := lst s; inuse := updN (inuse s) L n; heap := heap s; slot := slot s; tok := tok s; rq := rq s;
     tpc := tpc s; tL := tL s; tnow := tnow s; ttm := ttm s; tcur := tcur s; thL := thL s; thid := thid s;
     aim := aim s; twake := twake s; A := A s; R := R s;
     tlag := tlag s; used := used s; fired := fired s; removed := removed s; handles := handles s |}.
Definition wHeap (s : st) h : st :=
  {| now := now s; lst := lst s; inuse := inuse s; heap := h; slot := slot s; tok := tok s; rq := rq s;
     tpc := tpc s; tL := tL s; tnow := tnow s; ttm := ttm s; tcur := tcur s; thL := thL s; thid := thid s;
     aim := aim s; twake := twake s; A := A s; R := R s;
     tlag := tlag s; used := used s; fired := fired s; removed := removed s; handles := handles s |}.
Definition wSlot (s : st) b : st :=
  {| now := now s; lst := lst s; inuse := inuse s; heap := heap s; slot := b; tok := tok s; rq := rq s;
     tpc := tpc s; tL := tL s; tnow := tnow s; ttm := ttm s; tcur := tcur s; thL := thL s; thid := thid s;
     aim := aim s; twake := twake s; A := A s; R := R s;
     tlag := tlag s; used := used s; fired := fired s; removed := removed s; handles := handles s |}.
Definition wTok (s : st) b : st :=
  {| now := now s; lst := lst s; inuse := inuse s; heap := heap s; slot := slot s; tok := b; rq := rq s;
     tpc := tpc s; tL := tL s; tnow := tnow s; ttm := ttm s; tcur := tcur s; thL := thL s; thid := thid s;
     aim := aim s; twake := twake s; A := A s; R := R s;
     tlag := tlag s; used := used s; fired := fired s; removed := removed s; handles := handles s |}.
Definition wRq (s : st) q : st :=
  {| now := now s; lst := lst s; inuse := inuse s; heap := heap s; slot := slot s; tok := tok s; rq := q;
     tpc := tpc s; tL := tL s; tnow := tnow s; ttm := ttm s; tcur := tcur s; thL := thL s; thid := thid s;
     aim := aim s; twake := twake s; A := A s; R := R s;
     tlag := tlag s; used := used s; fired := fired s; removed := removed s; handles := handles s |}.
Definition wPc (s : st) p : st :=
  {| now := now s; lst := lst s; inuse := inuse s; heap := heap s; slot := slot s; tok := tok s; rq := rq s;
     tpc := p; tL := tL s; tnow := tnow s; ttm := ttm s; tcur := tcur s; thL := thL s; thid := thid s;
     aim := aim s; twake := twake s; A := A s; R := R s;
     tlag := tlag s; used := used s; fired := fired s; removed := removed s; handles := handles s |}.
Definition wTL (s : st) L : st :=
  {| now := now s; lst := lst s; inuse := inuse s; heap := heap s; slot := slot s; tok := tok s; rq := rq s;
     tpc := tpc s; tL := L; tnow := tnow s; ttm := ttm s; tcur := tcur s; thL := thL s; thid := thid s;
     aim := aim s; twake := twake s; A := A s; R := R s;
     tlag := tlag s; used := used s; fired := fired s; removed := removed s; handles := handles s |}.
Definition wTnow (s : st) t : st :=
  {| now := now s; lst := lst s; inuse := inuse s; heap := heap s; slot := slot s; tok := tok s; rq := rq s;
     tpc := tpc s; tL := tL s; tnow := t; ttm := ttm s; tcur := tcur s; thL := thL s; thid := thid s;
     aim := aim s; twake := twake s; A := A s; R := R s;
     tlag := tlag s; used := used s; fired := fired s; removed := removed s; handles := handles s |}.
Definition wTtm (s : st) t : st :=
  {| now := now s; lst := lst s; inuse := inuse s; heap := heap s; slot := slot s; tok := tok s; rq := rq s;
     tpc := tpc s; tL := tL s; tnow := tnow s; ttm := t; tcur := tcur s; thL := thL s; thid := thid s;
     aim := aim s; twake := twake s; A := A s; R := R s;
     tlag := tlag s; used := used s; fired := fired s; removed := removed s; handles := handles s |}.
Definition wTcur (s : st) e : st :=
  {| now := now s; lst := lst s; inuse := inuse s; heap := heap s; slot := slot s; tok := tok s; rq := rq s;
     tpc := tpc s; tL := tL s; tnow := tnow s; ttm := ttm s; tcur := e; thL := thL s; thid := thid s;
     aim := aim s; twake := twake s; A := A s; R := R s;
     tlag := tlag s; used := used s; fired := fired s; removed := removed s; handles := handles s |}.
Definition wTh (s : st) L i : st :=
  {| now := now s; lst := lst s; inuse := inuse s; heap := heap s; slot := slot s; tok := tok s; rq := rq s;
     tpc := tpc s; tL := tL s; tnow := tnow s; ttm := ttm s; tcur := tcur s; thL := L; thid := i;
     aim := aim s; twake := twake s; A := A s; R := R s;
     tlag := tlag s; used := used s; fired := fired s; removed := removed s; handles := handles s |}.
Definition wAim (s : st) a : st :=
  {| now := now s; lst := lst s; inuse := inuse s; heap := heap s; slot := slot s; tok := tok s; rq := rq s;
     tpc := tpc s; tL := tL s; tnow := tnow s; ttm := ttm s; tcur := tcur s; thL := thL s; thid := thid s;
     aim := a; twake := twake s; A := A s; R := R s;
     tlag := tlag s; used := used s; fired := fired s; removed := removed s; handles := handles s |}.
Definition wWake (s : st) w g : st :=
  {| now := now s; lst := lst s; inuse := inuse s; heap := heap s; slot := slot s; tok := tok s; rq := rq s;
     tpc := tpc s; tL := tL s; tnow := tnow s; ttm := ttm s; tcur := tcur s; thL := thL s; thid := thid s;
     aim := aim s; twake := w; A := A s; R := R s;
     tlag := g; used := used s; fired := fired s; removed := removed s; handles := handles s |}.
Definition wNow (s : st) t : st :=
  {| now := t; lst := lst s; inuse := inuse s; heap := heap s; slot := slot s; tok := tok s; rq := rq s;
     tpc := tpc s; tL := tL s; tnow := tnow s; ttm := ttm s; tcur := tcur s; thL := thL s; thid := thid s;
     aim := aim s; twake := twake s; A := A s; R := R s;
     tlag := tlag s; used := used s; fired := fired s; removed := removed s; handles := handles s |}.
Definition wUsed (s : st) u : st :=
  {| now := now s; lst := lst s; inuse := inuse s; heap := heap s; slot := slot s; tok := tok s; rq := rq s;
     tpc := tpc s; tL := tL s; tnow := tnow s; ttm := ttm s; tcur := tcur s; thL := thL s; thid := thid s;
     aim := aim s; twake := twake s; A := A s; R := R s;
     tlag := tlag s; used := u; fired := fired s; removed := removed s; handles := handles s |}.
Definition wFired (s : st) f : st :=
  {| now := now s; lst := lst s; inuse := inuse s; heap := heap s; slot := slot s; tok := tok s; rq := rq s;
     tpc := tpc s; tL := tL s; tnow := tnow s; ttm := ttm s; tcur := tcur s; thL := thL s; thid := thid s;
     aim := aim s; twake := twake s; A := A s; R := R s;
     tlag := tlag s; used := used s; fired := f; removed := removed s; handles := handles s |}.
Definition wRemoved (s : st) x : st :=
  {| now := now s; lst := lst s; inuse := inuse s; heap := heap s; slot := slot s; tok := tok s; rq := rq s;
     tpc := tpc s; tL := tL s; tnow := tnow s; ttm := ttm s; tcur := tcur s; thL := thL s; thid := thid s;
     aim := aim s; twake := twake s; A := A s; R := R s;
     tlag := tlag s; used := used s; fired := fired s; removed := x; handles := handles s |}.
Definition wHandles (s : st) x : st :=
  {| now := now s; lst := lst s; inuse := inuse s; heap := heap s; slot := slot s; tok := tok s; rq := rq s;
     tpc := tpc s; tL := tL s; tnow := tnow s; ttm := ttm s; tcur := tcur s; thL := thL s; thid := thid s;
     aim := aim s; twake := twake s; A := A s; R := R s;
     tlag := tlag s; used := used s; fired := fired s; removed := removed s; handles := x |}.

Definition set_apc (x : adder) p := {| apc := p; aiv := aiv x; adl := adl x; aid := aid x; ahd := ahd x |}.
Definition set_ahd (x : adder) p b := {| apc := p; aiv := aiv x; adl := adl x; aid := aid x; ahd := b |}.
Definition set_rpc (x : remover) p := {| rpc := p; rL := rL x; rid := rid x |}.

(* ---- lists and the heap ---------------------------------------------------------------------- *)
Definition e0 : entry := {| eid := 0; edl := 0; eeff := 0; elk := false |}.
Definition is_first (i : nat) (l : list entry) : bool :=
  match l with e :: _ => Nat.eqb (eid e) i | [] => false end.
Definition link (i : nat) (l : list entry) : list entry :=
  map (fun e => if Nat.eqb (eid e) i then {| eid := eid e; edl := edl e; eeff := eeff e; elk := true |} else e) l.
Definition del_id (i : nat) (l : list entry) : list entry := filter (fun e => negb (Nat.eqb (eid e) i)) l.
(* Entry::remove does something iff the entry is still in its list and its successor is linked *)
Fixpoint removable (i : nat) (l : list entry) : bool :=
  match l with
  | e :: ((e' :: _) as r) => if Nat.eqb (eid e) i then elk e' else removable i r
  | _ => false
  end.
Definition has_id (i : nat) (l : list entry) : bool := existsb (fun e => Nat.eqb (eid e) i) l.

Fixpoint hfind (c : N) (h : list (N * N)) : option N :=
  match h with [] => None | (t, L) :: r => if N.eqb L c then Some t else hfind c r end.
Fixpoint hdel (c : N) (h : list (N * N)) : list (N * N) :=
  match h with [] => [] | (t, L) :: r => if N.eqb L c then r else (t, L) :: hdel c r end.
Fixpoint hmin (h : list (N * N)) : option N :=
  match h with
  | [] => None
  | (t, _) :: r => match hmin r with None => Some t | Some m => Some (N.min t m) end
  end.
Definition none_due (t : N) (h : list (N * N)) : bool := forallb (fun x => t <? fst x) h.
Definition is_min (t : N) (h : list (N * N)) : bool := forallb (fun x => t <=? fst x) h.

Definition set_ready (r : nat) (q : list qitem) : list qitem :=
  map (fun x => if Nat.eqb (qr x) r then {| qL := qL x; qid := qid x; qrdy := true; qr := qr x |} else x) q.
Fixpoint remove_handle (L : N) (i : nat) (l : list (N * nat)) : list (N * nat) :=
  match l with [] => [] | (L', i') :: r => if N.eqb L' L && Nat.eqb i' i then r else (L', i') :: remove_handle L i r end.
Definition has_handle (L : N) (i : nat) (l : list (N * nat)) : bool := existsb (fun x => N.eqb (fst x) L && Nat.eqb (snd x) i) l.
Definition mem_nat (i : nat) (l : list nat) : bool := existsb (Nat.eqb i) l.

(* ---- actions ---------------------------------------------------------------------------------- *)
Inductive action :=
  | Tick (d : N)                         (* the clock advances *)
  | Add (a : nat) (iv : N) (i : nat)     (* idle adder a calls add_timer(iv, data i): its clock reading; i is fresh *)
  | Del (r : nat) (L : N) (i : nat)      (* idle remover r calls del_timer with the handle (L, i) it owns *)
  | AStep (a : nat) | RStep (r : nat)    (* the next shared access of that call *)
  | TStep (c : N)                        (* the next shared access of the timer thread; c = which list the heap pop
                                            takes among the minima (ignored elsewhere) *)
  | TClock (v : N).                      (* OVER-APPROXIMATION: just before one of its two deadline comparisons (heap
                                            peek at SK, pop_if predicate at P2) the timer thread may replace its clock
                                            reading by a later one, v, not beyond the clock (as if `now()` had been
                                            called later).  The code reads the clock once per round (TN); every behaviour of
                                            the code is a behaviour of the model without TClock, the theorems hold with
                                            it.  It exists for the trace acceptor, which only knows a lower bound of the
                                            virtual clock between two logged clock values. *)

Definition astep (s : st) (a : nat) : option st :=
  let x := A s a in
  match apc x with
  | AIdle => None
  | A2 => (* head.swap *)
      Some (wA (wLst s (aiv x) (lst s (aiv x) ++ [{| eid := aid x; edl := adl x; eeff := now s + aiv x; elk := false |}])) a (set_apc x A3))
  | A3 => (* tail.read: is_head *)
      Some (wA s a (set_ahd x A4 (is_first (aid x) (lst s (aiv x)))))
  | A4 => (* prev.next.store; not the head: add_timer returns the handle *)
      let s1 := wLst s (aiv x) (link (aid x) (lst s (aiv x))) in
      if ahd x then Some (wA s1 a (set_apc x A5))
      else Some (wHandles (wA s1 a (set_apc x AIdle)) ((aiv x, aid x) :: handles s))
  | A5 => (* install_timer_bh: in_use.fetch_add(1) == 0 *)
      let old := inuse s (aiv x) in
      Some (wA (wInuse s (aiv x) (S old)) a (set_apc x (match old with O => A6 | _ => A7 end)))
  | A6 => (* timer_bh.lock().push *)
      Some (wA (wHeap s ((adl x, aiv x) :: heap s)) a (set_apc x A7))
  | A7 => (* wakeup.take() *)
      if slot s then Some (wA (wSlot s false) a (set_apc x A8))
      else Some (wHandles (wA s a (set_apc x AIdle)) ((aiv x, aid x) :: handles s))
  | A8 => (* t.unpark() *)
      Some (wHandles (wA (wTok s true) a (set_apc x AIdle)) ((aiv x, aid x) :: handles s))
  end.

Definition rstep (s : st) (r : nat) : option st :=
  let x := R s r in
  match rpc x with
  | RIdle => None
  | R1 => (* remove_list.push: tail CAS reserves the slot *)
      Some (wR (wRq s (rq s ++ [{| qL := rL x; qid := rid x; qrdy := false; qr := r |}])) r (set_rpc x R2))
  | R2 => (* slot.write; ready.store *)
      Some (wR (wRq s (set_ready r (rq s))) r (set_rpc x R3))
  | R3 => (* wakeup.take() *)
      if slot s then Some (wR (wSlot s false) r (set_rpc x R4)) else Some (wR s r (set_rpc x RIdle))
  | R4 => (* t.unpark() *)
      Some (wR (wTok s true) r (set_rpc x RIdle))
  end.

Section Timer.
Variable mut : bool.    (* false: the code; true: the mutant that schedules before it stores its handle *)

Definition after_drain : tpc_t := if mut then TN else TS.
Definition after_recheck : tpc_t := if mut then PK else TN.
Definition after_sched : tpc_t := if mut then TS else PK.

Definition pop_rq (s : st) : option st :=
  match rq s with
  | x :: q => if qrdy x then Some (wPc (wTh (wRq s q) (qL x) (qid x)) DR) else None
  | [] => None
  end.

Definition tstep (s : st) (c : N) : option st :=
  match tpc s with
  | D1 => match pop_rq s with Some s' => Some s' | None => Some (wPc s D2) end
  | D2 => match rq s with [] => Some (wPc s after_drain) | _ => Some (wPc s D3) end
  | D3 => match pop_rq s with Some s' => Some s' | None => Some s end
  | DR => if removable (thid s) (lst s (thL s)) then Some (wPc s DR2) else Some (wPc s D1)
  | DR2 => Some (wPc (wRemoved (wLst s (thL s) (del_id (thid s) (lst s (thL s)))) (thid s :: removed s)) D1)
  | TS => Some (wPc (wSlot s true) TE)
  | TE => match rq s with [] => Some (wPc s after_recheck) | _ => Some (wPc s TT) end
  | TT => if slot s then Some (wPc (wSlot s false) TU) else Some (wPc s after_recheck)
  | TU => Some (wPc (wTok s true) after_recheck)
  | TN => Some (wPc (wTnow s (now s)) SK)
  | SK =>
      if none_due (tnow s) (heap s) then Some (wPc (wAim s (hmin (heap s))) after_sched)
      else match hfind c (heap s) with
           | Some t => if (t <=? tnow s) && is_min t (heap s)
                       then Some (wPc (wTL (wHeap s (hdel c (heap s))) c) SI) else None
           | None => None
           end
  | SI => Some (wPc (wInuse s (tL s) O) P1)
  | P1 => match lst s (tL s) with [] => Some (wPc s K1) | _ => Some (wPc s P2) end
  | P2 => match lst s (tL s) with
          | e :: _ => if elk e then (if edl e <=? tnow s then Some (wPc s P3) else Some (wPc s K1)) else Some s
          | [] => Some s
          end
  | P3 => match lst s (tL s) with
          | e :: l => Some (wPc (wTcur (wLst s (tL s) l) e) PF)
          | [] => None
          end
  | PF => Some (wPc (wFired s ((eid (tcur s), edl (tcur s), now s) :: fired s)) P1)
  | K1 => match lst s (tL s) with [] => Some (wPc s E1) | _ => Some (wPc s K2) end
  | K2 => match lst s (tL s) with
          | e :: _ => if elk e then Some (wPc (wTtm s (edl e)) F1) else Some s
          | [] => Some s
          end
  | F1 => let old := inuse s (tL s) in
          Some (wPc (wInuse s (tL s) (S old)) (match old with O => SH | _ => SK end))
  | SH => Some (wPc (wHeap s ((ttm s, tL s) :: heap s)) SK)
  | E1 => match lst s (tL s) with [] => Some (wPc s SK) | _ => Some (wPc s F2) end
  | F2 => let old := inuse s (tL s) in
          Some (wPc (wInuse s (tL s) (S old)) (match old with O => K3 | _ => SK end))
  | K3 => Some (wPc s K4)
  | K4 => match lst s (tL s) with
          | e :: _ => if elk e then Some (wPc (wTtm s (edl e)) SH) else Some s
          | [] => Some s
          end
  | PK => if tok s then Some (wPc (wTok s false) D1)
          else Some (wPc (wWake s (match aim s with Some t => Some (now s + (t - tnow s)) | None => None end)
                                  (now s - tnow s)) W)
  | W => if tok s then Some (wPc (wTok s false) D1)
         else match twake s with
              | Some t => if t <=? now s then Some (wPc s D1) else None
              | None => None
              end
  end.

Definition step (s : st) (x : action) : option st :=
  match x with
  | Tick d => if d =? 0 then None else Some (wNow s (now s + d))
  | Add a iv i =>
      match apc (A s a) with
      | AIdle => if mem_nat i (used s) then None
                 else Some (wUsed (wA s a {| apc := A2; aiv := iv; adl := now s + iv; aid := i; ahd := false |}) (i :: used s))
      | _ => None
      end
  | Del r L i =>
      match rpc (R s r) with
      | RIdle => if has_handle L i (handles s)
                 then Some (wHandles (wR s r {| rpc := R1; rL := L; rid := i |}) (remove_handle L i (handles s)))
                 else None
      | _ => None
      end
  | AStep a => astep s a
  | RStep r => rstep s r
  | TStep c => tstep s c
  | TClock v => match tpc s with
                | SK | P2 => if (tnow s <=? v) && (v <=? now s) then Some (wTnow s v) else None
                | _ => None
                end
  end.

Definition init : st :=
  {| now := 0; lst := fun _ => []; inuse := fun _ => O; heap := []; slot := false; tok := false; rq := [];
     tpc := D1; tL := 0; tnow := 0; ttm := 0; tcur := e0; thL := 0; thid := O; aim := None; twake := None;
     A := fun _ => {| apc := AIdle; aiv := 0; adl := 0; aid := O; ahd := false |};
     R := fun _ => {| rpc := RIdle; rL := 0; rid := O |};
     tlag := 0; used := []; fired := []; removed := []; handles := [] |}.

Inductive Reach : st -> Prop :=
  | R0 : Reach init
  | RS s x s' : Reach s -> step s x = Some s' -> Reach s'.

Fixpoint run (s : st) (l : list action) : option st :=
  match l with [] => Some s | x :: r => match step s x with Some s' => run s' r | None => None end end.

End Timer.

(* ---- vocabulary of the theorems -------------------------------------------------------------- *)
Definition pending (s : st) (L : N) (e : entry) : Prop := In e (lst s L).
(* somebody holds the timer thread's handle and is about to unpark it *)
Definition holder (s : st) : Prop :=
  (exists a, apc (A s a) = A8) \/ (exists r, rpc (R s r) = R4) \/ tpc s = TU.
(* adder a has pushed the head entry of list L and has not yet tried to take the handle *)
Definition covering (s : st) (L : N) (a : nat) : Prop :=
  aiv (A s a) = L /\
  ((apc (A s a) = A3 /\ is_first (aid (A s a)) (lst s L) = true) \/
   ((apc (A s a) = A4 \/ apc (A s a) = A5 \/ apc (A s a) = A6 \/ apc (A s a) = A7) /\ ahd (A s a) = true)).
Definition adders_idle (s : st) : Prop := forall a, apc (A s a) = AIdle.
Definition removers_idle (s : st) : Prop := forall r, rpc (R s r) = RIdle.
Definition aim_le (s : st) (e : entry) : Prop := match aim s with Some t => t <= eeff e | None => False end.
