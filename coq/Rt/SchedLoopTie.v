(* SchedLoopModel is a restriction of SchedModel: the theorems of C01 about coroutine tokens hold in every state of the worker
   loop model (projection `base`); the queue-moving actions of the loop are Grab / Put / TakeSlot / Resume of SchedModel
   executed by the worker's own thread. *)
From Coq Require Import List Arith ZArith NArith Bool Lia.
Import ListNotations.
Require Import MayV.Rt.SchedModel MayV.Rt.SchedInv MayV.Rt.SchedPresP MayV.Rt.SchedThm MayV.Rt.SchedLoopModel MayV.Rt.SchedLoopBase
  MayV.Rt.SchedLoopInv MayV.Rt.SchedLoopStruct.

Theorem loop_movers_are_sched_movers l a b : proj l a = Some b -> (forall x, a <> LBase x) ->
  thread_of b = actor a /\
  ((exists t q, b = Grab t q) \/ (exists t, b = Put t) \/ (exists t c, b = TakeSlot t c) \/ (exists t c, b = Resume t c)).
Proof.
  intros H NB. split; [apply (proj_thread _ _ _ H NB)|].
  destruct a; cbn [proj] in H; try discriminate H; try (inversion H; subst; eauto 6; fail).
  - exfalso. eapply NB; reflexivity.
  - destruct (lq (base l) w); [discriminate|]. inversion H; eauto 6.
  - destruct (hand (base l) w); [discriminate|]. inversion H; eauto 8.
  - destruct (wpc l w); try discriminate. inversion H; eauto 6.
Qed.

Theorem loop_token_conservation P n l c : LReach P n l -> spawned (co (base l) c) = true ->
  exists A, holds (base l) A c /\ (forall B, holds (base l) B c -> B = A) /\ NoDup (cget (base l) A).
Proof. intros R. apply (token_conservation n). eapply lreach_base; eauto. Qed.

Theorem loop_never_on_two_threads P n l c t1 t2 : LReach P n l ->
  In (FRun c) (stk (base l) t1) -> In (FRun c) (stk (base l) t2) -> t1 = t2.
Proof. intros R. apply (never_on_two_threads n). eapply lreach_base; eauto. Qed.

Theorem loop_never_in_two_queues P n l c q1 q2 : LReach P n l ->
  In c (getq (base l) q1) -> In c (getq (base l) q2) -> q1 = q2.
Proof. intros R. apply (never_in_two_queues n). eapply lreach_base; eauto. Qed.

Theorem loop_body_at_most_once P n l c : LReach P n l -> bodycnt (co (base l) c) <= 1.
Proof. intros R. apply (body_at_most_once n). eapply lreach_base; eauto. Qed.

(* worker threads: no user code of their own; outside run_coroutine the stack is empty; the hand is what the control point says *)
Theorem worker_thread_discipline P n l w : LReach P n l -> w < n ->
  tpc (base l) w = Idle /\ (is_co (wpc l w) = false -> stk (base l) w = []) /\ hand_ok n (wpc l w) (hand (base l) w).
Proof. intros R L. destruct (tinv_reach _ _ _ R) as [_ A B C]. auto. Qed.
