(* C13 (i): theorems about lock poisoning on PoisonModel, for every reachable state, any number of tasks and
   locks, any nesting of catch_unwind frames and unwindings. *)
From Coq Require Import List Arith ZArith Bool Lia.
Import ListNotations.
Require Import MayV.Rt.PoisonModel MayV.Rt.PoisonInv MayV.Rt.PoisonPres.

(* ---- the decision table ---- *)
Lemma done_stores_spec gpan tpan isco cst :
  done_stores gpan tpan isco cst = true <-> gpan = false /\ tpan = true /\ ~ (isco = true /\ cst = 1%Z).
Proof.
  unfold done_stores, is_canceled.
  destruct gpan, tpan, isco; cbn; try destruct (Z.eqb_spec cst 1); cbn; split; intro H;
    try discriminate; try reflexivity;
    try (destruct H as (A & B & C); try discriminate; exfalso; apply C; auto);
    repeat split; try reflexivity; intros [X Y]; congruence.
Qed.
Lemma read_guard_never_poisons gpan tpan isco cst : drop_poisons GR gpan tpan isco cst = false.
Proof. reflexivity. Qed.
Lemma thread_poisons_iff k gpan tpan cst :
  drop_poisons k gpan tpan false cst = has_flag k && negb gpan && tpan.
Proof. unfold drop_poisons, done_stores. cbn. rewrite andb_true_r. now rewrite andb_assoc. Qed.

Section Thm.
Variable isco : nat -> bool.
Variable ismutex : nat -> bool.
Notation step := (step isco ismutex).
Notation Reach := (Reach isco ismutex).
Notation Inv := (Inv isco ismutex).
Notation poisons := (poisons isco).

(* the two ways a guard is dropped: explicitly, or by the unwinding of the frames that own it *)
Definition drops (s : st) (a : action) (t : nat) (g : guard) : Prop :=
  (a = DropG t (gid g) \/ a = UnwDrop t (gid g)) /\ find_g (gid g) (held (T s t)) = Some g.

Lemma drops_do_drop s a t g s' : drops s a t g -> step s a = Some s' -> s' = do_drop isco s t g.
Proof.
  intros [[->| ->] F] H; cbn [PoisonModel.step] in H; rewrite F in H.
  - destruct (alive (T s t)); inversion H; reflexivity.
  - destruct (ctl (T s t)) as [|[|m ins] r]; try discriminate.
    destruct (alive (T s t) && (ncatch r <=? gfr g)); inversion H; reflexivity.
Qed.

(* (i) exactly what the drop does to the flag: Flag::done, in every situation; no other lock is touched *)
Theorem drop_exact s a t g s' : drops s a t g -> step s a = Some s' ->
  failed (L s' (glock g)) = failed (L s (glock g)) ||
                            drop_poisons (gk g) (gpan g) (panicking (T s t)) (isco t) (cst (T s t)) /\
  forall l, l <> glock g -> L s' l = L s l.
Proof.
  intros D H. rewrite (drops_do_drop _ _ _ _ _ D H). cbn [do_drop L]. split.
  - rewrite upd_eq. unfold release, PoisonModel.poisons. destruct (gk g); reflexivity.
  - intros l NE. apply upd_neq. exact NE.
Qed.

(* (i) the lock is released in every case: the guard is gone, write access / one reader entry is given back,
   whatever the flag decision was; nobody else's guards are touched *)
Theorem drop_releases s a t g s' : drops s a t g -> step s a = Some s' ->
  (forall g', In g' (held (T s' t)) -> gid g' <> gid g) /\
  (has_flag (gk g) = true -> wheld (L s' (glock g)) = None /\ readers (L s' (glock g)) = readers (L s (glock g))) /\
  (gk g = GR -> wheld (L s' (glock g)) = wheld (L s (glock g)) /\ readers (L s' (glock g)) = rm1 t (readers (L s (glock g)))) /\
  (forall t', t' <> t -> T s' t' = T s t') /\
  ctl (T s' t) = ctl (T s t) /\ cst (T s' t) = cst (T s t).
Proof.
  intros D H. rewrite (drops_do_drop _ _ _ _ _ D H). cbn [do_drop L T]. rewrite !upd_eq. cbn [held set_held ctl cst].
  split; [|split; [|split; [|split; [|split]]]].
  - intros g' I. apply in_del_g in I. tauto.
  - intro HF. destruct (gk g); cbn in *; try discriminate; split; reflexivity.
  - intro KR. rewrite KR. cbn. split; reflexivity.
  - intros t' NE. apply upd_neq. exact NE.
  - reflexivity.
  - reflexivity.
Qed.

(* what was released was held: the dropped write / mutex guard was the recorded owner, the dropped read guard a
   counted reader *)
Theorem dropped_guard_was_the_owner s a t g : Reach s -> drops s a t g ->
  (has_flag (gk g) = true -> wheld (L s (glock g)) = Some t) /\ (gk g = GR -> In t (readers (L s (glock g)))).
Proof.
  intros R [_ F]. apply inv_reach in R. apply find_g_some in F. destruct F as [G _]. split.
  - intro HF. apply (J5a _ _ _ R); assumption.
  - intro KR. apply (count_occ_In Nat.eq_dec). rewrite (J5c _ _ _ R).
    assert (X : In g (filter (rg (glock g)) (held (T s t)))).
    { apply filter_In. split; [exact G|]. unfold rg. rewrite Nat.eqb_refl, KR. reflexivity. }
    destruct (filter (rg (glock g)) (held (T s t))); [destruct X | cbn; lia].
Qed.

(* the flag is never cleared *)
Theorem poisoned_stays_poisoned s a s' l : step s a = Some s' -> failed (L s l) = true -> failed (L s' l) = true.
Proof.
  intros H F. destruct (step_shape _ _ _ _ _ H) as [(t & l0 & k & _ & _ & _ & _ & ->)|[(t & g0 & _ & ->)|[HL _]]].
  - unfold lock_st. cbn [L]. destruct (Nat.eq_dec l l0) as [->|NE]; [rewrite upd_eq|rewrite upd_neq by assumption; exact F].
    destruct k; cbn; exact F.
  - cbn [do_drop L]. destruct (Nat.eq_dec l (glock g0)) as [->|NE]; [rewrite upd_eq|rewrite upd_neq by assumption; exact F].
    unfold release. destruct (gk g0); cbn; rewrite F; reflexivity.
  - rewrite HL. exact F.
Qed.

(* (i) once poisoned: lock() / write() / read() is enabled exactly as on a clean lock (the flag is not part of the
   condition), reports Poisoned, and hands out a guard ... *)
Theorem lock_enabled_regardless_of_poison s t l k :
  (exists s', step s (Lock t l k) = Some s') <-> alive (T s t) = true /\ kind_ok ismutex l k = true /\ available (L s l) k = true.
Proof.
  cbn [PoisonModel.step]. split.
  - intros [s' H]. destruct (alive (T s t)), (kind_ok ismutex l k), (available (L s l) k); cbn in H; try discriminate. auto.
  - intros (A & B & C). rewrite A, B, C. cbn. eauto.
Qed.
Theorem lock_reports_poison_and_hands_out_guard s t l k s' : step s (Lock t l k) = Some s' ->
  exists g, held (T s' t) = g :: held (T s t) /\ gid g = nextg s /\ glock g = l /\ gk g = k /\
            gerr g = failed (L s l) /\ gpan g = panicking (T s t) /\
            failed (L s' l) = failed (L s l) /\
            (has_flag k = true -> wheld (L s' l) = Some t) /\ (k = GR -> readers (L s' l) = t :: readers (L s l)).
Proof.
  cbn [PoisonModel.step]. destruct (alive (T s t) && kind_ok ismutex l k && available (L s l) k); [|discriminate].
  intro H. inversion H; subst; clear H. cbn [T L]. rewrite !upd_eq. cbn [held set_held].
  eexists. split; [reflexivity|]. cbn [gid glock gk gerr gpan]. repeat split; try reflexivity.
  - destruct k; reflexivity.
  - destruct k; cbn; intros; try discriminate; reflexivity.
  - intros ->. reflexivity.
Qed.
(* ... that works: it can be dropped, and the drop releases the lock again *)
Theorem guard_of_poisoned_lock_works s t l k s' : step s (Lock t l k) = Some s' ->
  exists s'', step s' (DropG t (nextg s)) = Some s'' /\
              (has_flag k = true -> wheld (L s'' l) = None) /\ (k = GR -> readers (L s'' l) = readers (L s l)) /\
              held (T s'' t) = del_g (nextg s) (held (T s' t)).
Proof.
  intro H. pose proof H as H0. cbn [PoisonModel.step] in H.
  destruct (alive (T s t) && kind_ok ismutex l k && available (L s l) k) eqn:E; [|discriminate].
  apply andb_true_iff in E. destruct E as [E _]. apply andb_true_iff in E. destruct E as [AL _].
  inversion H; subst; clear H. cbn [PoisonModel.step T L nextg]. rewrite upd_eq.
  unfold alive in *. cbn [fin set_held held find_g find gid]. rewrite Nat.eqb_refl.
  destruct (fin (T s t)); [discriminate|].
  eexists. split; [reflexivity|]. cbn [do_drop L T glock gk gid]. rewrite !upd_eq. cbn [held set_held].
  repeat split.
  - destruct k; cbn; intros; try discriminate; reflexivity.
  - intros ->. cbn. rewrite Nat.eqb_refl. reflexivity.
Qed.

(* ---- the semantic reading of the decision ---- *)

Lemma cause_in x m : cause x = Some m -> exists ins, In (CUnw m ins) (ctl x).
Proof.
  unfold cause. destruct (filter is_unw (rev (ctl x))) as [|[|m' ins] r] eqn:F; try discriminate.
  intro H. inversion H; subst. exists ins. apply in_rev.
  assert (X : In (CUnw m ins) (filter is_unw (rev (ctl x)))) by (rewrite F; left; reflexivity).
  apply filter_In in X. tauto.
Qed.
Lemma panicking_cause x : panicking x = true <-> exists m, cause x = Some m.
Proof.
  unfold panicking, cause. split.
  - intro P. apply existsb_unw_in in P. destruct P as (m & ins & I).
    assert (X : In (CUnw m ins) (filter is_unw (rev (ctl x)))) by (apply filter_In; split; [apply in_rev; rewrite rev_involutive; exact I | reflexivity]).
    destruct (filter is_unw (rev (ctl x))) as [|[|m' ins'] r] eqn:F; [destruct X| |eauto].
    exfalso. assert (Y : In CCatch (filter is_unw (rev (ctl x)))) by (rewrite F; left; reflexivity). apply filter_In in Y. destruct Y; discriminate.
  - intros [m C]. destruct (cause_in _ _ C) as [ins I]. apply existsb_unw_in. eauto.
Qed.

(* "the panic started inside the guard": a guard made while the task was not unwinding has been held at the start
   of every unwinding that is in progress *)
Theorem started_inside s t g m ins : Reach s ->
  In g (held (T s t)) -> gpan g = false -> In (CUnw m ins) (ctl (T s t)) -> In (gid g) ins.
Proof. intros R. apply (J3 _ _ _ (inv_reach _ _ _ R)). Qed.

(* a cancellation in progress means: a coroutine whose cancel bit is set (it is never cleared) *)
Theorem cancel_unwinding_has_the_bit s t : Reach s -> cause (T s t) = Some MCancel ->
  isco t = true /\ cancel_bit (T s t) = true /\ (cancel_disabled (T s t) = false -> cst (T s t) = 1%Z).
Proof.
  intros R C. apply inv_reach in R. destruct (cause_in _ _ C) as [ins I].
  destruct (J2 _ _ _ R _ _ I) as [A B]. split; [exact A|]. split; [exact B|].
  unfold cancel_disabled. intro D. apply Z.leb_gt in D. pose proof (J1 _ _ _ R t) as P.
  assert (X : cst (T s t) = 0%Z \/ cst (T s t) = 1%Z) by lia. destruct X as [X|X]; [rewrite X in B; discriminate|exact X].
Qed.

(* (i) a guard dropped by a cancellation unwind never poisons (unless the drop happens inside a section that has
   the cancel disabled: the code reads `state == 1`; no such section of the runtime drops a guard of the caller) *)
Theorem cancel_unwind_never_poisons s t g : Reach s ->
  cause (T s t) = Some MCancel -> cancel_disabled (T s t) = false -> poisons s t g = false.
Proof.
  intros R C D. destruct (cancel_unwinding_has_the_bit _ _ R C) as (A & _ & E). specialize (E D).
  unfold PoisonModel.poisons, drop_poisons, done_stores, is_canceled. rewrite A, E. cbn.
  rewrite !andb_false_r. reflexivity.
Qed.

(* (i) a write / mutex guard dropped by a genuine panic that started inside it poisons - PARTIAL: provided no
   cancel request is pending on the coroutine (threads: unconditionally) *)
Theorem genuine_panic_poisons_partial s t g :
  has_flag (gk g) = true -> gpan g = false -> panicking (T s t) = true ->
  (isco t = false \/ cancel_bit (T s t) = false) -> poisons s t g = true.
Proof.
  intros HF GP P C. unfold PoisonModel.poisons, drop_poisons, done_stores, is_canceled. rewrite HF, GP, P. cbn.
  destruct C as [C|C]; [rewrite C; reflexivity|]. destruct (isco t); [|reflexivity].
  unfold cancel_bit in C. destruct (Z.eqb_spec (cst (T s t)) 1) as [E|E]; [rewrite E in C; discriminate|reflexivity].
Qed.

(* (i) the statement of the property as an equivalence - PARTIAL (two premises):
     P1  no cancel request is pending on a coroutine that unwinds by a genuine panic
     P2  a guard is not dropped while the cancel is disabled during a cancellation unwind
   Then: the drop poisons  <->  write/mutex guard, the panic started inside the guard, and the unwinding is not a
   cancellation. *)
Theorem poison_iff_partial s t g : Reach s -> In g (held (T s t)) ->
  (genuine (cause (T s t)) = true -> isco t && cancel_bit (T s t) = false) ->
  (cause (T s t) = Some MCancel -> cancel_disabled (T s t) = false) ->
  poisons s t g = has_flag (gk g) && started_inside_now (T s t) g && genuine (cause (T s t)).
Proof.
  intros R G P1 P2. unfold started_inside_now.
  destruct (has_flag (gk g)) eqn:HF; [|unfold PoisonModel.poisons, drop_poisons; rewrite HF; reflexivity].
  destruct (gpan g) eqn:GP; [unfold PoisonModel.poisons, drop_poisons, done_stores; rewrite GP, HF; reflexivity|].
  destruct (panicking (T s t)) eqn:P.
  - destruct (proj1 (panicking_cause _) P) as [[v|] C]; rewrite C in *; cbn [genuine andb negb].
    + apply genuine_panic_poisons_partial; auto. specialize (P1 eq_refl). apply andb_false_iff in P1. exact P1.
    + apply cancel_unwind_never_poisons; auto.
  - unfold PoisonModel.poisons, drop_poisons, done_stores. rewrite P, GP, HF. reflexivity.
Qed.

(* a task that has ended owns no guard, is the owner of no lock and is counted as a reader of none *)
Theorem ended_task_holds_nothing s t : Reach s -> fin (T s t) <> None ->
  held (T s t) = [] /\ forall l, wheld (L s l) <> Some t /\ ~ In t (readers (L s l)).
Proof.
  intros R F. apply inv_reach in R. destruct (J6 _ _ _ R _ F) as [H _]. split; [exact H|]. intro l. split.
  - intro W. destruct (J5b _ _ _ R _ _ W) as (g & G & _). rewrite H in G. destruct G.
  - intro I. apply (count_occ_In Nat.eq_dec) in I. rewrite (J5c _ _ _ R), H in I. cbn in I. lia.
Qed.

(* the unwinding never gets stuck before that: a task whose unwinding is on top of its control stack can drop a
   guard of the frames it leaves, or - when none is left - the unwinding is caught (catch_unwind / the task's root) *)
Theorem unwinding_proceeds s t m ins r : Reach s -> alive (T s t) = true -> ctl (T s t) = CUnw m ins :: r ->
  (exists g s', In g (held (T s t)) /\ step s (UnwDrop t (gid g)) = Some s') \/ (exists s', step s (UnwCatch t) = Some s').
Proof.
  intros R A C. apply inv_reach in R.
  destruct (forallb (fun g => Nat.ltb (gfr g) (ncatch r)) (held (T s t))) eqn:FB.
  - right. cbn [PoisonModel.step]. rewrite C, A, FB. cbn [andb].
    pose proof (J8 _ _ _ R t) as N. rewrite C in N. destruct r as [|[|m' ins'] r']; [eauto|eauto|destruct N].
  - left. assert (X : exists g, In g (held (T s t)) /\ Nat.ltb (gfr g) (ncatch r) = false).
    { clear -FB. induction (held (T s t)) as [|g l IH]; [discriminate|]. cbn in FB. apply andb_false_iff in FB.
      destruct FB as [F|F]; [exists g; split; [left; reflexivity|exact F]|]. destruct (IH F) as (g' & I & F'). exists g'. split; [right; exact I|exact F']. }
    destruct X as (g & G & LT). apply Nat.ltb_ge in LT. exists g.
    destruct (find_g_in (gid g) _ _ G eq_refl) as [g' F].
    assert (g' = g). { apply find_g_some in F. destruct F as [F1 F2]. apply (gid_inj _ _ _ (J4b _ _ _ R t)); auto. }
    subst g'. cbn [PoisonModel.step]. rewrite C, F, A. apply Nat.leb_le in LT. rewrite LT. cbn. eauto.
Qed.

(* is_poisoned(), get_mut() and into_inner() report exactly the flag (poison.get / map_result(poison.borrow())), and
   the flag is exactly "some guard drop decided to poison, or it was set before" *)
Theorem observers_report_the_flag s l :
  is_poisoned s l = failed (L s l) /\ get_mut_err s l = failed (L s l) /\ into_inner_err s l = failed (L s l).
Proof. repeat split. Qed.

(* exclusion survives poisoning: one owner of write access, and no reader beside it *)
Theorem write_guard_exclusive s t t' g g' : Reach s ->
  In g (held (T s t)) -> In g' (held (T s t')) -> has_flag (gk g) = true -> has_flag (gk g') = true ->
  glock g = glock g' -> t = t' /\ g = g'.
Proof.
  intros R G G' F F' E. apply inv_reach in R.
  pose proof (J5a _ _ _ R _ _ G F) as W. pose proof (J5a _ _ _ R _ _ G' F') as W'. rewrite E in W.
  assert (t = t') by congruence. subst t'. split; [reflexivity|].
  apply (gid_inj _ _ _ (J4b _ _ _ R t)); auto. apply (J5e _ _ _ R t); auto.
Qed.
Theorem write_guard_excludes_readers s t t' g g' : Reach s ->
  In g (held (T s t)) -> In g' (held (T s t')) -> has_flag (gk g) = true -> gk g' = GR -> glock g = glock g' -> False.
Proof.
  intros R G G' F K E. apply inv_reach in R.
  pose proof (J5d _ _ _ R _ _ (J5a _ _ _ R _ _ G F)) as RD.
  pose proof (J5c _ _ _ R (glock g) t') as C. rewrite RD in C. cbn in C.
  assert (X : In g' (filter (rg (glock g)) (held (T s t')))).
  { apply filter_In. split; [exact G'|]. unfold rg. rewrite E, Nat.eqb_refl, K. reflexivity. }
  destruct (filter (rg (glock g)) (held (T s t'))); [destruct X|discriminate].
Qed.

End Thm.

(* ---- the full equivalence is REFUTED on the faithful model (reported as a potential defect of `may`):
   a coroutine takes a Mutex, a cancel() request reaches it (it is not at a cancellation point), it panics for
   real with payload 7 while it holds the guard: the unwinding drops the guard, the lock is released, the task
   ends with the panic payload (that is what join() reports) - and the lock is NOT poisoned, because Flag::done
   decides "cancelled" from the flag (state == 1), not from what is unwinding. ---- *)
Definition refute_sched : list action := [Lock 0 0 GM; CancelReq 0; PanicStart 0 7; UnwDrop 0 0; UnwCatch 0].
Theorem poison_iff_refuted :
  exists s s' g, Reach (fun _ => true) (fun _ => true) s /\
    In g (held (T s 0)) /\ has_flag (gk g) = true /\ started_inside_now (T s 0) g = true /\ genuine (cause (T s 0)) = true /\
    step (fun _ => true) (fun _ => true) s (UnwDrop 0 (gid g)) = Some s' /\ failed (L s' (glock g)) = false /\
    (exists s'', run (fun _ => true) (fun _ => true) s' [UnwCatch 0] = Some s'' /\
                 fin (T s'' 0) = Some (OPan 7) /\ failed (L s'' 0) = false /\ wheld (L s'' 0) = None).
Proof.
  destruct (run (fun _ => true) (fun _ => true) init (firstn 3 refute_sched)) as [s|] eqn:E; [|vm_compute in E; discriminate].
  exists s. pose proof (run_reach _ _ _ _ _ (R0 _ _) E) as R.
  vm_compute in E. inversion E; subst; clear E.
  eexists. eexists. split; [exact R|]. split; [left; reflexivity|]. vm_compute. repeat split; eauto.
Qed.

(* the same schedule without the cancel request poisons *)
Example same_run_without_cancel_poisons :
  exists s, run (fun _ => true) (fun _ => true) init [Lock 0 0 GM; PanicStart 0 7; UnwDrop 0 0; UnwCatch 0] = Some s /\
            fin (T s 0) = Some (OPan 7) /\ failed (L s 0) = true /\ wheld (L s 0) = None.
Proof. vm_compute. eauto. Qed.
