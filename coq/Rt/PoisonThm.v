(* C13 (i): theorems about lock poisoning on PoisonModel, for every reachable state, any number of tasks and
   locks, any nesting of catch_unwind frames and unwindings. *)
From Coq Require Import List Arith ZArith Bool Lia.
Import ListNotations.
Require Import MayV.Rt.PoisonModel MayV.Rt.PoisonInv MayV.Rt.PoisonPres.

(* ---- the decision table ---- *)
Lemma done_stores_spec gpan tpan isco cunw :
  done_stores gpan tpan isco cunw = true <-> gpan = false /\ tpan = true /\ ~ (isco = true /\ cunw = true).
Proof.
  unfold done_stores. destruct gpan, tpan, isco, cunw; cbn; split; intro H;
    try discriminate; try reflexivity;
    try (destruct H as (A & B & C); try discriminate; exfalso; apply C; auto);
    repeat split; try reflexivity; intros [X Y]; congruence.
Qed.
(* the code before fix bce9086 *)
Lemma done_stores_prefix_spec gpan tpan isco cst :
  done_stores_prefix gpan tpan isco cst = true <-> gpan = false /\ tpan = true /\ ~ (isco = true /\ cst = 1%Z).
Proof.
  unfold done_stores_prefix, is_canceled.
  destruct gpan, tpan, isco; cbn; try destruct (Z.eqb_spec cst 1); cbn; split; intro H;
    try discriminate; try reflexivity;
    try (destruct H as (A & B & C); try discriminate; exfalso; apply C; auto);
    repeat split; try reflexivity; intros [X Y]; congruence.
Qed.
Lemma read_guard_never_poisons fixd gpan tpan isco cst cunw : drop_poisons fixd GR gpan tpan isco cst cunw = false.
Proof. reflexivity. Qed.
Lemma thread_poisons_iff fixd k gpan tpan cst cunw :
  drop_poisons fixd k gpan tpan false cst cunw = has_flag k && negb gpan && tpan.
Proof. unfold drop_poisons, done_stores, done_stores_prefix. destruct fixd; cbn; rewrite andb_true_r; now rewrite andb_assoc. Qed.

Section Thm.
Variable isco : nat -> bool.
Variable ismutex : nat -> bool.
Variable fixd : bool.
Notation step := (step isco ismutex fixd).
Notation Reach := (Reach isco ismutex fixd).
Notation Inv := (Inv isco ismutex).
Notation poisons := (poisons isco fixd).

(* the two ways a guard is dropped: explicitly, or by the unwinding of the frames that own it *)
Definition drops (s : st) (a : action) (t : nat) (g : guard) : Prop :=
  (a = DropG t (gid g) \/ a = UnwDrop t (gid g)) /\ find_g (gid g) (held (T s t)) = Some g.

Lemma drops_do_drop s a t g s' : drops s a t g -> step s a = Some s' -> s' = do_drop isco fixd s t g.
Proof.
  intros [[->| ->] F] H; cbn [PoisonModel.step] in H; rewrite F in H.
  - destruct (alive (T s t)); inversion H; reflexivity.
  - destruct (ctl (T s t)) as [|[|m ins] r]; try discriminate.
    destruct (alive (T s t) && (ncatch r <=? gfr g)); inversion H; reflexivity.
Qed.

(* (i) exactly what the drop does to the flag: Flag::done, in every situation; no other lock is touched *)
Theorem drop_exact s a t g s' : drops s a t g -> step s a = Some s' ->
  failed (L s' (glock g)) = failed (L s (glock g)) ||
                            drop_poisons fixd (gk g) (gpan g) (panicking (T s t)) (isco t) (cst (T s t)) (cunw (T s t)) /\
  forall l, l <> glock g -> L s' l = L s l.
Proof.
  intros D H. rewrite (drops_do_drop _ _ _ _ _ D H). cbn [do_drop L]. split.
  - rewrite upd_eq. unfold release, PoisonModel.poisons. destruct (gk g); reflexivity.
  - intros l NE. apply upd_neq. exact NE.
Qed.

(* (i) the lock is released in every case: the guard is gone, write access / one reader entry is given back,
   whatever the flag decision was; nobody else's guards are touched *)
Theorem drop_releases s a t g s' : drops s a t g -> step s a = Some s' ->
  (forall g', In g' (held (T s' t)) -> gid g' <> gid g) /\
  (has_flag (gk g) = true -> wheld (L s' (glock g)) = None /\ readers (L s' (glock g)) = readers (L s (glock g))) /\
  (gk g = GR -> wheld (L s' (glock g)) = wheld (L s (glock g)) /\ readers (L s' (glock g)) = rm1 t (readers (L s (glock g)))) /\
  (forall t', t' <> t -> T s' t' = T s t') /\
  ctl (T s' t) = ctl (T s t) /\ cst (T s' t) = cst (T s t).
Proof.
  intros D H. rewrite (drops_do_drop _ _ _ _ _ D H). cbn [do_drop L T]. rewrite !upd_eq. cbn [held set_held ctl cst].
  split; [|split; [|split; [|split; [|split]]]].
  - intros g' I. apply in_del_g in I. tauto.
  - intro HF. destruct (gk g); cbn in *; try discriminate; split; reflexivity.
  - intro KR. rewrite KR. cbn. split; reflexivity.
  - intros t' NE. apply upd_neq. exact NE.
  - reflexivity.
  - reflexivity.
Qed.

(* what was released was held: the dropped write / mutex guard was the recorded owner, the dropped read guard a
   counted reader *)
Theorem dropped_guard_was_the_owner s a t g : Reach s -> drops s a t g ->
  (has_flag (gk g) = true -> wheld (L s (glock g)) = Some t) /\ (gk g = GR -> In t (readers (L s (glock g)))).
Proof.
  intros R [_ F]. apply inv_reach in R. apply find_g_some in F. destruct F as [G _]. split.
  - intro HF. apply (J5a _ _ _ R); assumption.
  - intro KR. apply (count_occ_In Nat.eq_dec). rewrite (J5c _ _ _ R).
    assert (X : In g (filter (rg (glock g)) (held (T s t)))).
    { apply filter_In. split; [exact G|]. unfold rg. rewrite Nat.eqb_refl, KR. reflexivity. }
    destruct (filter (rg (glock g)) (held (T s t))); [destruct X | cbn; lia].
Qed.

(* the flag is never cleared *)
Theorem poisoned_stays_poisoned s a s' l : step s a = Some s' -> failed (L s l) = true -> failed (L s' l) = true.
Proof.
  intros H F. destruct (step_shape _ _ _ _ _ _ H) as [(t & l0 & k & _ & _ & _ & _ & ->)|[(t & g0 & _ & ->)|[HL _]]].
  - unfold lock_st. cbn [L]. destruct (Nat.eq_dec l l0) as [->|NE]; [rewrite upd_eq|rewrite upd_neq by assumption; exact F].
    destruct k; cbn; exact F.
  - cbn [do_drop L]. destruct (Nat.eq_dec l (glock g0)) as [->|NE]; [rewrite upd_eq|rewrite upd_neq by assumption; exact F].
    unfold release. destruct (gk g0); cbn; rewrite F; reflexivity.
  - rewrite HL. exact F.
Qed.

(* (i) once poisoned: lock() / write() / read() is enabled exactly as on a clean lock (the flag is not part of the
   condition), reports Poisoned, and hands out a guard ... *)
Theorem lock_enabled_regardless_of_poison s t l k :
  (exists s', step s (Lock t l k) = Some s') <-> alive (T s t) = true /\ kind_ok ismutex l k = true /\ available (L s l) k = true.
Proof.
  cbn [PoisonModel.step]. split.
  - intros [s' H]. destruct (alive (T s t)), (kind_ok ismutex l k), (available (L s l) k); cbn in H; try discriminate. auto.
  - intros (A & B & C). rewrite A, B, C. cbn. eauto.
Qed.
Theorem lock_reports_poison_and_hands_out_guard s t l k s' : step s (Lock t l k) = Some s' ->
  exists g, held (T s' t) = g :: held (T s t) /\ gid g = nextg s /\ glock g = l /\ gk g = k /\
            gerr g = failed (L s l) /\ gpan g = panicking (T s t) /\
            failed (L s' l) = failed (L s l) /\
            (has_flag k = true -> wheld (L s' l) = Some t) /\ (k = GR -> readers (L s' l) = t :: readers (L s l)).
Proof.
  cbn [PoisonModel.step]. destruct (alive (T s t) && kind_ok ismutex l k && available (L s l) k); [|discriminate].
  intro H. inversion H; subst; clear H. cbn [T L]. rewrite !upd_eq. cbn [held set_held].
  eexists. split; [reflexivity|]. cbn [gid glock gk gerr gpan]. repeat split; try reflexivity.
  - destruct k; reflexivity.
  - destruct k; cbn; intros; try discriminate; reflexivity.
  - intros ->. reflexivity.
Qed.
(* ... that works: it can be dropped, and the drop releases the lock again *)
Theorem guard_of_poisoned_lock_works s t l k s' : step s (Lock t l k) = Some s' ->
  exists s'', step s' (DropG t (nextg s)) = Some s'' /\
              (has_flag k = true -> wheld (L s'' l) = None) /\ (k = GR -> readers (L s'' l) = readers (L s l)) /\
              held (T s'' t) = del_g (nextg s) (held (T s' t)).
Proof.
  intro H. pose proof H as H0. cbn [PoisonModel.step] in H.
  destruct (alive (T s t) && kind_ok ismutex l k && available (L s l) k) eqn:E; [|discriminate].
  apply andb_true_iff in E. destruct E as [E _]. apply andb_true_iff in E. destruct E as [AL _].
  inversion H; subst; clear H. cbn [PoisonModel.step T L nextg]. rewrite upd_eq.
  unfold alive in *. cbn [fin set_held held find_g find gid]. rewrite Nat.eqb_refl.
  destruct (fin (T s t)); [discriminate|].
  eexists. split; [reflexivity|]. cbn [do_drop L T glock gk gid]. rewrite !upd_eq. cbn [held set_held].
  repeat split.
  - destruct k; cbn; intros; try discriminate; reflexivity.
  - intros ->. cbn. rewrite Nat.eqb_refl. reflexivity.
Qed.

(* ---- the semantic reading of the decision ---- *)

Lemma cause_in x m : cause x = Some m -> exists ins, In (CUnw m ins) (ctl x).
Proof.
  unfold cause. destruct (filter is_unw (rev (ctl x))) as [|[|m' ins] r] eqn:F; try discriminate.
  intro H. inversion H; subst. exists ins. apply in_rev.
  assert (X : In (CUnw m ins) (filter is_unw (rev (ctl x)))) by (rewrite F; left; reflexivity).
  apply filter_In in X. tauto.
Qed.
Lemma panicking_cause x : panicking x = true <-> exists m, cause x = Some m.
Proof.
  unfold panicking, cause. split.
  - intro P. apply existsb_unw_in in P. destruct P as (m & ins & I).
    assert (X : In (CUnw m ins) (filter is_unw (rev (ctl x)))) by (apply filter_In; split; [apply in_rev; rewrite rev_involutive; exact I | reflexivity]).
    destruct (filter is_unw (rev (ctl x))) as [|[|m' ins'] r] eqn:F; [destruct X| |eauto].
    exfalso. assert (Y : In CCatch (filter is_unw (rev (ctl x)))) by (rewrite F; left; reflexivity). apply filter_In in Y. destruct Y; discriminate.
  - intros [m C]. destruct (cause_in _ _ C) as [ins I]. apply existsb_unw_in. eauto.
Qed.

(* "the panic started inside the guard": a guard made while the task was not unwinding has been held at the start
   of every unwinding that is in progress *)
Theorem started_inside s t g m ins : Reach s ->
  In g (held (T s t)) -> gpan g = false -> In (CUnw m ins) (ctl (T s t)) -> In (gid g) ins.
Proof. intros R. apply (J3 _ _ _ (inv_reach _ _ _ _ R)). Qed.

(* a cancellation in progress means: a coroutine whose cancel bit is set (it is never cleared) and whose mark
   `cunw` (Cancel.unwinding) is set *)
Theorem cancel_unwinding_has_the_bit s t : Reach s -> cause (T s t) = Some MCancel ->
  isco t = true /\ cancel_bit (T s t) = true /\ cunw (T s t) = true.
Proof.
  intros R C. apply inv_reach in R. destruct (cause_in _ _ C) as [ins I].
  destruct (J2 _ _ _ R _ _ I) as [A B]. split; [exact A|]. split; [exact B|]. apply (J9 _ _ _ R _ _ I).
Qed.

(* ---- the decision of the code as it is now (fix bce9086) ---- *)
Hypothesis Fx : fixd = true.

(* (i) exactly: the drop poisons <-> write/mutex guard, the panic started inside the guard, and not (coroutine in which
   the cancel panic has been raised).  No premise: pending cancel requests and the disable count do not matter. *)
Theorem poison_iff_exact s t g :
  poisons s t g = has_flag (gk g) && started_inside_now (T s t) g && negb (isco t && cunw (T s t)).
Proof.
  unfold PoisonModel.poisons, drop_poisons, done_stores, started_inside_now. rewrite Fx.
  destruct (has_flag (gk g)), (gpan g), (panicking (T s t)), (isco t), (cunw (T s t)); reflexivity.
Qed.

(* (i) a guard dropped by a cancellation unwind never poisons - whatever the disable count is *)
Theorem cancel_unwind_never_poisons s t g : Reach s -> cause (T s t) = Some MCancel -> poisons s t g = false.
Proof.
  intros R C. destruct (cancel_unwinding_has_the_bit _ _ R C) as (A & _ & E).
  rewrite poison_iff_exact, A, E. cbn. apply andb_false_r.
Qed.

(* (i) a write / mutex guard dropped by a panic that started inside it poisons, for a thread always, for a coroutine
   unless the cancel panic has been raised in it - a merely pending cancel request does not matter any more *)
Theorem genuine_panic_poisons s t g :
  has_flag (gk g) = true -> gpan g = false -> panicking (T s t) = true ->
  (isco t = false \/ cunw (T s t) = false) -> poisons s t g = true.
Proof.
  intros HF GP P C. rewrite poison_iff_exact. unfold started_inside_now. rewrite HF, GP, P. cbn.
  destruct C as [C|C]; rewrite C; [reflexivity|]. rewrite andb_false_r. reflexivity.
Qed.
(* in particular: as long as no cancel panic has been raised in the task, every genuine unwinding poisons - with a
   cancel request pending (finding F32) or not *)
Theorem pending_cancel_request_does_not_matter s t g : Reach s -> In g (held (T s t)) ->
  has_flag (gk g) = true -> gpan g = false -> panicking (T s t) = true -> swal (T s t) = false ->
  (forall ins, ~ In (CUnw MCancel ins) (ctl (T s t))) -> poisons s t g = true.
Proof.
  intros R G HF GP P SW NC. apply genuine_panic_poisons; auto. right.
  destruct (cunw (T s t)) eqn:CU; [|reflexivity]. exfalso. apply inv_reach in R.
  destruct (J10 _ _ _ R t CU) as [[ins I]|[S|F]]; [apply (NC ins I)|congruence|].
  destruct (J6 _ _ _ R t F) as [H _]. rewrite H in G. destruct G.
Qed.

(* (i) the statement of the property as an equivalence in terms of WHAT unwinds - PARTIAL, one premise:
     P   no cancel panic has been raised in a task that unwinds by a genuine panic, i.e. the task's own code has not
         caught its cancel panic with catch_unwind (earlier, or in a destructor that runs during the genuine unwinding)
   Then: the drop poisons  <->  write/mutex guard, the panic started inside the guard, and the unwinding is not a
   cancellation.  Without P: swallowed_cancel_refuted. *)
Theorem poison_iff_partial s t g : Reach s ->
  (genuine (cause (T s t)) = true -> cunw (T s t) = false) ->
  poisons s t g = has_flag (gk g) && started_inside_now (T s t) g && genuine (cause (T s t)).
Proof.
  intros R P1. rewrite poison_iff_exact. unfold started_inside_now.
  destruct (has_flag (gk g)); [|reflexivity]. destruct (gpan g); [reflexivity|].
  destruct (panicking (T s t)) eqn:P; [|reflexivity]. cbn [negb andb].
  destruct (proj1 (panicking_cause _) P) as [[v|] C]; rewrite C in *; cbn [genuine].
  - rewrite (P1 eq_refl). rewrite andb_false_r. reflexivity.
  - destruct (cancel_unwinding_has_the_bit _ _ R C) as (A & _ & E). rewrite A, E. reflexivity.
Qed.

(* a task that has ended owns no guard, is the owner of no lock and is counted as a reader of none *)
Theorem ended_task_holds_nothing s t : Reach s -> fin (T s t) <> None ->
  held (T s t) = [] /\ forall l, wheld (L s l) <> Some t /\ ~ In t (readers (L s l)).
Proof.
  intros R F. apply inv_reach in R. destruct (J6 _ _ _ R _ F) as [H _]. split; [exact H|]. intro l. split.
  - intro W. destruct (J5b _ _ _ R _ _ W) as (g & G & _). rewrite H in G. destruct G.
  - intro I. apply (count_occ_In Nat.eq_dec) in I. rewrite (J5c _ _ _ R), H in I. cbn in I. lia.
Qed.

(* the unwinding never gets stuck before that: a task whose unwinding is on top of its control stack can drop a
   guard of the frames it leaves, or - when none is left - the unwinding is caught (catch_unwind / the task's root) *)
Theorem unwinding_proceeds s t m ins r : Reach s -> alive (T s t) = true -> ctl (T s t) = CUnw m ins :: r ->
  (exists g s', In g (held (T s t)) /\ step s (UnwDrop t (gid g)) = Some s') \/ (exists s', step s (UnwCatch t) = Some s').
Proof.
  intros R A C. apply inv_reach in R.
  destruct (forallb (fun g => Nat.ltb (gfr g) (ncatch r)) (held (T s t))) eqn:FB.
  - right. cbn [PoisonModel.step]. rewrite C, A, FB. cbn [andb].
    pose proof (J8 _ _ _ R t) as N. rewrite C in N. destruct r as [|[|m' ins'] r']; [eauto|eauto|destruct N].
  - left. assert (X : exists g, In g (held (T s t)) /\ Nat.ltb (gfr g) (ncatch r) = false).
    { clear -FB. induction (held (T s t)) as [|g l IH]; [discriminate|]. cbn in FB. apply andb_false_iff in FB.
      destruct FB as [F|F]; [exists g; split; [left; reflexivity|exact F]|]. destruct (IH F) as (g' & I & F'). exists g'. split; [right; exact I|exact F']. }
    destruct X as (g & G & LT). apply Nat.ltb_ge in LT. exists g.
    destruct (find_g_in (gid g) _ _ G eq_refl) as [g' F].
    assert (g' = g). { apply find_g_some in F. destruct F as [F1 F2]. apply (gid_inj _ _ _ (J4b _ _ _ R t)); auto. }
    subst g'. cbn [PoisonModel.step]. rewrite C, F, A. apply Nat.leb_le in LT. rewrite LT. cbn. eauto.
Qed.

(* is_poisoned(), get_mut() and into_inner() report exactly the flag (poison.get / map_result(poison.borrow())), and
   the flag is exactly "some guard drop decided to poison, or it was set before" *)
Theorem observers_report_the_flag s l :
  is_poisoned s l = failed (L s l) /\ get_mut_err s l = failed (L s l) /\ into_inner_err s l = failed (L s l).
Proof. repeat split. Qed.

(* exclusion survives poisoning: one owner of write access, and no reader beside it *)
Theorem write_guard_exclusive s t t' g g' : Reach s ->
  In g (held (T s t)) -> In g' (held (T s t')) -> has_flag (gk g) = true -> has_flag (gk g') = true ->
  glock g = glock g' -> t = t' /\ g = g'.
Proof.
  intros R G G' F F' E. apply inv_reach in R.
  pose proof (J5a _ _ _ R _ _ G F) as W. pose proof (J5a _ _ _ R _ _ G' F') as W'. rewrite E in W.
  assert (t = t') by congruence. subst t'. split; [reflexivity|].
  apply (gid_inj _ _ _ (J4b _ _ _ R t)); auto. apply (J5e _ _ _ R t); auto.
Qed.
Theorem write_guard_excludes_readers s t t' g g' : Reach s ->
  In g (held (T s t)) -> In g' (held (T s t')) -> has_flag (gk g) = true -> gk g' = GR -> glock g = glock g' -> False.
Proof.
  intros R G G' F K E. apply inv_reach in R.
  pose proof (J5d _ _ _ R _ _ (J5a _ _ _ R _ _ G F)) as RD.
  pose proof (J5c _ _ _ R (glock g) t') as C. rewrite RD in C. cbn in C.
  assert (X : In g' (filter (rg (glock g)) (held (T s t')))).
  { apply filter_In. split; [exact G'|]. unfold rg. rewrite E, Nat.eqb_refl, K. reflexivity. }
  destruct (filter (rg (glock g)) (held (T s t'))); [destruct X|discriminate].
Qed.

End Thm.

(* ---- the theorems about the decision, instantiated for the code as it is now (fixd = true) ---- *)
Definition now_poison_iff_exact isco := poison_iff_exact isco true eq_refl.
Definition now_cancel_unwind_never_poisons isco ismutex := cancel_unwind_never_poisons isco ismutex true eq_refl.
Definition now_genuine_panic_poisons isco := genuine_panic_poisons isco true eq_refl.
Definition now_pending_cancel_request_does_not_matter isco ismutex := pending_cancel_request_does_not_matter isco ismutex true eq_refl.
Definition now_poison_iff_partial isco ismutex := poison_iff_partial isco ismutex true eq_refl.

(* ---- BEFORE fix bce9086 (variant fixd = false; finding F32): a coroutine takes a Mutex, a cancel() request reaches it
   (it is not at a cancellation point), it panics for real with payload 7 while it holds the guard: the unwinding
   drops the guard, the lock is released, the task ends with the panic payload (that is what join() reports) - and
   the lock is NOT poisoned, because Flag::done decided "cancelled" from the flag (state == 1). ---- *)
Definition refute_sched : list action := [Lock 0 0 GM; CancelReq 0; PanicStart 0 7; UnwDrop 0 0; UnwCatch 0].
Theorem poison_iff_prefix_refuted :
  exists s s' g, Reach (fun _ => true) (fun _ => true) false s /\
    In g (held (T s 0)) /\ has_flag (gk g) = true /\ started_inside_now (T s 0) g = true /\ genuine (cause (T s 0)) = true /\
    cunw (T s 0) = false /\
    step (fun _ => true) (fun _ => true) false s (UnwDrop 0 (gid g)) = Some s' /\ failed (L s' (glock g)) = false /\
    (exists s'', run (fun _ => true) (fun _ => true) false s' [UnwCatch 0] = Some s'' /\
                 fin (T s'' 0) = Some (OPan 7) /\ failed (L s'' 0) = false /\ wheld (L s'' 0) = None).
Proof.
  destruct (run (fun _ => true) (fun _ => true) false init (firstn 3 refute_sched)) as [s|] eqn:E; [|vm_compute in E; discriminate].
  exists s. pose proof (run_reach _ _ _ _ _ _ (R0 _ _ _) E) as R.
  vm_compute in E. inversion E; subst; clear E.
  eexists. eexists. split; [exact R|]. split; [left; reflexivity|]. vm_compute. repeat split; eauto.
Qed.

(* the same schedule on the code as it is now poisons *)
Example pending_cancel_then_panic_poisons_now :
  exists s, run (fun _ => true) (fun _ => true) true init refute_sched = Some s /\
            fin (T s 0) = Some (OPan 7) /\ failed (L s 0) = true /\ wheld (L s 0) = None.
Proof. vm_compute. eauto. Qed.

(* and a cancellation unwind does not, also inside a section with the cancel disabled *)
Example cancel_unwind_does_not_poison_now :
  exists s, run (fun _ => true) (fun _ => true) true init
              [Lock 0 0 GM; CancelReq 0; CancelStart 0; Disable 0; UnwDrop 0 0; Enable 0; UnwCatch 0] = Some s /\
            fin (T s 0) = Some OCan /\ failed (L s 0) = false /\ wheld (L s 0) = None.
Proof. vm_compute. eauto. Qed.

(* ---- the residue of the fix (reported; replay: d_poison mode 10 with MAYV_STRICT10=1): Cancel.unwinding is never
   cleared.  A coroutine whose own code catches its cancel panic (catch_unwind around a cancellation point) and goes
   on, then takes a Mutex and panics for real inside the guard: not poisoned. ---- *)
Definition swallow_sched : list action :=
  [CancelReq 0; PushCatch 0; CancelStart 0; UnwCatch 0; Lock 0 0 GM; PanicStart 0 7; UnwDrop 0 0; UnwCatch 0].
Theorem swallowed_cancel_refuted :
  exists s, Reach (fun _ => true) (fun _ => true) true s /\
    run (fun _ => true) (fun _ => true) true init swallow_sched = Some s /\
    fin (T s 0) = Some (OPan 7) /\ swal (T s 0) = true /\ failed (L s 0) = false /\ wheld (L s 0) = None.
Proof.
  destruct (run (fun _ => true) (fun _ => true) true init swallow_sched) as [s|] eqn:E; [|vm_compute in E; discriminate].
  exists s. split; [eapply run_reach; [apply R0|exact E]|]. split; [reflexivity|].
  vm_compute in E. inversion E; subst; clear E. cbn. repeat split.
Qed.

(* the same schedule without the cancel request poisons *)
Example same_run_without_cancel_poisons :
  exists s, run (fun _ => true) (fun _ => true) true init [Lock 0 0 GM; PanicStart 0 7; UnwDrop 0 0; UnwCatch 0] = Some s /\
            fin (T s 0) = Some (OPan 7) /\ failed (L s 0) = true /\ wheld (L s 0) = None.
Proof. vm_compute. eauto. Qed.
