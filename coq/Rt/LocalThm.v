(* Theorems about LocalModel for property C15. *)
From Coq Require Import List Arith Bool ZArith Lia.
Import ListNotations.
Require Import MayV.Rt.LocalModel MayV.Rt.LocalTac MayV.Rt.LocalInvS MayV.Rt.LocalInvN MayV.Rt.LocalInvP.

(* ---------------------------------------------------------------- (a) storage *)

(* the pointer that get_co_local_data() finds on a thread that runs coroutine c is c's own, live box *)
Theorem running_resolves_to_own_local cf s t c :
  Reach cf s -> trunm s t = Some c -> cur_local s t = Some c /\ alivem s c = true.
Proof.
  intros R Ht. pose proof (sinv_reach _ _ R) as J.
  destruct (S6 _ J _ _ Ht) as [Hc _].
  assert (Ho : occ (pcm s c) = true) by (destruct (pcm s c); cbn in *; congruence).
  destruct (S2 _ J _ Ho) as [_ Hl]. split.
  - unfold cur_local. now rewrite Ht.
  - rewrite (S8 _ J). destruct (pcm s c); cbn in *; congruence.
Qed.

(* a `with` / store executed in coroutine context *)
Theorem access_in_coroutine cf s t c k w s' :
  Reach cf s -> trunm s t = Some c -> access cf s t k w = Some s' ->
  let v := match w with Some v => v | None => entry cf (lmapm s c) k end in
  lastrm s' t = Some v /\ lmapm s' c k = Some v /\
  (forall k', k' <> k -> lmapm s' c k' = lmapm s c k') /\
  (forall d, d <> c -> lmapm s' d = lmapm s d) /\
  (forall u, tmapm s' u = tmapm s u) /\
  ninitm s' c k = ninitm s c k + fresh01 (lmapm s c) k /\
  (forall d k', (d, k') <> (c, k) -> ninitm s' d k' = ninitm s d k') /\
  (forall u k', tninitm s' u k' = tninitm s u k').
Proof.
  intros R Ht H. destruct (running_resolves_to_own_local _ _ _ _ R Ht) as [Hl Ha].
  apply access_inv in H. destruct H as [(c0 & d & Ht' & Hp & Hg & Ha' & ->) | (Ht' & _)]; [|congruence].
  assert (c0 = c) by congruence. subst c0.
  assert (d = c) by (unfold cur_local in Hl; rewrite Ht in Hl; congruence). subst d.
  cbn zeta. sst. rewrite !upd_eq. repeat split; auto.
  - intros k' Hk. now rewrite upd_neq.
  - intros d Hd. now rewrite upd_neq.
  - intros d k' Hd. destruct (Nat.eq_dec d c) as [->|Hn]; [|now rewrite upd_neq].
    rewrite upd_eq. destruct (Nat.eq_dec k' k) as [->|Hk]; [congruence | now rewrite upd_neq].
Qed.

(* ... and in thread context: the per-thread fallback map *)
Theorem access_in_thread cf s t k w s' :
  trunm s t = None -> access cf s t k w = Some s' ->
  let v := match w with Some v => v | None => entry cf (tmapm s t) k end in
  lastrm s' t = Some v /\ tmapm s' t k = Some v /\
  (forall k', k' <> k -> tmapm s' t k' = tmapm s t k') /\
  (forall u, u <> t -> tmapm s' u = tmapm s u) /\
  (forall d, lmapm s' d = lmapm s d) /\
  tninitm s' t k = tninitm s t k + fresh01 (tmapm s t) k /\
  (forall d k', ninitm s' d k' = ninitm s d k').
Proof.
  intros Ht H. apply access_inv in H. destruct H as [(c0 & d & Ht' & _) | (_ & ->)]; [congruence|].
  cbn zeta. sst. rewrite !upd_eq. repeat split; auto.
  - intros k' Hk. now rewrite upd_neq.
  - intros u Hu. now rewrite upd_neq.
Qed.

(* an access never goes through a dangling pointer: in the body of a running coroutine `with` is enabled *)
Theorem access_enabled cf s t c k w :
  Reach cf s -> trunm s t = Some c -> pcm s c = PBody -> exists s', access cf s t k w = Some s'.
Proof.
  intros R Ht Hp. destruct (running_resolves_to_own_local _ _ _ _ R Ht) as [Hl Ha].
  unfold cur_local in Hl. rewrite Ht in Hl. unfold access. rewrite Ht, Hp, Hl, Ha. eexists. reflexivity.
Qed.

(* frame: nothing but c's own accesses (and its spawn / the drop at its end) changes c's map - not the
   yields, not the resumption on another thread, not the accesses of other coroutines and of threads *)
Theorem local_map_frame cf s a s' c :
  Reach cf s -> step cf s a = Some s' ->
  (forall t k, a = With t k -> trunm s t <> Some c) -> (forall t k v, a = SetV t k v -> trunm s t <> Some c) ->
  (forall g, a <> Spawn c g) -> a <> DFree c ->
  lmapm s' c = lmapm s c /\ (forall k, ninitm s' c k = ninitm s c k).
Proof.
  intros R H Hw Hs Hsp Hd. destruct a; cbn [step] in H.
  3,4: (destruct (trunm s t) as [c1|] eqn:Ht;
        [ destruct (access_in_coroutine _ _ _ _ _ _ _ R Ht H) as (_ & _ & _ & Q & _ & _ & Q2 & _);
          assert (c <> c1) by (intro; subst; first [ exact (Hw _ _ eq_refl Ht) | exact (Hs _ _ _ eq_refl Ht) ]);
          split; [apply Q; auto | intro; apply Q2; congruence]
        | destruct (access_in_thread _ _ _ _ _ _ Ht H) as (_ & _ & _ & _ & Q & _ & Q2); split; [apply Q | intro; apply Q2] ]).
  all: unfold cancel_wake in H; sst; step_split H; try inv_some H.
  all: repeat match goal with
       | |- context [if cancel_para ?k then _ else _] => destruct (cancel_para k) eqn:?
       | |- context [if cancel_plain ?k then _ else _] => destruct (cancel_plain k) eqn:?
       end.
  all: sst; auto.
  all: split; auto; rewrite upd_neq; auto; intro; subst; first [eapply Hsp; reflexivity | apply Hd; reflexivity].
Qed.

Theorem thread_map_frame cf s a s' t :
  step cf s a = Some s' ->
  (forall k, a = With t k -> exists c, trunm s t = Some c) -> (forall k v, a = SetV t k v -> exists c, trunm s t = Some c) ->
  tmapm s' t = tmapm s t /\ (forall k, tninitm s' t k = tninitm s t k).
Proof.
  intros H Hw Hs. destruct a; cbn [step] in H.
  3,4: (apply access_inv in H; destruct H as [(c0 & d & Ht' & _ & _ & _ & ->) | (Ht' & ->)]; sst; auto;
        destruct (Nat.eq_dec t t0) as [->|Hn];
        [ exfalso; first [destruct (Hw _ eq_refl) | destruct (Hs _ _ eq_refl)]; congruence
        | rewrite !upd_neq; auto ]).
  all: unfold cancel_wake in H; sst; step_split H; try inv_some H.
  all: repeat match goal with
       | |- context [if cancel_para ?k then _ else _] => destruct (cancel_para k) eqn:?
       | |- context [if cancel_plain ?k then _ else _] => destruct (cancel_plain k) eqn:?
       end.
  all: sst; auto.
Qed.

(* the initialiser of a key runs at most once per coroutine, exactly once iff the entry exists *)
Theorem initialiser_once cf s c k :
  Reach cf s -> ninitm s c k <= 1 /\ (alivem s c = true -> (ninitm s c k = 1 <-> lmapm s c k <> None)).
Proof.
  intros R. pose proof (sinv_reach _ _ R) as J. pose proof (ninv_reach _ _ R) as I.
  assert (A : alivem s c = true -> ninitm s c k + fresh01 (lmapm s c) k = 1) by (intro; now apply (N1 _ I)).
  split.
  - destruct (alivem s c) eqn:Ha; [specialize (A eq_refl); lia|].
    rewrite (S8 _ J) in Ha. destruct (pcm s c) eqn:Hp; cbn in Ha; try discriminate.
    + destruct (N3 _ I c k Hp). lia.
    + destruct (N2 _ I c k Hp) as (_ & ? & _). lia.
  - intro Ha. specialize (A Ha). unfold fresh01 in A. destruct (lmapm s c k); split; intros; try congruence; lia.
Qed.

Theorem thread_initialiser_once cf s t k :
  Reach cf s -> tninitm s t k <= 1 /\ (tninitm s t k = 1 <-> tmapm s t k <> None).
Proof.
  intros R. pose proof (N5 _ (ninv_reach _ _ R) t k) as A. unfold fresh01 in A.
  destruct (tmapm s t k); split; try split; intros; try congruence; lia.
Qed.

(* every value is dropped exactly once, when the coroutine has ended, and not before *)
Theorem dropped_exactly_once cf s c k :
  Reach cf s ->
  (pcm s c = PDone -> ndropm s c k = ninitm s c k /\ lmapm s c k = None) /\ (pcm s c <> PDone -> ndropm s c k = 0).
Proof.
  intros R. pose proof (sinv_reach _ _ R) as J. pose proof (ninv_reach _ _ R) as I. split.
  - intro Hp. destruct (N2 _ I c k Hp) as (? & _ & ?). auto.
  - intro Hp. destruct (alivem s c) eqn:Ha; [now apply (N1 _ I)|].
    rewrite (S8 _ J) in Ha. destruct (pcm s c) eqn:Hq; cbn in Ha; try discriminate; [|congruence].
    now apply (N3 _ I).
Qed.

(* a coroutine that has not run yet has no entries *)
Theorem fresh_coroutine_empty cf s c k :
  Reach cf s -> pcm s c = PNew -> lmapm s c k = None /\ ninitm s c k = 0 /\ ndropm s c k = 0.
Proof.
  intros R Hp. pose proof (sinv_reach _ _ R) as J. pose proof (ninv_reach _ _ R) as I.
  pose proof (N6 _ I c k Hp) as Hl. assert (Ha : alivem s c = true) by (rewrite (S8 _ J), Hp; reflexivity).
  destruct (N1 _ I c k Ha) as [A B]. unfold fresh01 in A. rewrite Hl in A. repeat split; auto; lia.
Qed.

(* ---------------------------------------------------------------- (b) hygiene *)

(* a generator in the pool has an empty para slot (unless wait_io's short-cut leaked into it: F30) *)
Theorem pool_para_none_partial cf s g :
  Reach cf s -> In g (pool s) -> leakm s g = false -> param s g = None.
Proof.
  intros R Hi Hl. apply (P3 _ (pinv_reach _ _ R)); auto. now apply (S3 _ (sinv_reach _ _ R)).
Qed.

Theorem pool_para_none cf s g :
  fixW cf = true -> Reach cf s -> In g (pool s) -> param s g = None.
Proof. intros F R Hi. eapply pool_para_none_partial; eauto using noleak_reach. Qed.

(* more: any generator without an occupant (pooled, discarded, never used) *)
Theorem free_generator_para_none cf s g :
  fixW cf = true -> Reach cf s -> goccm s g = None -> param s g = None.
Proof. intros F R H. apply (P3 _ (pinv_reach _ _ R)); auto. eapply noleak_reach; eauto. Qed.

(* every para that was set has been consumed whenever user code runs, and when the body has finished *)
Theorem body_para_none cf s c :
  fixW cf = true -> Reach cf s -> pcm s c = PNew \/ pcm s c = PBody \/ pcm s c = PEnd -> param s (genm s c) = None.
Proof.
  intros F R H. pose proof (P1 _ (pinv_reach _ _ R) c) as Q.
  assert (L : leakm s (genm s c) = false) by (eapply noleak_reach; eauto).
  destruct H as [H|[H|H]]; rewrite H in Q; cbn in Q; auto.
Qed.

(* the cancel bit of a coroutine is set only by a cancel() addressed to it (since its spawn) *)
Theorem cancel_bit_needs_cancel cf s c : Reach cf s -> cbitm s c = true -> 1 <= ncanm s c.
Proof. intros R. apply (C1 _ (pinv_reach _ _ R)). Qed.

(* what spawn_impl hands out, whatever state the previous occupant of the generator left *)
Theorem new_occupant_clean cf s c g s' :
  Reach cf s -> step cf s (Spawn c g) = Some s' ->
  genm s' c = g /\ pcm s' c = PNew /\ cbitm s' c = false /\ cdism s' c = 0 /\ ptokm s' c = false /\ panim s' c = false /\
  ncanm s' c = 0 /\ verm s' c = None /\ alivem s' c = true /\ gldm s' g = Some c /\
  (forall k, lmapm s' c k = None /\ ninitm s' c k = 0 /\ ndropm s' c k = 0) /\
  (leakm s g = false -> param s' g = None).
Proof.
  intros R H. pose proof (sinv_reach _ _ R) as J. pose proof (pinv_reach _ _ R) as I. pose proof (ninv_reach _ _ R) as N.
  cbn [step] in H. destruct (pcm s c) eqn:Hc; try discriminate.
  assert (Hfree : goccm s g = None).
  { destruct (pool s) as [|g' rest] eqn:Ep.
    - destruct (gusedm s g) eqn:Eg; [discriminate|]. now apply unused_free.
    - destruct (Nat.eqb_spec g g'); [subst|discriminate]. eapply pooled_free; eauto. }
  assert (Hz : forall k, ninitm s c k = 0 /\ ndropm s c k = 0) by (intro; now apply (N3 _ N)).
  step_split H; inv_some H; sst; rewrite ?upd_eq.
  all: repeat split; auto; try apply Hz.
  all: intro L; apply (P3 _ I); auto.
Qed.

(* the verdict of a blocking call: Canceled only if a cancel() was addressed to this coroutine, Timeout
   only if the call had a timeout *)
Theorem no_spurious_verdict_partial cf s c :
  Reach cf s -> leakm s (genm s c) = false ->
  (verm s c = Some (Some ECanceled) -> 1 <= ncanm s c) /\
  (verm s c = Some (Some ETimeout) -> has_timer (vkindm s c) = true).
Proof.
  intros R L. pose proof (pinv_reach _ _ R) as I. split; intro H.
  - destruct (V1 _ I c H); congruence.
  - destruct (V2 _ I c H); congruence.
Qed.

Theorem no_spurious_verdict cf s c :
  fixW cf = true -> Reach cf s ->
  (verm s c = Some (Some ECanceled) -> 1 <= ncanm s c) /\
  (verm s c = Some (Some ETimeout) -> has_timer (vkindm s c) = true).
Proof. intros F R. apply no_spurious_verdict_partial with cf; auto. eapply noleak_reach; eauto. Qed.

(* ---------------------------------------------------------------- F30: the code before commit 172d8b3 *)

Lemma run_reach cf l : forall s s', Reach cf s -> run cf s l = Some s' -> Reach cf s'.
Proof.
  induction l as [|a l IH]; cbn; intros s s' R H.
  - now inv_some H.
  - destruct (step cf s a) eqn:E; [|discriminate]. eapply IH; [|eassumption]. eapply RS; eauto.
Qed.

(* coroutine 1 is cancelled while it runs, calls wait_io (short-cut), finishes normally; its stack goes
   back to the pool with para = Canceled ... *)
Definition f30_schedule : list action :=
  [Spawn 1 0; Resume 0 1; Cancel 1; Call 1 BWaitIo; Back 1; After 1; Finish 1; DPut 1 true; DFree 1].
(* ... and coroutine 2, never cancelled, gets it as the result of its first park (unparked by somebody) *)
Definition f30_schedule2 : list action :=
  f30_schedule ++ [Spawn 2 0; Resume 0 2; Call 2 (BPark false true); Unpark 2; Resume 0 2; Back 2; After 2].

Theorem prefix_pool_para_refuted :
  exists s g, Reach (prefix 1) s /\ In g (pool s) /\ param s g = Some ECanceled.
Proof.
  destruct (run (prefix 1) (init (prefix 1)) f30_schedule) as [s|] eqn:E; [|vm_compute in E; discriminate].
  exists s, 0. split; [eapply run_reach; [apply R0 | exact E]|].
  vm_compute in E. inv_some E. cbn. auto.
Qed.

Theorem prefix_spurious_cancel_refuted :
  exists s c, Reach (prefix 1) s /\ verm s c = Some (Some ECanceled) /\ ncanm s c = 0 /\ cbitm s c = false.
Proof.
  destruct (run (prefix 1) (init (prefix 1)) f30_schedule2) as [s|] eqn:E; [|vm_compute in E; discriminate].
  exists s, 2. split; [eapply run_reach; [apply R0 | exact E]|].
  vm_compute in E. inv_some E. cbn. auto.
Qed.

(* the same schedules on the code as it is: nothing stays behind, the park returns Ok *)
Lemma current_f30_schedule_clean :
  match run (current 1) (init (current 1)) f30_schedule2 with
  | Some s => (param s 0, verm s 2, pcm s 1, pcm s 2) = (None, Some None, PDone, PBody)
  | None => False end.
Proof. vm_compute. reflexivity. Qed.

(* ---------------------------------------------------------------- statements in terms of `step` *)

Theorem with_in_coroutine cf s t c k s' :
  Reach cf s -> trunm s t = Some c -> step cf s (With t k) = Some s' ->
  lastrm s' t = Some (entry cf (lmapm s c) k) /\ lmapm s' c k = Some (entry cf (lmapm s c) k) /\
  (forall k', k' <> k -> lmapm s' c k' = lmapm s c k') /\
  (forall d, d <> c -> lmapm s' d = lmapm s d) /\
  (forall u, tmapm s' u = tmapm s u) /\
  ninitm s' c k = ninitm s c k + fresh01 (lmapm s c) k /\
  (forall d k', (d, k') <> (c, k) -> ninitm s' d k' = ninitm s d k') /\
  (forall u k', tninitm s' u k' = tninitm s u k').
Proof. intros R Ht H. exact (access_in_coroutine cf s t c k None s' R Ht H). Qed.

Theorem store_in_coroutine cf s t c k v s' :
  Reach cf s -> trunm s t = Some c -> step cf s (SetV t k v) = Some s' ->
  lastrm s' t = Some v /\ lmapm s' c k = Some v /\
  (forall k', k' <> k -> lmapm s' c k' = lmapm s c k') /\
  (forall d, d <> c -> lmapm s' d = lmapm s d) /\
  (forall u, tmapm s' u = tmapm s u) /\
  ninitm s' c k = ninitm s c k + fresh01 (lmapm s c) k /\
  (forall d k', (d, k') <> (c, k) -> ninitm s' d k' = ninitm s d k') /\
  (forall u k', tninitm s' u k' = tninitm s u k').
Proof. intros R Ht H. exact (access_in_coroutine cf s t c k (Some v) s' R Ht H). Qed.

Theorem with_in_thread cf s t k s' :
  trunm s t = None -> step cf s (With t k) = Some s' ->
  lastrm s' t = Some (entry cf (tmapm s t) k) /\ tmapm s' t k = Some (entry cf (tmapm s t) k) /\
  (forall k', k' <> k -> tmapm s' t k' = tmapm s t k') /\
  (forall u, u <> t -> tmapm s' u = tmapm s u) /\
  (forall d, lmapm s' d = lmapm s d) /\
  tninitm s' t k = tninitm s t k + fresh01 (tmapm s t) k /\
  (forall d k', ninitm s' d k' = ninitm s d k').
Proof. intros Ht H. exact (access_in_thread cf s t k None s' Ht H). Qed.

Theorem with_enabled_in_body cf s t c k :
  Reach cf s -> trunm s t = Some c -> pcm s c = PBody -> exists s', step cf s (With t k) = Some s'.
Proof. intros R Ht Hp. exact (access_enabled cf s t c k None R Ht Hp). Qed.

(* the code as it is in /repo, any pool capacity *)
Theorem current_pool_para_none n s g : Reach (current n) s -> In g (pool s) -> param s g = None.
Proof. apply pool_para_none. reflexivity. Qed.
Theorem current_free_generator_para_none n s g : Reach (current n) s -> goccm s g = None -> param s g = None.
Proof. apply free_generator_para_none. reflexivity. Qed.
Theorem current_body_para_none n s c :
  Reach (current n) s -> pcm s c = PNew \/ pcm s c = PBody \/ pcm s c = PEnd -> param s (genm s c) = None.
Proof. apply body_para_none. reflexivity. Qed.
Theorem current_no_spurious_verdict n s c :
  Reach (current n) s ->
  (verm s c = Some (Some ECanceled) -> 1 <= ncanm s c) /\
  (verm s c = Some (Some ETimeout) -> has_timer (vkindm s c) = true).
Proof. apply no_spurious_verdict. reflexivity. Qed.
Theorem current_new_occupant_clean n s c g s' :
  Reach (current n) s -> step (current n) s (Spawn c g) = Some s' ->
  genm s' c = g /\ pcm s' c = PNew /\ cbitm s' c = false /\ cdism s' c = 0 /\ ptokm s' c = false /\ panim s' c = false /\
  ncanm s' c = 0 /\ verm s' c = None /\ alivem s' c = true /\ gldm s' g = Some c /\
  (forall k, lmapm s' c k = None /\ ninitm s' c k = 0 /\ ndropm s' c k = 0) /\
  param s' g = None.
Proof.
  intros R H. destruct (new_occupant_clean _ _ _ _ _ R H) as (A1 & A2 & A3 & A4 & A5 & A6 & A7 & A8 & A9 & A10 & A11 & A12).
  repeat split; auto; try apply A11. apply A12. eapply noleak_reach; eauto. reflexivity.
Qed.

(* ---------------------------------------------------------------- non-vacuity *)

(* two coroutines and a thread use key 7: coroutine 1 stores 42, yields, is resumed on ANOTHER thread and
   still sees 42; coroutine 2 (run on the thread coroutine 1 used before) and thread 5 see the initial
   value 800, each after its own run of the initialiser; coroutine 1 ends: its value is dropped once;
   coroutine 3 on the same generator starts with nothing *)
Definition ex_storage_schedule : list action :=
  [Spawn 1 0; Spawn 2 1; Resume 0 1; SetV 0 7 42%Z; Call 1 BYield; Wake 1; Resume 0 2; With 0 7;
   Resume 1 1; Back 1; After 1; With 1 7; With 5 7;
   Finish 1; DPut 1 true; DFree 1; Spawn 3 0; Resume 1 3; With 1 7].
Lemma ex_storage :
  match run (current 1) (init (current 1)) ex_storage_schedule with
  | Some s => (lastrm s 0, lastrm s 1, lastrm s 5, lmapm s 2 7, tmapm s 5 7, lmapm s 1 7, genm s 3,
               (ninitm s 1 7, ndropm s 1 7), (ninitm s 2 7, ndropm s 2 7), (ninitm s 3 7, tninitm s 5 7), pcm s 1)
              = (Some 800%Z, Some 800%Z, Some 800%Z, Some 800%Z, Some 800%Z, None, 0, (1, 1), (1, 0), (1, 1), PDone)
  | None => False end.
Proof. vm_compute. reflexivity. Qed.
Lemma ex_storage_migrated :
  match run (current 1) (init (current 1)) (firstn 12 ex_storage_schedule) with
  | Some s => (lastrm s 1, thrm s 1, lmapm s 1 7, lmapm s 2 7) = (Some 42%Z, 1, Some 42%Z, Some 800%Z)
  | None => False end.
Proof. vm_compute. reflexivity. Qed.

(* previous occupants of generator 0: timed out in its last park; cancelled while parked; cancelled exactly
   when its timer had fired; cancelled while running and then wait_io; panicked.  After each the generator is
   back in the pool with an empty para, and the last new occupant's park (unparked) returns Ok *)
Definition prev_timeout (c : nat) : list action :=
  [Spawn c 0; Resume 0 c; Call c (BPark false true); Timer c; Resume 0 c; Back c; After c; Finish c; DPut c true; DFree c].
Definition prev_cancel_parked (c : nat) : list action :=
  [Spawn c 0; Resume 0 c; Call c (BPark false false); Cancel c; Resume 0 c; Back c; Finish c; DPut c true; DFree c].
Definition prev_cancel_at_timer (c : nat) : list action :=
  [Spawn c 0; Resume 0 c; Call c (BPark false true); Timer c; Cancel c; Resume 0 c; Back c; Finish c; DPut c true; DFree c].
Definition prev_waitio (c : nat) : list action :=
  [Spawn c 0; Resume 0 c; Cancel c; Call c BWaitIo; Back c; After c; Finish c; DPut c true; DFree c].
Definition prev_panic (c : nat) : list action :=
  [Spawn c 0; Resume 0 c; Call c BSleep; Timer c; Resume 0 c; Back c; After c; Panic c; Finish c; DPut c true; DFree c].
Definition new_occupant_parks (c : nat) : list action :=
  [Spawn c 0; Resume 0 c; Call c (BPark false true); Unpark c; Resume 0 c; Back c; After c].
Definition ex_hygiene_schedule : list action :=
  prev_timeout 1 ++ prev_cancel_parked 2 ++ prev_cancel_at_timer 3 ++ prev_waitio 4 ++ prev_panic 5 ++ new_occupant_parks 6.
Lemma ex_hygiene :
  match run (current 1) (init (current 1)) ex_hygiene_schedule with
  | Some s => (verm s 1, (panim s 2, panim s 3, panim s 4, panim s 5), (ncanm s 3, verm s 3), param s 0,
               (verm s 6, cbitm s 6, ncanm s 6, genm s 6, pcm s 6))
              = (Some (Some ETimeout), (true, true, false, true), (1, None), None, (Some None, false, 0, 0, PBody))
  | None => False end.
Proof. vm_compute. reflexivity. Qed.
Lemma ex_hygiene_pool_states :
  forall l, In l [prev_timeout 1; prev_timeout 1 ++ prev_cancel_parked 2;
                  prev_timeout 1 ++ prev_cancel_parked 2 ++ prev_cancel_at_timer 3;
                  prev_timeout 1 ++ prev_cancel_parked 2 ++ prev_cancel_at_timer 3 ++ prev_waitio 4;
                  prev_timeout 1 ++ prev_cancel_parked 2 ++ prev_cancel_at_timer 3 ++ prev_waitio 4 ++ prev_panic 5] ->
  match run (current 1) (init (current 1)) l with
  | Some s => (pool s, param s 0) = ([0], None)
  | None => False end.
Proof. intros l H. cbn in H. repeat (destruct H as [<-|H]; [vm_compute; reflexivity|]). destruct H. Qed.
