(* C02 - a few more facts needed by the user-level theorems (ParkThm.v), proved as one more inductive
   invariant on top of Inv1..Inv3: the requested duration is not negative, the kernel half reads the clock
   only for a timed park, a call that found the token set never reaches the suspending part of
   park_timeout and reports Ok, and the generator parameter (the verdict) is not touched between the resume
   and the return. *)
From Coq Require Import List ZArith Bool Arith Lia.
Import ListNotations.
Require Import MayV.Rt.AtomicDur MayV.Base.BlockerSpec MayV.Rt.ParkModel MayV.Rt.ParkTac
               MayV.Rt.ParkInv1 MayV.Rt.ParkInv2 MayV.Rt.ParkInv3.
Open Scope Z_scope.

Record Inv5 (s : st) : Prop := {
  u_nonneg : match ud s with Some d => 0 <= d | None => True end;
  k_now : kp s = KNow -> kdur s <> None;
  t0_up : tok0 s = true -> match up s with URm | UPara => False | _ => True end;
  t0_ok : tok0 s = true -> match up s with UCp1Load | UCp1Store => True | _ => lastv s = Some VOk end
}.

Lemma inv5_init : Inv5 init.
Proof. constructor; cbn; intros; fin. Qed.

Ltac dmg5 :=
  match goal with
  | |- context [match up ?s with _ => _ end] => destruct (up s) eqn:?
  | |- context [match ud ?s with _ => _ end] => destruct (ud s) eqn:?
  | |- context [match dec ?x with _ => _ end] => destruct (dec x) eqn:?
  | |- context [if ?b then _ else _] => destruct b eqn:?
  end.

Ltac cl5 :=
  unfold places, canceled in *; cbn; rw; cbn;
  try assumption;
  intros; rw; cbn in *|-;
  repeat match goal with
         | H : (_ <=? _) = true |- _ => apply Z.leb_le in H
         | H : _ && _ = true |- _ => apply andb_true_iff in H; destruct H
         end;
  repeat match goal with H : ?a = ?a -> _ |- _ => specialize (H eq_refl) end;
  repeat match goal with H : ?P -> _, H' : ?P |- _ => match type of P with Prop => specialize (H H') end end;
  brk;
  try solve [fin];
  try solve [repeat (dmg5; cbn in * ); fin];
  try solve [match goal with d : option Z |- _ => destruct d end; cbn in *;
             try match goal with H : (_ <=? _) = true |- _ => apply Z.leb_le in H end; fin].

Lemma inv5_step s a s' : Inv1 s -> Inv3 s -> Inv5 s -> stepF s a = Some s' -> Inv5 s'.
Proof.
  intros [Ipl Ihun Ihcn Ihtm Irun Isusp Iwk [Inn Ine] Ipre Icd ((Id1 & Id2 & Id3 & Id4) & Iok & Itn)] I3 [Un Kn Tu To] H.
  pose proof (t0 s I3) as T0. clear I3.
  destruct a.
  all: step_inv H.
  all: pre Ipl.
  all: constructor.
  all: solve [cl5].
Qed.

Theorem inv5_reach s : ReachF s -> Inv5 s.
Proof.
  intros R. induction R as [|s a s' R I5 H]; [apply inv5_init|].
  destruct (inv3_reach s R) as (I1 & _ & I3). eapply inv5_step; eauto.
Qed.
