(* Preservation of the queue-content clauses of the CqueueModel invariant. *)
From Coq Require Import List Arith Bool ZArith Lia.
Import ListNotations.
Require Import MayV.Rt.CqueueModel MayV.Rt.CqueueInv MayV.Rt.CqueueTac.

Ltac qsimp := unfold qall in *; simp; pcs; rewrite ?qall_app_eq in *; rewrite ?qall_fold in *.
Ltac qeqs :=
  try (match goal with E : evq _ = _ |- _ => rewrite E in * end);
  try (match goal with E : ostash _ = _ |- _ => rewrite E in * end).

Lemma pres_Q_norm s ac s' : Inv s -> step current s ac = Some s' ->
  forall e, In (ENormal e) (qall s') <-> (epush s' e = 1 /\ epop s' e = 0).
Proof.
  intros I H e0. pose proof (Q_norm _ I e0) as Q. pose proof (Q_nd _ I) as QN. pose proof (E_cnt _ I) as QC. start I H.
  all: qsimp; try exact Q; qeqs; try exact Q.
  all: upds; simp; try exact Q.
  all: try (rewrite in_app_iff; cbn [In]).
  all: try (match goal with QN : NoDup (_ :: _) |- _ => inversion QN; subst; cbn [In] in Q end).
  all: try (match goal with E : kpc ?s ?e = K1 |- _ => let X := fresh in pose proof (QC e) as X; rewrite E in X; cbn [kpost] in X end).
  all: try (split; [intros X | intros [X Y]]; fin; intuition (fin); fail).
Qed.

Lemma pres_Q_done s ac s' : Inv s -> step current s ac = Some s' ->
  forall a, In (EDone a) (qall s') <-> (dpush s' a = 1 /\ dpop s' a = 0).
Proof.
  intros I H a0. pose proof (Q_done _ I a0) as Q. pose proof (Q_nd _ I) as QN. pose proof (A_dp _ I) as QC. start I H.
  all: qsimp; try exact Q; qeqs; try exact Q.
  all: try newarm; upds; simp; try exact Q.
  all: try (rewrite in_app_iff; cbn [In]).
  all: try (match goal with QN : NoDup (_ :: _) |- _ => inversion QN; subst; cbn [In] in Q end).
  all: try (match goal with E : pc ?s ?e = AD1 |- _ => let X := fresh in pose proof (QC e) as X; rewrite E in X; cbn [dset] in X end).
  all: try (split; [intros X | intros [X Y]]; fin; intuition (fin); fail).
Qed.

Lemma pres_Q_nd s ac s' : Inv s -> step current s ac = Some s' -> NoDup (qall s').
Proof.
  intros I H. pose proof (Q_nd _ I) as QN. pose proof (Q_done _ I) as QD. pose proof (Q_norm _ I) as QM.
  pose proof (A_dp _ I) as QC. pose proof (E_cnt _ I) as QE. start I H.
  all: qsimp; try exact QN; qeqs; try exact QN.
  all: try (match goal with QN : NoDup (_ :: _) |- _ => inversion QN; subst; assumption end).
  - apply NoDup_snoc; [exact QN|]. intros X. apply QD in X. pose proof (QC a) as Y. rewrite Ep in Y. cbn [dset] in Y. lia.
  - apply NoDup_snoc; [exact QN|]. intros X. apply QM in X. pose proof (QE e) as Y. rewrite Ek in Y. cbn [kpost] in Y. lia.
Qed.

Lemma pres_C_cnt s ac s' : Inv s -> step current s ac = Some s' ->
  cnt s' = (Z.of_nat (nexta s') - (if is_oa2 (opc s') then 1 else 0) - Z.of_nat (cntif (fun a => decd (pc s' a)) (nexta s')))%Z.
Proof.
  intros I H. pose proof (C_cnt _ I) as Q. start I H.
  all: simp; pcs; try exact Q.
  all: try (match goal with |- context [upd (pc ?s) ?a ?p] =>
              match goal with L : a < nexta s |- _ => let X := fresh in pose proof (cntif_pc_upd s a p L) as X; pcs; cbn [decd] in X; lia end end).
  - cbn [cntif]. rewrite upd_eq. cbn [decd]. rewrite (cntif_ext _ (fun a => decd (pc s a))); [lia|].
    intros i Li. rewrite upd_neq by lia. reflexivity.
  - lia.
Qed.
