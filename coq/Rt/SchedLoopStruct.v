(* SchedLoopModel: structural invariants of the worker threads (TInv): a worker thread has no user code of its own,
   its stack is empty outside run_coroutine, and what it holds in local variables (hand) is what the control point
   of the loop says. *)
From Coq Require Import List Arith ZArith NArith Bool Lia.
Import ListNotations.
Require Import MayV.Rt.SchedModel MayV.Rt.SchedInv MayV.Rt.SchedTac MayV.Rt.SchedThm MayV.Rt.SchedLoopModel MayV.Rt.SchedLoopBase MayV.Rt.SchedLoopInv.

Lemma step_resume_idle s t c s' : step s (Resume t c) = Some s' -> stk s t = [] -> tpc s t = Idle ->
  stk s' t = [FRun c] /\ tpc s' t = Idle /\ hand s' t = rm c (hand s t) /\ gq s' = gq s /\ lq s' = lq s /\ nw s' = nw s.
Proof.
  intros H S T. unfold step in H. destruct (memb c (hand s t)); [|discriminate].
  destruct (gst (co s c)); try discriminate; rewrite S in H; unfold cur in H; rewrite S in H; cbn [apc] in H; rewrite T in H;
    inversion H; subst; clear H; unfold park_ret;
    repeat match goal with |- context [match ?x with _ => _ end] => destruct x end;
    cbn; rewrite ?upd_eq; repeat split; try reflexivity; try assumption.
Qed.

Lemma wpc_ctl_base P l b l0 : wpc (ctl_base P l b l0) = wpc l0.
Proof. unfold ctl_base. dmatch; reflexivity. Qed.

Lemma wpc_ctl_other P l a s' w : actor a <> Some w -> wpc (ctl P l a s') w = wpc l w.
Proof.
  intro NA. destruct a; cbn [actor] in NA; unfold ctl; try (rewrite wpc_ctl_base; reflexivity);
    dmatch; unfold grabbed, taken; dmatch; lsimp; rewrite ?upd_neq by congruence; reflexivity.
Qed.

(* the SchedModel action of a worker-loop action is executed by that worker's thread *)
Lemma proj_thread l a b : proj l a = Some b -> (forall x, a <> LBase x) -> thread_of b = actor a.
Proof.
  intros H NB. destruct a; cbn [proj] in H; try discriminate H; try (inversion H; subst; reflexivity).
  - exfalso. eapply NB; reflexivity.
  - destruct (lq (base l) w); [discriminate|]. inversion H; reflexivity.
  - destruct (hand (base l) w); [discriminate|]. inversion H; reflexivity.
  - destruct (wpc l w); try discriminate. inversion H; reflexivity.
Qed.

Lemma lstep_inv P l a l' : lstep P l a = Some l' ->
  guard P l a = true /\ exists s', l' = ctl P l a s' /\
  match proj l a with Some b => step (base l) b = Some s' | None => s' = base l end.
Proof.
  unfold lstep. destruct (guard P l a); [|discriminate].
  destruct (proj l a) as [b|]; [destruct (step (base l) b) as [s'|]; [|discriminate]|]; intro H; inversion H; eauto.
Qed.

(* an action of somebody else leaves stack, control point and hand of thread w alone *)
Lemma lstep_thread_frame P l a l' w : lstep P l a = Some l' -> actor a <> Some w ->
  (forall b, a = LBase b -> thread_of b <> Some w) ->
  stk (base l') w = stk (base l) w /\ tpc (base l') w = tpc (base l) w /\ hand (base l') w = hand (base l) w.
Proof.
  intros H NA NB. apply lstep_proj in H. destruct (proj l a) as [b|] eqn:E; [|rewrite H; auto].
  eapply step_other_thread; [exact H|].
  destruct a; try (rewrite (proj_thread _ _ _ E) by discriminate; exact NA).
  cbn in E. inversion E; subst. apply NB. reflexivity.
Qed.

Definition hand_ok (n : nat) (p : lpc) (h : list nat) : Prop :=
  match p with
  | PWait | PSleep | PEvs _ | PRun | PHas | PTim => h = []
  | PIo _ | PRes _ => exists c, h = [c]
  | PPut _ => h <> []
  | PStPut => 2 <= length h
  | PSteal i => i < maxst n \/ h = []
  | PColl _ | PCo _ => True
  end.

Record TInv (n : nat) (l : lst) : Prop := {
  t_nw : nw (base l) = n;
  t_tpc : forall w, w < n -> tpc (base l) w = Idle;
  t_stk : forall w, w < n -> is_co (wpc l w) = false -> stk (base l) w = [];
  t_hand : forall w, w < n -> hand_ok n (wpc l w) (hand (base l) w) }.

Lemma thread_ok_worker l t : thread_ok l t = true -> t < nw (base l) -> is_co (wpc l t) = true /\ stk (base l) t <> [].
Proof.
  unfold thread_ok. intros H L. apply Nat.ltb_lt in L. rewrite L in H. apply andb_true_iff in H. destruct H as [A B].
  split; [exact A|]. destruct (stk (base l) t); [discriminate B | discriminate].
Qed.

Lemma base_ok_thread P l b t : base_ok P l b = true -> thread_of b = Some t -> t < nw (base l) ->
  is_co (wpc l t) = true /\ stk (base l) t <> [].
Proof.
  intros G T L. destruct b; cbn [thread_of] in T; inversion T; subst; cbn [base_ok] in G;
    try discriminate G; try (apply thread_ok_worker; assumption).
  - apply andb_true_iff in G. destruct G as [_ G]. apply thread_ok_worker; assumption.
  - apply Nat.leb_le in G. lia.
Qed.

Lemma rm_head_nodup c r : NoDup (c :: r) -> rm c (c :: r) = r.
Proof.
  intro N. inversion N; subst. unfold rm. cbn. destruct (Nat.eq_dec c c); [|congruence].
  apply notin_remove. assumption.
Qed.


Lemma tinv_actor P n l a s' w : TInv n l -> NoDup (hand (base l) w) -> w < n -> actor a = Some w -> guard P l a = true ->
  match proj l a with Some b => step (base l) b = Some s' | None => s' = base l end ->
  tpc s' w = Idle /\ (is_co (wpc (ctl P l a s') w) = false -> stk s' w = []) /\
  hand_ok n (wpc (ctl P l a s') w) (hand s' w).
Proof.
  intros [I1 I2 I3 I4] ND L A G S. specialize (I2 w L). specialize (I3 w L). specialize (I4 w L).
  destruct a; cbn [actor] in A; try discriminate A; inversion A; subst w0; clear A; cbn [guard] in G; gsplit G.
  all: match goal with G : _ |- _ => progress pcs G end.
  all: try rewrite E in I3; try rewrite E in I4; cbn [is_co hand_ok] in I3, I4; try specialize (I3 eq_refl).
  all: cbn [proj] in S; unfold ctl; rewrite ?E.
  - (* LPoll *) subst s'. destruct (evfd l w || io || is_zero (tmo l w)); lsimp; rewrite upd_eq; cbn; auto.
  - subst s'. lsimp; rewrite upd_eq; cbn; auto.
  - subst s'. lsimp; rewrite upd_eq; cbn; auto.
  - (* LIoTake *) apply step_takeslot in S. destruct S as (_ & H1 & _ & _ & H2 & H3 & _). rewrite I4 in H1.
    rewrite H2, H3, H1. destruct (work_steal P); lsimp; rewrite upd_eq; cbn; eauto.
  - subst s'. lsimp; rewrite upd_eq; cbn; auto.
  - subst s'. lsimp; rewrite upd_eq; cbn; auto.
  - (* LBulkGrab *) apply step_grab in S. destruct S as (_ & c & _ & _ & _ & H2 & H3 & _). rewrite H2, H3.
    unfold grabbed; dmatch; lsimp; rewrite E; cbn; auto.
  - (* LBulkEnd *) subst s'. destruct (hand (base l) w) eqn:EH; [destruct r|]; lsimp; rewrite upd_eq; cbn; rewrite ?EH; auto.
    repeat split; auto. discriminate.
  - (* LPut PIo *) apply step_put in S. destruct S as (_ & c & r & H0 & _ & H1 & _ & _ & H2 & H3 & _).
    destruct I4 as [c' I4]. rewrite I4 in H0. inversion H0; subst. rewrite I4 in H1. rewrite rm_head_nodup in H1 by (rewrite <- I4; exact ND).
    rewrite H1, H2, H3. lsimp; rewrite upd_eq; cbn; auto.
  - (* LPut PPut *) apply step_put in S. destruct S as (_ & c & r0 & H0 & _ & H1 & _ & _ & H2 & H3 & _).
    rewrite H2, H3. destruct (hand s' w) eqn:EH; cbn [is_nil]; lsimp; rewrite ?upd_eq, ?E; cbn; auto.
    repeat split; auto. discriminate.
  - (* LPut PStPut *) apply step_put in S. destruct S as (_ & c & r0 & H0 & _ & H1 & _ & _ & H2 & H3 & _).
    rewrite H0 in H1. rewrite rm_head_nodup in H1 by (rewrite <- H0; exact ND). rewrite H0 in I4. cbn in I4.
    rewrite H2, H3, H1. destruct r0 as [|x [|y r1]]; cbn in I4; [lia| |]; lsimp; rewrite ?upd_eq, ?E; cbn; eauto.
    repeat split; auto. lia.
  - (* LPop *) destruct (lq (base l) w) eqn:EL.
    + subst s'. destruct (work_steal P); lsimp; rewrite upd_eq; cbn; auto.
    + apply step_grab in S. destruct S as (_ & c & H0 & H1 & _ & H2 & H3 & _). rewrite I4 in H1. cbn in H1.
      rewrite H2, H3, H1. unfold taken. lsimp; rewrite upd_eq; cbn; eauto.
  - (* LResume *) destruct (hand (base l) w) eqn:EH; [discriminate G1|].
    apply step_resume_idle in S; [|assumption|assumption]. destruct S as (H1 & H2 & _).
    rewrite H2. lsimp; rewrite upd_eq; cbn; repeat split; auto. discriminate.
  - (* LCoRet *) subst s'. apply andb_true_iff in G1. destruct G1 as [G1 G2].
    destruct (stk (base l) w); [|discriminate G1]. destruct (hand (base l) w); [|discriminate G2].
    destruct r; try destruct (budgeted P); lsimp; rewrite ?upd_eq; dmatch; cbn; auto.
  - (* LHas *) subst s'. destruct (lq (base l) w); cbn [is_nil]; lsimp; rewrite upd_eq; cbn; auto.
  - (* LStGrab *) rewrite E in S. apply step_grab in S. destruct S as (_ & c & _ & _ & _ & H2 & H3 & _). rewrite H2, H3.
    unfold taken; dmatch; lsimp; rewrite E; cbn; repeat split; auto; left; rewrite <- I1; apply Nat.ltb_lt; assumption.
  - (* LStEnd *) subst s'. destruct (hand (base l) w) as [|x [|y r]] eqn:EH; lsimp; rewrite upd_eq; cbn; rewrite ?EH; eauto.
    repeat split; auto. cbn. lia.
  - (* LStOut *) subst s'. lsimp; rewrite upd_eq; cbn. repeat split; auto.
    destruct I4 as [I4|I4]; [|exact I4]. apply Nat.leb_le in G1. rewrite I1 in G1. lia.
  - (* LTmTake *) apply step_takeslot in S. destruct S as (_ & H1 & _ & _ & H2 & H3 & _). rewrite I4 in H1.
    rewrite H2, H3, H1. lsimp; rewrite upd_eq; cbn; eauto.
  - subst s'. lsimp; rewrite upd_eq; cbn; auto.
Qed.

Lemma option_nat_dec (a b : option nat) : {a = b} + {a <> b}.
Proof. decide equality. apply Nat.eq_dec. Qed.

Lemma tinv_step P n l a l' : LReach P n l -> TInv n l -> lstep P l a = Some l' -> TInv n l'.
Proof.
  intros R I H. pose proof (lstep_nw _ _ _ _ H) as NW.
  pose proof (iP _ (inv_reach _ _ (lreach_base _ _ _ R))) as PI.
  assert (W : forall w, w < n -> tpc (base l') w = Idle /\ (is_co (wpc l' w) = false -> stk (base l') w = []) /\
                                 hand_ok n (wpc l' w) (hand (base l') w)).
  { intros w L. destruct (option_nat_dec (actor a) (Some w)) as [A|NA].
    - destruct (lstep_inv _ _ _ _ H) as (G & s' & -> & S). rewrite base_ctl.
      eapply tinv_actor; eauto. apply (n_hand _ PI).
    - destruct I as [I1 I2 I3 I4].
      assert (WP : wpc l' w = wpc l w).
      { destruct (lstep_inv _ _ _ _ H) as (_ & s' & -> & _). apply wpc_ctl_other. exact NA. }
      rewrite WP.
      destruct a as [b| | | | | | | | | | | | | | | | | | | | | |];
        try (destruct (lstep_thread_frame _ _ _ _ w H NA ltac:(intros ? X; discriminate X)) as (F1 & F2 & F3);
             rewrite F1, F2, F3; auto).
      destruct (option_nat_dec (thread_of b) (Some w)) as [T|NT].
      + destruct (lstep_inv _ _ _ _ H) as (G & s' & E & S). cbn [guard proj] in G, S.
        destruct (base_ok_thread _ _ _ _ G T ltac:(rewrite I1; exact L)) as (C1 & C2).
        assert (B : base l' = s') by (rewrite E; apply base_ctl). rewrite B.
        rewrite (step_own_tpc _ _ _ _ S C2). split; [auto|]. rewrite C1. split; [discriminate|].
        destruct (wpc l w); try discriminate C1. exact I.
      + destruct (lstep_thread_frame _ _ _ _ w H NA ltac:(intros ? X; inversion X; subst; exact NT)) as (F1 & F2 & F3).
        rewrite F1, F2, F3; auto. }
  destruct I as [I1 I2 I3 I4]. split.
  - congruence.
  - intros w L. apply W, L.
  - intros w L. apply W, L.
  - intros w L. apply W, L.
Qed.

Lemma tinv_init n : TInv n (linit n).
Proof. split; cbn; auto. Qed.

Lemma tinv_reach P n l : LReach P n l -> TInv n l.
Proof. induction 1; [apply tinv_init | eapply tinv_step; eauto]. Qed.
