(* SchedLoopModel, the loop BEFORE the budget (budgeted P = false): a coroutine that waits in a run queue of worker w (global
   or local) is taken out of w's LOCAL queue - by w's local.pop, which resumes it next, or by a thief - before w has completed
   two more rounds of its loop (work_steal): run_queued_tasks returned only with an empty local queue.  (That a round
   completes at all was the flaw: Rt/SchedLoopRefute.v.)  With the budget a round may end with a non-empty local queue; the
   bounds for the code as it is are in Rt/SchedLoopBudget.v.  The lemmas about stealing at the end hold for both. *)
From Coq Require Import List Arith ZArith NArith Bool Lia.
Import ListNotations.
Require Import MayV.Rt.SchedModel MayV.Rt.SchedInv MayV.Rt.SchedTac MayV.Rt.SchedThm MayV.Rt.SchedLoopModel MayV.Rt.SchedLoopBase
  MayV.Rt.SchedLoopInv MayV.Rt.SchedLoopStruct MayV.Rt.SchedLoopQueues MayV.Rt.SchedLoopSleep MayV.Rt.SchedLoopLive.

(* control points from which run_queued_tasks cannot return before local.pop / has_tasks has found the local queue empty *)
Definition in_region (p : lpc) : bool :=
  match p with PSteal _ | PTim | PRes RTim | PCo RTim => false | _ => true end.

Definition StA l w c := In c (gq (base l) w).
Definition StB l w c := In c (hand (base l) w) /\ exists r, wpc l w = PColl r \/ wpc l w = PPut r.
Definition StC l w c := In c (lq (base l) w) /\ in_region (wpc l w) = true.

Lemma region_actor P l a s' w : work_steal P = true -> budgeted P = false -> actor a = Some w -> guard P l a = true ->
  in_region (wpc l w) = true -> in_region (wpc (ctl P l a s') w) = true \/ lq (base l) w = [].
Proof.
  intros WS BU A G. destruct a; cbn [actor] in A; try discriminate A; inversion A; subst w0; clear A; cbn [guard] in G; gsplit G.
  all: match goal with G : _ |- _ => progress pcs G end.
  all: unfold ctl; rewrite ?E, ?WS, ?BU.
  all: try (dmatch; unfold grabbed, taken; dmatch; lsimp; rewrite ?upd_eq, ?E; cbn [in_region]; intro X; try discriminate X; auto; fail).
  intros _. destruct (lq (base l) w); cbn [is_nil]; lsimp; rewrite upd_eq; cbn; auto.
Qed.

Lemma stageA_step P l a l' w c : lstep P l a = Some l' -> StA l w c -> StA l' w c \/ StB l' w c.
Proof.
  unfold StA, StB. intros H I. destruct (lstep_gq2 _ _ _ _ w H) as [A|[(x & A & _ & ->)|(x & b & A & _)]].
  - left. congruence.
  - rewrite A in I. destruct I as [->|I]; [right | left; exact I].
    destruct (lstep_inv _ _ _ _ H) as (G & s' & -> & S). rewrite base_ctl. cbn [proj guard] in S, G. gsplit G. pcs G1.
    apply step_grab in S. destruct S as (_ & c' & A' & HH & _). cbn [getq] in A'. rewrite A in A'. inversion A'; subst c'.
    split; [rewrite HH; apply in_or_app; right; now left|]. exists r. left.
    unfold ctl, grabbed. dmatch; lsimp; exact E.
  - left. rewrite A. apply in_or_app. now left.
Qed.

Lemma stageB_step P n l a l' w c : LReach P n l -> w < n -> lstep P l a = Some l' -> StB l w c ->
  StB l' w c \/ (In c (lq (base l') w) /\ exists r, wpc l' w = PColl r \/ wpc l' w = PPut r).
Proof.
  unfold StB. intros R L H (I & r & PC). pose proof (lreach_nw _ _ _ R) as NW.
  destruct (option_nat_dec (actor a) (Some w)) as [A|NA].
  - destruct (lstep_inv _ _ _ _ H) as (G & s' & -> & S). rewrite base_ctl.
    destruct a; cbn [actor] in A; try discriminate A; inversion A; subst w0; clear A; cbn [guard proj] in G, S; gsplit G.
    all: try (destruct PC as [PC|PC]; rewrite PC in G1; discriminate G1).
    + (* LBulkGrab *) apply step_grab in S. destruct S as (_ & x & _ & HH & _). left.
      split; [rewrite HH; apply in_or_app; now left|]. exists r. unfold ctl, grabbed. dmatch; lsimp; exact PC.
    + (* LBulkEnd *) subst s'. left. split; [exact I|]. destruct PC as [PC|PC]; [|rewrite PC in G1; discriminate G1].
      exists r. right. unfold ctl. rewrite PC. destruct (hand (base l) w); [destruct I|]. lsimp. now rewrite upd_eq.
    + (* LPut *) destruct PC as [PC|PC]; [rewrite PC in G1; discriminate G1|].
      apply step_put in S. destruct S as (_ & x & rest & HH & LQ & HR & _).
      assert (PC' : exists r0, wpc (ctl P l (LPut w) s') w = PColl r0 \/ wpc (ctl P l (LPut w) s') w = PPut r0).
      { exists r. unfold ctl. rewrite PC. destruct (is_nil (hand s' w)); lsimp; [rewrite upd_eq; now left | now right]. }
      destruct (Nat.eq_dec c x) as [->|NX].
      * right. split; [rewrite LQ; apply in_or_app; right; now left | exact PC'].
      * left. split; [rewrite HR; apply in_rm; auto | exact PC'].
  - assert (NB : forall b, a = LBase b -> thread_of b <> Some w).
    { intros b -> T. destruct (lstep_inv _ _ _ _ H) as (G & _). cbn [guard] in G.
      destruct (base_ok_thread _ _ _ _ G T ltac:(rewrite NW; exact L)) as (C & _).
      destruct PC as [PC|PC]; rewrite PC in C; discriminate C. }
    destruct (lstep_thread_frame _ _ _ _ w H NA NB) as (_ & _ & F). left. rewrite F. split; [exact I|].
    destruct (lstep_inv _ _ _ _ H) as (_ & s' & -> & _). rewrite wpc_ctl_other by exact NA. eauto.
Qed.

Lemma local_step P l a l' w c : lstep P l a = Some l' -> In c (lq (base l) w) ->
  ntake l c < ntake l' c \/ In c (lq (base l') w).
Proof.
  intros H I. destruct (lstep_lq _ _ _ _ w H) as [A|[(x & A & B & _)|(x & A & _)]].
  - right. congruence.
  - rewrite A in I. destruct I as [->|I]; [left; lia | right; exact I].
  - right. rewrite A. apply in_or_app. now left.
Qed.

Lemma stageC_step P l a l' w c : work_steal P = true -> budgeted P = false -> lstep P l a = Some l' -> StC l w c ->
  ntake l c < ntake l' c \/ (StC l' w c /\ nsel l' w = nsel l w).
Proof.
  unfold StC. intros WS BU H (I & RG). destruct (local_step _ _ _ _ w c H I) as [A|A]; [now left|]. right.
  assert (NS : nsel l' w = nsel l w).
  { destruct (lstep_nsel _ _ _ _ w H) as [[X _]|(nx & _ & X & _)]; [exact X | rewrite X in RG; discriminate RG]. }
  split; [|exact NS]. split; [exact A|].
  destruct (lstep_inv _ _ _ _ H) as (G & s' & -> & _).
  destruct (option_nat_dec (actor a) (Some w)) as [AC|NA].
  - destruct (region_actor P l a s' w WS BU AC G RG) as [X|X]; [exact X | rewrite X in I; destruct I].
  - rewrite wpc_ctl_other by exact NA. exact RG.
Qed.

(* the stage of coroutine c relative to the start state l0 *)
Definition Stg (l0 l : lst) (w c : nat) : Prop :=
  ntake l0 c < ntake l c
  \/ (StA l w c /\ ncoll l w = ncoll l0 w)
  \/ ((StB l w c \/ StC l w c) /\ nsel l w <= nsel l0 w + 1)
  \/ (In c (lq (base l) w) /\ nsel l w = nsel l0 w).

Lemma lruns_snoc P tr a l l' : lruns P l (tr ++ [a]) = Some l' -> exists l1, lruns P l tr = Some l1 /\ lstep P l1 a = Some l'.
Proof.
  rewrite lruns_app. destruct (lruns P l tr) as [l1|]; [|discriminate]. cbn [lruns].
  destruct (lstep P l1 a) as [l2|] eqn:E; [|discriminate]. intro H. inversion H; subst. eauto.
Qed.

Lemma tmdone_pc P l w nx l' : lstep P l (LTmDone w nx) = Some l' -> wpc l' w = PWait.
Proof.
  intro H. destruct (lstep_inv _ _ _ _ H) as (_ & s' & -> & _). unfold ctl. lsimp. now rewrite upd_eq.
Qed.

Lemma stage_inv P n w c l0 : work_steal P = true -> budgeted P = false -> LReach P n l0 -> w < n ->
  In c (gq (base l0) w) \/ In c (lq (base l0) w) ->
  forall tr l, lruns P l0 tr = Some l -> Stg l0 l w c.
Proof.
  intros WS BU R0 L START. induction tr as [|a tr IH] using rev_ind; intros l H.
  - cbn in H. inversion H; subst. destruct START as [S|S]; [right; left; split; [exact S | reflexivity] | right; right; right; auto].
  - apply lruns_snoc in H. destruct H as (l1 & H1 & S). specialize (IH l1 H1).
    assert (R1 : LReach P n l1) by (eapply lruns_reach; eauto).
    destruct (lruns_mono _ _ _ _ H1 w c) as (_ & _ & _ & M1 & _).
    pose proof (lstep_ntake_mono _ _ _ _ c S) as M2.
    destruct IH as [D|[(A & NC)|[(BC & NS)|(C0 & NS)]]].
    + left. lia.
    + (* stage A *)
      assert (NS : nsel l1 w <= nsel l0 w + 1).
      { destruct (le_lt_dec (nsel l0 w + 2) (nsel l1 w)) as [X|X]; [|lia].
        pose proof (round_collects P n w tr WS (or_introl BU) l0 l1 R0 H1 X). lia. }
      destruct (stageA_step _ _ _ _ w c S A) as [X|X].
      * right; left. split; [exact X|].
        destruct (lstep_ncoll _ _ _ _ w S) as [Y|(_ & Y & _)]; [congruence | unfold StA in A; rewrite Y in A; destruct A].
      * right; right; left. split; [left; exact X|].
        destruct (lstep_nsel _ _ _ _ w S) as [[Y _]|(nx & -> & _)]; [lia|].
        apply tmdone_pc in S. destruct X as (_ & r & [X|X]); rewrite S in X; discriminate X.
    + (* stages B, C *)
      destruct BC as [B|C].
      * assert (NS' : nsel l w = nsel l1 w).
        { destruct (lstep_nsel _ _ _ _ w S) as [[Y _]|(nx & _ & Y & _)]; [exact Y|].
          destruct B as (_ & r & [B|B]); rewrite B in Y; discriminate Y. }
        right; right; left. split; [|lia].
        destruct (stageB_step _ _ _ _ _ w c R1 L S B) as [X|(X & r & Y)]; [now left | right].
        split; [exact X|]. destruct Y as [Y|Y]; rewrite Y; reflexivity.
      * destruct (stageC_step _ _ _ _ w c WS BU S C) as [X|(X & Y)]; [left; lia|].
        right; right; left. split; [now right | lia].
    + (* local, round boundary not yet crossed *)
      destruct (local_step _ _ _ _ w c S C0) as [X|X]; [left; lia|].
      destruct (lstep_nsel _ _ _ _ w S) as [[Y _]|(nx & -> & _ & Y & _)].
      * right; right; right. split; [exact X | lia].
      * right; right; left. split; [|lia]. right. split; [exact X|]. apply tmdone_pc in S. now rewrite S.
Qed.

(* THE bound in rounds: a coroutine in the global or in the local queue of worker w has been taken out of w's local queue -
   by w (which resumes it next) or by a thief - when w has completed two more rounds (select calls) of its loop *)
Theorem queued_coroutine_taken_within_two_rounds P n w c tr l l' : work_steal P = true -> budgeted P = false -> LReach P n l -> w < n ->
  lruns P l tr = Some l' -> In c (gq (base l) w) \/ In c (lq (base l) w) ->
  nsel l w + 2 <= nsel l' w -> ntake l c < ntake l' c.
Proof.
  intros WS BU R L H START B.
  destruct (stage_inv P n w c l WS BU R L START tr l' H) as [D|[(A & NC)|[(_ & NS)|(_ & NS)]]]; [exact D | | lia | lia].
  pose proof (round_collects P n w tr WS (or_introl BU) l l' R H B). lia.
Qed.

(* ---- what stealing adds ---- *)
(* a thief v takes a batch from the front of the victim's local queue into its hand (LStGrab, ntake); the batch but its
   last element goes to v's own local queue - which was empty: v steals only then -, the last one is resumed at once.  So a
   stolen coroutine is next in the thief's local queue (and the bound above applies to the thief) or about to be resumed *)
Definition StS l v c := In c (hand (base l) v) /\ ((exists i, wpc l v = PSteal i) \/ wpc l v = PStPut).

Lemma stolen_step P n l a l' v c : LReach P n l -> v < n -> lstep P l a = Some l' -> StS l v c ->
  StS l' v c \/ In c (lq (base l') v) \/ (wpc l' v = PRes RSt /\ hand (base l') v = [c]).
Proof.
  unfold StS. intros R L H (I & PC). pose proof (lreach_nw _ _ _ R) as NW.
  pose proof (n_hand _ (iP _ (inv_reach _ _ (lreach_base _ _ _ R))) v) as ND.
  destruct (option_nat_dec (actor a) (Some v)) as [A|NA].
  - destruct (lstep_inv _ _ _ _ H) as (G & s' & -> & S). rewrite base_ctl.
    destruct a; cbn [actor] in A; try discriminate A; inversion A; subst w; clear A; cbn [guard proj] in G, S; gsplit G.
    all: try (destruct PC as [[i PC]|PC]; rewrite PC in G1; discriminate G1).
    + (* LPut at PStPut *) destruct PC as [[i PC]|PC]; [rewrite PC in G1; discriminate G1|].
      apply step_put in S. destruct S as (_ & x & rest & HH & LQ & HR & _).
      rewrite HH in HR, ND, I. rewrite rm_head_nodup in HR by exact ND.
      destruct I as [->|I]; [right; left; rewrite LQ; apply in_or_app; right; now left|].
      unfold ctl. rewrite PC, HR. destruct rest as [|y [|z rest']]; [destruct I| |].
      * right; right. destruct I as [->|[]]. lsimp. rewrite upd_eq. auto.
      * left. lsimp. rewrite PC. split; [exact I | now right].
    + (* LStGrab *) destruct PC as [[i PC]|PC]; [|rewrite PC in G1; discriminate G1]. rewrite PC in S.
      apply step_grab in S. destruct S as (_ & x & _ & HH & _). left. split; [rewrite HH; apply in_or_app; now left|].
      left. exists i. unfold ctl, taken. rewrite PC. dmatch; lsimp; exact PC.
    + (* LStEnd *) subst s'. destruct PC as [[i PC]|PC]; [|rewrite PC in G1; discriminate G1].
      unfold ctl. rewrite PC. destruct (hand (base l) v) as [|x [|y rest]] eqn:EH; [destruct I| |].
      * right; right. destruct I as [->|[]]. lsimp. rewrite upd_eq. auto.
      * left. lsimp. rewrite upd_eq. split; [exact I | now right].
    + (* LStOut *) subst s'. exfalso. destruct PC as [[i PC]|PC]; [|rewrite PC in G1; discriminate G1].
      pose proof (t_hand _ _ (tinv_reach _ _ _ R) v L) as HO. rewrite PC in HO, G1. cbn [hand_ok] in HO.
      apply Nat.leb_le in G1. rewrite NW in G1. destruct HO as [HO|HO]; [lia | rewrite HO in I; destruct I].
  - assert (NB : forall b, a = LBase b -> thread_of b <> Some v).
    { intros b -> T. destruct (lstep_inv _ _ _ _ H) as (G & _). cbn [guard] in G.
      destruct (base_ok_thread _ _ _ _ G T ltac:(rewrite NW; exact L)) as (C & _).
      destruct PC as [[i PC]|PC]; rewrite PC in C; discriminate C. }
    destruct (lstep_thread_frame _ _ _ _ v H NA NB) as (_ & _ & F). left. rewrite F. split; [exact I|].
    destruct (lstep_inv _ _ _ _ H) as (_ & s' & -> & _). rewrite wpc_ctl_other by exact NA. exact PC.
Qed.

(* the thief's hand after the steal that took c *)
Lemma steal_takes_into_hand P n l v l' : LReach P n l -> lstep P l (LStGrab v) = Some l' ->
  exists i c, wpc l v = PSteal i /\ lq (base l) (victim n v i) = c :: lq (base l') (victim n v i) /\
              ntake l' c = S (ntake l c) /\ StS l' v c.
Proof.
  intros R H. pose proof (lreach_nw _ _ _ R) as NW.
  destruct (lstep_inv _ _ _ _ H) as (G & s' & -> & S). rewrite base_ctl. cbn [guard proj] in G, S. gsplit G.
  destruct (wpc l v) eqn:PC; try discriminate G1. rewrite NW in S.
  apply step_grab in S. destruct S as (_ & c & A & HH & _). cbn [getq] in A. exists i, c. split; [reflexivity|].
  split; [exact A|]. split.
  - unfold ctl. rewrite PC, NW, A. unfold taken, inc, hd_error. lsimp. now rewrite upd_eq.
  - split; [rewrite base_ctl, HH; apply in_or_app; right; now left|]. left. exists i.
    unfold ctl, taken. rewrite PC. dmatch; lsimp; exact PC.
Qed.
