(* Differential interpreter: an operation sequence recorded from the REAL coroutine_local! (harness
   binary d_local) is executed on LocalModel through `step`; the outputs (values seen, whether the
   initialiser ran, drop counts at the end of a coroutine, which pooled stack a spawn got) must be the
   ones the implementation produced.  Input: cap :: ids :: ops with
     1 q            spawn into slot q                      -> index of the generator (by first appearance) if ids = 1
                    (the harness compares stack identities only when no generator is ever discarded and
                    freed, i.e. cap >= number of slots: a freed stack's address may be handed out again), else 0
     2 q t k        `with` of key k by slot q on thread t  -> value, 1 if the initialiser ran
     3 q t k v      store v through `with`                 -> 1 if the initialiser ran
     4 q t          slot q ends (resumed on t)             -> drops of keys 0..3
     5 t k          `with` in thread context               -> value, initialiser ran
     6 t k v        store in thread context                -> initialiser ran
     7 q t          slot q yields explicitly (yield_now), is running on t afterwards
   Between its operations a coroutine is suspended (in the real run: parked in its command channel, or
   yield_now; here: Call BYield / Wake - by theorem local_map_frame no kind of suspension touches a map)
   and is resumed by whichever worker picks it up: t is the worker observed in the real run (migration
   included).  An operation the model does
   not allow ends the output with -1. *)
From Coq Require Import List Arith Bool ZArith Lia.
Import ListNotations.
Require Import MayV.Rt.LocalModel.
Open Scope Z_scope.

Record ist := mki {
  ms : st;                 (* model state *)
  slotm : nat -> nat;      (* slot -> coroutine id of its current incarnation *)
  nextc : nat;
  nextg : nat;             (* next generator created when the pool is empty *)
  seen : list nat }.       (* generators in order of first use *)

Fixpoint pos (g : nat) (l : list nat) (i : nat) : option nat :=
  match l with [] => None | x :: r => if Nat.eqb x g then Some i else pos g r (S i) end.

Definition zn := Z.to_nat.
Definition zo (o : option Z) : Z := match o with Some v => v | None => -7 end.

(* bring coroutine c to its body on thread t *)
Definition pre (s : st) (t c : nat) : list action :=
  match pcm s c with PNew => [Resume t c] | _ => [Resume t c; Back c; After c] end.
(* ... and let it yield again *)
Definition post (c : nat) : list action := [Call c BYield; Wake c].

Fixpoint drun (cf : cfg) (ids : bool) (i : ist) (l : list Z) {struct l} : list Z :=
  match l with
  | 1 :: q :: r =>
      let s := ms i in
      let g := match pool s with g :: _ => g | [] => nextg i end in
      let ng := match pool s with _ :: _ => nextg i | [] => S (nextg i) end in
      let c := nextc i in
      match step cf s (Spawn c g) with
      | Some s' =>
          let (sn, ix) := match pos g (seen i) 0 with Some ix => (seen i, ix) | None => (seen i ++ [g], length (seen i)) end in
          (if ids then Z.of_nat ix else 0) :: drun cf ids (mki s' (upd (slotm i) (zn q) c) (S c) ng sn) r
      | None => [-1]
      end
  | 2 :: q :: t :: k :: r =>
      let s := ms i in let c := slotm i (zn q) in
      match run cf s (pre s (zn t) c ++ [With (zn t) (zn k)]) with
      | Some s1 =>
          match run cf s1 (post c) with
          | Some s2 => zo (lastrm s1 (zn t)) :: Z.of_nat (ninitm s1 c (zn k) - ninitm s c (zn k))
                       :: drun cf ids (mki s2 (slotm i) (nextc i) (nextg i) (seen i)) r
          | None => [-1]
          end
      | None => [-1]
      end
  | 3 :: q :: t :: k :: v :: r =>
      let s := ms i in let c := slotm i (zn q) in
      match run cf s (pre s (zn t) c ++ [SetV (zn t) (zn k) v] ++ post c) with
      | Some s2 => Z.of_nat (ninitm s2 c (zn k) - ninitm s c (zn k)) :: drun cf ids (mki s2 (slotm i) (nextc i) (nextg i) (seen i)) r
      | None => [-1]
      end
  | 4 :: q :: t :: r =>
      let s := ms i in let c := slotm i (zn q) in
      let keep := Nat.ltb (length (pool s)) (cap cf) in
      match run cf s (pre s (zn t) c ++ [Finish c; DPut c keep; DFree c]) with
      | Some s2 => map (fun k => Z.of_nat (ndropm s2 c k)) [0; 1; 2; 3]%nat ++ drun cf ids (mki s2 (slotm i) (nextc i) (nextg i) (seen i)) r
      | None => [-1]
      end
  | 5 :: t :: k :: r =>
      let s := ms i in
      match step cf s (With (zn t) (zn k)) with
      | Some s2 => zo (lastrm s2 (zn t)) :: Z.of_nat (tninitm s2 (zn t) (zn k) - tninitm s (zn t) (zn k))
                   :: drun cf ids (mki s2 (slotm i) (nextc i) (nextg i) (seen i)) r
      | None => [-1]
      end
  | 6 :: t :: k :: v :: r =>
      let s := ms i in
      match step cf s (SetV (zn t) (zn k) v) with
      | Some s2 => Z.of_nat (tninitm s2 (zn t) (zn k) - tninitm s (zn t) (zn k)) :: drun cf ids (mki s2 (slotm i) (nextc i) (nextg i) (seen i)) r
      | None => [-1]
      end
  | 7 :: q :: t :: r =>
      let s := ms i in let c := slotm i (zn q) in
      match run cf s (pre s (zn t) c ++ post c) with
      | Some s2 => drun cf ids (mki s2 (slotm i) (nextc i) (nextg i) (seen i)) r
      | None => [-1]
      end
  | [] => []
  | _ => [-2]
  end.

Definition local_run (l : list Z) : list Z :=
  match l with
  | c :: ids :: ops => let cf := current (zn c) in drun cf (Z.eqb ids 1) (mki (init cf) (fun _ => 0%nat) 1%nat (zn c) []) ops
  | _ => []
  end.
