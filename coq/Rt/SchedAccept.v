(* Trace acceptor for SchedModel (C01 / C13): one recorded event `[code; actor; obj; val]` of the real
   runtime - actors are OS threads as numbered by the normaliser - is matched against transitions of
   SchedModel.  Visible are
     * the life-cycle events of run_coroutine (co.resume / co.yield / co.subscribed / co.panic / co.done /
       co.body / co.body_end),
     * every shared access of src/join.rs, the packet store of the closure wrapper and
       NEXT_THREAD_ID.fetch_add of schedule_global (sites bound in Rt/sched_sites.json),
     * the API-level records of the scenario (spawn / tag / fin / pan / join / is_done / cancel).
   NOT visible are the internals of the run queues (may_queue), of Park / ThreadPark and of the timer:
   the transitions that stand for them (global / local push, wakeup, Grab / Put / TakeSlot, the unpark
   issued by trigger, KStore / KSelfTake / KSkip of the kernel half) are INFERRED - taken at the
   latest moment at which a visible event needs them, and always as enabled transitions of the model,
   so that an accepted trace is a path of SchedModel (`accept_all_reach`).  What the acceptor decides
   is therefore: the nesting of resume / yield / subscribed per thread, that a coroutine is resumed only
   while its token is in a queue, a slot or a hand that releases it (never while it runs elsewhere,
   never after it is done, never before it was spawned), body entered once, the order
   packet.store < state.store(false) < to_wake.take < Done / drop_coroutine of wrapper and panic path,
   and - value-exact - every load / store / take of the Join protocol and of join()'s result slots.
   The value returned by NEXT_THREAD_ID.fetch_add is not compared (schedule_global is also reached from
   unpark and cancel, whose queue operations are inferred).

   Codes
     0 cfg(workers)
     1 sp.call(j, flags: 1 local, 8 id, id << 8)   2 sp.ret(j)   3 tag(j)   4 fin(j, v)   5 pan(j, v)
     6 jn.call(j, mode: 1 = wait)   7 jn.ret(j, code: 0 wait | kind + 4 v, kind 1 value 2 payload 3 Cancel)
     8 isd.call(j)   9 isd.ret(j, b)   10 cn.call(j)
    11 co.resume(X)  12 co.yield(X)  13 co.subscribed(X)  14 co.panic(X)  15 co.done(X)  16 co.body  17 co.body_end
    20 Join::set_panic_data panic.store      21 Join::trigger state.store   22 Join::trigger to_wake.take
    23 Join::wait state.load#0   24 Join::wait to_wake.store   25 Join::wait state.load#1   26 Join::wait to_wake.take
    27 JoinHandle::is_done state.load   28 JoinHandle::join packet.take   29 JoinHandle::join panic.take
    30 spawn_impl their_packet.store    31 schedule_global NEXT_THREAD_ID.fetch_add *)
From Coq Require Import List ZArith Bool Arith Lia.
Import ListNotations.
Require Import MayV.Rt.SchedModel.
Open Scope Z_scope.

Record aux := {
  started : bool;
  bindx : list (Z * nat);       (* coroutine identity in the trace (address) -> model coroutine *)
  pend : nat -> Z;              (* thread: first resumption of a not yet identified coroutine in progress *)
  panv : nat -> option Z;       (* coroutine: payload announced by the scenario *)
  dfr : nat -> bool;            (* thread: co.yield seen while the wrapper is about to return Done - the next event tells whether the
                                   closure returned (co.done follows) or Park::drop yielded (yield_now while the kernel half runs) *)
  ost : nat -> Z; owk : nat -> Z; opk : nat -> Z; opn : nat -> Z   (* objects of the Join words of coroutine j *) }.
Definition ast := (st * aux)%type.
Definition aux0 := {| started := false; bindx := []; pend := fun _ => 0; panv := fun _ => None; dfr := fun _ => false;
                      ost := fun _ => 0; owk := fun _ => 0; opk := fun _ => 0; opn := fun _ => 0 |}.
Definition m_init : ast := (init 0, aux0).

Definition x_started (x : aux) := {| started := true; bindx := bindx x; pend := pend x; panv := panv x; dfr := dfr x; ost := ost x; owk := owk x; opk := opk x; opn := opn x |}.
Definition x_bind (x : aux) l := {| started := started x; bindx := l; pend := pend x; panv := panv x; dfr := dfr x; ost := ost x; owk := owk x; opk := opk x; opn := opn x |}.
Definition x_pend (x : aux) m := {| started := started x; bindx := bindx x; pend := m; panv := panv x; dfr := dfr x; ost := ost x; owk := owk x; opk := opk x; opn := opn x |}.
Definition x_panv (x : aux) m := {| started := started x; bindx := bindx x; pend := pend x; panv := m; dfr := dfr x; ost := ost x; owk := owk x; opk := opk x; opn := opn x |}.
Definition x_dfr (x : aux) m := {| started := started x; bindx := bindx x; pend := pend x; panv := panv x; dfr := m; ost := ost x; owk := owk x; opk := opk x; opn := opn x |}.
Definition x_ost (x : aux) m := {| started := started x; bindx := bindx x; pend := pend x; panv := panv x; dfr := dfr x; ost := m; owk := owk x; opk := opk x; opn := opn x |}.
Definition x_owk (x : aux) m := {| started := started x; bindx := bindx x; pend := pend x; panv := panv x; dfr := dfr x; ost := ost x; owk := m; opk := opk x; opn := opn x |}.
Definition x_opk (x : aux) m := {| started := started x; bindx := bindx x; pend := pend x; panv := panv x; dfr := dfr x; ost := ost x; owk := owk x; opk := m; opn := opn x |}.
Definition x_opn (x : aux) m := {| started := started x; bindx := bindx x; pend := pend x; panv := panv x; dfr := dfr x; ost := ost x; owk := owk x; opk := opk x; opn := m |}.

Fixpoint lookup (X : Z) (l : list (Z * nat)) : option nat :=
  match l with [] => None | (y, j) :: r => if Z.eqb y X then Some j else lookup X r end.
Fixpoint bound_co (j : nat) (l : list (Z * nat)) : bool :=
  match l with [] => false | (_, i) :: r => Nat.eqb i j || bound_co j r end.

(* the object recorded for a word: bound at the first observation, compared afterwards *)
Definition bind_obj (m : nat -> Z) (j : nat) (o : Z) : option (nat -> Z) :=
  if Z.eqb (m j) 0 then Some (upd m j o) else if Z.eqb (m j) o then Some m else None.

Definition zb (v : Z) : bool := negb (Z.eqb v 0).
Definition is_some {X} (o : option X) : bool := match o with Some _ => true | None => false end.
Definition guard {X} (b : bool) (p : option X) : option X := if b then p else None.

Fixpoint index_of (c : nat) (l : list nat) : option nat :=
  match l with [] => None | x :: r => if Nat.eqb x c then Some O else option_map S (index_of c r) end.

(* ---- inferred transitions ---- *)

(* invisible steps the agent that is current on thread t still owes: global push, wakeup, the unpark of trigger *)
Fixpoint settle (fuel : nat) (s : st) (t : nat) : list action :=
  match fuel with
  | O => []
  | S f =>
    let go := match step s (AStep t) with Some s1 => AStep t :: settle f s1 t | None => [] end in
    match stk s t with
    | FPan c :: _ => match upc (co s c) with PT3 _ => go | _ => [] end
    | FKer _ _ :: _ => []
    | _ => match cur s t with
           | Some a => match apc s a with SP _ _ | SW _ | CT3 _ => go | _ => [] end
           | None => [] end
    end
  end.

(* thread a holds coroutine j in its hand in a context that gives it away: the step that does *)
Definition release_act (s : st) (j a : nat) : option action :=
  match stk s a with
  | FKer c K0 :: _ => if Nat.eqb c j then Some (KStore a) else None
  | FKer c (KG _) :: _ => if Nat.eqb c j then Some (KStep a) else None
  | FKer _ _ :: _ => None
  | FPan _ :: _ => None
  | _ => match cur s a with
         | Some g => match apc s g with SP c _ => if Nat.eqb c j then Some (AStep a) else None | _ => None end
         | None => None end
  end.

(* bring coroutine j into the hand of thread b (b has no coroutine on its stack) *)
Fixpoint avail (fuel : nat) (s : st) (j b : nat) : option (list action) :=
  match fuel with
  | O => None
  | S f =>
    match loc (co s j) with
    | LH a => if Nat.eqb a b then Some []
              else match release_act s j a with
                   | Some ac => match step s ac with
                                | Some s1 => option_map (cons ac) (avail f s1 j b)
                                | None => None end
                   | None => None end
    | LG k => match index_of j (gq s k) with
              | Some i => Some (repeat (Grab b (QG k)) (S i) ++ repeat (Put b) i)
              | None => None end
    | LL t => match index_of j (lq s t) with
              | Some i => Some (repeat (Grab b (QL t)) (S i) ++ repeat (Put b) i)
              | None => None end
    | LSlot => Some [TakeSlot b j]
    | _ => None
    end
  end.

(* thread b resumes coroutine j; a yield of j whose kind was still open on another thread was a plain yield *)
Definition resume_acts (s : st) (x : aux) (j b : nat) : option (list action * aux) :=
  match stk s b with
  | FKer c K0 :: _ => if Nat.eqb c j then Some ([KStore b; KSelfTake b; Resume b j], x) else None    (* Park::subscribe runs the coroutine itself *)
  | _ =>
    let pre := match loc (co s j) with LRun a => if dfr x a && negb (Nat.eqb a b) then Some a else None | _ => None end in
    match pre with
    | Some a => match step s (AYield a) with
                | Some s1 => match avail 4 s1 j b with
                             | Some l => Some (AYield a :: l ++ [Resume b j], x_dfr x (upd (dfr x) a false))
                             | None => None end
                | None => None end
    | None => match avail 4 s j b with
              | Some l => Some (l ++ [Resume b j], x)
              | None => None end
    end
  end.

(* a coroutine whose Blocker::park returned without a context switch saw the token: the unpark of the trigger *)
Definition token_acts (s : st) (d b : nat) : option (list action) :=
  if tok s b then Some []
  else if memb b (punp s) then Some [DoUnpark b (QG 0)]
  else match loc (co s d), upc (co s d) with
       | LRun t, CT3 w => if Nat.eqb w b then Some [AStep t; DoUnpark b (QG 0)] else None
       | LH t, PT3 w => if Nat.eqb w b then Some [AStep t; DoUnpark b (QG 0)] else None
       | _, _ => None end.

Definition top_run (s : st) (t : nat) : option nat := match stk s t with FRun c :: _ => Some c | _ => None end.
Definition top_pan (s : st) (t : nat) : option nat := match stk s t with FPan c :: _ => Some c | _ => None end.
Definition jmode_of (v : Z) : jmode := if Z.eqb v 1 then MWait else MJoin.
Definition res_code (r : res) : Z := match r with RVal v => 1 + 4 * v | RPan v => 2 + 4 * v | RCancel => 3 end.
Definition res_eqb (r : option res) (code : Z) : bool := match r with Some x => Z.eqb (res_code x) code | None => false end.

(* what one event does: model actions (all must be enabled), a check of the resulting model state, the acceptor's bookkeeping *)
Record plan := { acts : list action; post : st -> bool; nxt : aux }.
Definition P (l : list action) (p : st -> bool) (x : aux) : option plan := Some {| acts := l; post := p; nxt := x |}.
Definition tt_ (_ : st) := true.

(* the agent current on thread t is at a Join::wait / join / is_done control point for coroutine d *)
Definition agent_pc (s : st) (t : nat) : option (ag * pc) :=
  match cur s t with Some a => Some (a, apc s a) | None => None end.

(* the wait()/join() call the agent current on thread t is in *)
Definition jcall_at (s : st) (t : nat) : option (ag * nat * jpc) :=
  match agent_pc s t with
  | Some (a, InJ d) => match call_of s a d with Some p => Some (a, d, p) | None => None end
  | _ => None end.

Definition plan_ev (s0 : st) (x : aux) (e : list Z) : option plan :=
  match e with
  | [code; za; o; v] =>
    let t := Z.to_nat za in
    if Z.eqb code 0 then guard (negb (started x)) (P [] tt_ (x_started x)) else
    if negb (started x) then None else
    (* a yield whose kind was left open is decided now; then the invisible steps this thread's agent owes *)
    let pre0 := if dfr x t then (if Z.eqb code 15 then [AStep t] else [AYield t]) else [] in
    let x := if dfr x t then x_dfr x (upd (dfr x) t false) else x in
    match steps s0 pre0 with
    | None => None
    | Some s00 =>
    let pre := pre0 ++ settle 4 s00 t in
    match steps s0 pre with
    | None => None
    | Some s =>
    let ret l p x' := P (pre ++ l) p x' in
    match code with
    (* ---- scenario level ---- *)
    | 1 => let j := Z.to_nat o in
           let local := Z.testbit v 0 in
           let id := if Z.testbit v 3 then Some (Z.to_nat (Z.shiftr v 8)) else None in
           guard (negb (bound_co j (bindx x))) (ret [ASpawn t j id local] tt_ x)
    | 2 => ret [] (fun s' => match agent_pc s' t with Some (_, Idle) => true | _ => false end) x
    | 3 => let j := Z.to_nat o in
           let X := pend x t in
           guard (negb (Z.eqb X 0) && negb (bound_co j (bindx x)) && negb (is_some (lookup X (bindx x))))
             (match resume_acts s x j t with
              | Some (l, x1) => ret l (fun s' => match top_run s' t with Some c => Nat.eqb c j && Nat.eqb (bodycnt (co s' j)) 1 | None => false end)
                            (x_pend (x_bind x1 ((X, j) :: bindx x1)) (upd (pend x1) t 0))
              | None => None end)
    | 4 => match top_run s t with
           | Some c => guard (Nat.eqb c (Z.to_nat o)) (ret [AFinish t v] tt_ x)
           | None => None end
    | 5 => match top_run s t with
           | Some c => guard (Nat.eqb c (Z.to_nat o)) (ret [] tt_ (x_panv x (upd (panv x) c (Some v))))
           | None => None end
    | 6 => ret [AJoin t (Z.to_nat o) (jmode_of v)] tt_ x
    | 7 => let d := Z.to_nat o in
           match agent_pc s t with
           | Some (_, Idle) => guard (negb (is_some (jcall (co s d))) && (Z.eqb v 0 || res_eqb (jret (co s d)) v)) (ret [] tt_ x)
           | _ => None end
    | 8 => ret [AIsDone t (Z.to_nat o)] tt_ x
    | 9 => match agent_pc s t with Some (_, Idle) => ret [] tt_ x | _ => None end
    | 10 => ret [ACancel t (Z.to_nat o)] tt_ x
    (* ---- life cycle (run_coroutine) ---- *)
    | 11 => match lookup o (bindx x) with
            | None => guard (Z.eqb (pend x t) 0 && negb (Z.eqb o 0)) (ret [] tt_ (x_pend x (upd (pend x) t o)))
            | Some j => guard (Z.eqb (pend x t) 0)
                          (match resume_acts s x j t with
                           | Some (l, x1) => ret l (fun s' => match top_run s' t with Some c => Nat.eqb c j | None => false end) x1
                           | None => None end)
            end
    | 16 => guard (negb (Z.eqb (pend x t) 0)) (ret [] tt_ x)
    | 12 => match lookup o (bindx x), top_run s t with
            | Some j, Some c =>
                guard (Nat.eqb c j)
                  (match upc (co s j) with
                   | CRet => ret [] tt_ (x_dfr x (upd (dfr x) t true))
                   | _ => ret [AYield t] tt_ x end)
            | _, _ => None end
    | 13 => match lookup o (bindx x), stk s t with
            | Some j, FKer c k :: _ =>
                guard (Nat.eqb c j)
                  (match k with
                   | K0 => ret [KStore t; KSkip t; KSubscribed t] tt_ x
                   | KRe => ret [KSkip t; KSubscribed t] tt_ x
                   | KG _ => ret [KStep t; KStep t; KSubscribed t] tt_ x
                   | KW _ => ret [KStep t; KSubscribed t] tt_ x
                   | KEnd => ret [KSubscribed t] tt_ x
                   | _ => None end)
            | _, _ => None end
    | 14 => match lookup o (bindx x), top_run s t with
            | Some j, Some c => guard (Nat.eqb c j) (ret [APanic t (panv x j)] tt_ x)
            | _, _ => None end
    | 15 => match lookup o (bindx x), stk s t with
            | Some j, FKer c KD :: _ => guard (Nat.eqb c j) (ret [KDrop t] tt_ x)
            | Some j, FPan c :: _ => guard (Nat.eqb c j) (match upc (co s j) with PD => ret [AStep t] tt_ x | _ => None end)
            | _, _ => None end
    | 17 => match top_run s t with
            | Some c => match upc (co s c) with CT1 => ret [] tt_ x | _ => None end
            | None => None end
    (* ---- wrapper and panic path ---- *)
    | 30 => match top_run s t with
            | Some c => match upc (co s c), bind_obj (opk x) c o with
                        | CF _, Some m => guard (zb v) (ret [AStep t] tt_ (x_opk x m))
                        | _, _ => None end
            | None => None end
    | 20 => match top_pan s t with
            | Some c => match upc (co s c), bind_obj (opn x) c o with
                        | PP0 _, Some m => guard (zb v) (ret [AStep t] tt_ (x_opn x m))
                        | _, _ => None end
            | None => None end
    | 21 => let go c (ok : bool) := match bind_obj (ost x) c o with
                                    | Some m => guard (ok && negb (zb v)) (ret [AStep t] tt_ (x_ost x m))
                                    | None => None end in
            match stk s t with
            | FRun c :: _ => go c (match upc (co s c) with CT1 => true | _ => false end)
            | FPan c :: _ => go c (match upc (co s c) with PT1 => true | _ => false end)
            | _ => None end
    | 22 => let go c (ok : bool) := match bind_obj (owk x) c o with
                                    | Some m => guard (ok && Bool.eqb (zb v) (is_some (jwake (co s c)))) (ret [AStep t] tt_ (x_owk x m))
                                    | None => None end in
            match stk s t with
            | FRun c :: _ => go c (match upc (co s c) with CT2 => true | _ => false end)
            | FPan c :: _ => go c (match upc (co s c) with PT2 => true | _ => false end)
            | _ => None end
    (* ---- Join::wait / join / is_done ---- *)
    | 23 => match jcall_at s t with
            | Some (a, d, JW0 m) =>
                match bind_obj (ost x) d o with
                | Some mo => guard (Bool.eqb (zb v) (jstate (co s d))) (ret [AStep t] tt_ (x_ost x mo))
                | None => None end
            | Some (AT _, d, JW3 m b) =>          (* the thread's park is over: with its token, or woken without *)
                match bind_obj (ost x) d o with
                | Some mo => guard (Bool.eqb (zb v) (jstate (co s d)))
                               (ret (if tok s b then [AStep t; AStep t] else [AStep t; AFire t; AStep t]) tt_ (x_ost x mo))
                | None => None end
            | Some (AC _, d, JW3 m b) =>          (* the coroutine's park returned at once: it saw the token *)
                match bind_obj (ost x) d o, token_acts s d b with
                | Some mo, Some l => guard (Bool.eqb (zb v) (jstate (co s d))) (ret (l ++ [AStep t; AStep t]) tt_ (x_ost x mo))
                | _, _ => None end
            | _ => None end
    | 24 => match jcall_at s t with
            | Some (a, d, JW1 m) => match bind_obj (owk x) d o with
                                    | Some mo => guard (zb v) (ret [AStep t] tt_ (x_owk x mo))
                                    | None => None end
            | _ => None end
    | 25 => match jcall_at s t with
            | Some (a, d, JW2 m b) => match bind_obj (ost x) d o with
                                      | Some mo => guard (Bool.eqb (zb v) (jstate (co s d))) (ret [AStep t] tt_ (x_ost x mo))
                                      | None => None end
            | _ => None end
    | 26 => match jcall_at s t with
            | Some (a, d, JW4 m b) => match bind_obj (owk x) d o with
                                      | Some mo => guard (Bool.eqb (zb v) (is_some (jwake (co s d)))) (ret [AStep t] tt_ (x_owk x mo))
                                      | None => None end
            | _ => None end
    | 27 => match agent_pc s t with
            | Some (a, ID0 d) => match bind_obj (ost x) d o with
                                 | Some mo => guard (Bool.eqb (zb v) (jstate (co s d))) (ret [AStep t] tt_ (x_ost x mo))
                                 | None => None end
            | _ => None end
    | 28 => match jcall_at s t with
            | Some (a, d, JT1) => match bind_obj (opk x) d o with
                                  | Some mo => guard (Bool.eqb (zb v) (is_some (pkt (co s d)))) (ret [AStep t] tt_ (x_opk x mo))
                                  | None => None end
            | _ => None end
    | 29 => match jcall_at s t with
            | Some (a, d, JT2) => match bind_obj (opn x) d o with
                                  | Some mo => guard (Bool.eqb (zb v) (is_some (pan (co s d)))) (ret [AStep t] tt_ (x_opn x mo))
                                  | None => None end
            | _ => None end
    (* ---- schedule_global ---- *)
    | 31 => match stk s t with
            | FKer c K0 :: _ => ret [KFA t] tt_ x
            | FKer _ _ :: _ => ret [] tt_ x
            | FPan _ :: _ => ret [] tt_ x
            | _ => match agent_pc s t with
                   | Some (_, SG _) => ret [AStep t] tt_ x
                   | _ => ret [] tt_ x end        (* schedule_global reached from unpark / cancel *)
            end
    | _ => None
    end
    end
    end
  | _ => None
  end.

Definition accept_ev (sx : ast) (e : list Z) : option ast :=
  let (s, x) := sx in
  match e with
  | [0; _; o; _] => if started x then None else Some (init (Z.to_nat o), x_started x)
  | _ =>
    match plan_ev s x e with
    | Some p => match steps s (acts p) with
                | Some s' => if post p s' then Some (s', nxt p) else None
                | None => None end
    | None => None end
  end.

Fixpoint accept_all (sx : ast) (tr : list (list Z)) : option ast :=
  match tr with
  | [] => Some sx
  | e :: r => match accept_ev sx e with Some sx' => accept_all sx' r | None => None end
  end.

Definition final_ok (sx : ast) : bool := started (snd sx).

(* soundness: an accepted trace is a path of SchedModel *)
Lemma accept_ev_reach sx e sx' :
  (exists w, Reach w (fst sx)) -> accept_ev sx e = Some sx' -> exists w, Reach w (fst sx').
Proof.
  destruct sx as [s x]. intros [w R] H. unfold accept_ev in H.
  assert (G : forall p, plan_ev s x e = Some p ->
              match steps s (acts p) with Some s' => if post p s' then Some (s', nxt p) else None | None => None end = Some sx' ->
              exists w, Reach w (fst sx')).
  { intros p _ Q. destruct (steps s (acts p)) as [s'|] eqn:E; [|discriminate].
    destruct (post p s'); [|discriminate]. inversion Q; subst. exists w. cbn. eapply steps_reach; eauto. }
  destruct e as [|c e1]; [destruct (plan_ev s x []) eqn:Q; [eapply G; eauto | discriminate]|].
  destruct c as [|c|c].
  2,3: destruct (plan_ev s x (_ :: e1)) eqn:Q; [eapply G; eauto | discriminate].
  destruct e1 as [|a e2]; [destruct (plan_ev s x [0]) eqn:Q; [eapply G; eauto | discriminate]|].
  destruct e2 as [|o e3]; [destruct (plan_ev s x [0; a]) eqn:Q; [eapply G; eauto | discriminate]|].
  destruct e3 as [|v e4]; [destruct (plan_ev s x [0; a; o]) eqn:Q; [eapply G; eauto | discriminate]|].
  destruct e4 as [|u e5].
  - destruct (started x); [discriminate|]. inversion H; subst. exists (Z.to_nat o). cbn. constructor.
  - destruct (plan_ev s x (0 :: a :: o :: v :: u :: e5)) eqn:Q; [eapply G; eauto | discriminate].
Qed.

Theorem accept_all_reach tr : forall sx sx',
  (exists w, Reach w (fst sx)) -> accept_all sx tr = Some sx' -> exists w, Reach w (fst sx').
Proof.
  induction tr as [|e r IH]; cbn [accept_all]; intros sx sx' R H; [inversion H; subst; exact R|].
  destruct (accept_ev sx e) as [sx1|] eqn:E; [|discriminate].
  eapply IH; [eapply accept_ev_reach; eauto | exact H].
Qed.

Corollary accepted_trace_is_reachable tr sx' :
  accept_all m_init tr = Some sx' -> exists w, Reach w (fst sx').
Proof. apply accept_all_reach. exists O. constructor. Qed.
