(* C13 (ii): panic isolation on the scheduler model (Rt/SchedModel.v, imported unchanged).
   An extra invariant XInv about the panic path of run_coroutine (`None => { join.set_panic_data; join.trigger;
   Done::drop_coroutine }`): a panic frame FPan c is only ever on top of a thread's stack, the thread holds the
   coroutine in its hand, the coroutine's control point is inside the panic path; and a thread's own control point
   is Idle whenever something is on its stack.  Together with PInv / CInv (SchedPresP / SchedPresC) this gives:
   the panic path always runs to its end without anybody's help, touches nothing but the coroutine's own Join,
   leaves the payload in the panic slot until join() takes it, returns the thread's stack to what was below the
   coroutine - and a worker thread is then ready to take and resume the next coroutine. *)
From Coq Require Import List Arith ZArith Bool Lia.
Import ListNotations.
Require Import MayV.Rt.SchedModel MayV.Rt.SchedInv MayV.Rt.SchedTac MayV.Rt.SchedPresC MayV.Rt.SchedPresP.

Definition ppc (p : pc) : bool := match p with PP0 _ | PT1 | PT2 | PT3 _ | PD => true | _ => false end.
Definition nopan (l : list frame) : Prop := forall c, ~ In (FPan c) l.
Definition xt (s : st) (t : nat) : Prop :=
  match stk s t with
  | FPan c :: rest => In c (hand s t) /\ ppc (upc (co s c)) = true /\ nopan rest
  | l => nopan l end.

Lemma pr_same s c : stk (park_ret s c) = stk s /\ hand (park_ret s c) = hand s /\ tpc (park_ret s c) = tpc s /\
  gq (park_ret s c) = gq s /\ lq (park_ret s c) = lq s /\ slots (park_ret s c) = slots s /\ dead (park_ret s c) = dead s.
Proof.
  unfold park_ret. destruct (upc (co s c)); auto 10. destruct (call_of s (AC c) d) as [[]|]; auto 10.
Qed.
Lemma pr_stk s c : stk (park_ret s c) = stk s. Proof. apply pr_same. Qed.
Lemma pr_hand s c : hand (park_ret s c) = hand s. Proof. apply pr_same. Qed.
Lemma pr_tpc s c : tpc (park_ret s c) = tpc s. Proof. apply pr_same. Qed.
Lemma pr_upc s c c' : upc (co (park_ret s c) c') = upc (co s c'). Proof. apply park_ret_fields. Qed.

Lemma x2_step s a s' : (forall t, stk s t <> [] -> tpc s t = Idle) -> step s a = Some s' -> forall t, stk s' t <> [] -> tpc s' t = Idle.
Proof.
  intros K H t0. destruct a.
  all: step_inv H.
  all: try match goal with E : cur _ _ = Some ?a |- _ => destruct (cur_cases _ _ _ E) as [[? ?]|[? [? [? ?]]]]; subst a end.
  all: prep.
  all: unfold take_wake in *.
  all: try match goal with q : qid |- _ => destruct q end.
  all: repeat match goal with |- context [match jwake ?x with _ => _ end] => destruct (jwake x) eqn:? end.
  all: sst; bools.
  all: rewrite ?pr_stk, ?pr_tpc in *.
  all: intro N; upds; try solve [apply K; assumption]; try congruence.
  all: try solve [apply K; match goal with E : stk _ _ = _ :: _ |- _ => rewrite E; discriminate end].
Qed.

Lemma nopan_cons f l : (forall c, f <> FPan c) -> nopan l -> nopan (f :: l).
Proof. intros A B c [E|I]; [apply (A c); exact E | apply (B c); exact I]. Qed.
Lemma nopan_tail f l : nopan (f :: l) -> nopan l.
Proof. intros A c I. apply (A c). right. exact I. Qed.

Ltac locfacts HP :=
  repeat match goal with
  | H : In ?c (hand ?s ?t) |- _ =>
      lazymatch goal with _ : loc (co s c) = LH t |- _ => fail | _ => pose proof (proj1 (p_hand s HP t c) H) end
  | E : stk ?s ?t = FRun ?c :: _ |- _ =>
      lazymatch goal with _ : loc (co s c) = LRun t |- _ => fail | _ => assert (loc (co s c) = LRun t) by (apply (p_run s HP); rewrite E; cbn; auto) end
  | H : In ?c (slots ?s) |- _ =>
      lazymatch goal with _ : loc (co s c) = LSlot |- _ => fail | _ => pose proof (proj1 (p_slot s HP c) H) end
  | E : gq ?s ?k = ?c :: _ |- _ =>
      lazymatch goal with _ : loc (co s c) = LG k |- _ => fail | _ => assert (loc (co s c) = LG k) by (apply (p_gq s HP); rewrite E; cbn; auto) end
  | E : lq ?s ?k = ?c :: _ |- _ =>
      lazymatch goal with _ : loc (co s c) = LL k |- _ => fail | _ => assert (loc (co s c) = LL k) by (apply (p_lq s HP); rewrite E; cbn; auto) end
  | H : spawned (co ?s ?c) = false |- _ =>
      lazymatch goal with _ : loc (co s c) = LNone |- _ => fail | _ => pose proof (proj2 (p_none s HP c) H) end
  end.

Lemma x1_step s a s' : PInv s -> (forall t, xt s t) -> step s a = Some s' -> forall t, xt s' t.
Proof.
  intros HP K H t0. destruct a.
  all: step_inv H.
  all: try match goal with E : cur _ _ = Some ?a |- _ => destruct (cur_cases _ _ _ E) as [[? ?]|[? [? [? ?]]]]; subst a end.
  all: prep.
  all: unfold take_wake in *.
  all: try match goal with q : qid |- _ => destruct q end.
  all: repeat match goal with |- context [match jwake ?x with _ => _ end] => destruct (jwake x) eqn:? end.
  all: unfold xt; sst; bools.
  all: rewrite ?pr_stk, ?pr_tpc, ?pr_hand in *.
  all: pose proof (K t0) as K0; unfold xt in K0.
  all: upds.
  all: repeat match goal with E : stk ?s0 ?u = _ :: _, H : context [match stk ?s0 ?u with _ => _ end] |- _ => rewrite E in H end.
  all: repeat match goal with E : stk ?s0 ?u = _ :: _ |- context [match stk ?s0 ?u with _ => _ end] => rewrite E end.
  all: try exact K0.
  (* the stack of t0 is unchanged *)
  all: try (match goal with |- match stk ?s0 ?u with _ => _ end =>
         destruct (stk s0 u) as [|[?cc|?cc ?kk|?cc] ?rr] eqn:?E0; try exact K0;
         destruct K0 as (KA & KB & KC); split; [|split; [|exact KC]] end).
  all: try exact KA.
  all: try (apply in_snoc; left; exact KA).
  all: sco; rewrite ?pr_upc.
  all: try exact KB.
  all: locfacts HP.
  all: try solve [upds; sco; rewrite ?pr_upc; try reflexivity; try exact KB; try congruence].
  (* the acting thread: new top frame *)
  all: try solve [repeat (apply nopan_cons; [discriminate|]); first [eapply nopan_tail; exact K0 | intros ? []]].
  all: try solve [split; [apply in_snoc; right; reflexivity | split; [destruct v; reflexivity | eapply nopan_tail; exact K0]]].
  all: try solve [match goal with |- match ?l with _ => _ end =>
         let N := fresh "N" in
         assert (N : nopan l) by (first [exact (proj2 (proj2 K0)) | eapply nopan_tail; exact K0]);
         destruct l as [|[?cc|?cc ?kk|?cc] ?rr]; try exact N; exfalso; eapply N; left; reflexivity end].
  exfalso. unfold base_idle in E. rewrite E1 in E. discriminate E.
Qed.

Definition XInv (s : st) : Prop := (forall t, xt s t) /\ (forall t, stk s t <> [] -> tpc s t = Idle).
Definition RInv (s : st) : Prop := PInv s /\ CInv s /\ XInv s.

Lemma pinv_init0 w : PInv (init w).
Proof.
  constructor; cbn; intros; try (apply NoDup_nil).
  all: split; intro H; try tauto; try discriminate; try reflexivity.
Qed.
Lemma cinv_init0 w : CInv (init w).
Proof.
  intro c. cbn. unfold cinv, endinv, callinv. cbn. repeat split; intros; try discriminate; try congruence; auto.
Qed.
Lemma xinv_init0 w : XInv (init w).
Proof. split; intro t; cbn; [intros c []|congruence]. Qed.

Lemma rinv_step s a s' : RInv s -> step s a = Some s' -> RInv s'.
Proof.
  intros (HP & HC & HX1 & HX2) H. split; [eapply pinv_step; eassumption|].
  split; [eapply cinv_step; eassumption|]. split; [eapply x1_step; eassumption | eapply x2_step; eassumption].
Qed.
Theorem rinv_reach w s : Reach w s -> RInv s.
Proof.
  induction 1; [split; [apply pinv_init0 | split; [apply cinv_init0 | apply xinv_init0]] | eapply rinv_step; eassumption].
Qed.
