(* SchedLoopModel: what one action does to the run queues and to the ghost counters. *)
From Coq Require Import List Arith ZArith NArith Bool Lia.
Import ListNotations.
Require Import MayV.Rt.SchedModel MayV.Rt.SchedInv MayV.Rt.SchedTac MayV.Rt.SchedLoopModel MayV.Rt.SchedLoopBase
  MayV.Rt.SchedLoopInv MayV.Rt.SchedLoopStruct.

Lemma base_ok_nograb P l b : base_ok P l b = true -> forall t q, b <> Grab t q.
Proof. intros G t q ->. discriminate G. Qed.

Lemma ntake_ctl_base P l b l0 : ntake (ctl_base P l b l0) = ntake l0.
Proof. unfold ctl_base. dmatch; reflexivity. Qed.
Lemma ngrab_ctl_base P l b l0 : ngrab (ctl_base P l b l0) = ngrab l0.
Proof. unfold ctl_base. dmatch; reflexivity. Qed.
Lemma counters_ctl_base P l b l0 : npop (ctl_base P l b l0) = npop l0 /\ ncoll (ctl_base P l b l0) = ncoll l0 /\
  nsel (ctl_base P l b l0) = nsel l0 /\ coll0 (ctl_base P l b l0) = coll0 l0.
Proof. unfold ctl_base. dmatch; repeat split; reflexivity. Qed.

Lemma lstep_lq P l a l' w : lstep P l a = Some l' ->
  lq (base l') w = lq (base l) w
  \/ (exists x, lq (base l) w = x :: lq (base l') w /\ ntake l' x = S (ntake l x) /\ (a = LPop w \/ exists v, a = LStGrab v))
  \/ (exists x, lq (base l') w = lq (base l) w ++ [x] /\
                (a = LPut w \/ exists b, a = LBase b /\ push_target (base l) b = Some (QL w))).
Proof.
  intro H. destruct (lstep_inv _ _ _ _ H) as (G & s' & -> & S). rewrite base_ctl.
  destruct a; cbn [proj guard] in S, G; try (subst s'; left; reflexivity).
  - (* LBase *) destruct (step_queues_nongrab _ _ _ S (base_ok_nograb _ _ _ G) (QL w)) as [A|[A [x B]]]; cbn [getq] in *.
    + left. exact A.
    + right; right. exists x. split; [exact B|]. right. eauto.
  - apply step_takeslot in S. destruct S as (_ & _ & _ & -> & _). now left.
  - apply step_grab in S. destruct S as (_ & c & _ & _ & B & _). left. apply (B (QL w)). congruence.
  - apply step_put in S. destruct S as (_ & c & r & _ & A & _ & B & _). destruct (Nat.eq_dec w w0) as [->|N].
    + right; right. exists c. split; [exact A|]. now left.
    + left. apply B, N.
  - destruct (lq (base l) w0) eqn:EL; [subst s'; now left|]. apply step_grab in S. destruct S as (_ & c & A & _ & B & _).
    destruct (Nat.eq_dec w w0) as [->|N].
    + right; left. exists c. cbn [getq] in A. rewrite EL in A. inversion A; subst. split; [rewrite EL; reflexivity|].
      split; [|now left]. unfold ctl. rewrite EL. unfold taken, inc. lsimp. now rewrite upd_eq.
    + left. apply (B (QL w)). congruence.
  - destruct (hand (base l) w0); [subst s'; now left|].
    destruct (step_queues_nongrab _ _ _ S (fun t q => ltac:(discriminate)) (QL w)) as [A|[A _]]; [now left | discriminate A].
  - destruct (wpc l w0) eqn:E; try (subst s'; now left). apply step_grab in S. destruct S as (_ & c & A & _ & B & _).
    destruct (Nat.eq_dec w (victim (nw (base l)) w0 i)) as [->|N].
    + right; left. exists c. cbn [getq] in A. split; [exact A|]. split; [|right; eauto].
      unfold ctl. rewrite E, A. unfold taken, inc, hd_error. lsimp. now rewrite upd_eq.
    + left. apply (B (QL w)). congruence.
  - apply step_takeslot in S. destruct S as (_ & _ & _ & -> & _). now left.
Qed.

Lemma lstep_gq2 P l a l' w : lstep P l a = Some l' ->
  gq (base l') w = gq (base l) w
  \/ (exists x, gq (base l) w = x :: gq (base l') w /\ ngrab l' x = S (ngrab l x) /\ a = LBulkGrab w)
  \/ (exists x b, gq (base l') w = gq (base l) w ++ [x] /\ a = LBase b /\ push_target (base l) b = Some (QG w)).
Proof.
  intro H. destruct (lstep_inv _ _ _ _ H) as (G & s' & -> & S). rewrite base_ctl.
  destruct a; cbn [proj guard] in S, G; try (subst s'; left; reflexivity).
  - destruct (step_queues_nongrab _ _ _ S (base_ok_nograb _ _ _ G) (QG w)) as [A|[A [x B]]]; cbn [getq] in *.
    + left. exact A.
    + right; right. exists x, a. auto.
  - apply step_takeslot in S. destruct S as (_ & _ & -> & _). now left.
  - apply step_grab in S. destruct S as (_ & c & A & _ & B & _). destruct (Nat.eq_dec w w0) as [->|N].
    + right; left. exists c. cbn [getq] in A. split; [exact A|]. split; [|reflexivity].
      unfold ctl. rewrite A. unfold grabbed, inc, hd_error. lsimp. now rewrite upd_eq.
    + left. apply (B (QG w)). congruence.
  - apply step_put in S. destruct S as (_ & c & r & _ & _ & _ & _ & -> & _). now left.
  - destruct (lq (base l) w0) eqn:EL; [subst s'; now left|]. apply step_grab in S. destruct S as (_ & c & _ & _ & B & _).
    left. apply (B (QG w)). congruence.
  - destruct (hand (base l) w0); [subst s'; now left|].
    destruct (step_queues_nongrab _ _ _ S (fun t q => ltac:(discriminate)) (QG w)) as [A|[A _]]; [now left | discriminate A].
  - destruct (wpc l w0) eqn:E; try (subst s'; now left). apply step_grab in S. destruct S as (_ & c & _ & _ & B & _).
    left. apply (B (QG w)). congruence.
  - apply step_takeslot in S. destruct S as (_ & _ & -> & _). now left.
Qed.

(* ---- ghost counters ---- *)
Lemma lstep_ntake_mono P l a l' c : lstep P l a = Some l' -> ntake l c <= ntake l' c.
Proof.
  intro H. destruct (lstep_inv _ _ _ _ H) as (_ & s' & -> & _).
  destruct a; unfold ctl; try (rewrite ntake_ctl_base; reflexivity); dmatch; unfold grabbed, taken, inc; dmatch; lsimp;
    try reflexivity; destruct (upd_cases (ntake l) n (S (ntake l n)) c) as [[-> ->]|[_ ->]]; lia.
Qed.
Lemma lstep_ngrab_mono P l a l' c : lstep P l a = Some l' -> ngrab l c <= ngrab l' c.
Proof.
  intro H. destruct (lstep_inv _ _ _ _ H) as (_ & s' & -> & _).
  destruct a; unfold ctl; try (rewrite ngrab_ctl_base; reflexivity); dmatch; unfold grabbed, taken, inc; dmatch; lsimp;
    try reflexivity; destruct (upd_cases (ngrab l) n (S (ngrab l n)) c) as [[-> ->]|[_ ->]]; lia.
Qed.

Lemma lstep_npop P l a l' w : lstep P l a = Some l' ->
  npop l' w = npop l w \/ (a = LPop w /\ npop l' w = S (npop l w)).
Proof.
  intro H. destruct (lstep_inv _ _ _ _ H) as (_ & s' & -> & _).
  destruct a; unfold ctl; try (destruct (counters_ctl_base P l a (l_base l s')) as (-> & _); now left);
    try (dmatch; unfold grabbed, taken; dmatch; lsimp; now left).
  unfold inc. destruct (Nat.eq_dec w w0) as [->|N].
  - right. split; [reflexivity|]. dmatch; unfold taken; lsimp; now rewrite upd_eq.
  - left. dmatch; unfold taken; lsimp; now rewrite upd_neq.
Qed.

Lemma lstep_ncoll P l a l' w : lstep P l a = Some l' ->
  ncoll l' w = ncoll l w \/
  (a = LBulkEnd w /\ gq (base l) w = [] /\ hand (base l) w = [] /\ ncoll l' w = S (ncoll l w)).
Proof.
  intro H. destruct (lstep_inv _ _ _ _ H) as (G & s' & -> & _).
  destruct a; unfold ctl; try (destruct (counters_ctl_base P l a (l_base l s')) as (_ & -> & _); now left);
    try (dmatch; unfold grabbed, taken; dmatch; lsimp; now left).
  cbn [guard] in G. gsplit G. pcs G1. destruct (hand (base l) w0) eqn:EH; [|lsimp; now left].
  destruct (gq (base l) w0) eqn:EG; [|discriminate G1]. unfold inc. lsimp.
  destruct (Nat.eq_dec w w0) as [->|N]; [right; rewrite upd_eq; auto | left; now rewrite upd_neq].
Qed.

Lemma lstep_nsel P l a l' w : lstep P l a = Some l' ->
  (nsel l' w = nsel l w /\ coll0 l' w = coll0 l w) \/
  (exists nx, a = LTmDone w nx /\ wpc l w = PTim /\ nsel l' w = S (nsel l w) /\ coll0 l' w = ncoll l w).
Proof.
  intro H. destruct (lstep_inv _ _ _ _ H) as (G & s' & -> & _).
  destruct a; unfold ctl; try (destruct (counters_ctl_base P l a (l_base l s')) as (_ & _ & -> & ->); now left);
    try (dmatch; unfold grabbed, taken; dmatch; lsimp; now left).
  cbn [guard] in G. gsplit G. pcs G1. unfold inc. lsimp.
  destruct (Nat.eq_dec w w0) as [->|N]; [right; exists nx; rewrite !upd_eq; auto | left; now rewrite !upd_neq].
Qed.

Lemma lstep_ncoll_mono P l a l' w : lstep P l a = Some l' -> ncoll l w <= ncoll l' w.
Proof. intro H. destruct (lstep_ncoll _ _ _ _ w H) as [->|(_ & _ & _ & ->)]; lia. Qed.
Lemma lstep_nsel_mono P l a l' w : lstep P l a = Some l' -> nsel l w <= nsel l' w.
Proof. intro H. destruct (lstep_nsel _ _ _ _ w H) as [[-> _]|(nx & _ & _ & -> & _)]; lia. Qed.
Lemma lstep_npop_mono P l a l' w : lstep P l a = Some l' -> npop l w <= npop l' w.
Proof. intro H. destruct (lstep_npop _ _ _ _ w H) as [->|(_ & ->)]; lia. Qed.

Lemma lruns_mono P tr : forall l l', lruns P l tr = Some l' ->
  forall w c, ncoll l w <= ncoll l' w /\ nsel l w <= nsel l' w /\ npop l w <= npop l' w /\ ntake l c <= ntake l' c /\ ngrab l c <= ngrab l' c.
Proof.
  induction tr as [|a tr IH]; cbn [lruns]; intros l l' H w c; [inversion H; subst; repeat split; lia|].
  destruct (lstep P l a) as [l1|] eqn:E; [|discriminate]. specialize (IH _ _ H w c).
  pose proof (lstep_ncoll_mono _ _ _ _ w E). pose proof (lstep_nsel_mono _ _ _ _ w E). pose proof (lstep_npop_mono _ _ _ _ w E).
  pose proof (lstep_ntake_mono _ _ _ _ c E). pose proof (lstep_ngrab_mono _ _ _ _ c E). lia.
Qed.
