(* Preservation of the place invariant PInv: every transition leaves the structures alone, or moves
   exactly one coroutine token from one structure to another, or creates one token. *)
From Coq Require Import List Arith ZArith Bool Lia.
Import ListNotations.
Require Import MayV.Rt.SchedModel MayV.Rt.SchedInv MayV.Rt.SchedTac.

Inductive cont := CG (k : nat) | CL (t : nat) | CH (t : nat) | CR (t : nat) | CS | CD.
Definition cget (s : st) (A : cont) : list nat :=
  match A with CG k => gq s k | CL t => lq s t | CH t => hand s t | CR t => frun (stk s t) | CS => slots s | CD => dead s end.
Definition cplace (A : cont) : place :=
  match A with CG k => LG k | CL t => LL t | CH t => LH t | CR t => LRun t | CS => LSlot | CD => LDead end.

Lemma pinv_cont s : PInv s <->
  (forall A c, In c (cget s A) <-> loc (co s c) = cplace A) /\ (forall A, NoDup (cget s A)) /\
  (forall c, loc (co s c) = LNone <-> spawned (co s c) = false).
Proof.
  split.
  - intros [g l h r sl d n ng nl nh nr ns nd]. repeat split; try (intros [k|t|t|t| |]; cbn; auto; fail); try apply n.
    + destruct A; cbn; [apply g|apply l|apply h|apply r|apply sl|apply d].
    + destruct A; cbn; [apply g|apply l|apply h|apply r|apply sl|apply d].
  - intros [I [N Z]]. constructor; intros.
    + apply (I (CG k)). + apply (I (CL t)). + apply (I (CH t)). + apply (I (CR t)). + apply (I CS). + apply (I CD). + apply Z.
    + apply (N (CG k)). + apply (N (CL t)). + apply (N (CH t)). + apply (N (CR t)). + apply (N CS). + apply (N CD).
Qed.

Lemma cont_eq_dec (A B : cont) : {A = B} + {A <> B}.
Proof. decide equality; apply Nat.eq_dec. Qed.

Lemma cplace_inj A B : cplace A = cplace B -> A = B.
Proof. destruct A, B; cbn; intro H; inversion H; auto. Qed.

(* nothing moves *)
Lemma same_pinv s s' :
  PInv s -> (forall A, cget s' A = cget s A) -> (forall c, loc (co s' c) = loc (co s c)) ->
  (forall c, spawned (co s' c) = spawned (co s c)) -> PInv s'.
Proof.
  rewrite !pinv_cont. intros [I [N Z]] G L S. split; [|split].
  - intros A c. rewrite G, L. apply I.
  - intros A. rewrite G. apply N.
  - intros c. rewrite L, S. apply Z.
Qed.

(* one token moves from A to B *)
Lemma move_pinv s s' c A B :
  PInv s -> A <> B -> loc (co s c) = cplace A ->
  (forall x, In x (cget s' A) <-> In x (cget s A) /\ x <> c) -> NoDup (cget s' A) ->
  (forall x, In x (cget s' B) <-> In x (cget s B) \/ x = c) -> NoDup (cget s' B) ->
  (forall C, C <> A -> C <> B -> cget s' C = cget s C) ->
  loc (co s' c) = cplace B -> (forall x, x <> c -> loc (co s' x) = loc (co s x)) ->
  (forall x, spawned (co s' x) = spawned (co s x)) -> PInv s'.
Proof.
  rewrite !pinv_cont. intros [I [N Z]] AB LA OA NA IB NB OC LB LO SP. split; [|split].
  - intros A0 c0. split.
    + destruct (Nat.eq_dec c0 c) as [->|ne].
      * rewrite LB. intro H. f_equal.
        destruct (cont_eq_dec A0 B) as [->|nb]; [reflexivity|].
        exfalso. destruct (cont_eq_dec A0 A) as [->|na].
        -- apply OA in H. tauto.
        -- rewrite OC in H by auto. apply I in H. rewrite LA in H. apply cplace_inj in H. congruence.
      * rewrite LO by auto. intro H.
        destruct (cont_eq_dec A0 A) as [->|na]; [apply OA in H; apply I; tauto|].
        destruct (cont_eq_dec A0 B) as [->|nb]; [apply IB in H; apply I; tauto|].
        rewrite OC in H by auto. now apply I.
    + destruct (Nat.eq_dec c0 c) as [->|ne].
      * rewrite LB. intro H. apply cplace_inj in H. subst. apply IB. auto.
      * rewrite LO by auto. intro H. apply I in H.
        destruct (cont_eq_dec A0 A) as [->|na]; [apply OA; tauto|].
        destruct (cont_eq_dec A0 B) as [->|nb]; [apply IB; tauto|].
        rewrite OC by auto. exact H.
  - intros A0. destruct (cont_eq_dec A0 A) as [->|na]; [exact NA|].
    destruct (cont_eq_dec A0 B) as [->|nb]; [exact NB|]. rewrite OC by auto. apply N.
  - intros c0. rewrite SP. destruct (Nat.eq_dec c0 c) as [->|ne].
    + rewrite LB. split; intro H.
      * destruct B; discriminate.
      * apply Z in H. rewrite LA in H. destruct A; discriminate.
    + rewrite LO by auto. apply Z.
Qed.

(* one token is created in B *)
Lemma enter_pinv s s' c B :
  PInv s -> spawned (co s c) = false ->
  (forall x, In x (cget s' B) <-> In x (cget s B) \/ x = c) -> NoDup (cget s' B) ->
  (forall C, C <> B -> cget s' C = cget s C) ->
  loc (co s' c) = cplace B -> spawned (co s' c) = true ->
  (forall x, x <> c -> loc (co s' x) = loc (co s x)) ->
  (forall x, x <> c -> spawned (co s' x) = spawned (co s x)) -> PInv s'.
Proof.
  rewrite !pinv_cont. intros [I [N Z]] SC IB NB OC LB SB LO SO. apply Z in SC. split; [|split].
  - intros A0 c0. split.
    + destruct (Nat.eq_dec c0 c) as [->|ne].
      * rewrite LB. intro H. f_equal. destruct (cont_eq_dec A0 B) as [->|nb]; [reflexivity|].
        rewrite OC in H by auto. apply I in H. rewrite SC in H. destruct A0; discriminate.
      * rewrite LO by auto. intro H. destruct (cont_eq_dec A0 B) as [->|nb]; [apply IB in H; apply I; tauto|].
        rewrite OC in H by auto. now apply I.
    + destruct (Nat.eq_dec c0 c) as [->|ne].
      * rewrite LB. intro H. apply cplace_inj in H. subst. apply IB. auto.
      * rewrite LO by auto. intro H. apply I in H. destruct (cont_eq_dec A0 B) as [->|nb]; [apply IB; tauto|].
        rewrite OC by auto. exact H.
  - intros A0. destruct (cont_eq_dec A0 B) as [->|nb]; [exact NB|]. rewrite OC by auto. apply N.
  - intros c0. destruct (Nat.eq_dec c0 c) as [->|ne].
    + rewrite LB, SB. split; intro H; [destruct B|]; discriminate.
    + rewrite LO, SO by auto. apply Z.
Qed.

Lemma not_in_other s c A B : PInv s -> loc (co s c) = cplace A -> A <> B -> ~ In c (cget s B).
Proof.
  rewrite pinv_cont. intros [I _] L AB H. apply I in H. rewrite L in H. apply cplace_inj in H. congruence.
Qed.
Lemma in_cont s c A : PInv s -> In c (cget s A) -> loc (co s c) = cplace A.
Proof. rewrite pinv_cont. intros [I _] H. now apply I. Qed.
Lemma nodup_cont s A : PInv s -> NoDup (cget s A).
Proof. rewrite pinv_cont. intros [_ [N _]]. apply N. Qed.

Lemma tail_in (c : nat) r x : NoDup (c :: r) -> (In x r <-> In x (c :: r) /\ x <> c).
Proof. intro N. inversion N; subst. cbn. split; [intro H; split; [auto | intro; subst; tauto] | intros [[E|H] ne]; [congruence | exact H]]. Qed.
Lemma tail_nodup (c : nat) r : NoDup (c :: r) -> NoDup r.
Proof. intro N. now inversion N. Qed.
Lemma cons_in (c : nat) l x : In x (c :: l) <-> In x l \/ x = c.
Proof. cbn. intuition. Qed.

Ltac others :=
  let C := fresh "C" in let n1 := fresh "n1" in let n2 := fresh "n2" in
  intros C n1 n2; destruct C; cbn [cget] in *; sst; upds; try reflexivity; try congruence.
Ltac locs := intros; sst; upds; sco; try reflexivity; try congruence.

Ltac eqs2 :=
  repeat match goal with
  | E : stk ?s ?t = _ |- _ => rewrite E in *
  | E : gq ?s ?t = _ :: _ |- _ => rewrite E in *
  | E : lq ?s ?t = _ :: _ |- _ => rewrite E in *
  | E : hand ?s ?t = _ :: _ |- _ => rewrite E in *
  end.

Ltac same_tac Hp :=
  solve [ eapply same_pinv; [exact Hp | intros C; destruct C; cbn [cget]; sst; upds; eqs2; try reflexivity | locs | locs] ].

(* move token c from A to B *)
Ltac mv Hp c A B :=
  let NA0 := fresh "NA0" in let NB0 := fresh "NB0" in
  pose proof (nodup_cont _ A Hp) as NA0; pose proof (nodup_cont _ B Hp) as NB0;
  assert (LA0 : loc (co _ c) = cplace A) by (apply (in_cont _ c A Hp); cbn [cget]; eqs2; cbn [frun flat_map app In]; auto);
  pose proof (not_in_other _ c A B Hp LA0 ltac:(discriminate || congruence)) as NIB;
  cbn [cget] in NA0, NB0, NIB;
  eapply (move_pinv _ _ c A B Hp);
  [ discriminate || congruence
  | exact LA0
  | intro; cbn [cget]; sst; upds; eqs2; cbn [frun flat_map app]; first [ apply in_rm | apply tail_in; assumption ]
  | cbn [cget]; sst; upds; eqs2; cbn [frun flat_map app] in *; first [ apply nodup_rm; assumption | eapply tail_nodup; eassumption ]
  | intro; cbn [cget]; sst; upds; eqs2; cbn [frun flat_map app]; first [ apply in_snoc | apply cons_in ]
  | cbn [cget]; sst; upds; eqs2; cbn [frun flat_map app] in *; first [ apply nodup_snoc; assumption | constructor; assumption ]
  | others; eqs2; try reflexivity
  | sst; upds; sco; reflexivity
  | locs
  | locs ].

Lemma pinv_step s a s' : PInv s -> step s a = Some s' -> PInv s'.
Proof.
  intros Hp H. destruct a.
  all: step_inv H.
  all: try match goal with E : cur _ _ = Some ?a |- _ => destruct (cur_cases _ _ _ E) as [[? ?]|[? [? [? ?]]]]; subst a end.
  all: repeat match goal with
       | E : stk ?s ?t = _, H : stk ?s ?t = _ |- _ => rewrite E in H; inversion H; subst; clear H
       end.
  all: repeat match goal with
       | E : stk ?s ?t = _, H : cur ?s ?t = Some _ |- _ => unfold cur in H; rewrite E in H; inversion H; subst; clear H
       end.
  all: unfold take_wake; try match goal with |- context [match jwake ?x with _ => _ end] => destruct (jwake x) eqn:? end.
  all: try same_tac Hp.
  all: bools.
  all: try (unfold park_ret, call_of; repeat match goal with |- context [match ?x with _ => _ end] => destruct x eqn:? end).
  all: try match goal with |- context [c_loc _ (qloc ?q)] => destruct q; cbn [qloc pushq getq setq] end.
  all: try match goal with E : getq _ ?q = _ |- _ => destruct q; cbn [getq] in E end.
  all: try match goal with
    | H : In ?c (hand _ ?t) |- context [c_loc _ (LG ?k)] => mv Hp c (CH t) (CG k)
    | H : In ?c (hand _ ?t) |- context [c_loc _ (LL ?k)] => mv Hp c (CH t) (CL k)
    | H : In ?c (hand _ ?t) |- context [c_loc _ LSlot] => mv Hp c (CH t) CS
    | H : In ?c (hand _ ?t) |- context [c_loc _ LDead] => mv Hp c (CH t) CD
    | H : In ?c (hand _ ?t) |- context [c_resume _ (LRun ?u)] => mv Hp c (CH t) (CR u)
    | H : In ?c (slots _) |- context [c_loc _ (LH ?t)] => mv Hp c CS (CH t)
    | H : In ?c (slots _) |- context [c_loc _ (LG ?t)] => mv Hp c CS (CG t)
    | H : In ?c (slots _) |- context [c_loc _ (LL ?t)] => mv Hp c CS (CL t)
    | E : stk _ ?t = FRun ?c :: _ |- context [c_loc _ (LH ?t)] => mv Hp c (CR t) (CH t)
    | E : gq _ ?k = ?c :: _ |- context [c_loc _ (LH ?t)] => mv Hp c (CG k) (CH t)
    | E : lq _ ?k = ?c :: _ |- context [c_loc _ (LH ?t)] => mv Hp c (CL k) (CH t)
    | E : hand _ ?t = ?c :: _ |- context [c_loc _ (LL ?t)] => mv Hp c (CH t) (CL t)
    end.
  (* spawn: a new token *)
  all: eapply (enter_pinv _ _ c (CH t) Hp);
    [ assumption
    | intro; cbn [cget]; sst; upds; apply in_snoc
    | cbn [cget]; sst; upds; apply nodup_snoc; [apply (nodup_cont _ (CH t) Hp) | intro I; apply (in_cont _ _ (CH t) Hp) in I; cbn [cplace] in I; apply (p_none _ Hp) in H1; congruence]
    | intros C nC; destruct C; cbn [cget]; sst; upds; eqs2; try reflexivity; congruence
    | sst; upds; sco; reflexivity
    | sst; upds; sco; reflexivity
    | intros; sst; upds; sco; try reflexivity; congruence
    | intros; sst; upds; sco; try reflexivity; congruence ].
Qed.
