(* Model of may::cqueue (src/cqueue.rs: Cqueue::{add_impl, poll, check_panic, finish, drop}, EventSender::{send,
   subscribe, drop}, Selector::remove, cqueue::scope) and of the select! / cqueue_add! macros (src/macros.rs), AS THE
   CODE IS NOW (after the fix: commits F9, F19, F24-F29).  Definitions only.

   Lower layers are abstract objects (DESIGN 2.1): ev_queue is an atomic FIFO (may_queue::mpsc, C03: push linearises at
   the tail CAS, pop at the head.index store / the tail load that finds nothing); a Blocker is a token (C02: unpark sets
   it, the owner's park consumes it, it is cleared whatever the reason of the resumption); JoinHandle::join is a
   blocking call that returns once Join::trigger has stored `false` (C01/C14); a select coroutine is a token that is
   running, suspended in an event, or done.

   Actors.  ONE owner (the thread or coroutine that called cqueue::scope: it adds, polls, removes and finally runs
   `finish` twice - explicitly with unwinding = false and again from Drop for Cqueue - or once when the closure unwinds);
   any number of ARMS (select coroutines, ids 0,1,..: the id is `total` at add time); one KERNEL HALF per event (the
   `EventSender::subscribe` call executed by whoever resumed the arm when it yielded in `send`).  The program of the
   owner and of every arm is chosen by the schedule (body actions), so quantifying over schedules quantifies over all
   client programs: numbers of arms, rounds per arm (oneshot, loops), polls with and without timeouts, removes, early
   exit, panics, cancellation of the owner.

   One transition per shared-memory access, in program order:
     owner  add_impl   OAdd: total.load + spawn_unsafe (the arm exists from here on)   OA2 cnt.fetch_add   OA3 total.fetch_add
                       (+ selectors.push: `selectors` is only ever touched by the owner, folded)
            poll       OPoll: deadline = now + timeout                P1 cnt.load (all_done)      P2 ev_queue.pop
                       P3 to_wake.store(fresh Blocker)                P4 ev_queue.pop (re-check)   P4t to_wake.take
                       P5 Blocker::park: token set -> consumed, return; cancelled coroutine -> Cancel raised; else suspend
                       P5w suspended; resumed by token / timeout / cancel (a cancel() takes a parked coroutine also when its cancel
                           is disabled: owk; the park then returns Canceled, poll ignores it and loops), the token is cleared whatever the reason,
                           yield_back = check_cancel                  P6 deadline check (Instant::now() >= deadline)
            run_ev     Normal event: continue_bottom = run_coroutine(co): the arm runs INLINE on the owner's stack (PRun)
                       until it yields, blocks or ends, then poll returns Ok(ev)
                       Done event: check_panic: selectors[id].take() (folded into the pop)  C0 disable_cancel [coroutine]
                       CJ handle.join() (blocks until the arm is done)  C1 enable_cancel  C2 is_panicking.load
                       C3 is_panicking.store(true); resume_unwind
            finish     FC0 selectors[fi]: JoinHandle::is_done (Join.state load)   FC1 Coroutine::cancel
                       FD0 disable_cancel   loop { poll(None) } with panics caught   FE0 enable_cancel
                       FE1 if payload && !unwinding { resume_unwind }; return
     arm    top half / bottom half are client code: ASend (top half complete, es.send called), ANext (bottom done, next
            round), AFinish (closure returns), APanic, ACancelled (a cancellable point sees the cancel bit), AYield
            (blocks on something else: the resumer gets its stack back)
            send       AS0 cancel.check_cancel   (extra.store: private)    AS1 yield_with: cancel.is_canceled; not
                       cancelled: the coroutine yields, the kernel half of this event starts; cancelled: co_set_para,
                       yield_back raises Cancel (commit a5b5aee; before it the bottom half ran without an event)
            drop       AD0 kernel.load (spin with wait_kernel_yield until 0)   AD1 ev_queue.push(Done)   AD2 cnt.fetch_sub
                       AD3 to_wake.take   AD4 w.unpark()   AF1 result published, Join::trigger: state.store(false)
     kernel half       K0 kernel.fetch_add   K1 ev_queue.push(Normal, co)   K2 to_wake.take   K3 w.unpark()   K4 kernel.fetch_sub
   Environment: CancelOwner (Coroutine::cancel on the owner), Tick (virtual clock).

   Switches (cfg) for the pre-fix variants (the theorems are about `current`, the `_refuted` witnesses about the others):
     c_cntfirst   = false: poll pops first and reads cnt afterwards (before 58e1f60, F19)
     c_joinalways = false: check_panic returns without joining once is_panicking is set (before 3b27e85, F25)
     c_kwait      = false: EventSender::drop does not wait for the kernel halves (before 5eaa700, F29)
     c_sendraise  = false: a cancelled `send` returns without an event and the bottom half runs (before a5b5aee, F27)

   Ghost: tops/bots/botd (top halves completed, bottom halves started / ended), sent (events created), per event
   epush/epop (times pushed / popped) and ernd (its round), per arm dpush/dpop (Done event), byield (the bottom half in
   progress has blocked), olast (how the last user poll returned), rer/rerp (re-raises of an arm's panic), oleft
   (cqueue::scope has returned or unwound: the Cqueue is gone). *)
From Coq Require Import List Arith Bool ZArith Lia.
Import ListNotations.

Inductive qent := ENormal (e : nat) | EDone (a : nat).
Inductive apc := ANone | ATop | AS0 | AS1 | ASusp | ABot | AD0 | AD1 | AD2 | AD3 | AD4 | AF1 | ADone.
Inductive kpcT := KNone | K0 | K1 | K2 | K3 | K4 | KDone.
Inductive aresult := RRun | ROk | RPanic (p : nat) | RCancel.
Inductive unw := UNone | UPanic (p : nat) | UCancel.
Inductive opcT := ONone | OBody | OA2 | OA3 | P1 | P2 | P2b | P3 | P4 | P4t | P5 | P5w | P6 | PRun
                | Cpre | C0 | CJ | C1 | C2 | C3 | OUnw | FC0 | FC1 | FD0 | FE0 | FE1 | OExit | OBug.
Inductive lastret := LNone | LOk (e : nat) | LTimeout | LFinished | LRaised.

Record cfg := { c_cntfirst : bool; c_joinalways : bool; c_kwait : bool; c_sendraise : bool }.
Definition current : cfg := {| c_cntfirst := true; c_joinalways := true; c_kwait := true; c_sendraise := true |}.

Record st := mkst {
  evq : list qent;
  cnt : Z;
  towake : option nat;
  sel : nat -> bool;
  total : nat;
  ispan : bool;
  pc : nat -> apc;
  cbit : nat -> bool;
  inl : nat -> bool;
  kern : nat -> nat;
  ares : nat -> aresult;
  jst : nat -> bool;
  aw : nat -> nat;
  acur : nat -> nat;
  kpc : nat -> kpcT;
  earm : nat -> nat;
  kw : nat -> nat;
  tok : nat -> bool;
  nextb : nat;
  opc : opcT;
  oco : bool;
  ocbit : bool;
  odis : nat;
  ounw : unw;
  ofin : nat;
  opay : unw;
  oto : option Z;
  odl : option Z;
  opdl : option Z;
  ocall : Z;
  oalld : bool;
  ob : nat;
  ocur : nat;
  oev : nat;
  ojres : aresult;
  fi : nat;
  ostash : qent;
  owk : bool;
  now : Z;
  nexta : nat;
  nexte : nat;
  tops : nat -> nat;
  bots : nat -> nat;
  botd : nat -> nat;
  sent : nat -> nat;
  byield : nat -> bool;
  epush : nat -> nat;
  epop : nat -> nat;
  ernd : nat -> nat;
  dpush : nat -> nat;
  dpop : nat -> nat;
  olast : lastret;
  rer : nat;
  rerp : option nat;
  oleft : bool }.
Definition set_evq (s : st) (v : list qent) : st := {| evq := v; cnt := cnt s; towake := towake s; sel := sel s; total := total s; ispan := ispan s; pc := pc s; cbit := cbit s; inl := inl s; kern := kern s; ares := ares s; jst := jst s; aw := aw s; acur := acur s; kpc := kpc s; earm := earm s; kw := kw s; tok := tok s; nextb := nextb s; opc := opc s; oco := oco s; ocbit := ocbit s; odis := odis s; ounw := ounw s; ofin := ofin s; opay := opay s; oto := oto s; odl := odl s; opdl := opdl s; ocall := ocall s; oalld := oalld s; ob := ob s; ocur := ocur s; oev := oev s; ojres := ojres s; fi := fi s; ostash := ostash s; owk := owk s; now := now s; nexta := nexta s; nexte := nexte s; tops := tops s; bots := bots s; botd := botd s; sent := sent s; byield := byield s; epush := epush s; epop := epop s; ernd := ernd s; dpush := dpush s; dpop := dpop s; olast := olast s; rer := rer s; rerp := rerp s; oleft := oleft s |}.
Definition set_cnt (s : st) (v : Z) : st := {| evq := evq s; cnt := v; towake := towake s; sel := sel s; total := total s; ispan := ispan s; pc := pc s; cbit := cbit s; inl := inl s; kern := kern s; ares := ares s; jst := jst s; aw := aw s; acur := acur s; kpc := kpc s; earm := earm s; kw := kw s; tok := tok s; nextb := nextb s; opc := opc s; oco := oco s; ocbit := ocbit s; odis := odis s; ounw := ounw s; ofin := ofin s; opay := opay s; oto := oto s; odl := odl s; opdl := opdl s; ocall := ocall s; oalld := oalld s; ob := ob s; ocur := ocur s; oev := oev s; ojres := ojres s; fi := fi s; ostash := ostash s; owk := owk s; now := now s; nexta := nexta s; nexte := nexte s; tops := tops s; bots := bots s; botd := botd s; sent := sent s; byield := byield s; epush := epush s; epop := epop s; ernd := ernd s; dpush := dpush s; dpop := dpop s; olast := olast s; rer := rer s; rerp := rerp s; oleft := oleft s |}.
Definition set_towake (s : st) (v : option nat) : st := {| evq := evq s; cnt := cnt s; towake := v; sel := sel s; total := total s; ispan := ispan s; pc := pc s; cbit := cbit s; inl := inl s; kern := kern s; ares := ares s; jst := jst s; aw := aw s; acur := acur s; kpc := kpc s; earm := earm s; kw := kw s; tok := tok s; nextb := nextb s; opc := opc s; oco := oco s; ocbit := ocbit s; odis := odis s; ounw := ounw s; ofin := ofin s; opay := opay s; oto := oto s; odl := odl s; opdl := opdl s; ocall := ocall s; oalld := oalld s; ob := ob s; ocur := ocur s; oev := oev s; ojres := ojres s; fi := fi s; ostash := ostash s; owk := owk s; now := now s; nexta := nexta s; nexte := nexte s; tops := tops s; bots := bots s; botd := botd s; sent := sent s; byield := byield s; epush := epush s; epop := epop s; ernd := ernd s; dpush := dpush s; dpop := dpop s; olast := olast s; rer := rer s; rerp := rerp s; oleft := oleft s |}.
Definition set_sel (s : st) (v : nat -> bool) : st := {| evq := evq s; cnt := cnt s; towake := towake s; sel := v; total := total s; ispan := ispan s; pc := pc s; cbit := cbit s; inl := inl s; kern := kern s; ares := ares s; jst := jst s; aw := aw s; acur := acur s; kpc := kpc s; earm := earm s; kw := kw s; tok := tok s; nextb := nextb s; opc := opc s; oco := oco s; ocbit := ocbit s; odis := odis s; ounw := ounw s; ofin := ofin s; opay := opay s; oto := oto s; odl := odl s; opdl := opdl s; ocall := ocall s; oalld := oalld s; ob := ob s; ocur := ocur s; oev := oev s; ojres := ojres s; fi := fi s; ostash := ostash s; owk := owk s; now := now s; nexta := nexta s; nexte := nexte s; tops := tops s; bots := bots s; botd := botd s; sent := sent s; byield := byield s; epush := epush s; epop := epop s; ernd := ernd s; dpush := dpush s; dpop := dpop s; olast := olast s; rer := rer s; rerp := rerp s; oleft := oleft s |}.
Definition set_total (s : st) (v : nat) : st := {| evq := evq s; cnt := cnt s; towake := towake s; sel := sel s; total := v; ispan := ispan s; pc := pc s; cbit := cbit s; inl := inl s; kern := kern s; ares := ares s; jst := jst s; aw := aw s; acur := acur s; kpc := kpc s; earm := earm s; kw := kw s; tok := tok s; nextb := nextb s; opc := opc s; oco := oco s; ocbit := ocbit s; odis := odis s; ounw := ounw s; ofin := ofin s; opay := opay s; oto := oto s; odl := odl s; opdl := opdl s; ocall := ocall s; oalld := oalld s; ob := ob s; ocur := ocur s; oev := oev s; ojres := ojres s; fi := fi s; ostash := ostash s; owk := owk s; now := now s; nexta := nexta s; nexte := nexte s; tops := tops s; bots := bots s; botd := botd s; sent := sent s; byield := byield s; epush := epush s; epop := epop s; ernd := ernd s; dpush := dpush s; dpop := dpop s; olast := olast s; rer := rer s; rerp := rerp s; oleft := oleft s |}.
Definition set_ispan (s : st) (v : bool) : st := {| evq := evq s; cnt := cnt s; towake := towake s; sel := sel s; total := total s; ispan := v; pc := pc s; cbit := cbit s; inl := inl s; kern := kern s; ares := ares s; jst := jst s; aw := aw s; acur := acur s; kpc := kpc s; earm := earm s; kw := kw s; tok := tok s; nextb := nextb s; opc := opc s; oco := oco s; ocbit := ocbit s; odis := odis s; ounw := ounw s; ofin := ofin s; opay := opay s; oto := oto s; odl := odl s; opdl := opdl s; ocall := ocall s; oalld := oalld s; ob := ob s; ocur := ocur s; oev := oev s; ojres := ojres s; fi := fi s; ostash := ostash s; owk := owk s; now := now s; nexta := nexta s; nexte := nexte s; tops := tops s; bots := bots s; botd := botd s; sent := sent s; byield := byield s; epush := epush s; epop := epop s; ernd := ernd s; dpush := dpush s; dpop := dpop s; olast := olast s; rer := rer s; rerp := rerp s; oleft := oleft s |}.
Definition set_pc (s : st) (v : nat -> apc) : st := {| evq := evq s; cnt := cnt s; towake := towake s; sel := sel s; total := total s; ispan := ispan s; pc := v; cbit := cbit s; inl := inl s; kern := kern s; ares := ares s; jst := jst s; aw := aw s; acur := acur s; kpc := kpc s; earm := earm s; kw := kw s; tok := tok s; nextb := nextb s; opc := opc s; oco := oco s; ocbit := ocbit s; odis := odis s; ounw := ounw s; ofin := ofin s; opay := opay s; oto := oto s; odl := odl s; opdl := opdl s; ocall := ocall s; oalld := oalld s; ob := ob s; ocur := ocur s; oev := oev s; ojres := ojres s; fi := fi s; ostash := ostash s; owk := owk s; now := now s; nexta := nexta s; nexte := nexte s; tops := tops s; bots := bots s; botd := botd s; sent := sent s; byield := byield s; epush := epush s; epop := epop s; ernd := ernd s; dpush := dpush s; dpop := dpop s; olast := olast s; rer := rer s; rerp := rerp s; oleft := oleft s |}.
Definition set_cbit (s : st) (v : nat -> bool) : st := {| evq := evq s; cnt := cnt s; towake := towake s; sel := sel s; total := total s; ispan := ispan s; pc := pc s; cbit := v; inl := inl s; kern := kern s; ares := ares s; jst := jst s; aw := aw s; acur := acur s; kpc := kpc s; earm := earm s; kw := kw s; tok := tok s; nextb := nextb s; opc := opc s; oco := oco s; ocbit := ocbit s; odis := odis s; ounw := ounw s; ofin := ofin s; opay := opay s; oto := oto s; odl := odl s; opdl := opdl s; ocall := ocall s; oalld := oalld s; ob := ob s; ocur := ocur s; oev := oev s; ojres := ojres s; fi := fi s; ostash := ostash s; owk := owk s; now := now s; nexta := nexta s; nexte := nexte s; tops := tops s; bots := bots s; botd := botd s; sent := sent s; byield := byield s; epush := epush s; epop := epop s; ernd := ernd s; dpush := dpush s; dpop := dpop s; olast := olast s; rer := rer s; rerp := rerp s; oleft := oleft s |}.
Definition set_inl (s : st) (v : nat -> bool) : st := {| evq := evq s; cnt := cnt s; towake := towake s; sel := sel s; total := total s; ispan := ispan s; pc := pc s; cbit := cbit s; inl := v; kern := kern s; ares := ares s; jst := jst s; aw := aw s; acur := acur s; kpc := kpc s; earm := earm s; kw := kw s; tok := tok s; nextb := nextb s; opc := opc s; oco := oco s; ocbit := ocbit s; odis := odis s; ounw := ounw s; ofin := ofin s; opay := opay s; oto := oto s; odl := odl s; opdl := opdl s; ocall := ocall s; oalld := oalld s; ob := ob s; ocur := ocur s; oev := oev s; ojres := ojres s; fi := fi s; ostash := ostash s; owk := owk s; now := now s; nexta := nexta s; nexte := nexte s; tops := tops s; bots := bots s; botd := botd s; sent := sent s; byield := byield s; epush := epush s; epop := epop s; ernd := ernd s; dpush := dpush s; dpop := dpop s; olast := olast s; rer := rer s; rerp := rerp s; oleft := oleft s |}.
Definition set_kern (s : st) (v : nat -> nat) : st := {| evq := evq s; cnt := cnt s; towake := towake s; sel := sel s; total := total s; ispan := ispan s; pc := pc s; cbit := cbit s; inl := inl s; kern := v; ares := ares s; jst := jst s; aw := aw s; acur := acur s; kpc := kpc s; earm := earm s; kw := kw s; tok := tok s; nextb := nextb s; opc := opc s; oco := oco s; ocbit := ocbit s; odis := odis s; ounw := ounw s; ofin := ofin s; opay := opay s; oto := oto s; odl := odl s; opdl := opdl s; ocall := ocall s; oalld := oalld s; ob := ob s; ocur := ocur s; oev := oev s; ojres := ojres s; fi := fi s; ostash := ostash s; owk := owk s; now := now s; nexta := nexta s; nexte := nexte s; tops := tops s; bots := bots s; botd := botd s; sent := sent s; byield := byield s; epush := epush s; epop := epop s; ernd := ernd s; dpush := dpush s; dpop := dpop s; olast := olast s; rer := rer s; rerp := rerp s; oleft := oleft s |}.
Definition set_ares (s : st) (v : nat -> aresult) : st := {| evq := evq s; cnt := cnt s; towake := towake s; sel := sel s; total := total s; ispan := ispan s; pc := pc s; cbit := cbit s; inl := inl s; kern := kern s; ares := v; jst := jst s; aw := aw s; acur := acur s; kpc := kpc s; earm := earm s; kw := kw s; tok := tok s; nextb := nextb s; opc := opc s; oco := oco s; ocbit := ocbit s; odis := odis s; ounw := ounw s; ofin := ofin s; opay := opay s; oto := oto s; odl := odl s; opdl := opdl s; ocall := ocall s; oalld := oalld s; ob := ob s; ocur := ocur s; oev := oev s; ojres := ojres s; fi := fi s; ostash := ostash s; owk := owk s; now := now s; nexta := nexta s; nexte := nexte s; tops := tops s; bots := bots s; botd := botd s; sent := sent s; byield := byield s; epush := epush s; epop := epop s; ernd := ernd s; dpush := dpush s; dpop := dpop s; olast := olast s; rer := rer s; rerp := rerp s; oleft := oleft s |}.
Definition set_jst (s : st) (v : nat -> bool) : st := {| evq := evq s; cnt := cnt s; towake := towake s; sel := sel s; total := total s; ispan := ispan s; pc := pc s; cbit := cbit s; inl := inl s; kern := kern s; ares := ares s; jst := v; aw := aw s; acur := acur s; kpc := kpc s; earm := earm s; kw := kw s; tok := tok s; nextb := nextb s; opc := opc s; oco := oco s; ocbit := ocbit s; odis := odis s; ounw := ounw s; ofin := ofin s; opay := opay s; oto := oto s; odl := odl s; opdl := opdl s; ocall := ocall s; oalld := oalld s; ob := ob s; ocur := ocur s; oev := oev s; ojres := ojres s; fi := fi s; ostash := ostash s; owk := owk s; now := now s; nexta := nexta s; nexte := nexte s; tops := tops s; bots := bots s; botd := botd s; sent := sent s; byield := byield s; epush := epush s; epop := epop s; ernd := ernd s; dpush := dpush s; dpop := dpop s; olast := olast s; rer := rer s; rerp := rerp s; oleft := oleft s |}.
Definition set_aw (s : st) (v : nat -> nat) : st := {| evq := evq s; cnt := cnt s; towake := towake s; sel := sel s; total := total s; ispan := ispan s; pc := pc s; cbit := cbit s; inl := inl s; kern := kern s; ares := ares s; jst := jst s; aw := v; acur := acur s; kpc := kpc s; earm := earm s; kw := kw s; tok := tok s; nextb := nextb s; opc := opc s; oco := oco s; ocbit := ocbit s; odis := odis s; ounw := ounw s; ofin := ofin s; opay := opay s; oto := oto s; odl := odl s; opdl := opdl s; ocall := ocall s; oalld := oalld s; ob := ob s; ocur := ocur s; oev := oev s; ojres := ojres s; fi := fi s; ostash := ostash s; owk := owk s; now := now s; nexta := nexta s; nexte := nexte s; tops := tops s; bots := bots s; botd := botd s; sent := sent s; byield := byield s; epush := epush s; epop := epop s; ernd := ernd s; dpush := dpush s; dpop := dpop s; olast := olast s; rer := rer s; rerp := rerp s; oleft := oleft s |}.
Definition set_acur (s : st) (v : nat -> nat) : st := {| evq := evq s; cnt := cnt s; towake := towake s; sel := sel s; total := total s; ispan := ispan s; pc := pc s; cbit := cbit s; inl := inl s; kern := kern s; ares := ares s; jst := jst s; aw := aw s; acur := v; kpc := kpc s; earm := earm s; kw := kw s; tok := tok s; nextb := nextb s; opc := opc s; oco := oco s; ocbit := ocbit s; odis := odis s; ounw := ounw s; ofin := ofin s; opay := opay s; oto := oto s; odl := odl s; opdl := opdl s; ocall := ocall s; oalld := oalld s; ob := ob s; ocur := ocur s; oev := oev s; ojres := ojres s; fi := fi s; ostash := ostash s; owk := owk s; now := now s; nexta := nexta s; nexte := nexte s; tops := tops s; bots := bots s; botd := botd s; sent := sent s; byield := byield s; epush := epush s; epop := epop s; ernd := ernd s; dpush := dpush s; dpop := dpop s; olast := olast s; rer := rer s; rerp := rerp s; oleft := oleft s |}.
Definition set_kpc (s : st) (v : nat -> kpcT) : st := {| evq := evq s; cnt := cnt s; towake := towake s; sel := sel s; total := total s; ispan := ispan s; pc := pc s; cbit := cbit s; inl := inl s; kern := kern s; ares := ares s; jst := jst s; aw := aw s; acur := acur s; kpc := v; earm := earm s; kw := kw s; tok := tok s; nextb := nextb s; opc := opc s; oco := oco s; ocbit := ocbit s; odis := odis s; ounw := ounw s; ofin := ofin s; opay := opay s; oto := oto s; odl := odl s; opdl := opdl s; ocall := ocall s; oalld := oalld s; ob := ob s; ocur := ocur s; oev := oev s; ojres := ojres s; fi := fi s; ostash := ostash s; owk := owk s; now := now s; nexta := nexta s; nexte := nexte s; tops := tops s; bots := bots s; botd := botd s; sent := sent s; byield := byield s; epush := epush s; epop := epop s; ernd := ernd s; dpush := dpush s; dpop := dpop s; olast := olast s; rer := rer s; rerp := rerp s; oleft := oleft s |}.
Definition set_earm (s : st) (v : nat -> nat) : st := {| evq := evq s; cnt := cnt s; towake := towake s; sel := sel s; total := total s; ispan := ispan s; pc := pc s; cbit := cbit s; inl := inl s; kern := kern s; ares := ares s; jst := jst s; aw := aw s; acur := acur s; kpc := kpc s; earm := v; kw := kw s; tok := tok s; nextb := nextb s; opc := opc s; oco := oco s; ocbit := ocbit s; odis := odis s; ounw := ounw s; ofin := ofin s; opay := opay s; oto := oto s; odl := odl s; opdl := opdl s; ocall := ocall s; oalld := oalld s; ob := ob s; ocur := ocur s; oev := oev s; ojres := ojres s; fi := fi s; ostash := ostash s; owk := owk s; now := now s; nexta := nexta s; nexte := nexte s; tops := tops s; bots := bots s; botd := botd s; sent := sent s; byield := byield s; epush := epush s; epop := epop s; ernd := ernd s; dpush := dpush s; dpop := dpop s; olast := olast s; rer := rer s; rerp := rerp s; oleft := oleft s |}.
Definition set_kw (s : st) (v : nat -> nat) : st := {| evq := evq s; cnt := cnt s; towake := towake s; sel := sel s; total := total s; ispan := ispan s; pc := pc s; cbit := cbit s; inl := inl s; kern := kern s; ares := ares s; jst := jst s; aw := aw s; acur := acur s; kpc := kpc s; earm := earm s; kw := v; tok := tok s; nextb := nextb s; opc := opc s; oco := oco s; ocbit := ocbit s; odis := odis s; ounw := ounw s; ofin := ofin s; opay := opay s; oto := oto s; odl := odl s; opdl := opdl s; ocall := ocall s; oalld := oalld s; ob := ob s; ocur := ocur s; oev := oev s; ojres := ojres s; fi := fi s; ostash := ostash s; owk := owk s; now := now s; nexta := nexta s; nexte := nexte s; tops := tops s; bots := bots s; botd := botd s; sent := sent s; byield := byield s; epush := epush s; epop := epop s; ernd := ernd s; dpush := dpush s; dpop := dpop s; olast := olast s; rer := rer s; rerp := rerp s; oleft := oleft s |}.
Definition set_tok (s : st) (v : nat -> bool) : st := {| evq := evq s; cnt := cnt s; towake := towake s; sel := sel s; total := total s; ispan := ispan s; pc := pc s; cbit := cbit s; inl := inl s; kern := kern s; ares := ares s; jst := jst s; aw := aw s; acur := acur s; kpc := kpc s; earm := earm s; kw := kw s; tok := v; nextb := nextb s; opc := opc s; oco := oco s; ocbit := ocbit s; odis := odis s; ounw := ounw s; ofin := ofin s; opay := opay s; oto := oto s; odl := odl s; opdl := opdl s; ocall := ocall s; oalld := oalld s; ob := ob s; ocur := ocur s; oev := oev s; ojres := ojres s; fi := fi s; ostash := ostash s; owk := owk s; now := now s; nexta := nexta s; nexte := nexte s; tops := tops s; bots := bots s; botd := botd s; sent := sent s; byield := byield s; epush := epush s; epop := epop s; ernd := ernd s; dpush := dpush s; dpop := dpop s; olast := olast s; rer := rer s; rerp := rerp s; oleft := oleft s |}.
Definition set_nextb (s : st) (v : nat) : st := {| evq := evq s; cnt := cnt s; towake := towake s; sel := sel s; total := total s; ispan := ispan s; pc := pc s; cbit := cbit s; inl := inl s; kern := kern s; ares := ares s; jst := jst s; aw := aw s; acur := acur s; kpc := kpc s; earm := earm s; kw := kw s; tok := tok s; nextb := v; opc := opc s; oco := oco s; ocbit := ocbit s; odis := odis s; ounw := ounw s; ofin := ofin s; opay := opay s; oto := oto s; odl := odl s; opdl := opdl s; ocall := ocall s; oalld := oalld s; ob := ob s; ocur := ocur s; oev := oev s; ojres := ojres s; fi := fi s; ostash := ostash s; owk := owk s; now := now s; nexta := nexta s; nexte := nexte s; tops := tops s; bots := bots s; botd := botd s; sent := sent s; byield := byield s; epush := epush s; epop := epop s; ernd := ernd s; dpush := dpush s; dpop := dpop s; olast := olast s; rer := rer s; rerp := rerp s; oleft := oleft s |}.
Definition set_opc (s : st) (v : opcT) : st := {| evq := evq s; cnt := cnt s; towake := towake s; sel := sel s; total := total s; ispan := ispan s; pc := pc s; cbit := cbit s; inl := inl s; kern := kern s; ares := ares s; jst := jst s; aw := aw s; acur := acur s; kpc := kpc s; earm := earm s; kw := kw s; tok := tok s; nextb := nextb s; opc := v; oco := oco s; ocbit := ocbit s; odis := odis s; ounw := ounw s; ofin := ofin s; opay := opay s; oto := oto s; odl := odl s; opdl := opdl s; ocall := ocall s; oalld := oalld s; ob := ob s; ocur := ocur s; oev := oev s; ojres := ojres s; fi := fi s; ostash := ostash s; owk := owk s; now := now s; nexta := nexta s; nexte := nexte s; tops := tops s; bots := bots s; botd := botd s; sent := sent s; byield := byield s; epush := epush s; epop := epop s; ernd := ernd s; dpush := dpush s; dpop := dpop s; olast := olast s; rer := rer s; rerp := rerp s; oleft := oleft s |}.
Definition set_oco (s : st) (v : bool) : st := {| evq := evq s; cnt := cnt s; towake := towake s; sel := sel s; total := total s; ispan := ispan s; pc := pc s; cbit := cbit s; inl := inl s; kern := kern s; ares := ares s; jst := jst s; aw := aw s; acur := acur s; kpc := kpc s; earm := earm s; kw := kw s; tok := tok s; nextb := nextb s; opc := opc s; oco := v; ocbit := ocbit s; odis := odis s; ounw := ounw s; ofin := ofin s; opay := opay s; oto := oto s; odl := odl s; opdl := opdl s; ocall := ocall s; oalld := oalld s; ob := ob s; ocur := ocur s; oev := oev s; ojres := ojres s; fi := fi s; ostash := ostash s; owk := owk s; now := now s; nexta := nexta s; nexte := nexte s; tops := tops s; bots := bots s; botd := botd s; sent := sent s; byield := byield s; epush := epush s; epop := epop s; ernd := ernd s; dpush := dpush s; dpop := dpop s; olast := olast s; rer := rer s; rerp := rerp s; oleft := oleft s |}.
Definition set_ocbit (s : st) (v : bool) : st := {| evq := evq s; cnt := cnt s; towake := towake s; sel := sel s; total := total s; ispan := ispan s; pc := pc s; cbit := cbit s; inl := inl s; kern := kern s; ares := ares s; jst := jst s; aw := aw s; acur := acur s; kpc := kpc s; earm := earm s; kw := kw s; tok := tok s; nextb := nextb s; opc := opc s; oco := oco s; ocbit := v; odis := odis s; ounw := ounw s; ofin := ofin s; opay := opay s; oto := oto s; odl := odl s; opdl := opdl s; ocall := ocall s; oalld := oalld s; ob := ob s; ocur := ocur s; oev := oev s; ojres := ojres s; fi := fi s; ostash := ostash s; owk := owk s; now := now s; nexta := nexta s; nexte := nexte s; tops := tops s; bots := bots s; botd := botd s; sent := sent s; byield := byield s; epush := epush s; epop := epop s; ernd := ernd s; dpush := dpush s; dpop := dpop s; olast := olast s; rer := rer s; rerp := rerp s; oleft := oleft s |}.
Definition set_odis (s : st) (v : nat) : st := {| evq := evq s; cnt := cnt s; towake := towake s; sel := sel s; total := total s; ispan := ispan s; pc := pc s; cbit := cbit s; inl := inl s; kern := kern s; ares := ares s; jst := jst s; aw := aw s; acur := acur s; kpc := kpc s; earm := earm s; kw := kw s; tok := tok s; nextb := nextb s; opc := opc s; oco := oco s; ocbit := ocbit s; odis := v; ounw := ounw s; ofin := ofin s; opay := opay s; oto := oto s; odl := odl s; opdl := opdl s; ocall := ocall s; oalld := oalld s; ob := ob s; ocur := ocur s; oev := oev s; ojres := ojres s; fi := fi s; ostash := ostash s; owk := owk s; now := now s; nexta := nexta s; nexte := nexte s; tops := tops s; bots := bots s; botd := botd s; sent := sent s; byield := byield s; epush := epush s; epop := epop s; ernd := ernd s; dpush := dpush s; dpop := dpop s; olast := olast s; rer := rer s; rerp := rerp s; oleft := oleft s |}.
Definition set_ounw (s : st) (v : unw) : st := {| evq := evq s; cnt := cnt s; towake := towake s; sel := sel s; total := total s; ispan := ispan s; pc := pc s; cbit := cbit s; inl := inl s; kern := kern s; ares := ares s; jst := jst s; aw := aw s; acur := acur s; kpc := kpc s; earm := earm s; kw := kw s; tok := tok s; nextb := nextb s; opc := opc s; oco := oco s; ocbit := ocbit s; odis := odis s; ounw := v; ofin := ofin s; opay := opay s; oto := oto s; odl := odl s; opdl := opdl s; ocall := ocall s; oalld := oalld s; ob := ob s; ocur := ocur s; oev := oev s; ojres := ojres s; fi := fi s; ostash := ostash s; owk := owk s; now := now s; nexta := nexta s; nexte := nexte s; tops := tops s; bots := bots s; botd := botd s; sent := sent s; byield := byield s; epush := epush s; epop := epop s; ernd := ernd s; dpush := dpush s; dpop := dpop s; olast := olast s; rer := rer s; rerp := rerp s; oleft := oleft s |}.
Definition set_ofin (s : st) (v : nat) : st := {| evq := evq s; cnt := cnt s; towake := towake s; sel := sel s; total := total s; ispan := ispan s; pc := pc s; cbit := cbit s; inl := inl s; kern := kern s; ares := ares s; jst := jst s; aw := aw s; acur := acur s; kpc := kpc s; earm := earm s; kw := kw s; tok := tok s; nextb := nextb s; opc := opc s; oco := oco s; ocbit := ocbit s; odis := odis s; ounw := ounw s; ofin := v; opay := opay s; oto := oto s; odl := odl s; opdl := opdl s; ocall := ocall s; oalld := oalld s; ob := ob s; ocur := ocur s; oev := oev s; ojres := ojres s; fi := fi s; ostash := ostash s; owk := owk s; now := now s; nexta := nexta s; nexte := nexte s; tops := tops s; bots := bots s; botd := botd s; sent := sent s; byield := byield s; epush := epush s; epop := epop s; ernd := ernd s; dpush := dpush s; dpop := dpop s; olast := olast s; rer := rer s; rerp := rerp s; oleft := oleft s |}.
Definition set_opay (s : st) (v : unw) : st := {| evq := evq s; cnt := cnt s; towake := towake s; sel := sel s; total := total s; ispan := ispan s; pc := pc s; cbit := cbit s; inl := inl s; kern := kern s; ares := ares s; jst := jst s; aw := aw s; acur := acur s; kpc := kpc s; earm := earm s; kw := kw s; tok := tok s; nextb := nextb s; opc := opc s; oco := oco s; ocbit := ocbit s; odis := odis s; ounw := ounw s; ofin := ofin s; opay := v; oto := oto s; odl := odl s; opdl := opdl s; ocall := ocall s; oalld := oalld s; ob := ob s; ocur := ocur s; oev := oev s; ojres := ojres s; fi := fi s; ostash := ostash s; owk := owk s; now := now s; nexta := nexta s; nexte := nexte s; tops := tops s; bots := bots s; botd := botd s; sent := sent s; byield := byield s; epush := epush s; epop := epop s; ernd := ernd s; dpush := dpush s; dpop := dpop s; olast := olast s; rer := rer s; rerp := rerp s; oleft := oleft s |}.
Definition set_oto (s : st) (v : option Z) : st := {| evq := evq s; cnt := cnt s; towake := towake s; sel := sel s; total := total s; ispan := ispan s; pc := pc s; cbit := cbit s; inl := inl s; kern := kern s; ares := ares s; jst := jst s; aw := aw s; acur := acur s; kpc := kpc s; earm := earm s; kw := kw s; tok := tok s; nextb := nextb s; opc := opc s; oco := oco s; ocbit := ocbit s; odis := odis s; ounw := ounw s; ofin := ofin s; opay := opay s; oto := v; odl := odl s; opdl := opdl s; ocall := ocall s; oalld := oalld s; ob := ob s; ocur := ocur s; oev := oev s; ojres := ojres s; fi := fi s; ostash := ostash s; owk := owk s; now := now s; nexta := nexta s; nexte := nexte s; tops := tops s; bots := bots s; botd := botd s; sent := sent s; byield := byield s; epush := epush s; epop := epop s; ernd := ernd s; dpush := dpush s; dpop := dpop s; olast := olast s; rer := rer s; rerp := rerp s; oleft := oleft s |}.
Definition set_odl (s : st) (v : option Z) : st := {| evq := evq s; cnt := cnt s; towake := towake s; sel := sel s; total := total s; ispan := ispan s; pc := pc s; cbit := cbit s; inl := inl s; kern := kern s; ares := ares s; jst := jst s; aw := aw s; acur := acur s; kpc := kpc s; earm := earm s; kw := kw s; tok := tok s; nextb := nextb s; opc := opc s; oco := oco s; ocbit := ocbit s; odis := odis s; ounw := ounw s; ofin := ofin s; opay := opay s; oto := oto s; odl := v; opdl := opdl s; ocall := ocall s; oalld := oalld s; ob := ob s; ocur := ocur s; oev := oev s; ojres := ojres s; fi := fi s; ostash := ostash s; owk := owk s; now := now s; nexta := nexta s; nexte := nexte s; tops := tops s; bots := bots s; botd := botd s; sent := sent s; byield := byield s; epush := epush s; epop := epop s; ernd := ernd s; dpush := dpush s; dpop := dpop s; olast := olast s; rer := rer s; rerp := rerp s; oleft := oleft s |}.
Definition set_opdl (s : st) (v : option Z) : st := {| evq := evq s; cnt := cnt s; towake := towake s; sel := sel s; total := total s; ispan := ispan s; pc := pc s; cbit := cbit s; inl := inl s; kern := kern s; ares := ares s; jst := jst s; aw := aw s; acur := acur s; kpc := kpc s; earm := earm s; kw := kw s; tok := tok s; nextb := nextb s; opc := opc s; oco := oco s; ocbit := ocbit s; odis := odis s; ounw := ounw s; ofin := ofin s; opay := opay s; oto := oto s; odl := odl s; opdl := v; ocall := ocall s; oalld := oalld s; ob := ob s; ocur := ocur s; oev := oev s; ojres := ojres s; fi := fi s; ostash := ostash s; owk := owk s; now := now s; nexta := nexta s; nexte := nexte s; tops := tops s; bots := bots s; botd := botd s; sent := sent s; byield := byield s; epush := epush s; epop := epop s; ernd := ernd s; dpush := dpush s; dpop := dpop s; olast := olast s; rer := rer s; rerp := rerp s; oleft := oleft s |}.
Definition set_ocall (s : st) (v : Z) : st := {| evq := evq s; cnt := cnt s; towake := towake s; sel := sel s; total := total s; ispan := ispan s; pc := pc s; cbit := cbit s; inl := inl s; kern := kern s; ares := ares s; jst := jst s; aw := aw s; acur := acur s; kpc := kpc s; earm := earm s; kw := kw s; tok := tok s; nextb := nextb s; opc := opc s; oco := oco s; ocbit := ocbit s; odis := odis s; ounw := ounw s; ofin := ofin s; opay := opay s; oto := oto s; odl := odl s; opdl := opdl s; ocall := v; oalld := oalld s; ob := ob s; ocur := ocur s; oev := oev s; ojres := ojres s; fi := fi s; ostash := ostash s; owk := owk s; now := now s; nexta := nexta s; nexte := nexte s; tops := tops s; bots := bots s; botd := botd s; sent := sent s; byield := byield s; epush := epush s; epop := epop s; ernd := ernd s; dpush := dpush s; dpop := dpop s; olast := olast s; rer := rer s; rerp := rerp s; oleft := oleft s |}.
Definition set_oalld (s : st) (v : bool) : st := {| evq := evq s; cnt := cnt s; towake := towake s; sel := sel s; total := total s; ispan := ispan s; pc := pc s; cbit := cbit s; inl := inl s; kern := kern s; ares := ares s; jst := jst s; aw := aw s; acur := acur s; kpc := kpc s; earm := earm s; kw := kw s; tok := tok s; nextb := nextb s; opc := opc s; oco := oco s; ocbit := ocbit s; odis := odis s; ounw := ounw s; ofin := ofin s; opay := opay s; oto := oto s; odl := odl s; opdl := opdl s; ocall := ocall s; oalld := v; ob := ob s; ocur := ocur s; oev := oev s; ojres := ojres s; fi := fi s; ostash := ostash s; owk := owk s; now := now s; nexta := nexta s; nexte := nexte s; tops := tops s; bots := bots s; botd := botd s; sent := sent s; byield := byield s; epush := epush s; epop := epop s; ernd := ernd s; dpush := dpush s; dpop := dpop s; olast := olast s; rer := rer s; rerp := rerp s; oleft := oleft s |}.
Definition set_ob (s : st) (v : nat) : st := {| evq := evq s; cnt := cnt s; towake := towake s; sel := sel s; total := total s; ispan := ispan s; pc := pc s; cbit := cbit s; inl := inl s; kern := kern s; ares := ares s; jst := jst s; aw := aw s; acur := acur s; kpc := kpc s; earm := earm s; kw := kw s; tok := tok s; nextb := nextb s; opc := opc s; oco := oco s; ocbit := ocbit s; odis := odis s; ounw := ounw s; ofin := ofin s; opay := opay s; oto := oto s; odl := odl s; opdl := opdl s; ocall := ocall s; oalld := oalld s; ob := v; ocur := ocur s; oev := oev s; ojres := ojres s; fi := fi s; ostash := ostash s; owk := owk s; now := now s; nexta := nexta s; nexte := nexte s; tops := tops s; bots := bots s; botd := botd s; sent := sent s; byield := byield s; epush := epush s; epop := epop s; ernd := ernd s; dpush := dpush s; dpop := dpop s; olast := olast s; rer := rer s; rerp := rerp s; oleft := oleft s |}.
Definition set_ocur (s : st) (v : nat) : st := {| evq := evq s; cnt := cnt s; towake := towake s; sel := sel s; total := total s; ispan := ispan s; pc := pc s; cbit := cbit s; inl := inl s; kern := kern s; ares := ares s; jst := jst s; aw := aw s; acur := acur s; kpc := kpc s; earm := earm s; kw := kw s; tok := tok s; nextb := nextb s; opc := opc s; oco := oco s; ocbit := ocbit s; odis := odis s; ounw := ounw s; ofin := ofin s; opay := opay s; oto := oto s; odl := odl s; opdl := opdl s; ocall := ocall s; oalld := oalld s; ob := ob s; ocur := v; oev := oev s; ojres := ojres s; fi := fi s; ostash := ostash s; owk := owk s; now := now s; nexta := nexta s; nexte := nexte s; tops := tops s; bots := bots s; botd := botd s; sent := sent s; byield := byield s; epush := epush s; epop := epop s; ernd := ernd s; dpush := dpush s; dpop := dpop s; olast := olast s; rer := rer s; rerp := rerp s; oleft := oleft s |}.
Definition set_oev (s : st) (v : nat) : st := {| evq := evq s; cnt := cnt s; towake := towake s; sel := sel s; total := total s; ispan := ispan s; pc := pc s; cbit := cbit s; inl := inl s; kern := kern s; ares := ares s; jst := jst s; aw := aw s; acur := acur s; kpc := kpc s; earm := earm s; kw := kw s; tok := tok s; nextb := nextb s; opc := opc s; oco := oco s; ocbit := ocbit s; odis := odis s; ounw := ounw s; ofin := ofin s; opay := opay s; oto := oto s; odl := odl s; opdl := opdl s; ocall := ocall s; oalld := oalld s; ob := ob s; ocur := ocur s; oev := v; ojres := ojres s; fi := fi s; ostash := ostash s; owk := owk s; now := now s; nexta := nexta s; nexte := nexte s; tops := tops s; bots := bots s; botd := botd s; sent := sent s; byield := byield s; epush := epush s; epop := epop s; ernd := ernd s; dpush := dpush s; dpop := dpop s; olast := olast s; rer := rer s; rerp := rerp s; oleft := oleft s |}.
Definition set_ojres (s : st) (v : aresult) : st := {| evq := evq s; cnt := cnt s; towake := towake s; sel := sel s; total := total s; ispan := ispan s; pc := pc s; cbit := cbit s; inl := inl s; kern := kern s; ares := ares s; jst := jst s; aw := aw s; acur := acur s; kpc := kpc s; earm := earm s; kw := kw s; tok := tok s; nextb := nextb s; opc := opc s; oco := oco s; ocbit := ocbit s; odis := odis s; ounw := ounw s; ofin := ofin s; opay := opay s; oto := oto s; odl := odl s; opdl := opdl s; ocall := ocall s; oalld := oalld s; ob := ob s; ocur := ocur s; oev := oev s; ojres := v; fi := fi s; ostash := ostash s; owk := owk s; now := now s; nexta := nexta s; nexte := nexte s; tops := tops s; bots := bots s; botd := botd s; sent := sent s; byield := byield s; epush := epush s; epop := epop s; ernd := ernd s; dpush := dpush s; dpop := dpop s; olast := olast s; rer := rer s; rerp := rerp s; oleft := oleft s |}.
Definition set_fi (s : st) (v : nat) : st := {| evq := evq s; cnt := cnt s; towake := towake s; sel := sel s; total := total s; ispan := ispan s; pc := pc s; cbit := cbit s; inl := inl s; kern := kern s; ares := ares s; jst := jst s; aw := aw s; acur := acur s; kpc := kpc s; earm := earm s; kw := kw s; tok := tok s; nextb := nextb s; opc := opc s; oco := oco s; ocbit := ocbit s; odis := odis s; ounw := ounw s; ofin := ofin s; opay := opay s; oto := oto s; odl := odl s; opdl := opdl s; ocall := ocall s; oalld := oalld s; ob := ob s; ocur := ocur s; oev := oev s; ojres := ojres s; fi := v; ostash := ostash s; owk := owk s; now := now s; nexta := nexta s; nexte := nexte s; tops := tops s; bots := bots s; botd := botd s; sent := sent s; byield := byield s; epush := epush s; epop := epop s; ernd := ernd s; dpush := dpush s; dpop := dpop s; olast := olast s; rer := rer s; rerp := rerp s; oleft := oleft s |}.
Definition set_ostash (s : st) (v : qent) : st := {| evq := evq s; cnt := cnt s; towake := towake s; sel := sel s; total := total s; ispan := ispan s; pc := pc s; cbit := cbit s; inl := inl s; kern := kern s; ares := ares s; jst := jst s; aw := aw s; acur := acur s; kpc := kpc s; earm := earm s; kw := kw s; tok := tok s; nextb := nextb s; opc := opc s; oco := oco s; ocbit := ocbit s; odis := odis s; ounw := ounw s; ofin := ofin s; opay := opay s; oto := oto s; odl := odl s; opdl := opdl s; ocall := ocall s; oalld := oalld s; ob := ob s; ocur := ocur s; oev := oev s; ojres := ojres s; fi := fi s; ostash := v; owk := owk s; now := now s; nexta := nexta s; nexte := nexte s; tops := tops s; bots := bots s; botd := botd s; sent := sent s; byield := byield s; epush := epush s; epop := epop s; ernd := ernd s; dpush := dpush s; dpop := dpop s; olast := olast s; rer := rer s; rerp := rerp s; oleft := oleft s |}.
Definition set_owk (s : st) (v : bool) : st := {| evq := evq s; cnt := cnt s; towake := towake s; sel := sel s; total := total s; ispan := ispan s; pc := pc s; cbit := cbit s; inl := inl s; kern := kern s; ares := ares s; jst := jst s; aw := aw s; acur := acur s; kpc := kpc s; earm := earm s; kw := kw s; tok := tok s; nextb := nextb s; opc := opc s; oco := oco s; ocbit := ocbit s; odis := odis s; ounw := ounw s; ofin := ofin s; opay := opay s; oto := oto s; odl := odl s; opdl := opdl s; ocall := ocall s; oalld := oalld s; ob := ob s; ocur := ocur s; oev := oev s; ojres := ojres s; fi := fi s; ostash := ostash s; owk := v; now := now s; nexta := nexta s; nexte := nexte s; tops := tops s; bots := bots s; botd := botd s; sent := sent s; byield := byield s; epush := epush s; epop := epop s; ernd := ernd s; dpush := dpush s; dpop := dpop s; olast := olast s; rer := rer s; rerp := rerp s; oleft := oleft s |}.
Definition set_now (s : st) (v : Z) : st := {| evq := evq s; cnt := cnt s; towake := towake s; sel := sel s; total := total s; ispan := ispan s; pc := pc s; cbit := cbit s; inl := inl s; kern := kern s; ares := ares s; jst := jst s; aw := aw s; acur := acur s; kpc := kpc s; earm := earm s; kw := kw s; tok := tok s; nextb := nextb s; opc := opc s; oco := oco s; ocbit := ocbit s; odis := odis s; ounw := ounw s; ofin := ofin s; opay := opay s; oto := oto s; odl := odl s; opdl := opdl s; ocall := ocall s; oalld := oalld s; ob := ob s; ocur := ocur s; oev := oev s; ojres := ojres s; fi := fi s; ostash := ostash s; owk := owk s; now := v; nexta := nexta s; nexte := nexte s; tops := tops s; bots := bots s; botd := botd s; sent := sent s; byield := byield s; epush := epush s; epop := epop s; ernd := ernd s; dpush := dpush s; dpop := dpop s; olast := olast s; rer := rer s; rerp := rerp s; oleft := oleft s |}.
Definition set_nexta (s : st) (v : nat) : st := {| evq := evq s; cnt := cnt s; towake := towake s; sel := sel s; total := total s; ispan := ispan s; pc := pc s; cbit := cbit s; inl := inl s; kern := kern s; ares := ares s; jst := jst s; aw := aw s; acur := acur s; kpc := kpc s; earm := earm s; kw := kw s; tok := tok s; nextb := nextb s; opc := opc s; oco := oco s; ocbit := ocbit s; odis := odis s; ounw := ounw s; ofin := ofin s; opay := opay s; oto := oto s; odl := odl s; opdl := opdl s; ocall := ocall s; oalld := oalld s; ob := ob s; ocur := ocur s; oev := oev s; ojres := ojres s; fi := fi s; ostash := ostash s; owk := owk s; now := now s; nexta := v; nexte := nexte s; tops := tops s; bots := bots s; botd := botd s; sent := sent s; byield := byield s; epush := epush s; epop := epop s; ernd := ernd s; dpush := dpush s; dpop := dpop s; olast := olast s; rer := rer s; rerp := rerp s; oleft := oleft s |}.
Definition set_nexte (s : st) (v : nat) : st := {| evq := evq s; cnt := cnt s; towake := towake s; sel := sel s; total := total s; ispan := ispan s; pc := pc s; cbit := cbit s; inl := inl s; kern := kern s; ares := ares s; jst := jst s; aw := aw s; acur := acur s; kpc := kpc s; earm := earm s; kw := kw s; tok := tok s; nextb := nextb s; opc := opc s; oco := oco s; ocbit := ocbit s; odis := odis s; ounw := ounw s; ofin := ofin s; opay := opay s; oto := oto s; odl := odl s; opdl := opdl s; ocall := ocall s; oalld := oalld s; ob := ob s; ocur := ocur s; oev := oev s; ojres := ojres s; fi := fi s; ostash := ostash s; owk := owk s; now := now s; nexta := nexta s; nexte := v; tops := tops s; bots := bots s; botd := botd s; sent := sent s; byield := byield s; epush := epush s; epop := epop s; ernd := ernd s; dpush := dpush s; dpop := dpop s; olast := olast s; rer := rer s; rerp := rerp s; oleft := oleft s |}.
Definition set_tops (s : st) (v : nat -> nat) : st := {| evq := evq s; cnt := cnt s; towake := towake s; sel := sel s; total := total s; ispan := ispan s; pc := pc s; cbit := cbit s; inl := inl s; kern := kern s; ares := ares s; jst := jst s; aw := aw s; acur := acur s; kpc := kpc s; earm := earm s; kw := kw s; tok := tok s; nextb := nextb s; opc := opc s; oco := oco s; ocbit := ocbit s; odis := odis s; ounw := ounw s; ofin := ofin s; opay := opay s; oto := oto s; odl := odl s; opdl := opdl s; ocall := ocall s; oalld := oalld s; ob := ob s; ocur := ocur s; oev := oev s; ojres := ojres s; fi := fi s; ostash := ostash s; owk := owk s; now := now s; nexta := nexta s; nexte := nexte s; tops := v; bots := bots s; botd := botd s; sent := sent s; byield := byield s; epush := epush s; epop := epop s; ernd := ernd s; dpush := dpush s; dpop := dpop s; olast := olast s; rer := rer s; rerp := rerp s; oleft := oleft s |}.
Definition set_bots (s : st) (v : nat -> nat) : st := {| evq := evq s; cnt := cnt s; towake := towake s; sel := sel s; total := total s; ispan := ispan s; pc := pc s; cbit := cbit s; inl := inl s; kern := kern s; ares := ares s; jst := jst s; aw := aw s; acur := acur s; kpc := kpc s; earm := earm s; kw := kw s; tok := tok s; nextb := nextb s; opc := opc s; oco := oco s; ocbit := ocbit s; odis := odis s; ounw := ounw s; ofin := ofin s; opay := opay s; oto := oto s; odl := odl s; opdl := opdl s; ocall := ocall s; oalld := oalld s; ob := ob s; ocur := ocur s; oev := oev s; ojres := ojres s; fi := fi s; ostash := ostash s; owk := owk s; now := now s; nexta := nexta s; nexte := nexte s; tops := tops s; bots := v; botd := botd s; sent := sent s; byield := byield s; epush := epush s; epop := epop s; ernd := ernd s; dpush := dpush s; dpop := dpop s; olast := olast s; rer := rer s; rerp := rerp s; oleft := oleft s |}.
Definition set_botd (s : st) (v : nat -> nat) : st := {| evq := evq s; cnt := cnt s; towake := towake s; sel := sel s; total := total s; ispan := ispan s; pc := pc s; cbit := cbit s; inl := inl s; kern := kern s; ares := ares s; jst := jst s; aw := aw s; acur := acur s; kpc := kpc s; earm := earm s; kw := kw s; tok := tok s; nextb := nextb s; opc := opc s; oco := oco s; ocbit := ocbit s; odis := odis s; ounw := ounw s; ofin := ofin s; opay := opay s; oto := oto s; odl := odl s; opdl := opdl s; ocall := ocall s; oalld := oalld s; ob := ob s; ocur := ocur s; oev := oev s; ojres := ojres s; fi := fi s; ostash := ostash s; owk := owk s; now := now s; nexta := nexta s; nexte := nexte s; tops := tops s; bots := bots s; botd := v; sent := sent s; byield := byield s; epush := epush s; epop := epop s; ernd := ernd s; dpush := dpush s; dpop := dpop s; olast := olast s; rer := rer s; rerp := rerp s; oleft := oleft s |}.
Definition set_sent (s : st) (v : nat -> nat) : st := {| evq := evq s; cnt := cnt s; towake := towake s; sel := sel s; total := total s; ispan := ispan s; pc := pc s; cbit := cbit s; inl := inl s; kern := kern s; ares := ares s; jst := jst s; aw := aw s; acur := acur s; kpc := kpc s; earm := earm s; kw := kw s; tok := tok s; nextb := nextb s; opc := opc s; oco := oco s; ocbit := ocbit s; odis := odis s; ounw := ounw s; ofin := ofin s; opay := opay s; oto := oto s; odl := odl s; opdl := opdl s; ocall := ocall s; oalld := oalld s; ob := ob s; ocur := ocur s; oev := oev s; ojres := ojres s; fi := fi s; ostash := ostash s; owk := owk s; now := now s; nexta := nexta s; nexte := nexte s; tops := tops s; bots := bots s; botd := botd s; sent := v; byield := byield s; epush := epush s; epop := epop s; ernd := ernd s; dpush := dpush s; dpop := dpop s; olast := olast s; rer := rer s; rerp := rerp s; oleft := oleft s |}.
Definition set_byield (s : st) (v : nat -> bool) : st := {| evq := evq s; cnt := cnt s; towake := towake s; sel := sel s; total := total s; ispan := ispan s; pc := pc s; cbit := cbit s; inl := inl s; kern := kern s; ares := ares s; jst := jst s; aw := aw s; acur := acur s; kpc := kpc s; earm := earm s; kw := kw s; tok := tok s; nextb := nextb s; opc := opc s; oco := oco s; ocbit := ocbit s; odis := odis s; ounw := ounw s; ofin := ofin s; opay := opay s; oto := oto s; odl := odl s; opdl := opdl s; ocall := ocall s; oalld := oalld s; ob := ob s; ocur := ocur s; oev := oev s; ojres := ojres s; fi := fi s; ostash := ostash s; owk := owk s; now := now s; nexta := nexta s; nexte := nexte s; tops := tops s; bots := bots s; botd := botd s; sent := sent s; byield := v; epush := epush s; epop := epop s; ernd := ernd s; dpush := dpush s; dpop := dpop s; olast := olast s; rer := rer s; rerp := rerp s; oleft := oleft s |}.
Definition set_epush (s : st) (v : nat -> nat) : st := {| evq := evq s; cnt := cnt s; towake := towake s; sel := sel s; total := total s; ispan := ispan s; pc := pc s; cbit := cbit s; inl := inl s; kern := kern s; ares := ares s; jst := jst s; aw := aw s; acur := acur s; kpc := kpc s; earm := earm s; kw := kw s; tok := tok s; nextb := nextb s; opc := opc s; oco := oco s; ocbit := ocbit s; odis := odis s; ounw := ounw s; ofin := ofin s; opay := opay s; oto := oto s; odl := odl s; opdl := opdl s; ocall := ocall s; oalld := oalld s; ob := ob s; ocur := ocur s; oev := oev s; ojres := ojres s; fi := fi s; ostash := ostash s; owk := owk s; now := now s; nexta := nexta s; nexte := nexte s; tops := tops s; bots := bots s; botd := botd s; sent := sent s; byield := byield s; epush := v; epop := epop s; ernd := ernd s; dpush := dpush s; dpop := dpop s; olast := olast s; rer := rer s; rerp := rerp s; oleft := oleft s |}.
Definition set_epop (s : st) (v : nat -> nat) : st := {| evq := evq s; cnt := cnt s; towake := towake s; sel := sel s; total := total s; ispan := ispan s; pc := pc s; cbit := cbit s; inl := inl s; kern := kern s; ares := ares s; jst := jst s; aw := aw s; acur := acur s; kpc := kpc s; earm := earm s; kw := kw s; tok := tok s; nextb := nextb s; opc := opc s; oco := oco s; ocbit := ocbit s; odis := odis s; ounw := ounw s; ofin := ofin s; opay := opay s; oto := oto s; odl := odl s; opdl := opdl s; ocall := ocall s; oalld := oalld s; ob := ob s; ocur := ocur s; oev := oev s; ojres := ojres s; fi := fi s; ostash := ostash s; owk := owk s; now := now s; nexta := nexta s; nexte := nexte s; tops := tops s; bots := bots s; botd := botd s; sent := sent s; byield := byield s; epush := epush s; epop := v; ernd := ernd s; dpush := dpush s; dpop := dpop s; olast := olast s; rer := rer s; rerp := rerp s; oleft := oleft s |}.
Definition set_ernd (s : st) (v : nat -> nat) : st := {| evq := evq s; cnt := cnt s; towake := towake s; sel := sel s; total := total s; ispan := ispan s; pc := pc s; cbit := cbit s; inl := inl s; kern := kern s; ares := ares s; jst := jst s; aw := aw s; acur := acur s; kpc := kpc s; earm := earm s; kw := kw s; tok := tok s; nextb := nextb s; opc := opc s; oco := oco s; ocbit := ocbit s; odis := odis s; ounw := ounw s; ofin := ofin s; opay := opay s; oto := oto s; odl := odl s; opdl := opdl s; ocall := ocall s; oalld := oalld s; ob := ob s; ocur := ocur s; oev := oev s; ojres := ojres s; fi := fi s; ostash := ostash s; owk := owk s; now := now s; nexta := nexta s; nexte := nexte s; tops := tops s; bots := bots s; botd := botd s; sent := sent s; byield := byield s; epush := epush s; epop := epop s; ernd := v; dpush := dpush s; dpop := dpop s; olast := olast s; rer := rer s; rerp := rerp s; oleft := oleft s |}.
Definition set_dpush (s : st) (v : nat -> nat) : st := {| evq := evq s; cnt := cnt s; towake := towake s; sel := sel s; total := total s; ispan := ispan s; pc := pc s; cbit := cbit s; inl := inl s; kern := kern s; ares := ares s; jst := jst s; aw := aw s; acur := acur s; kpc := kpc s; earm := earm s; kw := kw s; tok := tok s; nextb := nextb s; opc := opc s; oco := oco s; ocbit := ocbit s; odis := odis s; ounw := ounw s; ofin := ofin s; opay := opay s; oto := oto s; odl := odl s; opdl := opdl s; ocall := ocall s; oalld := oalld s; ob := ob s; ocur := ocur s; oev := oev s; ojres := ojres s; fi := fi s; ostash := ostash s; owk := owk s; now := now s; nexta := nexta s; nexte := nexte s; tops := tops s; bots := bots s; botd := botd s; sent := sent s; byield := byield s; epush := epush s; epop := epop s; ernd := ernd s; dpush := v; dpop := dpop s; olast := olast s; rer := rer s; rerp := rerp s; oleft := oleft s |}.
Definition set_dpop (s : st) (v : nat -> nat) : st := {| evq := evq s; cnt := cnt s; towake := towake s; sel := sel s; total := total s; ispan := ispan s; pc := pc s; cbit := cbit s; inl := inl s; kern := kern s; ares := ares s; jst := jst s; aw := aw s; acur := acur s; kpc := kpc s; earm := earm s; kw := kw s; tok := tok s; nextb := nextb s; opc := opc s; oco := oco s; ocbit := ocbit s; odis := odis s; ounw := ounw s; ofin := ofin s; opay := opay s; oto := oto s; odl := odl s; opdl := opdl s; ocall := ocall s; oalld := oalld s; ob := ob s; ocur := ocur s; oev := oev s; ojres := ojres s; fi := fi s; ostash := ostash s; owk := owk s; now := now s; nexta := nexta s; nexte := nexte s; tops := tops s; bots := bots s; botd := botd s; sent := sent s; byield := byield s; epush := epush s; epop := epop s; ernd := ernd s; dpush := dpush s; dpop := v; olast := olast s; rer := rer s; rerp := rerp s; oleft := oleft s |}.
Definition set_olast (s : st) (v : lastret) : st := {| evq := evq s; cnt := cnt s; towake := towake s; sel := sel s; total := total s; ispan := ispan s; pc := pc s; cbit := cbit s; inl := inl s; kern := kern s; ares := ares s; jst := jst s; aw := aw s; acur := acur s; kpc := kpc s; earm := earm s; kw := kw s; tok := tok s; nextb := nextb s; opc := opc s; oco := oco s; ocbit := ocbit s; odis := odis s; ounw := ounw s; ofin := ofin s; opay := opay s; oto := oto s; odl := odl s; opdl := opdl s; ocall := ocall s; oalld := oalld s; ob := ob s; ocur := ocur s; oev := oev s; ojres := ojres s; fi := fi s; ostash := ostash s; owk := owk s; now := now s; nexta := nexta s; nexte := nexte s; tops := tops s; bots := bots s; botd := botd s; sent := sent s; byield := byield s; epush := epush s; epop := epop s; ernd := ernd s; dpush := dpush s; dpop := dpop s; olast := v; rer := rer s; rerp := rerp s; oleft := oleft s |}.
Definition set_rer (s : st) (v : nat) : st := {| evq := evq s; cnt := cnt s; towake := towake s; sel := sel s; total := total s; ispan := ispan s; pc := pc s; cbit := cbit s; inl := inl s; kern := kern s; ares := ares s; jst := jst s; aw := aw s; acur := acur s; kpc := kpc s; earm := earm s; kw := kw s; tok := tok s; nextb := nextb s; opc := opc s; oco := oco s; ocbit := ocbit s; odis := odis s; ounw := ounw s; ofin := ofin s; opay := opay s; oto := oto s; odl := odl s; opdl := opdl s; ocall := ocall s; oalld := oalld s; ob := ob s; ocur := ocur s; oev := oev s; ojres := ojres s; fi := fi s; ostash := ostash s; owk := owk s; now := now s; nexta := nexta s; nexte := nexte s; tops := tops s; bots := bots s; botd := botd s; sent := sent s; byield := byield s; epush := epush s; epop := epop s; ernd := ernd s; dpush := dpush s; dpop := dpop s; olast := olast s; rer := v; rerp := rerp s; oleft := oleft s |}.
Definition set_rerp (s : st) (v : option nat) : st := {| evq := evq s; cnt := cnt s; towake := towake s; sel := sel s; total := total s; ispan := ispan s; pc := pc s; cbit := cbit s; inl := inl s; kern := kern s; ares := ares s; jst := jst s; aw := aw s; acur := acur s; kpc := kpc s; earm := earm s; kw := kw s; tok := tok s; nextb := nextb s; opc := opc s; oco := oco s; ocbit := ocbit s; odis := odis s; ounw := ounw s; ofin := ofin s; opay := opay s; oto := oto s; odl := odl s; opdl := opdl s; ocall := ocall s; oalld := oalld s; ob := ob s; ocur := ocur s; oev := oev s; ojres := ojres s; fi := fi s; ostash := ostash s; owk := owk s; now := now s; nexta := nexta s; nexte := nexte s; tops := tops s; bots := bots s; botd := botd s; sent := sent s; byield := byield s; epush := epush s; epop := epop s; ernd := ernd s; dpush := dpush s; dpop := dpop s; olast := olast s; rer := rer s; rerp := v; oleft := oleft s |}.
Definition set_oleft (s : st) (v : bool) : st := {| evq := evq s; cnt := cnt s; towake := towake s; sel := sel s; total := total s; ispan := ispan s; pc := pc s; cbit := cbit s; inl := inl s; kern := kern s; ares := ares s; jst := jst s; aw := aw s; acur := acur s; kpc := kpc s; earm := earm s; kw := kw s; tok := tok s; nextb := nextb s; opc := opc s; oco := oco s; ocbit := ocbit s; odis := odis s; ounw := ounw s; ofin := ofin s; opay := opay s; oto := oto s; odl := odl s; opdl := opdl s; ocall := ocall s; oalld := oalld s; ob := ob s; ocur := ocur s; oev := oev s; ojres := ojres s; fi := fi s; ostash := ostash s; owk := owk s; now := now s; nexta := nexta s; nexte := nexte s; tops := tops s; bots := bots s; botd := botd s; sent := sent s; byield := byield s; epush := epush s; epop := epop s; ernd := ernd s; dpush := dpush s; dpop := dpop s; olast := olast s; rer := rer s; rerp := rerp s; oleft := v |}.

Definition upd {X} (f : nat -> X) i v := fun j => if Nat.eqb j i then v else f j.

Inductive action :=
  | Start (co : bool)
  | OAdd | OPoll (to : option Z) | ORemove (a : nat) | OClose | OPanicA (p : nat) | OCancelled | OCatch
  | OStep
  | CancelOwner | Tick (t : Z)
  | ASend (a : nat) | ANext (a : nat) | AFinish (a : nat) | APanic (a p : nat) | ACancelled (a : nat) | AYield (a : nat)
  | AStep (a : nat)
  | KStep (e : nat).

Definition is_onone (p : opcT) : bool := match p with ONone => true | _ => false end.
Definition is_p5w (p : opcT) : bool := match p with P5w => true | _ => false end.
Definition cancel_due (s : st) : bool := oco s && ocbit s && Nat.eqb (odis s) 0.
Definition zle_opt (d : option Z) (n : Z) : bool := match d with Some t => Z.leb t n | None => false end.
Definition zadd_opt (n : Z) (d : option Z) : option Z := match d with Some t => Some (n + t)%Z | None => None end.
Definition to_ok (d : option Z) : bool := match d with Some t => Z.leb 0 t | None => true end.
Definition first_unw (x y : unw) : unw := match x with UNone => y | _ => x end.
Definition user_pc (p : apc) : bool := match p with ATop | ABot => true | _ => false end.
Definition is_abot (p : apc) : bool := match p with ABot => true | _ => false end.
Definition is_asusp (p : apc) : bool := match p with ASusp => true | _ => false end.

Section Model.
Variable cf : cfg.

Definition wpc (s : st) a p := set_pc s (upd (pc s) a p).
Definition wkpc (s : st) e p := set_kpc s (upd (kpc s) e p).

(* a panic leaves poll: to the client (user poll) or into the catch_unwind of finish's drain loop *)
Definition raise_poll (s : st) (u : unw) : st :=
  if Nat.eqb (ofin s) 0
  then set_opc (set_olast (set_ounw s u) LRaised) OUnw
  else set_opc (set_opay s (first_unw (opay s) u)) P1.

Definition ret_ok (s : st) : st :=
  if Nat.eqb (ofin s) 0 then set_opc (set_olast s (LOk (oev s))) OBody else set_opc s P1.
Definition ret_finished (s : st) : st :=
  if Nat.eqb (ofin s) 0 then set_opc (set_olast s LFinished) OBody else set_opc s (if oco s then FE0 else FE1).
Definition ret_timeout (s : st) : st :=
  if Nat.eqb (ofin s) 0 then set_opc (set_olast s LTimeout) OBody else set_opc s P1.

(* check_panic after the handle was taken out of `selectors` *)
Definition take_handle (s : st) (a : nat) : st :=
  if sel s a
  then set_opc (set_sel s (upd (sel s) a false)) (if oco s then C0 else CJ)
  else set_opc s OBug.      (* .expect("join handler not set") *)

(* run_ev!: what poll does with a popped event *)
Definition handle_ev (s : st) (ev : qent) : st :=
  match ev with
  | EDone a =>
      let s := set_dpop s (upd (dpop s) a (S (dpop s a))) in
      let s := set_ocur s a in
      if c_joinalways cf then take_handle s a else set_opc s Cpre
  | ENormal e =>
      let a := earm s e in
      let s := set_epop s (upd (epop s) e (S (epop s e))) in
      if is_asusp (pc s a)
      then let s := set_bots s (upd (bots s) a (S (bots s a))) in
           let s := set_byield s (upd (byield s) a false) in
           let s := set_inl s (upd (inl s) a true) in
           let s := set_ocur s a in
           let s := set_oev s e in
           set_opc (wpc s a ABot) PRun
      else set_opc s OBug      (* the event carries the suspended coroutine: cannot happen *)
  end.

Definition start_drain (s : st) : st := set_opc (set_odl (set_oto s None) None) P1.
(* the arm's closure ends (returns or unwinds) with result r: EventSender::drop runs *)
Definition arm_end (s : st) (a : nat) (r : aresult) : st :=
  let s := if is_abot (pc s a) then set_botd s (upd (botd s) a (S (botd s a))) else s in
  wpc (set_ares s (upd (ares s) a r)) a AD0.

Definition ostep (s : st) : option st :=
  match opc s with
  | ONone | OBody | OExit | OBug => None
  | OA2 => Some (set_opc (set_cnt s (cnt s + 1)%Z) OA3)
  | OA3 => Some (set_opc (set_total (set_sel s (upd (sel s) (total s) true)) (S (total s))) OBody)
  | P1 => if c_cntfirst cf then Some (set_opc (set_oalld s (Z.eqb (cnt s) 0)) P2) else Some (set_opc s P2)
  | P2 => match evq s with
          | [] => if c_cntfirst cf then (if oalld s then Some (ret_finished s) else Some (set_opc s P3))
                  else Some (set_opc s P2b)
          | ev :: r => Some (handle_ev (set_evq s r) ev)
          end
  | P2b => if Z.eqb (cnt s) 0 then Some (ret_finished s) else Some (set_opc s P3)
  | P3 => let b := nextb s in
          Some (set_opc (set_towake (set_nextb (set_ob s b) (S b)) (Some b)) P4)
  | P4 => match evq s with
          | [] => Some (set_opc s P5)
          | ev :: r => Some (set_opc (set_ostash (set_evq s r) ev) P4t)
          end
  | P4t => Some (handle_ev (set_towake s None) (ostash s))
  | P5 => if tok s (ob s) then Some (set_opc (set_tok s (upd (tok s) (ob s) false)) P6)
          else if cancel_due s then Some (raise_poll s UCancel)
          else Some (set_opc (set_opdl s (zadd_opt (now s) (oto s))) P5w)
  | P5w => if tok s (ob s) || zle_opt (opdl s) (now s) || cancel_due s || owk s
           then let s := set_owk (set_tok s (upd (tok s) (ob s) false)) false in
                if cancel_due s then Some (raise_poll s UCancel) else Some (set_opc s P6)
           else None
  | P6 => if zle_opt (odl s) (now s) then Some (ret_timeout s) else Some (set_opc s P1)
  | PRun => if inl s (ocur s) then None else Some (ret_ok s)
  | Cpre => if ispan s then Some (set_opc s P1) else Some (take_handle s (ocur s))
  | C0 => Some (set_opc (set_odis s (S (odis s))) CJ)
  | CJ => if jst s (ocur s) then None
          else Some (set_opc (set_ojres s (ares s (ocur s))) (if oco s then C1 else C2))
  | C1 => Some (set_opc (set_odis s (odis s - 1)) C2)
  | C2 => if c_joinalways cf && ispan s then Some (set_opc s P1)
          else match ojres s with RPanic _ => Some (set_opc s C3) | _ => Some (set_opc s P1) end
  | C3 => match ojres s with
          | RPanic p => Some (raise_poll (set_rerp (set_rer (set_ispan s true) (S (rer s))) (Some p)) (UPanic p))
          | _ => None end
  | OUnw => Some (set_opc (set_opay (set_fi (set_ofin s 2) 0) UNone) FC0)
  | FC0 => if Nat.ltb (fi s) (total s)
           then (if sel s (fi s)
                 then (if jst s (fi s) then Some (set_opc s FC1) else Some (set_fi s (S (fi s))))
                 else Some (set_fi s (S (fi s))))
           else Some (if oco s then set_opc s FD0 else start_drain s)
  | FC1 => Some (set_opc (set_fi (set_cbit s (upd (cbit s) (fi s) true)) (S (fi s))) FC0)
  | FD0 => Some (start_drain (set_odis s (S (odis s))))
  | FE0 => Some (set_opc (set_odis s (odis s - 1)) FE1)
  | FE1 => match ofin s with
           | 1 => (* finish(false) re-raises the payload or returns; then Drop for Cqueue runs finish(true) *)
                  let s := set_ounw s (first_unw (opay s) (ounw s)) in
                  Some (set_opc (set_opay (set_fi (set_ofin s 2) 0) UNone) FC0)
           | _ => Some (set_opc (set_oleft s true) OExit)
           end
  end.

Definition astep (s : st) (a : nat) : option st :=
  match pc s a with
  | AS0 => if cbit s a then Some (arm_end s a RCancel) else Some (wpc s a AS1)
  | AS1 => if cbit s a
           then (if c_sendraise cf then Some (arm_end s a RCancel)
                 else Some (wpc (set_bots s (upd (bots s) a (S (bots s a)))) a ABot))
           else let e := nexte s in
                let s := set_kpc s (upd (kpc s) e K0) in
                let s := set_earm s (upd (earm s) e a) in
                let s := set_ernd s (upd (ernd s) e (tops s a)) in
                let s := set_nexte s (S e) in
                let s := set_sent s (upd (sent s) a (S (sent s a))) in
                let s := set_acur s (upd (acur s) a e) in
                let s := set_inl s (upd (inl s) a false) in
                Some (wpc s a ASusp)
  | AD0 => if c_kwait cf && negb (Nat.eqb (kern s a) 0)
           then Some (set_inl s (upd (inl s) a false))      (* wait_kernel_yield: the coroutine goes back to the scheduler *)
           else Some (wpc s a AD1)
  | AD1 => Some (wpc (set_dpush (set_evq s (evq s ++ [EDone a])) (upd (dpush s) a (S (dpush s a)))) a AD2)
  | AD2 => Some (wpc (set_cnt s (cnt s - 1)%Z) a AD3)
  | AD3 => match towake s with
           | Some b => Some (wpc (set_aw (set_towake s None) (upd (aw s) a b)) a AD4)
           | None => Some (wpc s a AF1)
           end
  | AD4 => Some (wpc (set_tok s (upd (tok s) (aw s a) true)) a AF1)
  | AF1 => Some (wpc (set_inl (set_jst s (upd (jst s) a false)) (upd (inl s) a false)) a ADone)
  | _ => None
  end.

Definition kstep (s : st) (e : nat) : option st :=
  let a := earm s e in
  match kpc s e with
  | K0 => Some (wkpc (set_kern s (upd (kern s) a (S (kern s a)))) e K1)
  | K1 => Some (wkpc (set_epush (set_evq s (evq s ++ [ENormal e])) (upd (epush s) e (S (epush s e)))) e K2)
  | K2 => match towake s with
          | Some b => Some (wkpc (set_kw (set_towake s None) (upd (kw s) e b)) e K3)
          | None => Some (wkpc s e K4)
          end
  | K3 => Some (wkpc (set_tok s (upd (tok s) (kw s e) true)) e K4)
  | K4 => Some (wkpc (set_kern s (upd (kern s) a (kern s a - 1))) e KDone)
  | _ => None
  end.

Definition step (s : st) (ac : action) : option st :=
  match ac with
  | Start co => match opc s with ONone => Some (set_opc (set_oco s co) OBody) | _ => None end
  | Tick t => if Z.leb (now s) t then Some (set_now s t) else None
  | CancelOwner => (* Coroutine::cancel: sets the bit and takes a coroutine that is suspended in a park, whatever its disable count *)
                   if oco s && negb (is_onone (opc s))
                   then Some (set_owk (set_ocbit s true) (owk s || is_p5w (opc s))) else None
  | OAdd => match opc s with
            | OBody => let n := nexta s in Some (set_opc (set_nexta (wpc s n ATop) (S n)) OA2)
            | _ => None end
  | OPoll to => match opc s with
                | OBody => if to_ok to
                           then Some (set_opc (set_odl (set_ocall (set_oto s to) (now s)) (zadd_opt (now s) to)) P1)
                           else None
                | _ => None end
  | ORemove a => match opc s with
                 | OBody => if Nat.ltb a (total s) then Some (set_cbit s (upd (cbit s) a true)) else None
                 | _ => None end
  | OClose => match opc s with
              | OBody => Some (set_opc (set_opay (set_fi (set_ofin s 1) 0) UNone) FC0)
              | _ => None end
  | OPanicA p => match opc s with OBody => Some (set_opc (set_ounw s (UPanic p)) OUnw) | _ => None end
  | OCancelled => match opc s with
                  | OBody => if cancel_due s then Some (set_opc (set_ounw s UCancel) OUnw) else None
                  | _ => None end
  | OCatch => match opc s with OUnw => Some (set_opc (set_ounw s UNone) OBody) | _ => None end
  | OStep => ostep s
  | ASend a => match pc s a with
               | ATop => Some (wpc (set_tops s (upd (tops s) a (S (tops s a)))) a AS0)
               | _ => None end
  | ANext a => match pc s a with
               | ABot => Some (wpc (set_botd s (upd (botd s) a (S (botd s a)))) a ATop)
               | _ => None end
  | AFinish a => if user_pc (pc s a) then Some (arm_end s a ROk) else None
  | APanic a p => if user_pc (pc s a) then Some (arm_end s a (RPanic p)) else None
  | ACancelled a => if user_pc (pc s a) && cbit s a then Some (arm_end s a RCancel) else None
  | AYield a => if user_pc (pc s a) && inl s a
                then Some (set_byield (set_inl s (upd (inl s) a false)) (upd (byield s) a (is_abot (pc s a) || byield s a)))
                else None
  | AStep a => astep s a
  | KStep e => kstep s e
  end.

Definition init : st :=
  {| evq := []; cnt := 0%Z; towake := None; sel := fun _ => false; total := 0; ispan := false;
     pc := fun _ => ANone; cbit := fun _ => false; inl := fun _ => false; kern := fun _ => 0; ares := fun _ => RRun;
     jst := fun _ => true; aw := fun _ => 0; acur := fun _ => 0;
     kpc := fun _ => KNone; earm := fun _ => 0; kw := fun _ => 0;
     tok := fun _ => false; nextb := 0;
     opc := ONone; oco := false; ocbit := false; odis := 0; ounw := UNone; ofin := 0; opay := UNone;
     oto := None; odl := None; opdl := None; ocall := 0%Z; oalld := false; ob := 0; ocur := 0; oev := 0;
     ojres := RRun; fi := 0; ostash := EDone 0; owk := false;
     now := 0%Z; nexta := 0; nexte := 0;
     tops := fun _ => 0; bots := fun _ => 0; botd := fun _ => 0; sent := fun _ => 0; byield := fun _ => false;
     epush := fun _ => 0; epop := fun _ => 0; ernd := fun _ => 0; dpush := fun _ => 0; dpop := fun _ => 0;
     olast := LNone; rer := 0; rerp := None; oleft := false |}.

Inductive Reach : st -> Prop :=
| R0 : Reach init
| RS s a s' : Reach s -> step s a = Some s' -> Reach s'.

(* run a schedule; a disabled action stops the run (None) *)
Fixpoint run (s : st) (l : list action) : option st :=
  match l with [] => Some s | a :: l' => match step s a with Some s' => run s' l' | None => None end end.

End Model.

(* ---- the property's vocabulary ---- *)
Definition arm_exists (s : st) (a : nat) : Prop := a < nexta s.
Definition ev_exists (s : st) (e : nat) : Prop := e < nexte s.
(* the select coroutine has ended: Join::trigger's store happened; it touches neither its sender nor the cqueue any more *)
Definition arm_done (s : st) (a : nat) : Prop := jst s a = false.
Definition kactive (p : kpcT) : bool := match p with K0 | K1 | K2 | K3 | K4 => true | _ => false end.
(* nobody is inside the cqueue any more: every arm done, every kernel half through *)
Definition all_gone (s : st) : Prop :=
  (forall a, a < nexta s -> jst s a = false) /\ (forall e, e < nexte s -> kpc s e = KDone).
(* the owner is at the pop whose answer None makes poll return Finished *)
Definition returns_finished (s : st) : Prop := opc s = P2 /\ evq s = [] /\ oalld s = true.
(* the owner is at the deadline check that makes poll return Timeout *)
Definition returns_timeout (s : st) : Prop := opc s = P6 /\ zle_opt (odl s) (now s) = true.
(* the owner is at the end of run_coroutine inside continue_bottom: poll returns Ok(ev) *)
Definition returns_ok (s : st) : Prop := opc s = PRun /\ inl s (ocur s) = false.
