(* C02 - Inv4 is preserved: actions ACnOr, ACnTakeCo, ACnTake, ACnSched *)
From Coq Require Import List ZArith Bool Arith Lia.
Import ListNotations.
Require Import MayV.Rt.AtomicDur MayV.Base.BlockerSpec MayV.Rt.ParkModel MayV.Rt.ParkTac MayV.Rt.ParkInv1 MayV.Rt.ParkInv2 MayV.Rt.ParkInv3 MayV.Rt.ParkInv4Def.
Open Scope Z_scope.


Lemma inv4_ACnOr s s' : forall i, Inv1 s -> Inv2 s -> Inv3 s -> Inv4 s -> stepF s (ACnOr i) = Some s' -> Inv4 s'.
Proof.
  intros i. intro4. step_inv H; pre Ipl; constructor.
  2: { (* w_can for the new canceller: if the bit was clear the slot is still registered with the Cancel and
          he is about to take it from there; if it was set, whoever was on his way still is *)
    unfold un_taking, cn_taking, cn_tco in *. cbn; rw; cbn. intros Hsl _.
    destruct (cbit s) eqn:Cbit.
    - specialize (Wc Hsl eq_refl).
      destruct (kp s); auto; (destruct Wc as [W|(W1 & W2)]; [left | right; split; [exact W1|]]; ex4).
    - specialize (Wr Hsl eq_refl).
      destruct (kp s); auto; right; (split; [exact Wr|]); ex4. }
  all: solve [cl4].
Qed.

Lemma inv4_ACnTakeCo s s' : forall i, Inv1 s -> Inv2 s -> Inv3 s -> Inv4 s -> stepF s (ACnTakeCo i) = Some s' -> Inv4 s'.
Proof.
  intros i. intro4. step_inv H; pre Ipl; constructor.
  (* w_reg, w_prereg: the cancel bit is not clear while a canceller is at work *)
  all: try solve [intros _ Hc; cbn in Hc; exfalso; rewrite (Cb i) in Hc by congruence; discriminate Hc].
  all: solve [cl4].
Qed.

Lemma inv4_ACnTake s s' : forall i, Inv1 s -> Inv2 s -> Inv3 s -> Inv4 s -> stepF s (ACnTake i) = Some s' -> Inv4 s'.
Proof. intros i. intro4. step4 Ipl H. all: show4. Qed.

Lemma inv4_ACnSched s s' : forall i, Inv1 s -> Inv2 s -> Inv3 s -> Inv4 s -> stepF s (ACnSched i) = Some s' -> Inv4 s'.
Proof. intros i. intro4. step4 Ipl H. all: show4. Qed.
