(* Concrete runs of SchedLoopModel (non-vacuity of the C01 progress theorems): schedules replayed by `lruns` / vm_compute. *)
From Coq Require Import List Arith ZArith NArith Bool Lia.
Import ListNotations.
Require Import MayV.Rt.SchedModel MayV.Rt.SchedInv MayV.Rt.SchedLoopModel MayV.Rt.SchedLoopInv MayV.Rt.SchedLoopThm
  MayV.Rt.SchedLoopRefute.

Definition P10 := Pcur 10000000.

(* one worker (thread 0); thread 1 spawns coroutine 1 while the worker is blocked in its first epoll_wait (no timeout) *)
Definition runL_pushed : list laction :=
  [LPoll 0 false; LBase (ASpawn 1 1 None false); LBase (AStep 1); LBase (AStep 1)].
(* the eventfd write; the worker wakes, reads the eventfd, collects, runs the coroutine, which yields once (local queue) and
   finishes with value 7; run_queued_tasks finds nothing more, no I/O timer: select returns; epoll_wait with 10 ms *)
Definition runL_round1 : list laction :=
  [LBase (AStep 1); LWake 0 false; LEvRead 0; LBulkGrab 0; LBulkEnd 0; LPut 0; LBulkEnd 0; LEvDone 0; LPop 0; LResume 0;
   LBase (AYield 0); LBase (KLocal 0); LBase (KSubscribed 0); LCoRet 0; LPop 0; LResume 0;
   LBase (AFinish 0 7); LBase (AStep 0); LBase (AStep 0); LBase (AStep 0); LBase (AStep 0); LBase (KDrop 0);
   LBase (KSubscribed 0); LCoRet 0; LPop 0; LBulkEnd 0; LHas 0; LStOut 0; LTmDone 0 None; LPoll 0 false].
(* the timeout passes, an idle round *)
Definition runL_round2 : list laction :=
  [LTick 10000000; LTimeout 0; LEvDone 0; LPop 0; LBulkEnd 0; LHas 0; LStOut 0; LTmDone 0 None; LPoll 0 false].

Lemma runL_pushed_ok : lruns P10 (linit 1) runL_pushed <> None.
Proof. vm_compute. discriminate. Qed.
Lemma runL_all_ok : lruns P10 (linit 1) (runL_pushed ++ runL_round1 ++ runL_round2) <> None.
Proof. vm_compute. discriminate. Qed.
Lemma runL_r1_ok : lruns P10 (linit 1) (runL_pushed ++ runL_round1) <> None.
Proof. vm_compute. discriminate. Qed.

(* hypotheses of no_lost_wakeup: the worker sleeps without timeout, its global queue is not empty; the pusher is between its
   push and its eventfd write *)
Lemma runL_pushed_state : let l := lafter P10 1 runL_pushed in
  LReach P10 1 l /\ wpc l 0 = PSleep /\ dl l 0 = None /\ gq (base l) 0 = [1] /\ evfd l 0 = false /\ owed l 0 = 1 /\
  tpc (base l) 1 = SW 0.
Proof. split; [apply lafter_reach, runL_pushed_ok | vm_compute; repeat split; reflexivity]. Qed.

(* two rounds later the coroutine has been taken out of the local queue (twice: it yielded once) and has finished *)
Lemma runL_two_rounds : let l := lafter P10 1 runL_pushed in
  exists l', lruns P10 l (runL_round1 ++ runL_round2) = Some l' /\ In 1 (gq (base l) 0) /\ nsel l 0 + 2 <= nsel l' 0 /\
             ntake l 1 = 0 /\ ntake l' 1 = 2 /\ ngrab l' 1 = 1 /\ In 1 (dead (base l')) /\ outcome (co (base l') 1) = Some (RVal 7%Z).
Proof. vm_compute. eexists. split; [reflexivity|]. repeat split; auto. Qed.

(* quiescent with a deadline: everything ran, the worker sleeps with the 10 ms timeout *)
Lemma runL_quiescent : let l := lafter P10 1 (runL_pushed ++ runL_round1) in
  LReach P10 1 l /\ LQuiescent 1 l /\ dl l 0 = Some 10000000%N /\ gq (base l) 0 = [] /\ lq (base l) 0 = [].
Proof.
  split; [apply lafter_reach, runL_r1_ok|]. split; [|vm_compute; repeat split; reflexivity].
  intros w L. assert (w = 0) by lia. subst w. vm_compute. repeat split; reflexivity.
Qed.

(* quiescent without any deadline: the initial sleep *)
Lemma runL_dead_quiescent : let l := lafter P10 1 [LPoll 0 false] in
  LReach P10 1 l /\ LQuiescent 1 l /\ (forall w, w < 1 -> dl l w = None).
Proof.
  split; [apply lafter_reach; vm_compute; discriminate|]. split.
  - intros w L. assert (w = 0) by lia. subst w. vm_compute. repeat split; reflexivity.
  - intros w L. assert (w = 0) by lia. subst w. reflexivity.
Qed.

(* a coroutine in the local queue, the worker about to pop *)
Definition runL_yielded : list laction :=
  runL_pushed ++ [LBase (AStep 1); LWake 0 false; LEvRead 0; LBulkGrab 0; LBulkEnd 0; LPut 0; LBulkEnd 0; LEvDone 0; LPop 0; LResume 0;
   LBase (AYield 0); LBase (KLocal 0); LBase (KSubscribed 0); LCoRet 0].
Lemma runL_yielded_ok : lruns P10 (linit 1) runL_yielded <> None.
Proof. vm_compute. discriminate. Qed.
Lemma runL_local : let l := lafter P10 1 runL_yielded in
  LReach P10 1 l /\ lq (base l) 0 = [] ++ 1 :: [] /\ wpc l 0 = PRun /\
  exists l', lruns P10 l [LPop 0] = Some l' /\ npop l 0 + length (@nil nat) < npop l' 0 /\ ntake l 1 < ntake l' 1.
Proof.
  split; [apply lafter_reach, runL_yielded_ok|]. vm_compute. repeat split; auto.
  eexists. split; [reflexivity|]. split; lia.
Qed.

(* ---- the two schedules that starved / delayed a coroutine before fix e723520, on the loop as it is ---- *)
(* starvation schedule: coroutine 1 keeps yielding on the only worker, coroutine 2 waits in its global queue.  After 64 runs
   (budget 256 -> 192) run_queued_tasks calls collect_global, coroutine 2 goes to the local queue behind coroutine 1 and runs *)
Definition yield_once : list laction := [LBase (AYield 0); LBase (KLocal 0); LBase (KSubscribed 0); LCoRet 0].
Definition run_starve_fixed : list laction :=
  run_starve ++ rep 63 cycle ++ yield_once ++ [LBulkGrab 0; LBulkEnd 0; LPut 0; LBulkEnd 0; LPop 0; LResume 0]
  ++ yield_once ++ [LPop 0; LResume 0].
Lemma run_starve_fixed_ok : lruns P10 (linit 1) run_starve_fixed <> None.
Proof. vm_compute. discriminate. Qed.
Lemma starve_fixed_state : let l := lafter P10 1 run_starve_fixed in
  LReach P10 1 l /\ stk (base l) 0 = [FRun 2] /\ lq (base l) 0 = [1] /\ gq (base l) 0 = [] /\ ngrab l 2 = 1 /\ ntake l 2 = 1 /\
  npop l 0 = 66 /\ bud l 0 = 191 /\ ncoll l 0 = 2.
Proof. split; [apply lafter_reach, run_starve_fixed_ok | vm_compute; repeat split; reflexivity]. Qed.
(* the old cycle is no longer a run: the 64th return of run_coroutine goes to collect_global, not to local.pop *)
Lemma starve_cycle_breaks : lruns P10 (linit 1) (run_starve ++ rep 64 cycle) = None.
Proof. vm_compute. reflexivity. Qed.

(* I/O timer schedule: the timeout handler resumes coroutine 1 after run_queued_tasks, it yields into the local queue; select
   returns Some(0) instead of the 10 s to the next I/O timer, the next epoll_wait only polls, the coroutine runs at once *)
Definition run_timer_fixed : list laction :=
  [LPoll 0 false; LBase (ASpawn 1 1 None false); LBase (AStep 1); LBase (AStep 1); LBase (AStep 1);
   LWake 0 false; LEvRead 0; LBulkGrab 0; LBulkEnd 0; LPut 0; LBulkEnd 0; LEvDone 0; LPop 0; LResume 0;
   LBase (AYield 0); LBase (KStore 0); LBase (KSkip 0); LBase (KSubscribed 0); LCoRet 0;
   LPop 0; LBulkEnd 0; LHas 0; LStOut 0;
   LTmTake 0 1; LResume 0;
   LBase (AYield 0); LBase (KLocal 0); LBase (KSubscribed 0); LCoRet 0;
   LTmDone 0 (Some 10000000000%N); LPoll 0 false; LEvDone 0; LPop 0; LResume 0].
Lemma run_timer_fixed_ok : lruns P10 (linit 1) run_timer_fixed <> None.
Proof. vm_compute. discriminate. Qed.
Lemma timer_fixed_state : let l := lafter P10 1 run_timer_fixed in
  LReach P10 1 l /\ stk (base l) 0 = [FRun 1] /\ now l = 0%N /\ tmo l 0 = Some 0%N /\ wpc l 0 = PCo RRun.
Proof. split; [apply lafter_reach, run_timer_fixed_ok | vm_compute; repeat split; reflexivity]. Qed.

Lemma cur_constants t : budgeted (Pcur t) = true /\ work_steal (Pcur t) = true /\ push_first (Pcur t) = true /\
  1 <= interval (Pcur t) < budget (Pcur t) /\ MayV.Rt.SchedLoopSleep.coll_ok (Pcur t).
Proof.
  assert (A : 1 <= interval (Pcur t) < budget (Pcur t)) by (cbn; split; [apply Nat.leb_le | apply Nat.ltb_lt]; reflexivity).
  repeat split; try reflexivity; try apply A. right. exact A.
Qed.
