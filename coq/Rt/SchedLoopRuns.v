(* Concrete runs of SchedLoopModel (non-vacuity of the C01 progress theorems): schedules replayed by `lruns` / vm_compute. *)
From Coq Require Import List Arith ZArith NArith Bool Lia.
Import ListNotations.
Require Import MayV.Rt.SchedModel MayV.Rt.SchedInv MayV.Rt.SchedLoopModel MayV.Rt.SchedLoopInv MayV.Rt.SchedLoopThm
  MayV.Rt.SchedLoopRefute.

Definition P10 := Pcur 10000000.

(* one worker (thread 0); thread 1 spawns coroutine 1 while the worker is blocked in its first epoll_wait (no timeout) *)
Definition runL_pushed : list laction :=
  [LPoll 0 false; LBase (ASpawn 1 1 None false); LBase (AStep 1); LBase (AStep 1)].
(* the eventfd write; the worker wakes, reads the eventfd, collects, runs the coroutine, which yields once (local queue) and
   finishes with value 7; run_queued_tasks finds nothing more, no I/O timer: select returns; epoll_wait with 10 ms *)
Definition runL_round1 : list laction :=
  [LBase (AStep 1); LWake 0 false; LEvRead 0; LBulkGrab 0; LBulkEnd 0; LPut 0; LBulkEnd 0; LEvDone 0; LPop 0; LResume 0;
   LBase (AYield 0); LBase (KLocal 0); LBase (KSubscribed 0); LCoRet 0; LPop 0; LResume 0;
   LBase (AFinish 0 7); LBase (AStep 0); LBase (AStep 0); LBase (AStep 0); LBase (AStep 0); LBase (KDrop 0);
   LBase (KSubscribed 0); LCoRet 0; LPop 0; LBulkEnd 0; LHas 0; LStOut 0; LTmDone 0 None; LPoll 0 false].
(* the timeout passes, an idle round *)
Definition runL_round2 : list laction :=
  [LTick 10000000; LTimeout 0; LEvDone 0; LPop 0; LBulkEnd 0; LHas 0; LStOut 0; LTmDone 0 None; LPoll 0 false].

Lemma runL_pushed_ok : lruns P10 (linit 1) runL_pushed <> None.
Proof. vm_compute. discriminate. Qed.
Lemma runL_all_ok : lruns P10 (linit 1) (runL_pushed ++ runL_round1 ++ runL_round2) <> None.
Proof. vm_compute. discriminate. Qed.
Lemma runL_r1_ok : lruns P10 (linit 1) (runL_pushed ++ runL_round1) <> None.
Proof. vm_compute. discriminate. Qed.

(* hypotheses of no_lost_wakeup: the worker sleeps without timeout, its global queue is not empty; the pusher is between its
   push and its eventfd write *)
Lemma runL_pushed_state : let l := lafter P10 1 runL_pushed in
  LReach P10 1 l /\ wpc l 0 = PSleep /\ dl l 0 = None /\ gq (base l) 0 = [1] /\ evfd l 0 = false /\ owed l 0 = 1 /\
  tpc (base l) 1 = SW 0.
Proof. split; [apply lafter_reach, runL_pushed_ok | vm_compute; repeat split; reflexivity]. Qed.

(* two rounds later the coroutine has been taken out of the local queue (twice: it yielded once) and has finished *)
Lemma runL_two_rounds : let l := lafter P10 1 runL_pushed in
  exists l', lruns P10 l (runL_round1 ++ runL_round2) = Some l' /\ In 1 (gq (base l) 0) /\ nsel l 0 + 2 <= nsel l' 0 /\
             ntake l 1 = 0 /\ ntake l' 1 = 2 /\ ngrab l' 1 = 1 /\ In 1 (dead (base l')) /\ outcome (co (base l') 1) = Some (RVal 7%Z).
Proof. vm_compute. eexists. split; [reflexivity|]. repeat split; auto. Qed.

(* quiescent with a deadline: everything ran, the worker sleeps with the 10 ms timeout *)
Lemma runL_quiescent : let l := lafter P10 1 (runL_pushed ++ runL_round1) in
  LReach P10 1 l /\ LQuiescent 1 l /\ dl l 0 = Some 10000000%N /\ gq (base l) 0 = [] /\ lq (base l) 0 = [].
Proof.
  split; [apply lafter_reach, runL_r1_ok|]. split; [|vm_compute; repeat split; reflexivity].
  intros w L. assert (w = 0) by lia. subst w. vm_compute. repeat split; reflexivity.
Qed.

(* quiescent without any deadline: the initial sleep *)
Lemma runL_dead_quiescent : let l := lafter P10 1 [LPoll 0 false] in
  LReach P10 1 l /\ LQuiescent 1 l /\ (forall w, w < 1 -> dl l w = None).
Proof.
  split; [apply lafter_reach; vm_compute; discriminate|]. split.
  - intros w L. assert (w = 0) by lia. subst w. vm_compute. repeat split; reflexivity.
  - intros w L. assert (w = 0) by lia. subst w. reflexivity.
Qed.

(* a coroutine in the local queue, the worker about to pop *)
Definition runL_yielded : list laction :=
  runL_pushed ++ [LBase (AStep 1); LWake 0 false; LEvRead 0; LBulkGrab 0; LBulkEnd 0; LPut 0; LBulkEnd 0; LEvDone 0; LPop 0; LResume 0;
   LBase (AYield 0); LBase (KLocal 0); LBase (KSubscribed 0); LCoRet 0].
Lemma runL_yielded_ok : lruns P10 (linit 1) runL_yielded <> None.
Proof. vm_compute. discriminate. Qed.
Lemma runL_local : let l := lafter P10 1 runL_yielded in
  LReach P10 1 l /\ lq (base l) 0 = [] ++ 1 :: [] /\ wpc l 0 = PRun /\
  exists l', lruns P10 l [LPop 0] = Some l' /\ npop l 0 + length (@nil nat) < npop l' 0 /\ ntake l 1 < ntake l' 1.
Proof.
  split; [apply lafter_reach, runL_yielded_ok|]. vm_compute. repeat split; auto.
  eexists. split; [reflexivity|]. split; lia.
Qed.
