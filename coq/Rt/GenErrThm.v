(* Proofs about Rt/GenErr.v: in the code (skipdet = false) a generator that is idle (new or pooled) or on which a
   coroutine is running carries no payload, so what join reports for a coroutine is its own ending; with the
   hand-over skipped for detached coroutines (skipdet = true) a later occupant reports a foreign payload. *)
From Coq Require Import List Arith Bool Lia.
Import ListNotations.
Require Import MayV.Rt.GenErr.

Record Inv (s : st) : Prop := {
  g_run : forall c g, ph s c = CRun g -> gs s g = GOwned c /\ err s g = None /\ jp s c = None;
  g_end : forall c g e, ph s c = CEnded g e -> gs s g = GOwned c /\ err s g = pay e /\ jp s c = None;
  g_done : forall c e, ph s c = CDone e -> jp s c = pay e;
  g_idle : forall g, takeable (gs s g) = true -> err s g = None;
  g_free : forall c, ph s c = CFree -> jp s c = None;
  g_fresh : forall c, nco s <= c -> ph s c = CFree }.

Lemma upd_eq {A} (f : nat -> A) k v : upd f k v k = v.
Proof. unfold upd. now rewrite Nat.eqb_refl. Qed.
Lemma upd_neq {A} (f : nat -> A) k v x : x <> k -> upd f k v x = f x.
Proof. unfold upd. intros H. destruct (Nat.eqb_spec x k); [contradiction | reflexivity]. Qed.

Lemma inv_init : Inv init.
Proof. split; cbn; intros; try discriminate; reflexivity. Qed.

Lemma step_spawn s g d s' : Inv s -> step false s (Spawn g d) = Some s' -> Inv s'.
Proof.
  intros I H. cbn in H. destruct (takeable (gs s g)) eqn:T; [| discriminate].
  inversion H; subst s'; clear H.
  assert (Hn : ph s (nco s) = CFree) by (apply (g_fresh s I); lia).
  assert (Eg : err s g = None) by (apply (g_idle s I); exact T).
  assert (NotOwned : forall c, gs s g <> GOwned c).
  { intros c E. rewrite E in T. discriminate. }
  split; cbn.
  - intros c g0 P. destruct (Nat.eq_dec c (nco s)) as [-> | Ne].
    + rewrite upd_eq in P. inversion P; subst g0. rewrite upd_eq.
      repeat split; [exact Eg | exact (g_free s I _ Hn)].
    + rewrite upd_neq in P by exact Ne. destruct (g_run s I c g0 P) as (A & B & C).
      assert (g0 <> g) by (intros ->; exact (NotOwned c A)).
      rewrite upd_neq by assumption. repeat split; assumption.
  - intros c g0 e P. destruct (Nat.eq_dec c (nco s)) as [-> | Ne].
    + rewrite upd_eq in P. discriminate.
    + rewrite upd_neq in P by exact Ne. destruct (g_end s I c g0 e P) as (A & B & C).
      assert (g0 <> g) by (intros ->; exact (NotOwned c A)).
      rewrite upd_neq by assumption. repeat split; assumption.
  - intros c e P. destruct (Nat.eq_dec c (nco s)) as [-> | Ne].
    + rewrite upd_eq in P. discriminate.
    + rewrite upd_neq in P by exact Ne. exact (g_done s I c e P).
  - intros g0 T0. destruct (Nat.eq_dec g0 g) as [-> | Ng].
    + rewrite upd_eq in T0. discriminate.
    + rewrite upd_neq in T0 by exact Ng. exact (g_idle s I g0 T0).
  - intros c P. destruct (Nat.eq_dec c (nco s)) as [-> | Ne].
    + rewrite upd_eq in P. discriminate.
    + rewrite upd_neq in P by exact Ne. exact (g_free s I c P).
  - intros c Hle. rewrite upd_neq by lia. apply (g_fresh s I). lia.
Qed.

(* err after the end of a body on generator g *)
Definition err_end (s : st) (g : nat) (e : ending) : nat -> option nat :=
  match pay e with Some p => upd (err s) g (Some p) | None => err s end.

Lemma err_end_same s g e : err s g = None -> err_end s g e g = pay e.
Proof. intros H. unfold err_end. destruct (pay e); [apply upd_eq | exact H]. Qed.

Lemma err_end_other s g e g0 : g0 <> g -> err_end s g e g0 = err s g0.
Proof. intros H. unfold err_end. destruct (pay e); [apply upd_neq; exact H | reflexivity]. Qed.

Lemma step_end s c e s' : Inv s -> step false s (End c e) = Some s' -> Inv s'.
Proof.
  intros I H. cbn in H. destruct (ph s c) eqn:P; try discriminate.
  inversion H; subst s'; clear H. fold (err_end s g e).
  destruct (g_run s I c g P) as (Og & Eg & Jc).
  assert (Other : forall c0 g0, c0 <> c -> gs s g0 = GOwned c0 -> g0 <> g).
  { intros c0 g0 Ne A ->. rewrite Og in A. inversion A. congruence. }
  split; cbn.
  - intros c0 g0 P0. destruct (Nat.eq_dec c0 c) as [-> | Ne].
    + rewrite upd_eq in P0. discriminate.
    + rewrite upd_neq in P0 by exact Ne. destruct (g_run s I c0 g0 P0) as (A & B & C).
      rewrite err_end_other by (eapply Other; eassumption). repeat split; assumption.
  - intros c0 g0 e0 P0. destruct (Nat.eq_dec c0 c) as [-> | Ne].
    + rewrite upd_eq in P0. inversion P0; subst g0 e0.
      rewrite err_end_same by exact Eg. repeat split; assumption.
    + rewrite upd_neq in P0 by exact Ne. destruct (g_end s I c0 g0 e0 P0) as (A & B & C).
      rewrite err_end_other by (eapply Other; eassumption). repeat split; assumption.
  - intros c0 e0 P0. destruct (Nat.eq_dec c0 c) as [-> | Ne].
    + rewrite upd_eq in P0. discriminate.
    + rewrite upd_neq in P0 by exact Ne. exact (g_done s I c0 e0 P0).
  - intros g0 T0. rewrite err_end_other; [exact (g_idle s I g0 T0) |].
    intros ->. rewrite Og in T0. discriminate.
  - intros c0 P0. destruct (Nat.eq_dec c0 c) as [-> | Ne].
    + rewrite upd_eq in P0. discriminate.
    + rewrite upd_neq in P0 by exact Ne. exact (g_free s I c0 P0).
  - intros c0 Hle. pose proof (g_fresh s I c0 Hle) as F.
    rewrite upd_neq; [exact F |]. intros ->. rewrite P in F. discriminate.
Qed.

Lemma step_hand s c keep s' : Inv s -> step false s (Hand c keep) = Some s' -> Inv s'.
Proof.
  intros I H. cbn in H. destruct (ph s c) eqn:P; try discriminate.
  inversion H; subst s'; clear H.
  destruct (g_end s I c g e P) as (Og & Eg & Jc).
  assert (Other : forall c0 g0, c0 <> c -> gs s g0 = GOwned c0 -> g0 <> g).
  { intros c0 g0 Ne A ->. rewrite Og in A. inversion A. congruence. }
  set (jp' := match err s g with Some p => upd (jp s) c (Some p) | None => jp s end).
  assert (Jsame : jp' c = pay e).
  { unfold jp'. rewrite Eg. destruct (pay e); [apply upd_eq | exact Jc]. }
  assert (Joth : forall c0, c0 <> c -> jp' c0 = jp s c0).
  { intros c0 Ne. unfold jp'. destruct (err s g); [apply upd_neq; exact Ne | reflexivity]. }
  split; cbn; fold jp'.
  - intros c0 g0 P0. destruct (Nat.eq_dec c0 c) as [-> | Ne].
    + rewrite upd_eq in P0. discriminate.
    + rewrite upd_neq in P0 by exact Ne. destruct (g_run s I c0 g0 P0) as (A & B & C).
      assert (g0 <> g) by (eapply Other; eassumption).
      rewrite !upd_neq by assumption. rewrite Joth by exact Ne. repeat split; assumption.
  - intros c0 g0 e0 P0. destruct (Nat.eq_dec c0 c) as [-> | Ne].
    + rewrite upd_eq in P0. discriminate.
    + rewrite upd_neq in P0 by exact Ne. destruct (g_end s I c0 g0 e0 P0) as (A & B & C).
      assert (g0 <> g) by (eapply Other; eassumption).
      rewrite !upd_neq by assumption. rewrite Joth by exact Ne. repeat split; assumption.
  - intros c0 e0 P0. destruct (Nat.eq_dec c0 c) as [-> | Ne].
    + rewrite upd_eq in P0. inversion P0; subst e0. exact Jsame.
    + rewrite upd_neq in P0 by exact Ne. rewrite Joth by exact Ne. exact (g_done s I c0 e0 P0).
  - intros g0 T0. destruct (Nat.eq_dec g0 g) as [-> | Ng].
    + apply upd_eq.
    + rewrite upd_neq in T0 by exact Ng. rewrite upd_neq by exact Ng. exact (g_idle s I g0 T0).
  - intros c0 P0. destruct (Nat.eq_dec c0 c) as [-> | Ne].
    + rewrite upd_eq in P0. discriminate.
    + rewrite upd_neq in P0 by exact Ne. rewrite Joth by exact Ne. exact (g_free s I c0 P0).
  - intros c0 Hle. pose proof (g_fresh s I c0 Hle) as F.
    rewrite upd_neq; [exact F |]. intros ->. rewrite P in F. discriminate.
Qed.

Lemma step_inv s a s' : Inv s -> step false s a = Some s' -> Inv s'.
Proof.
  destruct a; intros I H.
  - eapply step_spawn; eassumption.
  - eapply step_end; eassumption.
  - eapply step_hand; eassumption.
Qed.

Lemma run_inv l : forall s s', Inv s -> run false s l = Some s' -> Inv s'.
Proof.
  induction l as [| a l IH]; cbn; intros s s' I H.
  - inversion H; subst; exact I.
  - destruct (step false s a) as [s1 |] eqn:S; [| discriminate].
    eapply IH; [eapply step_inv; eassumption | exact H].
Qed.

Lemma reach_inv s : Reach false s -> Inv s.
Proof. intros [l H]. eapply run_inv; [exact inv_init | exact H]. Qed.

(* ---- statements for Properties/C13_generr.v ---- *)

Lemma payload_stays_with_its_coroutine s c e : Reach false s -> ph s c = CDone e -> jp s c = pay e.
Proof. intros R. exact (g_done s (reach_inv s R) c e). Qed.

Lemma running_coroutine_has_a_clean_slot s c g :
  Reach false s -> ph s c = CRun g -> err s g = None /\ jp s c = None.
Proof. intros R P. destruct (g_run s (reach_inv s R) c g P) as (_ & A & B). split; assumption. Qed.

Lemma idle_generator_carries_no_payload s g : Reach false s -> takeable (gs s g) = true -> err s g = None.
Proof. intros R. exact (g_idle s (reach_inv s R) g). Qed.

Lemma generator_has_one_occupant s c1 c2 g e1 e2 :
  Reach false s -> (ph s c1 = CRun g \/ ph s c1 = CEnded g e1) -> (ph s c2 = CRun g \/ ph s c2 = CEnded g e2) -> c1 = c2.
Proof.
  intros R H1 H2. pose proof (reach_inv s R) as I.
  assert (A1 : gs s g = GOwned c1).
  { destruct H1 as [H | H]; [exact (proj1 (g_run s I c1 g H)) | exact (proj1 (g_end s I c1 g e1 H))]. }
  assert (A2 : gs s g = GOwned c2).
  { destruct H2 as [H | H]; [exact (proj1 (g_run s I c2 g H)) | exact (proj1 (g_end s I c2 g e2 H))]. }
  rewrite A1 in A2. now inversion A2.
Qed.

(* the hand-over is always enabled for an ended coroutine and completes its life *)
Lemma hand_enabled v s c g e keep : ph s c = CEnded g e -> exists s', step v s (Hand c keep) = Some s' /\ ph s' c = CDone e.
Proof. intros P. cbn. rewrite P. eexists; split; [reflexivity |]. cbn. apply upd_eq. Qed.

(* the seeded variant: a cancelled coroutine reports the payload of the detached coroutine that panicked on the
   same generator before it *)
Definition witness_skip : list act :=
  [Spawn 0 true; End 0 (Pan 7); Hand 0 true; Spawn 0 false; End 1 Can; Hand 1 true].

Lemma skip_detached_refuted :
  exists s c e, Reach true s /\ ph s c = CDone e /\ e = Can /\ jp s c = Some 7.
Proof.
  destruct (run true init witness_skip) as [s |] eqn:E; [| vm_compute in E; discriminate].
  exists s, 1, Can. split; [exists witness_skip; exact E |].
  vm_compute in E. inversion E; subst s. vm_compute. repeat split.
Qed.

(* non-vacuity: the same history in the code: the stack of a panicked detached coroutine is reused, the cancelled
   occupant reports no payload and the first one kept its own *)
Lemma reuse_after_panic_reachable :
  exists s, Reach false s /\ ph s 0 = CDone (Pan 7) /\ jp s 0 = Some 7 /\ ph s 1 = CDone Can /\ jp s 1 = None /\ gs s 0 = GPooled.
Proof.
  destruct (run false init witness_skip) as [s |] eqn:E; [| vm_compute in E; discriminate].
  exists s. split; [exists witness_skip; exact E |].
  vm_compute in E. inversion E; subst s. vm_compute. repeat split.
Qed.
