(* C02 - Inv3 is preserved: actions APark, AAway, AExit, ANewPark, AUnSwap, AUnTake, AUnSched, AUnRun, AResume, AStaleSetco, AOldKDone, ADrop *)
From Coq Require Import List ZArith Bool Arith Lia.
Import ListNotations.
Require Import MayV.Rt.AtomicDur MayV.Base.BlockerSpec MayV.Rt.ParkModel MayV.Rt.ParkTac MayV.Rt.ParkInv1 MayV.Rt.ParkInv2 MayV.Rt.ParkInv3Def.
Open Scope Z_scope.

Lemma inv3_APark s s' : forall d, Inv1 s -> Inv2 s -> Inv3 s -> stepF s (APark d) = Some s' -> Inv3 s'.
Proof. intros d. intro3. step3 Ipl H. Qed.

Lemma inv3_AAway s s' : Inv1 s -> Inv2 s -> Inv3 s -> stepF s AAway = Some s' -> Inv3 s'.
Proof. intro3. step3 Ipl H. Qed.

Lemma inv3_AExit s s' : forall b, Inv1 s -> Inv2 s -> Inv3 s -> stepF s (AExit b) = Some s' -> Inv3 s'.
Proof. intros b. intro3. step3 Ipl H. Qed.

Lemma inv3_ANewPark s s' : forall ign, Inv1 s -> Inv2 s -> Inv3 s -> stepF s (ANewPark ign) = Some s' -> Inv3 s'.
Proof. intros ign. intro3. step3 Ipl H. Qed.

Lemma inv3_AUnSwap s s' : forall i, Inv1 s -> Inv2 s -> Inv3 s -> stepF s (AUnSwap i) = Some s' -> Inv3 s'.
Proof. intros i. intro3. step3 Ipl H. Qed.

Lemma inv3_AUnTake s s' : forall i, Inv1 s -> Inv2 s -> Inv3 s -> stepF s (AUnTake i) = Some s' -> Inv3 s'.
Proof. intros i. intro3. step3 Ipl H. Qed.

Lemma inv3_AUnSched s s' : forall i, Inv1 s -> Inv2 s -> Inv3 s -> stepF s (AUnSched i) = Some s' -> Inv3 s'.
Proof. intros i. intro3. step3 Ipl H. Qed.

Lemma inv3_AUnRun s s' : forall i, Inv1 s -> Inv2 s -> Inv3 s -> stepF s (AUnRun i) = Some s' -> Inv3 s'.
Proof. intros i. intro3. step3 Ipl H. Qed.

Lemma inv3_AResume s s' : Inv1 s -> Inv2 s -> Inv3 s -> stepF s AResume = Some s' -> Inv3 s'.
Proof. intro3. step3 Ipl H. Qed.

Lemma inv3_AStaleSetco s s' : Inv1 s -> Inv2 s -> Inv3 s -> stepF s AStaleSetco = Some s' -> Inv3 s'.
Proof. intro3. step3 Ipl H. Qed.

Lemma inv3_AOldKDone s s' : Inv1 s -> Inv2 s -> Inv3 s -> stepF s AOldKDone = Some s' -> Inv3 s'.
Proof. intro3. step3 Ipl H. Qed.

Lemma inv3_ADrop s s' : Inv1 s -> Inv2 s -> Inv3 s -> stepF s ADrop = Some s' -> Inv3 s'.
Proof. intro3. step3 Ipl H. Qed.

