(* SchedModel: the invariants behind the progress statements of C01, and the progress theorems themselves.
   TInv  a thread with a coroutine (or kernel / panic frame) on its stack is not inside an operation of its own
   AInv  the agent of a wait()/join() call in progress is at the control point InJ of that call
   WInv  a coroutine inside its wrapper (packet.store .. unpark) is on top of a thread's stack; inside the panic path likewise
   HInv  a finished generator is either dropped, or in the hand of the thread that is about to drop it
   (all of them are preserved by every step; `linv_reach`) *)
From Coq Require Import List Arith ZArith Bool Lia.
Import ListNotations.
Require Import MayV.Rt.SchedModel MayV.Rt.SchedInv MayV.Rt.SchedTac MayV.Rt.SchedPresP MayV.Rt.SchedPresC MayV.Rt.SchedPresS MayV.Rt.SchedPresJ
               MayV.Rt.SchedInv2 MayV.Rt.SchedThm.

Definition TInv (s : st) : Prop := forall t, stk s t <> [] -> tpc s t = Idle.
Definition AInv (s : st) : Prop := forall d a p, jcall (co s d) = Some (a, p) -> apc s a = InJ d.

Ltac cases_of H :=
  step_inv H;
  try match goal with E : cur _ _ = Some ?a |- _ => destruct (cur_cases _ _ _ E) as [[? ?]|[? [? [? ?]]]]; subst a end;
  prep;
  unfold take_wake in *;
  try match goal with |- context [park_ret ?s0 ?c] => destruct (park_ret_cases s0 c) as [->|(dd & mm & bb & UU & JJ & ->)] end;
  try match goal with q : qid |- _ => destruct q end;
  repeat match goal with |- context [match jwake ?x with _ => _ end] => destruct (jwake x) eqn:? end.

Lemma tinv_step s a s' : TInv s -> step s a = Some s' -> TInv s'.
Proof.
  intros HT H. destruct a.
  all: cases_of H.
  all: intros t'; pose proof (HT t') as OLD.
  all: sst; bools; idle; upds; sco; try exact OLD; try congruence; try reflexivity.
  all: try (intros _; apply OLD; congruence).
Qed.

Lemma ainv_step s a s' : CInv s -> AInv s -> step s a = Some s' -> AInv s'.
Proof.
  intros HC HA H. destruct a.
  all: cases_of H.
  all: intros d0 a0 p0; pose proof (HA d0 a0) as OLD.
  all: bools.
  all: repeat match goal with E : jcall (co ?s0 ?d) = Some (?a, ?p) |- _ =>
         lazymatch goal with K : apc s0 a = InJ d |- _ => fail | _ => pose proof (HA d a p E) as K end end.
  all: try match goal with H1 : spawned (co ?s0 ?c) = false |- _ =>
         destruct (HC c) as (KA & KB & _); destruct (KB (KA H1)) as [_ KU] end.
  all: intros J; destruct a0 as [ta|ca].
  all: sst; bools; idle.
  all: upds; sco; try (eapply OLD; eassumption); try congruence.
  all: try (pose proof (OLD _ J) as OJ; sst); try congruence.
Qed.

Definition winv (s : st) (c : nat) : Prop :=
  match upc (co s c) with
  | CF _ | CT1 | CT2 | CT3 _ => exists t rest, stk s t = FRun c :: rest
  | PP0 _ | PT1 | PT2 | PT3 _ => exists t rest, stk s t = FPan c :: rest
  | _ => True end.
Definition WInv (s : st) : Prop := forall c, winv s c.

Lemma winv_step s a s' : WInv s -> step s a = Some s' -> WInv s'.
Proof.
  intros HW H. destruct a.
  all: cases_of H.
  all: intros c'; pose proof (HW c') as OLD; unfold winv in *.
  all: sst; bools; idle.
  all: upds; sco; try exact OLD; try exact I.
  all: try match goal with |- context [if ?b then SL _ else _] => destruct b end.
  all: try match goal with |- context [match ?i with Some _ => SP _ _ | None => SG _ end] => destruct i end.
  all: try match goal with |- context [match ?v with Some _ => PP0 _ | None => PT1 end] => destruct v end.
  all: try exact I.
  all: repeat match goal with E : upc (co _ _) = _ |- _ => rewrite E in * end.
  all: try exact I.
  all: try solve [eexists; eexists; rewrite upd_eq; reflexivity].
  all: try match goal with |- context [match upc ?x with _ => _ end] => destruct (upc x) eqn:U; try exact I end.
  all: try solve [eexists; eexists; rewrite upd_eq; reflexivity].
  all: try solve [eauto].
  all: try (destruct OLD as (tw & rw & Ew);
            match goal with |- context [upd (stk ?s0) ?t1 ?vv] =>
              destruct (Nat.eq_dec tw t1) as [->|ne];
              [ try congruence | exists tw, rw; rewrite upd_neq by exact ne; exact Ew ] end).
Qed.

Lemma base_idle_inv s t : base_idle s t = true -> stk s t = [] /\ tpc s t = Idle.
Proof. unfold base_idle. destruct (stk s t); [|discriminate]. destruct (tpc s t); try discriminate. auto. Qed.

Definition hinv (s : st) (c : nat) : Prop :=
  gst (co s c) = GFin ->
  In c (dead s) \/ exists t rest, In c (hand s t) /\ (stk s t = FKer c KD :: rest \/ stk s t = FPan c :: rest).
Definition HInv (s : st) : Prop := forall c, hinv s c.

Lemma hinv_step s a s' : CInv s -> HInv s -> step s a = Some s' -> HInv s'.
Proof.
  intros HC HH H. destruct a.
  all: cases_of H.
  all: intros c'; pose proof (HH c') as OLD; unfold hinv in *.
  all: sst; bools; idle.
  all: try match goal with H1 : spawned (co ?s0 ?c) = false |- _ => pose proof (proj1 (HC c) H1) end.
  all: upds; sco; try exact OLD; try congruence.
  all: repeat match goal with E : gst (co _ _) = _ |- _ => rewrite E in * end.
  all: intro G; try discriminate G.
  all: try solve [left; cbn; auto].
  all: try solve [right; eexists; eexists; rewrite ?upd_eq; split; [rewrite ?in_snoc; auto | auto]].
  all: destruct (OLD G) as [D|(tw & rw & Iw & Sw)]; [solve [left; cbn; auto]|].
  all: try solve [right; exists tw, rw; auto].
  all: try match goal with
       | |- context [upd (stk ?s0) ?t1 ?vv] =>
           destruct (Nat.eq_dec tw t1) as [->|ne];
           [ try (exfalso; destruct Sw; congruence) | right; exists tw, rw; rewrite ?(upd_neq _ _ _ _ ne); auto ]
       | |- context [upd (hand ?s0) ?t1 ?vv] =>
           destruct (Nat.eq_dec tw t1) as [->|ne];
           [ try (exfalso; destruct Sw; congruence) | right; exists tw, rw; rewrite ?(upd_neq _ _ _ _ ne); auto ]
       end.
  all: match goal with E : base_idle _ _ = true |- _ => apply base_idle_inv in E; destruct E as [Eb _]; rewrite Eb in Sw; destruct Sw; discriminate end.
Qed.

(* ---- all of it in every reachable state ---- *)
Record LInv (s : st) : Prop := { lT : TInv s; lA : AInv s; lW : WInv s; lH : HInv s; lX : XInv s }.

Lemma linv_init w : LInv (init w).
Proof.
  constructor.
  - intros t N. reflexivity.
  - intros d a p J. discriminate.
  - intro c. exact I.
  - intros c G. discriminate.
  - apply xinv_init.
Qed.

Theorem linv_reach w s : Reach w s -> Inv s /\ LInv s.
Proof.
  induction 1 as [|s a s' R [HI HL] H]; [split; [apply inv_init | apply linv_init]|].
  split; [eapply inv_step; eauto|]. destruct HI as [HP HC HJ HF HS HD]. destruct HL as [HT HA HW HH HX]. constructor.
  - eapply tinv_step; eauto.
  - eapply ainv_step; eauto.
  - eapply winv_step; eauto.
  - eapply hinv_step; eauto.
  - eapply xinv_step; eauto.
Qed.

(* ------------------------------------------------------------------ (iv) Cancel only after a cancel; the packet leaves once *)
Theorem cancel_outcome_only_if_cancelled w s c : Reach w s -> outcome (co s c) = Some RCancel -> cancelled (co s c) = true.
Proof. intros R O. destruct (linv_reach w s R) as [_ HL]. apply (lX s HL c). exact O. Qed.

Theorem join_cancel_only_if_cancelled w s d : Reach w s -> jret (co s d) = Some RCancel -> cancelled (co s d) = true.
Proof. intros R J. apply (cancel_outcome_only_if_cancelled w s d R). apply (join_returns_outcome w s d RCancel R J). Qed.

Theorem value_taken_once w s d : Reach w s -> ptaken (co s d) = true ->
  exists v, jret (co s d) = Some (RVal v) /\ outcome (co s d) = Some (RVal v) /\ pkt (co s d) = None /\
            jdone (co s d) = true /\ jcall (co s d) = None.
Proof.
  intros R T. destruct (linv_reach w s R) as [HI HL]. destruct (proj2 (lX s HL d) T) as [v J]. exists v.
  destruct (join_returns_outcome w s d (RVal v) R J) as (O & _ & _ & Pk & _ & Jd).
  repeat split; try assumption.
  pose proof (iC s HI d) as C. unfold cinv, callinv in C. destruct C as (_ & _ & _ & _ & _ & _ & _ & _ & _ & Cl).
  destruct (jcall (co s d)) as [[a p]|]; [|reflexivity]. destruct Cl as (_ & _ & _ & X & _). congruence.
Qed.

(* ------------------------------------------------------------------ (v) no lost wake-up of the joiner *)
(* a caller of wait()/join() that registered its blocker b and found state still true (JW3: about to park, JW3p: parked):
   once the coroutine has finished, a wake-up for b is under way - the trigger has not yet taken to_wake (CT2 / PT2), or
   holds b and is about to unpark it (CT3 b / PT3 b), or the unpark has been issued (punp), or b's token is set *)
Definition wake_under_way (s : st) (d b : nat) : Prop :=
  (upc (co s d) = CT2 \/ upc (co s d) = PT2 \/ upc (co s d) = CT3 b \/ upc (co s d) = PT3 b) \/ In b (punp s) \/ tok s b = true.

Theorem joiner_wakeup_coming w s d a m b : Reach w s ->
  jcall (co s d) = Some (a, JW3 m b) \/ jcall (co s d) = Some (a, JW3p m b) ->
  jstate (co s d) = false -> wake_under_way s d b.
Proof.
  intros R J F. pose proof (iJ s (inv_reach w s R) d) as K. unfold jinv in K.
  assert (Q : wcoming s d b /\ (jstate (co s d) = false -> jwake (co s d) = Some b -> trig_pending s d)).
  { destruct J as [J|J]; rewrite J in K; tauto. }
  destruct Q as [Wc Tp]. unfold wake_under_way, wcoming, trig_pending in *.
  tauto.
Qed.

(* each stage of the wake-up is an enabled transition *)
Theorem trigger_stage_enabled w s d b : Reach w s ->
  upc (co s d) = CT2 \/ upc (co s d) = PT2 \/ upc (co s d) = CT3 b \/ upc (co s d) = PT3 b ->
  exists t, step s (AStep t) <> None.
Proof.
  intros R U. destruct (linv_reach w s R) as [HI HL]. pose proof (lW s HL d) as Wd. unfold winv in Wd.
  destruct U as [U|[U|[U|U]]]; rewrite U in Wd; destruct Wd as (t & rest & E); exists t; unfold step; rewrite E.
  1,3: assert (G : gst (co s d) = GLive) by (apply (iS s HI t (FRun d)); rewrite E; left; reflexivity);
       unfold cur; rewrite E; cbn [live_ag apc]; rewrite G, U; unfold take_wake; try destruct (jwake (co s d)); discriminate.
  all: rewrite U; unfold take_wake; try destruct (jwake (co s d)); discriminate.
Qed.

Theorem unpark_enabled s b q : In b (punp s) -> step s (DoUnpark b q) <> None.
Proof.
  intro I. unfold step. apply memb_in in I. rewrite I.
  destruct (jcall (co s (bjoin s b))) as [[[t|c] []]|]; try discriminate.
  match goal with |- (if ?x then _ else _) <> None => destruct x; discriminate end.
Qed.

Theorem parked_thread_returns w s d t m b : Reach w s ->
  jcall (co s d) = Some (AT t, JW3p m b) -> tok s b = true ->
  exists s', step s (AStep t) = Some s' /\ jcall (co s' d) = Some (AT t, JW0 m).
Proof.
  intros R J T. destruct (linv_reach w s R) as [HI HL].
  pose proof (lA s HL d (AT t) _ J) as P. cbn [apc] in P.
  assert (E : stk s t = []).
  { destruct (stk s t) eqn:E; [reflexivity|]. assert (N : stk s t <> []) by congruence. rewrite (lT s HL t N) in P. discriminate. }
  unfold step. rewrite E. unfold cur. rewrite E. cbn [live_ag apc]. rewrite P. unfold call_of. rewrite J. cbn [ag_eqb]. rewrite Nat.eqb_refl, T.
  eexists. split; [reflexivity|]. cbn. rewrite upd_eq. reflexivity.
Qed.

(* quiescence form: no thread can take the next step of an operation in progress (this includes wrapper and panic path of
   every coroutine that is on a thread) and every issued unpark has been delivered *)
Definition Quiescent (s : st) : Prop := (forall t, step s (AStep t) = None) /\ punp s = [].

Theorem no_thread_joiner_stranded w s d t m b : Reach w s -> Quiescent s ->
  jcall (co s d) = Some (AT t, JW3p m b) -> jstate (co s d) = true.
Proof.
  intros R [Q1 Q2] J. destruct (jstate (co s d)) eqn:F; [reflexivity|]. exfalso.
  destruct (joiner_wakeup_coming w s d (AT t) m b R (or_intror J) F) as [U|[I|T]].
  - destruct (trigger_stage_enabled w s d b R U) as [t' N]. apply N, Q1.
  - rewrite Q2 in I. destruct I.
  - destruct (parked_thread_returns w s d t m b R J T) as (s' & S & _). rewrite Q1 in S. discriminate.
Qed.

(* for a coroutine joiner the model stops at the token: Blocker::park is Park::park_timeout, whose own protocol (C02) resumes a
   coroutine whose token is set *)
Theorem coroutine_joiner_token_set_partial w s d c m b : Reach w s -> Quiescent s ->
  jcall (co s d) = Some (AC c, JW3p m b) -> jstate (co s d) = false -> tok s b = true.
Proof.
  intros R [Q1 Q2] J F.
  destruct (joiner_wakeup_coming w s d (AC c) m b R (or_intror J) F) as [U|[I|T]]; [| |exact T]; exfalso.
  - destruct (trigger_stage_enabled w s d b R U) as [t' N]. apply N, Q1.
  - rewrite Q2 in I. destruct I.
Qed.

(* ------------------------------------------------------------------ (v) run queues: a queued coroutine can always be taken and resumed *)
Lemma base_idle_intro s t : stk s t = [] -> tpc s t = Idle -> base_idle s t = true.
Proof. unfold base_idle. intros -> ->. reflexivity. Qed.

Lemma grab_front s t q c r : base_idle s t = true -> getq s q = c :: r ->
  exists s1, step s (Grab t q) = Some s1 /\ base_idle s1 t = true /\ getq s1 q = r /\ In c (hand s1 t) /\
             (forall x, In x (hand s t) -> In x (hand s1 t)) /\ (forall x, gst (co s1 x) = gst (co s x)).
Proof.
  intros B G. unfold step. rewrite B, G. eexists. split; [reflexivity|].
  apply base_idle_inv in B. destruct B as [B1 B2].
  repeat split.
  - apply base_idle_intro; destruct q; cbn; assumption.
  - destruct q; cbn; apply upd_eq.
  - destruct q; cbn; rewrite upd_eq; apply in_snoc; auto.
  - intros x I. destruct q; cbn; rewrite upd_eq; apply in_snoc; auto.
  - intro x. destruct q; cbn; unfold upd; destruct (Nat.eqb x c) eqn:E; try reflexivity; apply Nat.eqb_eq in E; subst; reflexivity.
Qed.

Lemma steps_app s l1 l2 s1 : steps s l1 = Some s1 -> steps s (l1 ++ l2) = steps s1 l2.
Proof.
  revert s. induction l1 as [|a l IH]; cbn; intros s H; [inversion H; reflexivity|].
  destruct (step s a); [apply IH; exact H | discriminate].
Qed.

Lemma grab_until t q c : forall pre post s, base_idle s t = true -> getq s q = pre ++ c :: post ->
  exists s', steps s (repeat (Grab t q) (S (length pre))) = Some s' /\ base_idle s' t = true /\ In c (hand s' t) /\
             (forall x, gst (co s' x) = gst (co s x)).
Proof.
  induction pre as [|p pre IH]; intros post s B G.
  - destruct (grab_front s t q c post B G) as (s1 & S & B1 & _ & I & _ & Gs). exists s1. cbn [length repeat steps]. rewrite S. auto.
  - cbn [app] in G. destruct (grab_front s t q p (pre ++ c :: post) B G) as (s1 & S & B1 & G1 & _ & _ & Gs).
    destruct (IH post s1 B1 G1) as (s' & S' & B' & I' & Gs'). exists s'.
    cbn [length repeat steps]. rewrite S. split; [exact S'|]. repeat split; try assumption. intro x. rewrite Gs'. apply Gs.
Qed.

Theorem queue_nonempty_grab_enabled s t q c : In c (getq s q) -> base_idle s t = true -> step s (Grab t q) <> None.
Proof.
  intros I B. unfold step. rewrite B. destruct (getq s q); [destruct I | discriminate].
Qed.

(* a coroutine that waits in a run queue or in a suspension slot has not finished *)
Theorem waiting_not_finished w s c : Reach w s ->
  (exists q, In c (getq s q)) \/ In c (slots s) \/ (exists t, In c (hand s t) /\ base_idle s t = true) -> gst (co s c) <> GFin.
Proof.
  intros R W G. destruct (linv_reach w s R) as [HI HL]. pose proof (iP s HI) as HP.
  destruct (lH s HL c G) as [D|(t' & rest & I' & S')].
  - apply (p_dead s HP) in D.
    destruct W as [[q I]|[I|(t & I & _)]].
    + destruct q; cbn in I; [apply (p_gq s HP) in I | apply (p_lq s HP) in I]; congruence.
    + apply (p_slot s HP) in I. congruence.
    + apply (p_hand s HP) in I. congruence.
  - apply (p_hand s HP) in I'.
    destruct W as [[q I]|[I|(t & I & B)]].
    + destruct q; cbn in I; [apply (p_gq s HP) in I | apply (p_lq s HP) in I]; congruence.
    + apply (p_slot s HP) in I. congruence.
    + apply (p_hand s HP) in I. assert (t' = t) by congruence. subst.
      apply base_idle_inv in B. destruct B as [B _]. rewrite B in S'. destruct S'; discriminate.
Qed.

Theorem handed_coroutine_resumable w s t c : Reach w s -> In c (hand s t) -> base_idle s t = true ->
  exists s', step s (Resume t c) = Some s' /\ In (FRun c) (stk s' t).
Proof.
  intros R I B. pose proof (waiting_not_finished w s c R (or_intror (or_intror (ex_intro _ t (conj I B))))) as G.
  apply base_idle_inv in B. destruct B as [B1 B2].
  unfold step. apply memb_in in I. rewrite I, B1. unfold cur. rewrite B1. cbn [apc]. rewrite B2.
  destruct (gst (co s c)) eqn:Gc; try congruence; (eexists; split; [reflexivity|]; cbn; rewrite upd_eq; left; reflexivity).
Qed.

(* any thread that is idle (nothing on its stack, not inside an operation) can bring a queued coroutine to run by queue
   operations alone: the schedule is |prefix|+1 removals from that queue followed by the resumption *)
Theorem queued_coroutine_can_run w s q c t : Reach w s -> In c (getq s q) -> base_idle s t = true ->
  exists n s', steps s (repeat (Grab t q) n ++ [Resume t c]) = Some s' /\ In (FRun c) (stk s' t).
Proof.
  intros R I B. destruct (in_split _ _ I) as (pre & post & G).
  destruct (grab_until t q c pre post s B G) as (s1 & S1 & B1 & I1 & _).
  assert (R1 : Reach w s1) by (eapply steps_reach; eauto).
  destruct (handed_coroutine_resumable w s1 t c R1 I1 B1) as (s' & S' & F).
  exists (S (length pre)), s'. rewrite (steps_app _ _ _ _ S1). cbn [steps]. rewrite S'. auto.
Qed.
