(* PoisonModel (C13): lock poisoning of may::sync::{Mutex, RwLock} as src/sync/poison.rs computes it.
   Definitions only (theorems: Rt/PoisonThm.v).

   Part (a) - the decision, a pure function of what the code reads:

     Flag::borrow   Guard { panicking: thread::panicking() };  Err(PoisonError(guard)) iff failed != 0
     Flag::done     if !guard.panicking && thread::panicking() {
                        let is_canceled = if is_coroutine() { current_cancel_data().is_cancel_unwinding() } else { false };
                        if !is_canceled { failed.store(1) } }
     is_cancel_unwinding   Cancel.unwinding: set by trigger_cancel_panic() right before panic_any(Error::Cancel), never
                    cleared (fix bce9086, finding F32).  BEFORE that fix the code asked is_canceled():
                    Cancel.state.load() == 1 (bit 0 = cancel requested; every disable_cancel adds 2) - kept here as
                    the variant `fixd = false` (done_stores_prefix), on which the property is refuted
     map_result     keeps Ok / Err
     guards         MutexGuard and RwLockWriteGuard carry a poison::Guard and call done() before unlock();
                    RwLockReadGuard carries none: its drop never touches the flag

   `poison_case` is the function the differential runs compare with the real Mutex / RwLock
   (harness/src/bin/d_poison.rs prints `CASE mode kind isco pre gpan tpan creq => ...`).

   Part (b) - a small-step model of the guard life cycle under Rust's unwinding, any number of tasks (threads
   and coroutines: `isco`) and locks (`ismutex`: a Mutex, else a RwLock):

     task    cst    the Cancel.state word
             ctl    the control stack, innermost first: CCatch = a catch_unwind frame, CUnw m ins = an
                    unwinding in progress (m: genuine panic with payload / cancellation; ins: ghost, the ids
                    of the guards held when it started).  thread::panicking() = some CUnw is on the stack
                    (per task: the thread-local counter follows the task as long as it does not migrate while
                    unwinding - DESIGN observation O2, outside the model)
             held   the guards the task owns: lock, kind, guard.panicking, was the lock result Err(Poisoned),
                    gfr = number of catch_unwind frames around the frame that owns it (Move: the guard is
                    moved to another frame, e.g. stashed by a Drop impl)
             fin    how the task ended
     lock    failed (the poison flag), wheld (owner of the Mutex / of write access), readers

   The locks themselves are abstract (acquisition is one step, enabled when the lock is available): the waiting
   protocols are MutexModel (C05) and RwLockModel (C12); Rt/PoisonTie.v relates the guard drop to their unlock.

   Actions: Lock (lock()/write()/read() returns - Ok or Poisoned, both hand out the guard), DropG (explicit drop),
   Move, PanicStart, CancelReq (Cancel::cancel: state.fetch_or(1)), CancelStart (a cancellation point raises the
   cancel panic - trigger_cancel_panic sets the mark `cunw` first -: check_cancel / the Canceled branch of a blocking call:
   state == 1), Disable / Enable (state +- 2),
   PushCatch / PopCatch, UnwDrop (the unwinding drops a guard of the frames it leaves), UnwCatch (all of them
   are gone: the nearest catch_unwind - or the root of the task: generator / thread - catches), Return.
   A panic that starts while an unwinding is on top of the stack (no catch_unwind in between) aborts the process:
   PanicStart / CancelStart are not enabled there. *)
From Coq Require Import List Arith ZArith Bool Lia.
Import ListNotations.

(* ---------------------------------------------------------------- (a) the decision *)

Definition is_canceled (cst : Z) : bool := Z.eqb cst 1.
Definition done_stores (gpan tpan isco cunw : bool) : bool :=
  negb gpan && tpan && negb (if isco then cunw else false).
Definition done_stores_prefix (gpan tpan isco : bool) (cst : Z) : bool :=
  negb gpan && tpan && negb (if isco then is_canceled cst else false).
Definition borrow_panicking (tpan : bool) : bool := tpan.
Definition borrow_err (failed : bool) : bool := failed.

Inductive gkind := GM | GW | GR.
Definition has_flag (k : gkind) : bool := match k with GR => false | _ => true end.
(* fixd = true: the code as it is now; false: before bce9086 *)
Definition drop_poisons (fixd : bool) (k : gkind) (gpan tpan isco : bool) (cst : Z) (cunw : bool) : bool :=
  has_flag k && (if fixd then done_stores gpan tpan isco cunw else done_stores_prefix gpan tpan isco cst).

(* the differential function: inputs [mode; kind; isco; pre; gpan; tpan; creq; cunw] (the cancel is never disabled
   in the runs: state = creq), outputs [lock_err; poisoned; released; later_err; get_mut_err; into_inner_err] *)
Definition zb (z : Z) : bool := negb (Z.eqb z 0).
Definition bz (b : bool) : Z := if b then 1%Z else 0%Z.
Definition kind_of (z : Z) : gkind := if Z.eqb z 0 then GM else if Z.eqb z 1 then GW else GR.
Definition poison_case_v (fixd : bool) (i : list Z) : list Z :=
  match i with
  | [_; kind; isco; pre; gpan; tpan; creq; cunw] =>
      let p := zb pre || drop_poisons fixd (kind_of kind) (zb gpan) (zb tpan) (zb isco) (bz (zb creq)) (zb cunw) in
      [bz (borrow_err (zb pre)); bz p; 1%Z; bz (borrow_err p); bz (borrow_err p); bz (borrow_err p)]
  | _ => [] end.
Definition poison_case := poison_case_v true.
Definition poison_case_prefix := poison_case_v false.

(* ---------------------------------------------------------------- (b) the guard life cycle *)

Inductive umode := MPanic (v : Z) | MCancel.
Inductive citem := CCatch | CUnw (m : umode) (ins : list nat).
Inductive outcome := ORet | OPan (v : Z) | OCan.
Record guard := { gid : nat; glock : nat; gk : gkind; gpan : bool; gerr : bool; gfr : nat }.
Record task := { cst : Z; ctl : list citem; held : list guard; fin : option outcome;
                 cunw : bool;   (* Cancel.unwinding: the cancel panic has been raised in this task *)
                 swal : bool    (* ghost: a cancellation unwind was caught by a catch_unwind of the task's own code *) }.
Record lockst := { failed : bool; wheld : option nat; readers : list nat }.
Record st := { T : nat -> task; L : nat -> lockst; nextg : nat }.

Definition upd {X} (f : nat -> X) i v := fun j => if Nat.eqb j i then v else f j.

Definition is_unw (c : citem) : bool := match c with CUnw _ _ => true | CCatch => false end.
Definition panicking (x : task) : bool := existsb is_unw (ctl x).
Definition top_unw (l : list citem) : bool := match l with CUnw _ _ :: _ => true | _ => false end.
Fixpoint ncatch (l : list citem) : nat :=
  match l with [] => 0 | CCatch :: r => S (ncatch r) | CUnw _ _ :: r => ncatch r end.
Definition out_of (m : umode) : outcome := match m with MPanic v => OPan v | MCancel => OCan end.

Definition find_g (i : nat) (l : list guard) : option guard := find (fun g => Nat.eqb (gid g) i) l.
Definition del_g (i : nat) (l : list guard) : list guard := filter (fun g => negb (Nat.eqb (gid g) i)) l.
Definition set_gfr (g : guard) d := {| gid := gid g; glock := glock g; gk := gk g; gpan := gpan g; gerr := gerr g; gfr := d |}.
Definition move_g (i d : nat) (l : list guard) : list guard :=
  map (fun g => if Nat.eqb (gid g) i then set_gfr g d else g) l.
Fixpoint rm1 (w : nat) (l : list nat) : list nat :=
  match l with [] => [] | x :: r => if Nat.eqb x w then r else x :: rm1 w r end.

Definition set_cst (x : task) c := {| cst := c; ctl := ctl x; held := held x; fin := fin x; cunw := cunw x; swal := swal x |}.
Definition set_ctl (x : task) c := {| cst := cst x; ctl := c; held := held x; fin := fin x; cunw := cunw x; swal := swal x |}.
Definition set_held (x : task) h := {| cst := cst x; ctl := ctl x; held := h; fin := fin x; cunw := cunw x; swal := swal x |}.
Definition set_fin (x : task) c f := {| cst := cst x; ctl := c; held := held x; fin := f; cunw := cunw x; swal := swal x |}.
(* trigger_cancel_panic: the mark, then the panic *)
Definition set_cancel_unw (x : task) c := {| cst := cst x; ctl := c; held := held x; fin := fin x; cunw := true; swal := swal x |}.
Definition set_caught (x : task) c (m : umode) :=
  {| cst := cst x; ctl := c; held := held x; fin := fin x; cunw := cunw x;
     swal := match m with MCancel => true | MPanic _ => swal x end |}.

Definition task0 := {| cst := 0%Z; ctl := []; held := []; fin := None; cunw := false; swal := false |}.
Definition lock0 := {| failed := false; wheld := None; readers := [] |}.
Definition init : st := {| T := fun _ => task0; L := fun _ => lock0; nextg := 0 |}.

Definition wT (s : st) t x := {| T := upd (T s) t x; L := L s; nextg := nextg s |}.

Inductive action :=
  | Lock (t l : nat) (k : gkind)
  | DropG (t i : nat)
  | Move (t i d : nat)
  | PanicStart (t : nat) (v : Z)
  | CancelReq (t : nat)
  | CancelStart (t : nat)
  | Disable (t : nat) | Enable (t : nat)
  | PushCatch (t : nat) | PopCatch (t : nat)
  | UnwDrop (t i : nat)
  | UnwCatch (t : nat)
  | Return (t : nat).

Definition alive (x : task) : bool := match fin x with None => true | Some _ => false end.

Section Model.
Variable isco : nat -> bool.      (* which tasks are coroutines *)
Variable ismutex : nat -> bool.   (* which locks are a Mutex (the others are RwLocks) *)
Variable fixd : bool.             (* true: the code as it is now (after bce9086); false: before *)

Definition kind_ok (l : nat) (k : gkind) : bool := match k with GM => ismutex l | _ => negb (ismutex l) end.
Definition available (lk : lockst) (k : gkind) : bool :=
  match wheld lk, k with
  | Some _, _ => false
  | None, GR => true
  | None, _ => match readers lk with [] => true | _ => false end end.

(* the guard constructor: MutexGuard::new / RwLockWriteGuard::new / RwLockReadGuard::new *)
Definition acquire (lk : lockst) (t : nat) (k : gkind) : lockst :=
  match k with
  | GR => {| failed := failed lk; wheld := wheld lk; readers := t :: readers lk |}
  | _ => {| failed := failed lk; wheld := Some t; readers := readers lk |} end.

(* the guard drop: [poison.done(&guard);] unlock() - in every situation *)
Definition release (lk : lockst) (t : nat) (k : gkind) (p : bool) : lockst :=
  match k with
  | GR => {| failed := failed lk || p; wheld := wheld lk; readers := rm1 t (readers lk) |}
  | _ => {| failed := failed lk || p; wheld := None; readers := readers lk |} end.
Definition poisons (s : st) (t : nat) (g : guard) : bool :=
  drop_poisons fixd (gk g) (gpan g) (panicking (T s t)) (isco t) (cst (T s t)) (cunw (T s t)).
Definition do_drop (s : st) (t : nat) (g : guard) : st :=
  let x := T s t in
  {| T := upd (T s) t (set_held x (del_g (gid g) (held x)));
     L := upd (L s) (glock g) (release (L s (glock g)) t (gk g) (poisons s t g));
     nextg := nextg s |}.

Definition step (s : st) (a : action) : option st :=
  match a with
  | Lock t l k =>
      let x := T s t in
      if alive x && kind_ok l k && available (L s l) k
      then let g := {| gid := nextg s; glock := l; gk := k; gpan := borrow_panicking (panicking x);
                       gerr := borrow_err (failed (L s l)); gfr := ncatch (ctl x) |} in
           Some {| T := upd (T s) t (set_held x (g :: held x)); L := upd (L s) l (acquire (L s l) t k); nextg := S (nextg s) |}
      else None
  | DropG t i =>
      let x := T s t in
      if alive x then match find_g i (held x) with Some g => Some (do_drop s t g) | None => None end else None
  | Move t i d =>
      let x := T s t in
      if alive x && Nat.leb d (ncatch (ctl x))
      then match find_g i (held x) with
           | Some _ => Some (wT s t (set_held x (move_g i d (held x))))
           | None => None end
      else None
  | PanicStart t v =>
      let x := T s t in
      if alive x && negb (top_unw (ctl x))
      then Some (wT s t (set_ctl x (CUnw (MPanic v) (map gid (held x)) :: ctl x)))
      else None
  | CancelReq t =>
      let x := T s t in
      if isco t then Some (wT s t (set_cst x (if Z.odd (cst x) then cst x else (cst x + 1)%Z))) else None
  | CancelStart t =>
      let x := T s t in
      if alive x && isco t && is_canceled (cst x) && negb (top_unw (ctl x))
      then Some (wT s t (set_cancel_unw x (CUnw MCancel (map gid (held x)) :: ctl x)))
      else None
  | Disable t =>
      let x := T s t in
      if alive x && isco t then Some (wT s t (set_cst x (cst x + 2)%Z)) else None
  | Enable t =>
      let x := T s t in
      if alive x && isco t && Z.leb 2 (cst x) then Some (wT s t (set_cst x (cst x - 2)%Z)) else None
  | PushCatch t =>
      let x := T s t in
      if alive x then Some (wT s t (set_ctl x (CCatch :: ctl x))) else None
  | PopCatch t =>
      let x := T s t in
      match ctl x with
      | CCatch :: r => if alive x && forallb (fun g => Nat.leb (gfr g) (ncatch r)) (held x)
                       then Some (wT s t (set_ctl x r)) else None
      | _ => None end
  | UnwDrop t i =>
      let x := T s t in
      match ctl x with
      | CUnw _ _ :: r =>
          match find_g i (held x) with
          | Some g => if alive x && Nat.leb (ncatch r) (gfr g) then Some (do_drop s t g) else None
          | None => None end
      | _ => None end
  | UnwCatch t =>
      let x := T s t in
      match ctl x with
      | CUnw m _ :: r =>
          if alive x && forallb (fun g => Nat.ltb (gfr g) (ncatch r)) (held x)
          then match r with
               | CCatch :: r' => Some (wT s t (set_caught x r' m))
               | [] => Some (wT s t (set_fin x [] (Some (out_of m))))
               | CUnw _ _ :: _ => None end
          else None
      | _ => None end
  | Return t =>
      let x := T s t in
      match ctl x, held x with
      | [], [] => if alive x then Some (wT s t (set_fin x [] (Some ORet))) else None
      | _, _ => None end
  end.

Inductive Reach : st -> Prop :=
| R0 : Reach init
| RS s a s' : Reach s -> step s a = Some s' -> Reach s'.

Fixpoint run (s : st) (l : list action) : option st :=
  match l with [] => Some s | a :: l' => match step s a with Some s' => run s' l' | None => None end end.
Lemma run_reach l : forall s s', Reach s -> run s l = Some s' -> Reach s'.
Proof.
  induction l as [|a l IH]; cbn [run]; intros s s' R H; [inversion H; subst; exact R|].
  destruct (step s a) eqn:E; [|discriminate]. eapply IH; [eapply RS; eauto | exact H].
Qed.

(* observers of a lock nobody else can reach any more (`&mut self` / `self`) and is_poisoned *)
Definition is_poisoned (s : st) (l : nat) : bool := failed (L s l).
Definition get_mut_err (s : st) (l : nat) : bool := borrow_err (failed (L s l)).
Definition into_inner_err (s : st) (l : nat) : bool := borrow_err (failed (L s l)).

(* the property's vocabulary *)
(* the unwinding that is responsible for the drops of the frames a task leaves: the outermost active one *)
Definition cause (x : task) : option umode :=
  match filter is_unw (rev (ctl x)) with CUnw m _ :: _ => Some m | _ => None end.
Definition genuine (o : option umode) : bool := match o with Some (MPanic _) => true | _ => false end.
(* the panic started inside the guard: the guard was made when the task was not unwinding, and an unwinding
   is in progress now (every such unwinding started while the guard was held: PoisonThm.started_inside) *)
Definition started_inside_now (x : task) (g : guard) : bool := negb (gpan g) && panicking x.
Definition cancel_bit (x : task) : bool := Z.odd (cst x).
Definition cancel_disabled (x : task) : bool := Z.leb 2 (cst x).

End Model.
