(* SchedLoopModel: the WORKER LOOP of `may` and its wake-up protocol, as a control layer on top of SchedModel
   (C01, progress half).  Definitions only.

   Code modelled (CURRENT tree, default features: io_cancel, io_timeout, work_steal; `work_steal` off is the
   parameter `work_steal P = false`):

     src/io/event_loop.rs  EventLoop::run          next_expire = None for the FIRST select, afterwards
                                                   select(..).or(Some(config().get_timeout_ns()))
     src/io/sys/unix/epoll.rs  Selector::select    epoll_wait(next_expire rounded up to ms, None = no timeout);
                                                   for every event: the eventfd event -> read(evfd) THEN
                                                   scheduler.collect_global(id); an I/O event -> data.co.take(),
                                                   schedule_with_id (work_steal) / run_coroutine (otherwise);
                                                   run_queued_tasks(id); free_unused_event_data;
                                                   timer_list.schedule_timer(now, timeout_handler) -> next_expire;
                                                   has_local_tasks(id) -> Some(0) instead
                               Selector::wakeup    write(evfd)
     src/scheduler.rs  run_queued_tasks            budget = RUN_BUDGET; 'work: local.pop -> run_coroutine, budget -= 1,
                                                   0: return, multiple of GLOBAL_INTERVAL: collect_global | None ->
                                                   collect_global, has_tasks -> continue; steal ring of min(3, workers-1)
                                                   victims (id+i+1) % workers: steal_into -> run_coroutine, continue 'work;
                                                   return          (without work_steal: while let Some = local.pop, the same
                                                   budget, no collect_global on None, no stealing)
                       collect_global              v = global.bulk_pop(); while !v.is_empty() { push_back all; bulk_pop }
                       schedule                    on a worker: local push_back, else schedule_global
                       schedule_global(_with_id)   global.push(co) THEN wakeup(thread_id)
     may_queue spmc::Steal::steal_into             bulk_pop of the victim, the LAST of the batch is returned (run at
                                                   once), the others are pushed to the thief's local queue

   The coroutines, the queues and everything that happens while a coroutine or its kernel half is on a stack
   are the state and the transitions of SchedModel (`base`): an action of this model is a SchedModel action
   (`proj`) plus an update of the control state (`ctl`), enabled under `guard`.  SchedModel lets any idle thread
   Grab from any queue; here
     * only worker w Grabs from its global queue (collect_global) and pops its local queue, only the thieves of
       the steal ring Grab from the local queue of another worker, Put is the push_back of collect_global /
       steal_into / schedule_with_id, TakeSlot of a worker is the `co.take()` of an I/O event or of the I/O
       timeout handler, Resume of a worker is run_coroutine at the four places of the loop;
     * worker threads run no user code of their own; code on a worker (LBase) runs only inside run_coroutine;
     * a push into a local queue is done by code running on that worker (KLocal, Wake / DoUnpark with QL w);
     * every push into a global queue k is followed (push_first P = true, the code as it is) or preceded
       (push_first P = false: the wrong order, seeded change C01-3) by the eventfd write for k: for the pushers
       SchedModel has a control point for (spawn: SG -> SP -> SW, the kernel half on a non-worker thread:
       KFA -> KG -> KW) the write is the SW / KW step (resp. the fetch step), for its anonymous pushers (Wake:
       unpark / cancel from a thread or the timer thread, DoUnpark) the write is the separate action LAnonWake
       (resp. LAnonPre); `owed k` / `anon k` count the pushers between their push and their write.

   Abstract: the mpsc / spmc queues are the atomic FIFOs of SchedModel (C03 / C04; a bulk_pop is a sequence of
   Grabs that may be cut anywhere; it returns empty only when the queue is empty at that instant); the kernel side
   of epoll is the eventfd flag and a nondeterministic "an I/O event is ready" (`io`); the I/O timer list is the
   nondeterministic `nx` of LTmDone (time to the next I/O timer, None = no timer: the configured timeout) and the
   LTmTake of an expired entry; time is `now` (ns), advanced by LTick.

   Ghost (never read by guard / proj): npop (local.pop calls of w), ncoll (completed collect_global calls),
   nsel (completed select calls = rounds of the loop), coll0 (ncoll at the start of the round), ngrab c (how
   often c was taken out of a global queue: bulk_pop of collect_global), ntake c (how often c was taken out of a
   local queue: local.pop of its worker, or the bulk_pop of a thief), slept.

   run_coroutine returns (LCoRet) when the stack of the worker is unwound and nothing is held in local variables:
   every kernel half of SchedModel has handed the coroutine on (queue / slot / drop) before it ends. *)
From Coq Require Import List Arith ZArith NArith Bool Lia.
Import ListNotations.
Require Import MayV.Rt.SchedModel.

(* budgeted = true: the code as it is (fix e723520, finding F34): run_queued_tasks runs at most `budget` coroutines from
   its local queue per call (RUN_BUDGET), calls collect_global whenever the remaining budget is a multiple of `interval`
   (GLOBAL_INTERVAL), and select returns Some(0) when the local queue is not empty (the next epoll_wait only polls).
   budgeted = false: the loop before that fix, kept for the refuted statements. *)
Record params := { push_first : bool; work_steal : bool; cfg_tmo : N; budgeted : bool; budget : nat; interval : nat }.

(* where run_coroutine was called from: run_queued_tasks after local.pop / after steal_into (not counted in the budget) /
   the I/O timeout handler of schedule_timer / an I/O event (without work_steal; e = the eventfd event is still to be
   processed) *)
Inductive ret := RRun | RSt | RTim | RIo (e : bool).
(* where collect_global was called from: the eventfd event of select / run_queued_tasks after local.pop returned None /
   run_queued_tasks when the remaining budget is a multiple of the interval *)
Inductive cfrom := FromEv | FromRun | FromBud.

Inductive lpc :=
  | PWait                 (* about to call epoll_wait with timeout `tmo w` *)
  | PSleep                (* blocked in epoll_wait, deadline `dl w` *)
  | PEvs (e : bool)       (* processing the returned events; e: the eventfd event is among those still to come *)
  | PIo (e : bool)        (* I/O event, coroutine taken: about to schedule_with_id *)
  | PColl (r : cfrom)     (* collect_global: inside global.bulk_pop (hand = the batch so far) *)
  | PPut (r : cfrom)      (* collect_global: for co in v { local.push_back(co) } *)
  | PRun                  (* 'work: about to local.pop *)
  | PRes (r : ret)        (* run_coroutine(co): co in hand, about to resume it *)
  | PCo (r : ret)         (* inside run_coroutine: the coroutine or its kernel half is on the stack *)
  | PHas                  (* local.has_tasks() after collect_global *)
  | PSteal (i : nat)      (* steal attempt i: inside stealer.bulk_pop (hand = the batch so far) *)
  | PStPut                (* steal_into: push_back of the batch but its last element *)
  | PTim.                 (* free_unused_event_data; timer_list.schedule_timer *)

Record lst := {
  base : st;
  wpc : nat -> lpc;
  evfd : nat -> bool;         (* eventfd counter of worker w is non-zero *)
  tmo : nat -> option N;      (* next_expire of worker w's event loop *)
  dl : nat -> option N;       (* deadline of the epoll_wait in progress *)
  slept : nat -> N;           (* ghost: when it was entered *)
  now : N;
  owed : nat -> nat;          (* pushers with a control point (SW k / KW k) between push and eventfd write *)
  anon : nat -> nat;          (* anonymous pushers between push and eventfd write *)
  pre : nat -> nat;           (* wrong order only: anonymous pushers between eventfd write and push *)
  npop : nat -> nat;
  ncoll : nat -> nat;
  nsel : nat -> nat;
  coll0 : nat -> nat;
  ngrab : nat -> nat;
  ntake : nat -> nat;
  bud : nat -> nat;           (* remaining budget of the run_queued_tasks call in progress *)
  since : nat -> nat }.       (* ghost: run_coroutine calls (after local.pop) since the call started / the last collect_global completed *)

Definition mkl b p e t d sl n o an pr np nc ns c0 ng nt bu si :=
  {| base := b; wpc := p; evfd := e; tmo := t; dl := d; slept := sl; now := n; owed := o; anon := an; pre := pr;
     npop := np; ncoll := nc; nsel := ns; coll0 := c0; ngrab := ng; ntake := nt; bud := bu; since := si |}.
Definition l_base l x := mkl x (wpc l) (evfd l) (tmo l) (dl l) (slept l) (now l) (owed l) (anon l) (pre l) (npop l) (ncoll l) (nsel l) (coll0 l) (ngrab l) (ntake l) (bud l) (since l).
Definition l_wpc l x := mkl (base l) x (evfd l) (tmo l) (dl l) (slept l) (now l) (owed l) (anon l) (pre l) (npop l) (ncoll l) (nsel l) (coll0 l) (ngrab l) (ntake l) (bud l) (since l).
Definition l_evfd l x := mkl (base l) (wpc l) x (tmo l) (dl l) (slept l) (now l) (owed l) (anon l) (pre l) (npop l) (ncoll l) (nsel l) (coll0 l) (ngrab l) (ntake l) (bud l) (since l).
Definition l_tmo l x := mkl (base l) (wpc l) (evfd l) x (dl l) (slept l) (now l) (owed l) (anon l) (pre l) (npop l) (ncoll l) (nsel l) (coll0 l) (ngrab l) (ntake l) (bud l) (since l).
Definition l_dl l x := mkl (base l) (wpc l) (evfd l) (tmo l) x (slept l) (now l) (owed l) (anon l) (pre l) (npop l) (ncoll l) (nsel l) (coll0 l) (ngrab l) (ntake l) (bud l) (since l).
Definition l_slept l x := mkl (base l) (wpc l) (evfd l) (tmo l) (dl l) x (now l) (owed l) (anon l) (pre l) (npop l) (ncoll l) (nsel l) (coll0 l) (ngrab l) (ntake l) (bud l) (since l).
Definition l_now l x := mkl (base l) (wpc l) (evfd l) (tmo l) (dl l) (slept l) x (owed l) (anon l) (pre l) (npop l) (ncoll l) (nsel l) (coll0 l) (ngrab l) (ntake l) (bud l) (since l).
Definition l_owed l x := mkl (base l) (wpc l) (evfd l) (tmo l) (dl l) (slept l) (now l) x (anon l) (pre l) (npop l) (ncoll l) (nsel l) (coll0 l) (ngrab l) (ntake l) (bud l) (since l).
Definition l_anon l x := mkl (base l) (wpc l) (evfd l) (tmo l) (dl l) (slept l) (now l) (owed l) x (pre l) (npop l) (ncoll l) (nsel l) (coll0 l) (ngrab l) (ntake l) (bud l) (since l).
Definition l_pre l x := mkl (base l) (wpc l) (evfd l) (tmo l) (dl l) (slept l) (now l) (owed l) (anon l) x (npop l) (ncoll l) (nsel l) (coll0 l) (ngrab l) (ntake l) (bud l) (since l).
Definition l_npop l x := mkl (base l) (wpc l) (evfd l) (tmo l) (dl l) (slept l) (now l) (owed l) (anon l) (pre l) x (ncoll l) (nsel l) (coll0 l) (ngrab l) (ntake l) (bud l) (since l).
Definition l_ncoll l x := mkl (base l) (wpc l) (evfd l) (tmo l) (dl l) (slept l) (now l) (owed l) (anon l) (pre l) (npop l) x (nsel l) (coll0 l) (ngrab l) (ntake l) (bud l) (since l).
Definition l_nsel l x := mkl (base l) (wpc l) (evfd l) (tmo l) (dl l) (slept l) (now l) (owed l) (anon l) (pre l) (npop l) (ncoll l) x (coll0 l) (ngrab l) (ntake l) (bud l) (since l).
Definition l_coll0 l x := mkl (base l) (wpc l) (evfd l) (tmo l) (dl l) (slept l) (now l) (owed l) (anon l) (pre l) (npop l) (ncoll l) (nsel l) x (ngrab l) (ntake l) (bud l) (since l).
Definition l_ngrab l x := mkl (base l) (wpc l) (evfd l) (tmo l) (dl l) (slept l) (now l) (owed l) (anon l) (pre l) (npop l) (ncoll l) (nsel l) (coll0 l) x (ntake l) (bud l) (since l).

Definition l_ntake l x := mkl (base l) (wpc l) (evfd l) (tmo l) (dl l) (slept l) (now l) (owed l) (anon l) (pre l) (npop l) (ncoll l) (nsel l) (coll0 l) (ngrab l) x (bud l) (since l).
Definition l_bud l x := mkl (base l) (wpc l) (evfd l) (tmo l) (dl l) (slept l) (now l) (owed l) (anon l) (pre l) (npop l) (ncoll l) (nsel l) (coll0 l) (ngrab l) (ntake l) x (since l).
Definition l_since l x := mkl (base l) (wpc l) (evfd l) (tmo l) (dl l) (slept l) (now l) (owed l) (anon l) (pre l) (npop l) (ncoll l) (nsel l) (coll0 l) (ngrab l) (ntake l) (bud l) x.

Definition set_pc l w p := l_wpc l (upd (wpc l) w p).
Definition set_evfd l k b := l_evfd l (upd (evfd l) k b).
Definition inc (f : nat -> nat) k := upd f k (S (f k)).
Definition dec (f : nat -> nat) k := upd f k (Nat.pred (f k)).
Definition grabbed l (o : option nat) := match o with Some c => l_ngrab l (inc (ngrab l) c) | None => l end.
Definition taken l (o : option nat) := match o with Some c => l_ntake l (inc (ntake l) c) | None => l end.

Definition is_nil {X} (l : list X) : bool := match l with [] => true | _ => false end.
Definition is_zero (o : option N) : bool := match o with Some 0%N => true | _ => false end.
Definition is_co (p : lpc) : bool := match p with PCo _ => true | _ => false end.

(* epoll_wait takes milliseconds: to.div_ceil(1_000_000) *)
Definition rnd (t : N) : N := ((t + 999999) / 1000000 * 1000000)%N.

Definition maxst (n : nat) : nat := Nat.min 3 (n - 1).
Definition victim (n w i : nat) : nat := (w + i + 1) mod n.

(* ---- classification of the SchedModel actions (evaluated in the state BEFORE the step) ---- *)
Definition thread_of (a : action) : option nat :=
  match a with
  | ASpawn t _ _ _ | AJoin t _ _ | AIsDone t _ | ACancel t _ | AYield t | AFinish t _ | APanic t _ | AStep t | AFire t
  | KLocal t | KFA t | KStep t | KStore t | KSelfTake t | KSkip t | KDrop t | KSubscribed t
  | Grab t _ | Put t | TakeSlot t _ | Resume t _ => Some t
  | Wake _ _ | DoUnpark _ _ => None
  end.

(* the queue this action may append a coroutine to *)
Definition push_target (s : st) (a : action) : option qid :=
  match a with
  | AStep t => match cur s t with
               | Some ag => match apc s ag with SP _ k => Some (QG k) | _ => None end
               | None => None end
  | KLocal t => Some (QL t)
  | KStep t => match stk s t with FKer _ (KG k) :: _ => Some (QG k) | _ => None end
  | Put t => Some (QL t)
  | Wake _ q | DoUnpark _ q => Some q
  | _ => None
  end.
Definition is_anon (a : action) : bool := match a with Wake _ _ | DoUnpark _ _ => true | _ => false end.

(* Selector::wakeup(k) of a pusher with a control point *)
Definition wake_target (s : st) (a : action) : option nat :=
  match a with
  | AStep t => match cur s t with
               | Some ag => match apc s ag with SW k => Some k | _ => None end
               | None => None end
  | KStep t => match stk s t with FKer _ (KW k) :: _ => Some k | _ => None end
  | _ => None
  end.

(* the step at which the target worker of a global push becomes known (NEXT_THREAD_ID.fetch_add / Builder::id) *)
Definition fetch_target (s : st) (a : action) : option nat :=
  match a with
  | ASpawn _ _ (Some i) false => Some (i mod nw s)
  | AStep t => match cur s t with
               | Some ag => match apc s ag with SG _ => Some (rr s mod nw s) | _ => None end
               | None => None end
  | KFA _ => Some (rr s mod nw s)
  | _ => None
  end.

(* ---- guard ---- *)
(* code runs on worker t only inside run_coroutine *)
Definition thread_ok (l : lst) (t : nat) : bool :=
  if t <? nw (base l) then is_co (wpc l t) && negb (is_nil (stk (base l) t)) else true.

Definition base_ok (P : params) (l : lst) (b : action) : bool :=
  let n := nw (base l) in
  match b with
  | Grab _ _ | Put _ => false
  | TakeSlot t _ => n <=? t
  | KLocal t => (t <? n) && thread_ok l t
  | Wake _ q | DoUnpark _ q =>
      match q with
      | QL t => (t <? n) && is_co (wpc l t)
      | QG k => (k <? n) && (push_first P || (0 <? pre l k))
      end
  | ASpawn t _ _ _ | AJoin t _ _ | AIsDone t _ | ACancel t _ | AYield t | AFinish t _ | APanic t _ | AStep t | AFire t
  | KFA t | KStep t | KStore t | KSelfTake t | KSkip t | KDrop t | KSubscribed t | Resume t _ => thread_ok l t
  end.

Inductive laction :=
  | LBase (a : action)
  | LPoll (w : nat) (io : bool)      (* epoll_wait is called: returns at once (eventfd pending / I/O ready) or blocks *)
  | LWake (w : nat) (io : bool)      (* the blocked epoll_wait returns with events *)
  | LTimeout (w : nat)               (* the blocked epoll_wait returns 0 at its deadline *)
  | LIoTake (w c : nat)              (* I/O event: data.co.take() *)
  | LEvRead (w : nat)                (* eventfd event: read(evfd) *)
  | LEvDone (w : nat)                (* all events processed: run_queued_tasks *)
  | LBulkGrab (w : nat)              (* global.bulk_pop takes one more *)
  | LBulkEnd (w : nat)               (* global.bulk_pop returns *)
  | LPut (w : nat)                   (* local.push_back of collect_global / steal_into / schedule_with_id *)
  | LPop (w : nat)                   (* local.pop *)
  | LResume (w : nat)                (* run_coroutine: co.resume() *)
  | LCoRet (w : nat)                 (* run_coroutine returns *)
  | LHas (w : nat)                   (* local.has_tasks() *)
  | LStGrab (w : nat)                (* stealer.bulk_pop takes one more from the victim *)
  | LStEnd (w : nat)                 (* stealer.bulk_pop returns *)
  | LStOut (w : nat)                 (* steal ring exhausted: run_queued_tasks returns *)
  | LTmTake (w c : nat)              (* an expired I/O timer: timeout_handler takes the coroutine *)
  | LTmDone (w : nat) (nx : option N)   (* schedule_timer returns next_expire; select returns *)
  | LAnonWake (k : nat)              (* eventfd write of an anonymous pusher, after its push *)
  | LAnonPre (k : nat)               (* wrong order: eventfd write of an anonymous pusher, before its push *)
  | LSpurWake (k : nat)              (* eventfd write without a push: Selector::add_io_timer (a new earliest I/O timer) *)
  | LTick (d : N).

Definition guard (P : params) (l : lst) (a : laction) : bool :=
  let s := base l in
  let n := nw s in
  match a with
  | LBase b => base_ok P l b
  | LPoll w _ => (w <? n) && match wpc l w with PWait => true | _ => false end
  | LWake w io => (w <? n) && match wpc l w with PSleep => evfd l w || io | _ => false end
  | LTimeout w => (w <? n) && match wpc l w, dl l w with
                              | PSleep, Some d => (d <=? now l)%N && negb (evfd l w)
                              | _, _ => false end
  | LIoTake w _ => (w <? n) && match wpc l w with PEvs _ => true | _ => false end
  | LEvRead w => (w <? n) && match wpc l w with PEvs true => true | _ => false end
  | LEvDone w => (w <? n) && match wpc l w with PEvs false => true | _ => false end
  | LBulkGrab w => (w <? n) && match wpc l w with PColl _ => true | _ => false end
  | LBulkEnd w => (w <? n) && match wpc l w with
                              | PColl _ => match hand s w with [] => is_nil (gq s w) | _ => true end
                              | _ => false end
  | LPut w => (w <? n) && match wpc l w with PPut _ | PStPut | PIo _ => true | _ => false end
  | LPop w => (w <? n) && match wpc l w with PRun => true | _ => false end
  | LResume w => (w <? n) && match wpc l w with PRes _ => negb (is_nil (hand s w)) | _ => false end
  | LCoRet w => (w <? n) && match wpc l w with PCo _ => is_nil (stk s w) && is_nil (hand s w) | _ => false end
  | LHas w => (w <? n) && match wpc l w with PHas => true | _ => false end
  | LStGrab w | LStEnd w => (w <? n) && match wpc l w with PSteal i => i <? maxst n | _ => false end
  | LStOut w => (w <? n) && match wpc l w with PSteal i => maxst n <=? i | _ => false end
  | LTmTake w _ => (w <? n) && match wpc l w with PTim => true | _ => false end
  | LTmDone w _ => (w <? n) && match wpc l w with PTim => true | _ => false end
  | LAnonWake k => (k <? n) && push_first P && (0 <? anon l k)
  | LAnonPre k => (k <? n) && negb (push_first P)
  | LSpurWake k => k <? n
  | LTick _ => true
  end.

(* ---- projection: the SchedModel action this action performs ---- *)
Definition proj (l : lst) (a : laction) : option action :=
  let s := base l in
  match a with
  | LBase b => Some b
  | LIoTake w c | LTmTake w c => Some (TakeSlot w c)
  | LBulkGrab w => Some (Grab w (QG w))
  | LPut w => Some (Put w)
  | LPop w => match lq s w with [] => None | _ => Some (Grab w (QL w)) end
  | LResume w => match hand s w with c :: _ => Some (Resume w c) | [] => None end
  | LStGrab w => match wpc l w with PSteal i => Some (Grab w (QL (victim (nw s) w i))) | _ => None end
  | _ => None
  end.

(* ---- control update; l = state before, s' = SchedModel state after ---- *)
Definition ctl_base (P : params) (l : lst) (b : action) (l0 : lst) : lst :=
  let s := base l in
  let l1 := match push_target s b with
            | Some (QG k) =>
                if push_first P
                then (if is_anon b then l_anon l0 (inc (anon l0) k) else l_owed l0 (inc (owed l0) k))
                else (if is_anon b then l_pre l0 (dec (pre l0) k) else l0)
            | _ => l0 end in
  let l2 := match wake_target s b with
            | Some k => if push_first P then set_evfd (l_owed l1 (dec (owed l1) k)) k true else l1
            | None => l1 end in
  match fetch_target s b with
  | Some k => if push_first P then l2 else set_evfd l2 k true
  | None => l2 end.

Definition ctl (P : params) (l : lst) (a : laction) (s' : st) : lst :=
  let s := base l in
  let n := nw s in
  let l0 := l_base l s' in
  match a with
  | LBase b => ctl_base P l b l0
  | LPoll w io =>
      if evfd l w || io || is_zero (tmo l w) then set_pc l0 w (PEvs (evfd l w))
      else l_slept (l_dl (set_pc l0 w PSleep)
                         (upd (dl l) w (option_map (fun t => (now l + rnd t)%N) (tmo l w))))
                   (upd (slept l) w (now l))
  | LWake w _ => set_pc l0 w (PEvs (evfd l w))
  | LTimeout w => set_pc l0 w (PEvs false)
  | LIoTake w _ => match wpc l w with
                   | PEvs e => set_pc l0 w (if work_steal P then PIo e else PRes (RIo e))
                   | _ => l0 end
  | LEvRead w => set_pc (set_evfd l0 w false) w (PColl FromEv)
  | LEvDone w => set_pc (l_since (l_bud l0 (upd (bud l) w (budget P))) (upd (since l) w 0)) w PRun
  | LBulkGrab w => grabbed l0 (hd_error (gq s w))
  | LBulkEnd w =>
      match wpc l w with
      | PColl r => match hand s w with
                   | [] => set_pc (l_since (l_ncoll l0 (inc (ncoll l) w)) (upd (since l) w 0)) w
                                 (match r with FromEv => PEvs false | FromRun => PHas | FromBud => PRun end)
                   | _ => set_pc l0 w (PPut r) end
      | _ => l0 end
  | LPut w =>
      match wpc l w with
      | PPut r => if is_nil (hand s' w) then set_pc l0 w (PColl r) else l0
      | PStPut => match hand s' w with [_] => set_pc l0 w (PRes RSt) | _ => l0 end
      | PIo e => set_pc l0 w (PEvs e)
      | _ => l0 end
  | LPop w =>
      let l1 := l_npop l0 (inc (npop l) w) in
      match lq s w with
      | c :: _ => set_pc (taken l1 (Some c)) w (PRes RRun)
      | [] => set_pc l1 w (if work_steal P then PColl FromRun else PTim) end
  | LResume w => match wpc l w with PRes r => set_pc l0 w (PCo r) | _ => l0 end
  | LCoRet w => match wpc l w with
                | PCo RRun =>
                    if budgeted P
                    then let b := Nat.pred (bud l w) in
                         set_pc (l_since (l_bud l0 (upd (bud l) w b)) (inc (since l) w)) w
                                (if Nat.eqb b 0 then PTim else if Nat.eqb (b mod interval P) 0 then PColl FromBud else PRun)
                    else set_pc l0 w PRun
                | PCo RSt => set_pc l0 w PRun
                | PCo RTim => set_pc l0 w PTim
                | PCo (RIo e) => set_pc l0 w (PEvs e)
                | _ => l0 end
  | LHas w => set_pc l0 w (if is_nil (lq s w) then PSteal 0 else PRun)
  | LStGrab w => match wpc l w with
                 | PSteal i => taken l0 (hd_error (lq s (victim n w i)))
                 | _ => l0 end
  | LStEnd w => match wpc l w with
                | PSteal i => match hand s w with
                              | [] => set_pc l0 w (PSteal (S i))
                              | [_] => set_pc l0 w (PRes RSt)
                              | _ => set_pc l0 w PStPut end
                | _ => l0 end
  | LStOut w => set_pc l0 w PTim
  | LTmTake w _ => set_pc l0 w (PRes RTim)
  | LTmDone w nx =>
      l_coll0 (l_nsel (l_tmo (set_pc l0 w PWait)
                             (upd (tmo l) w (Some (if budgeted P && negb (is_nil (lq s w)) then 0%N
                                                   else match nx with Some t => t | None => cfg_tmo P end))))
                      (inc (nsel l) w))
              (upd (coll0 l) w (ncoll l w))
  | LAnonWake k => set_evfd (l_anon l0 (dec (anon l) k)) k true
  | LAnonPre k => set_evfd (l_pre l0 (inc (pre l) k)) k true
  | LSpurWake k => set_evfd l0 k true
  | LTick d => l_now l0 (now l + d)%N
  end.

Definition lstep (P : params) (l : lst) (a : laction) : option lst :=
  if guard P l a then
    match proj l a with
    | Some b => match step (base l) b with Some s' => Some (ctl P l a s') | None => None end
    | None => Some (ctl P l a (base l))
    end
  else None.

Definition linit (n : nat) : lst :=
  mkl (init n) (fun _ => PWait) (fun _ => false) (fun _ => None) (fun _ => None) (fun _ => 0%N) 0%N
      (fun _ => 0) (fun _ => 0) (fun _ => 0) (fun _ => 0) (fun _ => 0) (fun _ => 0) (fun _ => 0) (fun _ => 0) (fun _ => 0)
      (fun _ => 0) (fun _ => 0).

Inductive LReach (P : params) (n : nat) : lst -> Prop :=
| LR0 : LReach P n (linit n)
| LRS l a l' : LReach P n l -> lstep P l a = Some l' -> LReach P n l'.

Fixpoint lruns (P : params) (l : lst) (tr : list laction) : option lst :=
  match tr with
  | [] => Some l
  | a :: tr' => match lstep P l a with Some l' => lruns P l' tr' | None => None end
  end.

(* which worker's loop performs the action (None: code inside run_coroutine, other threads, pushers, time) *)
Definition actor (a : laction) : option nat :=
  match a with
  | LPoll w _ | LWake w _ | LTimeout w | LIoTake w _ | LEvRead w | LEvDone w | LBulkGrab w | LBulkEnd w | LPut w | LPop w
  | LResume w | LCoRet w | LHas w | LStGrab w | LStEnd w | LStOut w | LTmTake w _ | LTmDone w _ => Some w
  | _ => None
  end.
