(* Proofs about Rt/CancelReg.v. *)
From Coq Require Import List Arith Bool Lia.
Import ListNotations.
Require Import MayV.Rt.CancelReg.

(* ---------------------------------------------------------------- refutations (known finding F38) *)
Definition wit_foreign : list act :=
  [TCall; Sub 0; Wake 0; TCall; Sub 1; Sub 1; Sub 1; Sub 0; Sub 0; UBlock 0; Cancel].
Definition wit_replaces : list act :=
  [TCall; Sub 0; Wake 0; TCall; Sub 1; Sub 1; Sub 1; Sub 0; Sub 0; Cancel].

(* (a) the stale registration of socket 0 holds the coroutine of U: the cancel wakes U and T stays parked *)
Lemma stale_foreign :
  exists s, Reach [CIo 0; CPark] s /\ Lost s /\ pslot s = true /\ coreg s = true /\ urun s = true.
Proof.
  destruct (run (init [CIo 0; CPark]) wit_foreign) as [s |] eqn:E; [| vm_compute in E; discriminate].
  exists s. split; [exists wit_foreign; exact E |].
  vm_compute in E. inversion E; subst s. vm_compute. repeat split.
Qed.

(* (b) the stale registration of socket 0 has replaced the registration of the pending operation on socket 1 *)
Lemma stale_replaces :
  exists s, Reach [CIo 0; CIo 1] s /\ Lost s /\ sco s 1 = Some WT /\ ioreg s = None.
Proof.
  destruct (run (init [CIo 0; CIo 1]) wit_replaces) as [s |] eqn:E; [| vm_compute in E; discriminate].
  exists s. split; [exists wit_replaces; exact E |].
  vm_compute in E. inversion E; subst s. vm_compute. repeat split.
Qed.

(* ---------------------------------------------------------------- what holds: no subscriber tail outlives the call *)
(* calm: the event that resumes T is delivered only after the subscriber of that call has finished *)
Definition calm_ok (s : st) (a : act) : Prop :=
  match a with
  | Wake k => sco s k = Some WT -> subs s = []
  | _ => True
  end.

Inductive ReachCalm (p : list call) : st -> Prop :=
| rc_init : ReachCalm p (init p)
| rc_step s a s' : ReachCalm p s -> calm_ok s a -> step s a = Some s' -> ReachCalm p s'.

Definition nowhere (s : st) : Prop := pslot s = false /\ forall k, sco s k <> Some WT.
Definition inio (s : st) (k : nat) : Prop :=
  sco s k = Some WT /\ pslot s = false /\ forall j, sco s j = Some WT -> j = k.
Definition inpark (s : st) : Prop := pslot s = true /\ forall k, sco s k <> Some WT.

Definition Good (s : st) : Prop :=
  match tst s with
  | TEnded => canceled s = true /\ (subs s = [] \/ (exists k, subs s = [S3 k]) \/ subs s = [P3])
  | TRun => subs s = [] /\ nowhere s /\ ioreg s = None
  | TInSub => nowhere s /\ ioreg s = None /\
              ((exists k, subs s = [S1 k]) \/ subs s = [P1] \/ (subs s = [P2] /\ (coreg s = true \/ canceled s = true)))
  | TSusp => (exists k, subs s = [S2 k] /\ inio s k /\ ioreg s = None) \/
             (exists k, subs s = [S3 k] /\ inio s k /\ ioreg s = Some k) \/
             (subs s = [P3] /\ inpark s /\ ioreg s = None /\ (coreg s = true \/ canceled s = true)) \/
             (subs s = [] /\ canceled s = false /\
              ((exists k, inio s k /\ ioreg s = Some k) \/ (inpark s /\ ioreg s = None /\ coreg s = true)))
  end.

Lemma upd_eq {A} (f : nat -> A) k v : upd f k v k = v.
Proof. unfold upd. now rewrite Nat.eqb_refl. Qed.
Lemma upd_neq {A} (f : nat -> A) k v x : x <> k -> upd f k v x = f x.
Proof. unfold upd. intros H. destruct (Nat.eqb_spec x k); [contradiction | reflexivity]. Qed.

Lemma upd_none_WT (f : nat -> option who) k j : upd f k None j = Some WT -> f j = Some WT.
Proof. unfold upd. destruct (Nat.eqb j k); [discriminate | trivial]. Qed.
Lemma upd_none_WT_ne (f : nat -> option who) k j : upd f k None j = Some WT -> j <> k.
Proof. unfold upd. destruct (Nat.eqb_spec j k); [discriminate | trivial]. Qed.
Lemma upd_WU_WT (f : nat -> option who) k j : upd f k (Some WU) j = Some WT -> f j = Some WT.
Proof. unfold upd. destruct (Nat.eqb j k); [discriminate | trivial]. Qed.

Lemma good_init p : Good (init p).
Proof. cbn. repeat split; try reflexivity. intros k; discriminate. Qed.

Ltac inv H := inversion H; subst; clear H.

(* once T has ended with the flag set, nothing brings it back *)
Lemma resume_ended s : canceled s = true -> tst (resume_t s) = TEnded /\ canceled (resume_t s) = true /\ subs (resume_t s) = subs s.
Proof. intros C. unfold resume_t; cbn. rewrite C. repeat split. Qed.

Lemma wake_ended w s : canceled s = true -> tst s = TEnded ->
  tst (wake w s) = TEnded /\ canceled (wake w s) = true /\ subs (wake w s) = subs s.
Proof. intros C T. destruct w; [apply resume_ended; exact C | cbn; repeat split; assumption]. Qed.

Lemma cancel_body_ended s : canceled s = true -> tst s = TEnded ->
  tst (cancel_body s) = TEnded /\ canceled (cancel_body s) = true /\ subs (cancel_body s) = subs s.
Proof.
  intros C T. unfold cancel_body.
  destruct (match ioreg s with Some k => sco s k | None => None end) as [w |].
  - match goal with |- context [wake w ?x] => destruct (wake_ended w x) as (A & B & D); [exact C | exact T |] end.
    cbn in D. repeat split; assumption.
  - cbn. destruct (coreg s); cbn; [| repeat split; assumption].
    destruct (pslot s); [| cbn; repeat split; assumption].
    match goal with |- context [resume_t ?x] => destruct (resume_ended x) as (A & B & D); [exact C |] end.
    cbn in D. repeat split; assumption.
Qed.

Lemma ended_good s : tst s = TEnded -> canceled s = true -> subs s = [] -> Good s.
Proof. intros T C S. unfold Good. rewrite ?T. split; [exact C | left; exact S]. Qed.

(* the cancel body when T is nowhere to be found and no io registration exists: only a stale co registration goes *)
Lemma cancel_body_miss s : ioreg s = None -> pslot s = false ->
  tst (cancel_body s) = tst s /\ subs (cancel_body s) = subs s /\ sco (cancel_body s) = sco s /\
  ioreg (cancel_body s) = None /\ pslot (cancel_body s) = false /\ canceled (cancel_body s) = canceled s.
Proof.
  intros I P. unfold cancel_body. rewrite I. cbn. destruct (coreg s); cbn; [rewrite P; cbn |]; repeat split; auto.
Qed.

Lemma good_step s a s' : Good s -> calm_ok s a -> step s a = Some s' -> Good s'.
Proof.
  intros G C H. destruct a; cbn in H.
  - (* TCall *)
    destruct (tst s) eqn:T; try discriminate. destruct (prog s) as [| c rest] eqn:P; [discriminate |].
    unfold Good in G; rewrite T in G. destruct G as (Hs & (Hp & Hn) & Hi).
    destruct (canceled s) eqn:Cn; inv H.
    + apply ended_good; cbn; [reflexivity | reflexivity | exact Hs].
    + unfold Good; cbn. rewrite Hs. cbn. split; [split; assumption |]. split; [exact Hi |].
      destruct c; [left; eexists; reflexivity | right; left; reflexivity].
  - (* Sub i *)
    unfold sub_step in H. destruct (nth_error (subs s) i) as [g |] eqn:N; [| discriminate].
    unfold Good in G. destruct (tst s) eqn:T.
    + destruct G as (Hs & _). rewrite Hs in N. destruct i; discriminate.
    + (* TInSub *)
      destruct G as ((Hp & Hn) & Hi & [[k Hs] | [Hs | [Hs Hc]]]); rewrite Hs in N, H;
        (destruct i as [| i]; [| destruct i; discriminate]); cbn in N; inv N; cbn in H.
      * destruct (sco s k) eqn:K; [discriminate |]. inv H. unfold Good; cbn. left. exists k.
        split; [reflexivity |]. split; [| exact Hi]. unfold inio; cbn. rewrite upd_eq.
        split; [reflexivity |]. split; [exact Hp |]. intros j Hj.
        destruct (Nat.eq_dec j k) as [-> | Ne]; [reflexivity |]. rewrite upd_neq in Hj by exact Ne. destruct (Hn j Hj).
      * inv H. unfold Good; cbn. rewrite ?T. split; [split; assumption |]. split; [exact Hi |]. right; right. split; [reflexivity | left; reflexivity].
      * inv H. unfold Good; cbn. right; right; left. split; [reflexivity |]. split; [split; [reflexivity | exact Hn] |].
        split; [exact Hi | exact Hc].
    + (* TSusp *)
      destruct G as [(k & Hs & (Hk & Hp & Hu) & Hi) | [(k & Hs & (Hk & Hp & Hu) & Hi) | [(Hs & (Hp & Hn) & Hi & Hc) | (Hs & _)]]];
        rewrite Hs in N, H; (destruct i as [| i]; [| destruct i; discriminate]); cbn in N; try discriminate; inv N; cbn in H.
      * inv H. unfold Good; cbn. rewrite ?T. right; left. exists k. split; [reflexivity |]. split; [split; [exact Hk | split; assumption] | reflexivity].
      * destruct (canceled s) eqn:Cn.
        -- inv H. apply ended_good; unfold cancel_body, set_subs; cbn; rewrite Hi; cbn; rewrite Hk; cbn; rewrite ?Cn; reflexivity.
        -- inv H. unfold set_subs, Good; cbn. rewrite ?T. right; right; right. split; [reflexivity |]. split; [exact Cn |].
           left. exists k. split; [split; [exact Hk | split; assumption] | exact Hi].
      * destruct (canceled s) eqn:Cn; rewrite Hp in H; cbn in H.
        -- inv H. apply ended_good; unfold resume_t; cbn; rewrite ?Cn; reflexivity.
        -- inv H. unfold set_subs, Good; cbn. rewrite ?T. right; right; right. split; [reflexivity |]. split; [exact Cn |].
           right. split; [split; assumption |]. split; [exact Hi |]. destruct Hc as [Hc | Hc]; [exact Hc | discriminate].
    + (* TEnded: a tail finishes *)
      destruct G as (Cn & [Hs | [[k Hs] | Hs]]); rewrite Hs in N, H;
        (destruct i as [| i]; [| destruct i; discriminate]); cbn in N; try discriminate; inv N; cbn in H.
      * rewrite Cn in H. inv H.
        destruct (cancel_body_ended (set_subs s []) Cn T) as (A & B & D).
        apply ended_good; [exact A | exact B | rewrite D; reflexivity].
      * rewrite Cn in H. cbn in H. destruct (pslot s) eqn:Ps; inv H.
        -- apply ended_good; unfold resume_t; cbn; rewrite ?Cn; reflexivity.
        -- apply ended_good; unfold set_subs; cbn; [exact T | exact Cn | reflexivity].
  - (* Wake k *)
    destruct (sco s s0) as [w |] eqn:K; [| discriminate]. inv H. cbn in C.
    unfold Good in G. destruct (tst s) eqn:T.
    + (* TRun: only U can be there *)
      destruct G as (Hs & (Hp & Hn) & Hi). destruct w; [destruct (Hn _ K) |].
      unfold Good; cbn. rewrite ?T. split; [exact Hs |]. split; [| exact Hi]. split; [exact Hp |].
      intros j Hj. exact (Hn j (upd_none_WT _ _ _ Hj)).
    + destruct G as ((Hp & Hn) & Hi & Hd). destruct w; [destruct (Hn _ K) |].
      unfold Good; cbn. rewrite ?T. split; [| split; [exact Hi | exact Hd]]. split; [exact Hp |].
      intros j Hj. exact (Hn j (upd_none_WT _ _ _ Hj)).
    + (* TSusp *)
      destruct w.
      * (* T itself: calm says no tail is left *)
        specialize (C K).
        destruct G as [(k & Hs & _) | [(k & Hs & _) | [(Hs & _) | (Hs & Cn & [(k & (Hk & Hp & Hu) & Hi) | ((Hp & Hn) & _)])]]];
          try (rewrite Hs in C; discriminate).
        -- unfold Good, resume_t; cbn. rewrite Cn. split; [exact Hs |]. split; [| reflexivity]. split; [exact Hp |].
           intros j Hj. pose proof (upd_none_WT_ne _ _ _ Hj) as Ne.
           pose proof (Hu j (upd_none_WT _ _ _ Hj)) as E1. pose proof (Hu s0 K) as E2. congruence.
        -- destruct (Hn _ K).
      * (* U: T's whereabouts stay *)
        assert (Keep : forall j, upd (sco s) s0 None j = Some WT -> sco s j = Some WT).
        { intros j Hj. eapply upd_none_WT; exact Hj. }
        assert (Ne : forall k, sco s k = Some WT -> k <> s0) by (intros k Hk ->; rewrite K in Hk; discriminate).
        unfold Good; cbn. rewrite ?T.
        destruct G as [(k & Hs & (Hk & Hp & Hu) & Hi) | [(k & Hs & (Hk & Hp & Hu) & Hi) | [(Hs & (Hp & Hn) & Hi & Hc) | (Hs & Cn & [(k & (Hk & Hp & Hu) & Hi) | ((Hp & Hn) & Hi & Hc)])]]].
        -- left. exists k. split; [exact Hs |]. split; [| exact Hi]. unfold inio; cbn. rewrite upd_neq by (apply Ne; exact Hk).
           split; [exact Hk |]. split; [exact Hp |]. intros j Hj. apply Hu. apply Keep. exact Hj.
        -- right; left. exists k. split; [exact Hs |]. split; [| exact Hi]. unfold inio; cbn. rewrite upd_neq by (apply Ne; exact Hk).
           split; [exact Hk |]. split; [exact Hp |]. intros j Hj. apply Hu. apply Keep. exact Hj.
        -- right; right; left. split; [exact Hs |]. split; [| split; [exact Hi | exact Hc]]. split; [exact Hp |].
           intros j Hj. apply (Hn j). apply Keep. exact Hj.
        -- right; right; right. split; [exact Hs |]. split; [exact Cn |]. left. exists k. split; [| exact Hi].
           unfold inio; cbn. rewrite upd_neq by (apply Ne; exact Hk).
           split; [exact Hk |]. split; [exact Hp |]. intros j Hj. apply Hu. apply Keep. exact Hj.
        -- right; right; right. split; [exact Hs |]. split; [exact Cn |]. right. split; [| split; [exact Hi | exact Hc]].
           split; [exact Hp |]. intros j Hj. apply (Hn j). apply Keep. exact Hj.
    + (* TEnded *)
      destruct G as (Cn & Hd).
      match goal with |- Good (wake w ?x) => destruct (wake_ended w x) as (A & B & D); [cbn; exact Cn | cbn; reflexivity |] end.
      unfold Good. rewrite A. split; [exact B | rewrite D; cbn; exact Hd].
  - (* Cancel *)
    destruct (canceled s) eqn:Cn; [discriminate |]. inv H.
    set (s1 := {| sco := sco s; ioreg := ioreg s; coreg := coreg s; pslot := pslot s; canceled := true;
                  tst := tst s; prog := prog s; subs := subs s; urun := urun s |}).
    unfold Good in G. destruct (tst s) eqn:T.
    + destruct G as (Hs & (Hp & Hn) & Hi).
      destruct (cancel_body_miss s1 Hi Hp) as (A & B & D & E & F & _).
      unfold Good. rewrite A. cbn. rewrite ?T. rewrite B, E. split; [exact Hs |]. split; [| reflexivity].
      split; [exact F | rewrite D; exact Hn].
    + destruct G as ((Hp & Hn) & Hi & Hd).
      destruct (cancel_body_miss s1 Hi Hp) as (A & B & D & E & F & Cc).
      unfold Good. rewrite A. cbn. rewrite ?T. rewrite B, E. split; [split; [exact F | rewrite D; exact Hn] |]. split; [reflexivity |].
      destruct Hd as [Hd | [Hd | [Hd _]]]; [left; exact Hd | right; left; exact Hd |].
      right; right. split; [exact Hd | right; rewrite Cc; reflexivity].
    + destruct G as [(k & Hs & (Hk & Hp & Hu) & Hi) | [(k & Hs & (Hk & Hp & Hu) & Hi) | [(Hs & (Hp & Hn) & Hi & Hc) | (Hs & _ & [(k & (Hk & Hp & Hu) & Hi) | ((Hp & Hn) & Hi & Hc)])]]].
      * destruct (cancel_body_miss s1 Hi Hp) as (A & B & D & E & F & _).
        unfold Good. rewrite A. cbn. rewrite ?T. left. exists k. rewrite B, E. split; [exact Hs |]. split; [| reflexivity].
        unfold inio. rewrite D, F. split; [exact Hk | split; [reflexivity | exact Hu]].
      * (* registered: the cancel finds T *)
        unfold Good, cancel_body; cbn. rewrite Hi; cbn. rewrite Hk; cbn. split; [reflexivity | right; left; exists k; exact Hs].
      * destruct Hc as [Hc | Hc]; [| rewrite Cn in Hc; discriminate].
        unfold Good, cancel_body; cbn. rewrite Hi; cbn. rewrite Hc; cbn. rewrite Hp; cbn. split; [reflexivity | right; right; exact Hs].
      * unfold Good, cancel_body; cbn. rewrite Hi; cbn. rewrite Hk; cbn. split; [reflexivity | left; exact Hs].
      * unfold Good, cancel_body; cbn. rewrite Hi; cbn. rewrite Hc; cbn. rewrite Hp; cbn. split; [reflexivity | left; exact Hs].
    + destruct G as (Cc & _). rewrite Cn in Cc. discriminate.
  - (* UBlock k *)
    destruct (urun s); [| discriminate]. destruct (sco s s0) eqn:K; [discriminate |]. inv H.
    assert (Keep : forall j, upd (sco s) s0 (Some WU) j = Some WT -> sco s j = Some WT).
    { intros j Hj. eapply upd_WU_WT; exact Hj. }
    assert (Ne : forall k, sco s k = Some WT -> k <> s0) by (intros k Hk ->; rewrite K in Hk; discriminate).
    unfold Good in G |- *; cbn. destruct (tst s) eqn:T.
    + destruct G as (Hs & (Hp & Hn) & Hi). split; [exact Hs |]. split; [| exact Hi]. split; [exact Hp |].
      intros j Hj. apply (Hn j). apply Keep. exact Hj.
    + destruct G as ((Hp & Hn) & Hi & Hd). split; [| split; [exact Hi | exact Hd]]. split; [exact Hp |].
      intros j Hj. apply (Hn j). apply Keep. exact Hj.
    + destruct G as [(k & Hs & (Hk & Hp & Hu) & Hi) | [(k & Hs & (Hk & Hp & Hu) & Hi) | [(Hs & (Hp & Hn) & Hi & Hc) | (Hs & Cn & [(k & (Hk & Hp & Hu) & Hi) | ((Hp & Hn) & Hi & Hc)])]]].
      * left. exists k. split; [exact Hs |]. split; [| exact Hi]. unfold inio; cbn. rewrite upd_neq by (apply Ne; exact Hk).
        split; [exact Hk |]. split; [exact Hp |]. intros j Hj. apply Hu. apply Keep. exact Hj.
      * right; left. exists k. split; [exact Hs |]. split; [| exact Hi]. unfold inio; cbn. rewrite upd_neq by (apply Ne; exact Hk).
        split; [exact Hk |]. split; [exact Hp |]. intros j Hj. apply Hu. apply Keep. exact Hj.
      * right; right; left. split; [exact Hs |]. split; [| split; [exact Hi | exact Hc]]. split; [exact Hp |].
        intros j Hj. apply (Hn j). apply Keep. exact Hj.
      * right; right; right. split; [exact Hs |]. split; [exact Cn |]. left. exists k. split; [| exact Hi].
        unfold inio; cbn. rewrite upd_neq by (apply Ne; exact Hk).
        split; [exact Hk |]. split; [exact Hp |]. intros j Hj. apply Hu. apply Keep. exact Hj.
      * right; right; right. split; [exact Hs |]. split; [exact Cn |]. right. split; [| split; [exact Hi | exact Hc]].
        split; [exact Hp |]. intros j Hj. apply (Hn j). apply Keep. exact Hj.
    + exact G.
Qed.

Lemma reach_calm_good p s : ReachCalm p s -> Good s.
Proof. induction 1 as [| s a s' R IH C H]; [apply good_init | eapply good_step; eassumption]. Qed.

(* when no subscriber tail outlives its call, a cancel is never lost *)
Lemma cancel_reaches_target_calm p s : ReachCalm p s -> ~ Lost s.
Proof.
  intros R (Cn & St & Ts). pose proof (reach_calm_good p s R) as G. unfold Good in G. rewrite Ts in G.
  unfold Settled in St.
  destruct G as [(k & Hs & _) | [(k & Hs & _) | [(Hs & _) | (_ & Cf & _)]]]; try (rewrite St in Hs; discriminate).
  rewrite Cn in Cf. discriminate.
Qed.

(* the calm runs are runs *)
Lemma calm_is_reach p s : ReachCalm p s -> Reach p s.
Proof.
  induction 1 as [| s a s' R [l IH] C H]; [exists []; reflexivity |].
  exists (l ++ [a]). revert IH. generalize (init p). induction l as [| b l IHl]; cbn; intros s0 E.
  - inversion E; subst. rewrite H. reflexivity.
  - destruct (step s0 b); [apply IHl; exact E | discriminate].
Qed.
