(* C08 (callers) - proofs, part 2: the end-to-end rounding bound with the schedule hypothesis made explicit.
   U s = now s - delay s is the clock with every delay taken out (time that passed while the caller was not parked,
   and time that passed in a park after its armed deadline).  For the code of recv_timeout / Cqueue::poll since fix
   3916da2 (KRem) and the single parks (KSingle)
                      U + slack < call + d + 1 ms        in every state of a call,
   for the code before that fix (KFull) only as long as no park returned without data, and
                      U + slack < call + 2 d + 1 ms      in general (witness of the gap: TimedCallersInst.v). *)
From Coq Require Import ZArith List Bool Lia.
Import ListNotations.
Require Import MayV.Rt.AtomicDur MayV.Rt.TimedCallers MayV.Rt.TimedCallersThm.
Open Scope Z_scope.

Section Bound.
Variable retry : bool.
Variable arm : Z -> option Z.
Variable DMAX : Z.
Hypothesis arm_lo : forall x a, 0 <= x <= DMAX -> arm x = Some a -> x <= a.
Hypothesis arm_hi : forall x a, 0 <= x <= DMAX -> arm x = Some a -> a < x + MS.
Hypothesis arm_some : forall x, 0 <= x -> arm x <> None.

Definition U (s : st) := now s - delay s.
Definition B (s : st) := tcall s + dur s + MS.

Definition pre_park (p : pc) : bool :=
  match p with Try0 | ReadDl | Top | Enter => true | _ => false end.
Definition first_pcs (p : pc) : bool := match p with Try0 | ReadDl => true | _ => false end.

Definition bound_clause (K : kind) (s : st) : Prop :=
  match K with
  | KRem | KSingle => U s + slack s < B s
  | KFull => (nsp s = 0%nat -> U s + slack s < B s) /\ U s + slack s < B s + dur s /\
             (pcs s = Top \/ pcs s = Enter -> U s <= tcall s + dur s /\ (nsp s = 0%nat -> U s = tcall s)) /\
             (nsp s = 0%nat -> pcs s = Chk -> dl s <= now s)
  | KRecomp => True
  end.

Record Body (K : kind) (s : st) : Prop := mkBody {
  b_dur : 0 <= dur s;
  b_delay : 0 <= delay s;
  b_now : tcall s <= now s;
  (* before the first park all the time since the call is delay *)
  b_pre : first_pcs (pcs s) = true -> nsp s = 0%nat /\ U s = tcall s;
  b_single : is_single K = true ->
             nsp s = 0%nat /\ pcs s <> ReadDl /\ pcs s <> Chk /\ (pre_park (pcs s) = true -> U s = tcall s);
  (* the deadline is call + d + (the delay before the clock was read), and that reading is in the past *)
  b_dl : is_single K = false -> dl_set (pcs s) = true ->
         0 <= dl s - dur s - tcall s <= delay s /\ dl s - dur s <= now s;
  b_park : pcs s = Parked \/ pcs s = After VTimeout ->
           exists a, ar s = Some a /\ 0 <= a /\ tp s <= now s /\
                     (K = KFull -> dur s <= a /\ dl s - dur s <= tp s);
  b_after : pcs s = After VTimeout -> forall a, ar s = Some a -> tp s + a <= now s;
  (* KRem: what is about to be armed fits *)
  b_rem : K = KRem -> pcs s = Top \/ pcs s = Enter -> 0 <= rem s <= dur s /\ forall a, arm (rem s) = Some a -> U s + a < B s;
  b_bound : bound_clause K s
}.

Definition InvB (K : kind) (s : st) : Prop :=
  (dur s <= DMAX -> forall t y, res s = Some (RTimeout, t, y) ->
     match K with KFull => t - y < tcall s + dur s + dur s + MS | _ => t - y < tcall s + dur s + MS end) /\
  (pcs s <> Idle -> dur s <= DMAX -> Body K s).

Lemma invb_init K : InvB K init.
Proof. unfold InvB, init; cbn. split; intros; [discriminate | congruence]. Qed.

Lemma invb_tick K s dt :
  InvB K s -> 0 <= dt ->
  InvB K (set_time (now s + dt) (delay s + (dt - free_of s dt)) s).
Proof.
  intros (Hres & I) E. split; [exact Hres|]. cbn. intros P D. specialize (I P D).
  destruct I as [I1 I2 I3 I4 I5 I6 I7 I8 I9 I10].
  assert (F : 0 <= free_of s dt <= dt).
  { unfold free_of. destruct (pcs s); try lia. destruct (ar s); lia. }
  assert (NP : pcs s <> Parked -> free_of s dt = 0).
  { unfold free_of. destruct (pcs s); try reflexivity. congruence. }
  assert (SL : free_of s dt + slack (set_time (now s + dt) (delay s + (dt - free_of s dt)) s) <= slack s).
  { unfold free_of, slack; cbn. destruct (pcs s); try lia. destruct (ar s); [lia|].
    (* parked without a timer: never for a timed call *)
    exfalso. destruct (I7 (or_introl eq_refl)) as (a & A & _). discriminate. }
  constructor; cbn.
  - exact I1.
  - lia.
  - lia.
  - intros Q. unfold U in *; cbn. rewrite NP by (intros X; rewrite X in Q; discriminate).
    specialize (I4 Q). lia.
  - intros S. destruct (I5 S) as (X1 & X2 & X3 & X4). repeat split; auto.
    intros Q. unfold U in *; cbn. rewrite NP by (intros X; rewrite X in Q; discriminate). specialize (X4 Q). lia.
  - intros S Q. destruct (I6 S Q) as ((? & ?) & ?). lia.
  - intros Q. destruct (I7 Q) as (a & A1 & A2 & A3 & A4). exists a. repeat split; auto; try lia; apply A4; assumption.
  - intros Q a A. specialize (I8 Q a A). lia.
  - intros S Q. destruct (I9 S Q) as (X1 & X). split; [exact X1|]. intros a A. specialize (X a A).
    unfold U, B in *; cbn. rewrite NP by (destruct Q as [Q|Q]; rewrite Q; discriminate). lia.
  - unfold bound_clause, U, B in *; cbn. destruct K.
    + destruct I10 as (J1 & J2 & J3 & J4). split; [|split; [|split]].
      * intros N. specialize (J1 N). lia.
      * lia.
      * intros Q. destruct (J3 Q) as (X1 & X2). rewrite NP by (destruct Q as [Q|Q]; rewrite Q; discriminate).
        split; [lia|]. intros N. specialize (X2 N). lia.
      * intros N Q. specialize (J4 N Q). lia.
    + lia.
    + exact Logic.I.
    + lia.
Qed.

Ltac csplit := repeat match goal with |- _ /\ _ => split | |- _ -> _ => intro end.
Ltac bauto :=
  intros; csplit; spec_all; brk; zb; unfold bound_clause, park_arg in *; brk; unfold U, B, slack in *; cbn in *;
  repeat match goal with Hp : pcs ?s = _ |- _ => rewrite !Hp in *; clear Hp end; cbn in *; spec_all; brk;
  try match goal with Ha : ar ?s = Some _ |- _ => rewrite Ha in *; cbn in * end;
  try lia; try discriminate; try congruence; try tauto;
  try match goal with H : _ \/ _ |- _ => destruct H; (discriminate || congruence) end;
  try (eexists; csplit; [eassumption | lia ..]).

Ltac pcase K H Hres I :=
  (destruct K; [ | | congruence | ]); cbn [is_single] in *;
  split_match H; try discriminate; try inv_some;
  cbn [pcs dur res tcall set_pcs set_q set_dl set_tok set_rem set_park set_nsp set_obs set_res];
  try (split; [exact Hres|]);
  try (let D := fresh "D" in intros _ D; destruct (I D) as [I1 I2 I3 I4 I5 I6 I7 I8 I9 I10]).

Lemma invb_cstep K s to s' : K <> KRecomp -> InvB K s -> cstep K retry arm s to = Some s' -> InvB K s'.
Proof.
  intros Hk (Hres & I) H. unfold cstep, try in H. unfold InvB.
  destruct (pcs s) eqn:P; try discriminate.
  all: specialize (I ltac:(discriminate)).
  - (* Try0 *) pcase K H Hres I; constructor; cbn; rewrite ?P in *; bauto.
  - (* ReadDl *) pcase K H Hres I; constructor; cbn; rewrite ?P in *; bauto.
    all: match goal with Ha : arm ?x = Some ?a |- _ => assert (a < x + MS) by (apply arm_hi; [lia | exact Ha]); lia end.
  - (* Top *) pcase K H Hres I; constructor; cbn; rewrite ?P in *; bauto.
  - (* Enter *) pcase K H Hres I; constructor; cbn; rewrite ?P in *; bauto.
    all: match goal with |- context [arm ?x] =>
           let A := fresh "A" in
           destruct (arm x) as [a|] eqn:A; [| exfalso; apply (arm_some x); [lia | exact A]];
           assert (x <= a) by (apply arm_lo; [lia | exact A]);
           try assert (a < x + MS) by (apply arm_hi; [lia | exact A]) end.
    all: try lia.
    all: try (eexists; split; [reflexivity|]; csplit; (lia || discriminate)).
    match goal with X : forall a0, Some ?a = Some a0 -> _ |- _ => specialize (X _ eq_refl) end; lia.
  - (* Parked *) pcase K H Hres I; constructor; cbn; rewrite ?P in *; bauto.
    all: eexists; split; [reflexivity|]; csplit; (lia || discriminate).
  - (* After *) pcase K H Hres I; constructor; cbn; rewrite ?P in *; bauto.
  - (* Chk *) pcase K H Hres I; constructor; cbn; rewrite ?P in *; bauto.
  - (* Ret *)
    (destruct K; [ | | congruence | ]); inv_some; cbn; (split; [|intros X; congruence]); intros D t y Hi;
      injection Hi as -> <- <-;
      destruct (I D) as [I1 I2 I3 I4 I5 I6 I7 I8 I9 I10]; unfold bound_clause, U, B, slack in *; rewrite P in *; brk; lia.
Qed.

Ltac env_case I :=
  let Hres := fresh in let P := fresh in let D := fresh in
  destruct I as (Hres & I); split; [exact Hres | intros P D; destruct (I P D); constructor; assumption].

Lemma invb_step K s a s' : K <> KRecomp -> InvB K s -> step K retry arm s a = Some s' -> InvB K s'.
Proof.
  intros Hk I H. destruct a as [dt| | | |d|to]; cbn [step] in H.
  - destruct (dt <? 0) eqn:E; [discriminate|]. inv_some. zb. apply invb_tick; assumption.
  - inv_some. env_case I.
  - inv_some. env_case I.
  - inv_some. env_case I.
  - destruct (pcs s) eqn:P; try discriminate. destruct (d <? 0) eqn:E; [discriminate|]. inv_some. zb.
    unfold InvB, first_pc. cbn. split; [intros; discriminate|]. intros _ D.
    assert (M : 0 < MS) by (unfold MS; lia).
    destruct K; [ | | congruence | ]; destruct retry; cbn; constructor; cbn; unfold U, B, bound_clause, slack; cbn;
      csplit; try lia; try discriminate; try congruence;
      try match goal with H : _ \/ _ |- _ => destruct H; discriminate end.
  - eapply invb_cstep; eassumption.
Qed.

Lemma invb_reach K s : K <> KRecomp -> Reach K retry arm s -> InvB K s.
Proof. intros Hk R. induction R; [apply invb_init | eapply invb_step; eassumption]. Qed.

(* ---- theorems ---- *)

(* the deadline loops (since fix 3916da2) and the single parks: in every state of a call the clock without the delays, plus what is left
   of the free waiting time of the current park, stays below call + d + 1 ms *)
Theorem bound_rem_single K s :
  K = KRem \/ K = KSingle -> Reach K retry arm s -> pcs s <> Idle -> dur s <= DMAX ->
  now s - delay s + slack s < tcall s + dur s + MS.
Proof.
  intros Hk R P D. assert (Hn : K <> KRecomp) by (destruct Hk; congruence).
  destruct (invb_reach K s Hn R) as (_ & I). destruct (I P D) as [_ _ _ _ _ _ _ _ _ I10].
  unfold bound_clause, U, B in I10. destruct Hk; subst K; exact I10.
Qed.

(* the loops before fix 3916da2 (park for the full timeout in every iteration): the same bound as long as no park of the call returned
   without data, and call + 2 d + 1 ms in general *)
Theorem bound_full s :
  Reach KFull retry arm s -> pcs s <> Idle -> dur s <= DMAX ->
  (nsp s = 0%nat -> now s - delay s + slack s < tcall s + dur s + MS) /\
  now s - delay s + slack s < tcall s + dur s + dur s + MS.
Proof.
  intros R P D. destruct (invb_reach KFull s ltac:(discriminate) R) as (_ & I).
  destruct (I P D) as [_ _ _ _ _ _ _ _ _ I10]. unfold bound_clause, U, B in I10. destruct I10 as (J1 & J2 & _).
  split; [exact J1 | lia].
Qed.

(* the return: Timeout is reported no later than d + 1 ms + (the delays of this call) after the call *)
Theorem returned_timeout_bound K s t y :
  K = KRem \/ K = KSingle -> Reach K retry arm s -> dur s <= DMAX -> res s = Some (RTimeout, t, y) ->
  t - y < tcall s + dur s + MS.
Proof.
  intros Hk R D E. assert (Hn : K <> KRecomp) by (destruct Hk; congruence).
  destruct (invb_reach K s Hn R) as (I & _). specialize (I D t y E). destruct Hk; subst K; exact I.
Qed.

Theorem returned_timeout_bound_full s t y :
  Reach KFull retry arm s -> dur s <= DMAX -> res s = Some (RTimeout, t, y) ->
  t - y < tcall s + dur s + dur s + MS.
Proof.
  intros R D E. destruct (invb_reach KFull s ltac:(discriminate) R) as (I & _). exact (I D t y E).
Qed.

(* a timed call that is parked always has a timer, and that timer's deadline is early enough *)
Theorem parked_timer_deadline K s :
  K <> KRecomp -> Reach K retry arm s -> pcs s = Parked -> dur s <= DMAX ->
  exists a, ar s = Some a /\ 0 <= a /\
    match K with
    | KFull => (nsp s = 0%nat -> tp s + a < tcall s + dur s + MS + delay s) /\
               tp s + a < tcall s + dur s + dur s + MS + delay s
    | _ => tp s + a < tcall s + dur s + MS + delay s
    end.
Proof.
  intros Hn R P D. destruct (invb_reach K s Hn R) as (_ & I).
  destruct (I ltac:(rewrite P; discriminate) D) as [_ _ _ _ _ _ I7 _ _ I10].
  destruct (I7 (or_introl P)) as (a & A & A0 & _). exists a. split; [exact A|]. split; [exact A0|].
  unfold bound_clause, U, B, slack in I10. rewrite P, A in I10.
  destruct K; try congruence; brk; try split; intros; spec_all; lia.
Qed.

(* never hang, quiescence form: a call none of whose steps is enabled is parked before the deadline of its own
   pending timer, and that deadline is below call + d + 1 ms + delays: at or after that instant the call is not
   stuck (its Timeout return is enabled: parked_past_deadline_can_leave) *)
Theorem never_hang K s :
  K = KRem \/ K = KSingle -> Reach K retry arm s -> pcs s <> Idle -> dur s <= DMAX -> Quiescent K retry arm s ->
  pcs s = Parked /\ tok s = false /\
  exists a, ar s = Some a /\ now s < tp s + a /\ tp s + a < tcall s + dur s + MS + delay s.
Proof.
  intros Hk R P D Q. assert (Hn : K <> KRecomp) by (destruct Hk; congruence).
  destruct (quiescent_is_parked_before_its_deadline K retry arm s P Q) as (Pk & T & L).
  destruct (parked_timer_deadline K s Hn R Pk D) as (a & A & _ & Bd).
  repeat split; auto. exists a. repeat split; auto. destruct Hk; subst K; exact Bd.
Qed.

Theorem never_hang_full s :
  Reach KFull retry arm s -> pcs s <> Idle -> dur s <= DMAX -> Quiescent KFull retry arm s ->
  pcs s = Parked /\ tok s = false /\
  exists a, ar s = Some a /\ now s < tp s + a /\ tp s + a < tcall s + dur s + dur s + MS + delay s /\
            (nsp s = 0%nat -> tp s + a < tcall s + dur s + MS + delay s).
Proof.
  intros R P D Q.
  destruct (quiescent_is_parked_before_its_deadline KFull retry arm s P Q) as (Pk & T & L).
  destruct (parked_timer_deadline KFull s ltac:(discriminate) R Pk D) as (a & A & _ & B1 & B2).
  repeat split; auto. exists a. repeat split; auto.
Qed.

End Bound.
