(* SchedLoopModel: what the faithful model refutes.
   1. wake-before-push (push_first = false, the order of seeded change C01-3): a coroutine is left behind in the global queue
      of a sleeping worker with no wake-up under way - until the worker's timeout (work_steal), for ever (no work_steal).
   2. THE LOOP BEFORE FIX e723520 (finding F34; budgeted = false): a coroutine in the global queue of worker w is not bounded
      by w's local.pop calls: while the local queue never runs empty (a coroutine that keeps yielding) run_queued_tasks
      neither calls collect_global nor returns to select, although the eventfd is pending all the time.
   3. THE LOOP BEFORE FIX e723520: a coroutine made runnable by the I/O timeout handler (schedule_timer runs after
      run_queued_tasks) sleeps in the local queue for the time to the next I/O timer, whatever the configured timeout.
   Both were replayed on the real runtime and repaired (RUN_BUDGET / GLOBAL_INTERVAL, has_local_tasks in select); for the
   repaired loop (budgeted = true) the same schedules end well: Rt/SchedLoopRuns.v, and the statements are theorems:
   Rt/SchedLoopBudget.v. *)
From Coq Require Import List Arith ZArith NArith Bool Lia.
Import ListNotations.
Require Import MayV.Rt.SchedModel MayV.Rt.SchedInv MayV.Rt.SchedLoopModel MayV.Rt.SchedLoopInv.

(* the code as it is (RUN_BUDGET = 256, GLOBAL_INTERVAL = 64); the loop before fix e723520 (no budget); the wrong order of
   push and eventfd write, with and without work_steal *)
Definition Pcur (t : N) := {| push_first := true; work_steal := true; cfg_tmo := t; budgeted := true; budget := 256; interval := 64 |}.
Definition Pold (t : N) := {| push_first := true; work_steal := true; cfg_tmo := t; budgeted := false; budget := 0; interval := 0 |}.
Definition Pwrong (t : N) := {| push_first := false; work_steal := true; cfg_tmo := t; budgeted := true; budget := 256; interval := 64 |}.
Definition Pwrong_nosteal (t : N) := {| push_first := false; work_steal := false; cfg_tmo := t; budgeted := true; budget := 256; interval := 64 |}.

Definition lafter (P : params) (n : nat) (tr : list laction) : lst :=
  match lruns P (linit n) tr with Some l => l | None => linit n end.
Lemma lafter_reach P n tr : lruns P (linit n) tr <> None -> LReach P n (lafter P n tr).
Proof.
  unfold lafter. destruct (lruns P (linit n) tr) eqn:E; [intros _ | congruence].
  eapply lruns_reach; [apply LR0 | exact E].
Qed.

(* wrong order: one worker (thread 0), thread 1 spawns coroutine 1 *)
Definition run_wrong : list laction :=
  [LPoll 0 false;                                      (* the worker blocks in its first epoll_wait *)
   LBase (ASpawn 1 1 None false); LBase (AStep 1);     (* NEXT_THREAD_ID.fetch_add; WRONG ORDER: wakeup(0) here *)
   LWake 0 false; LEvRead 0; LBulkEnd 0; LEvDone 0;    (* the worker wakes, reads the eventfd, collect_global: empty *)
   LPop 0; LBulkEnd 0; LHas 0; LStOut 0; LTmDone 0 None;   (* run_queued_tasks: nothing; select returns *)
   LPoll 0 false;                                      (* epoll_wait with the configured timeout *)
   LBase (AStep 1); LBase (AStep 1)].                  (* only now global.push(co); the spawner is done *)

Lemma run_wrong_ok p : lruns (Pwrong (Npos p)) (linit 1) run_wrong <> None.
Proof. vm_compute. discriminate. Qed.

Lemma wrong_state p : let l := lafter (Pwrong (Npos p)) 1 run_wrong in
  wpc l 0 = PSleep /\ gq (base l) 0 = [1] /\ evfd l 0 = false /\ owed l 0 = 0 /\ anon l 0 = 0 /\ pre l 0 = 0 /\
  tpc (base l) 1 = Idle /\ stk (base l) 1 = [] /\ dl l 0 = Some (rnd (Npos p)) /\ now l = 0%N.
Proof. vm_compute. repeat split; reflexivity. Qed.

(* without work_steal run_queued_tasks does not look at the global queue: the timeout does not help either *)
Definition round_nosteal (d : N) : list laction :=
  [LTick d; LTimeout 0; LEvDone 0; LPop 0; LTmDone 0 None; LPoll 0 false].
Definition run_wrong_nosteal : list laction :=
  [LPoll 0 false; LBase (ASpawn 1 1 None false); LBase (AStep 1);
   LWake 0 false; LEvRead 0; LBulkEnd 0; LEvDone 0; LPop 0; LTmDone 0 None; LPoll 0 false;
   LBase (AStep 1); LBase (AStep 1)]
  ++ round_nosteal 10000000 ++ round_nosteal 10000000 ++ round_nosteal 10000000.
Lemma run_wrong_nosteal_ok : lruns (Pwrong_nosteal 10000000) (linit 1) run_wrong_nosteal <> None.
Proof. vm_compute. discriminate. Qed.
Lemma wrong_nosteal_state : let l := lafter (Pwrong_nosteal 10000000) 1 run_wrong_nosteal in
  wpc l 0 = PSleep /\ gq (base l) 0 = [1] /\ evfd l 0 = false /\ owed l 0 = 0 /\ anon l 0 = 0 /\ pre l 0 = 0 /\
  tpc (base l) 1 = Idle /\ nsel l 0 = 4 /\ now l = 30000000%N /\ ngrab l 1 = 0.
Proof. vm_compute. repeat split; reflexivity. Qed.

(* the loop before the fix: coroutine 1 waits for I/O with a timeout; the timeout handler of schedule_timer resumes it AFTER
   run_queued_tasks; it yields (or wakes another coroutine): local push; select returns, the next epoll_wait sleeps for the
   time T to the next I/O timer with a runnable coroutine in the local queue and no wake-up under way *)
Definition run_timer (T : N) : list laction :=
  [LPoll 0 false; LBase (ASpawn 1 1 None false); LBase (AStep 1); LBase (AStep 1); LBase (AStep 1);
   LWake 0 false; LEvRead 0; LBulkGrab 0; LBulkEnd 0; LPut 0; LBulkEnd 0; LEvDone 0; LPop 0; LResume 0;
   LBase (AYield 0); LBase (KStore 0); LBase (KSkip 0); LBase (KSubscribed 0); LCoRet 0;     (* blocks in I/O *)
   LPop 0; LBulkEnd 0; LHas 0; LStOut 0;
   LTmTake 0 1; LResume 0;                                                                    (* the I/O timer expires *)
   LBase (AYield 0); LBase (KLocal 0); LBase (KSubscribed 0); LCoRet 0;                       (* yield_now(): local push *)
   LTmDone 0 (Some T); LPoll 0 false].
Lemma run_timer_ok T t : lruns (Pold t) (linit 1) (run_timer (Npos T)) <> None.
Proof. vm_compute. discriminate. Qed.
Lemma timer_state T t : let l := lafter (Pold t) 1 (run_timer (Npos T)) in
  wpc l 0 = PSleep /\ lq (base l) 0 = [1] /\ gq (base l) 0 = [] /\ evfd l 0 = false /\ owed l 0 = 0 /\ anon l 0 = 0 /\
  dl l 0 = Some (rnd (Npos T)) /\ now l = 0%N /\ tmo l 0 = Some (Npos T).
Proof. vm_compute. repeat split; reflexivity. Qed.

(* worker 0 of one; coroutine 1 is the only local one, coroutine 2 waits in the global queue with the eventfd pending *)
Definition shape (l : lst) (p : lpc) (k : list frame) (h q : list nat) : Prop :=
  nw (base l) = 1 /\ wpc l 0 = p /\ stk (base l) 0 = k /\ hand (base l) 0 = h /\ lq (base l) 0 = q /\
  tpc (base l) 0 = Idle /\ gst (co (base l) 1) = GLive /\ upc (co (base l) 1) = Idle /\ gq (base l) 0 = [2] /\ evfd l 0 = true.
Definition same_counters (l l' : lst) : Prop :=
  ngrab l' 2 = ngrab l 2 /\ ncoll l' 0 = ncoll l 0 /\ nsel l' 0 = nsel l 0.

Ltac hs H1 H2 H3 H4 H5 H6 H7 H8 H9 H10 := rewrite ?H1, ?H2, ?H3, ?H4, ?H5, ?H6, ?H7, ?H8, ?H9, ?H10.
Ltac sym_step :=
  intros (H1 & H2 & H3 & H4 & H5 & H6 & H7 & H8 & H9 & H10);
  match goal with l : lst |- _ =>
    destruct l as [b wp ev tm d sl nw' ow an pr np nc ns c0 ng nt];
    destruct b as [co gq lq hand stk slots dead tpc tok bjoin nextb punp rr nw] end;
  cbn in *; unfold lstep;
  do 4 (cbn; unfold base_idle, park_ret, cur; hs H1 H2 H3 H4 H5 H6 H7 H8 H9 H10);
  eexists; split; [reflexivity|]; unfold shape, same_counters; cbn; hs H1 H2 H3 H4 H5 H6 H7 H8 H9 H10; cbn;
  repeat split; reflexivity.

Lemma spin1 t l : shape l (PCo RRun) [FRun 1] [] [] -> exists l', lstep (Pold t) l (LBase (AYield 0)) = Some l' /\
  shape l' (PCo RRun) [FKer 1 K0] [1] [] /\ same_counters l l' /\ npop l' 0 = npop l 0.
Proof. sym_step. Qed.
Lemma spin2 t l : shape l (PCo RRun) [FKer 1 K0] [1] [] -> exists l', lstep (Pold t) l (LBase (KLocal 0)) = Some l' /\
  shape l' (PCo RRun) [FKer 1 KEnd] [] [1] /\ same_counters l l' /\ npop l' 0 = npop l 0.
Proof. sym_step. Qed.
Lemma spin3 t l : shape l (PCo RRun) [FKer 1 KEnd] [] [1] -> exists l', lstep (Pold t) l (LBase (KSubscribed 0)) = Some l' /\
  shape l' (PCo RRun) [] [] [1] /\ same_counters l l' /\ npop l' 0 = npop l 0.
Proof. sym_step. Qed.
Lemma spin4 t l : shape l (PCo RRun) [] [] [1] -> exists l', lstep (Pold t) l (LCoRet 0) = Some l' /\
  shape l' PRun [] [] [1] /\ same_counters l l' /\ npop l' 0 = npop l 0.
Proof. sym_step. Qed.
Lemma spin5 t l : shape l PRun [] [] [1] -> exists l', lstep (Pold t) l (LPop 0) = Some l' /\
  shape l' (PRes RRun) [] [1] [] /\ same_counters l l' /\ npop l' 0 = S (npop l 0).
Proof. sym_step. Qed.
Lemma spin6 t l : shape l (PRes RRun) [] [1] [] -> exists l', lstep (Pold t) l (LResume 0) = Some l' /\
  shape l' (PCo RRun) [FRun 1] [] [] /\ same_counters l l' /\ npop l' 0 = npop l 0.
Proof. sym_step. Qed.

Definition cycle : list laction :=
  [LBase (AYield 0); LBase (KLocal 0); LBase (KSubscribed 0); LCoRet 0; LPop 0; LResume 0].

Lemma cycle_spin t l : shape l (PCo RRun) [FRun 1] [] [] -> exists l', lruns (Pold t) l cycle = Some l' /\
  shape l' (PCo RRun) [FRun 1] [] [] /\ same_counters l l' /\ npop l' 0 = S (npop l 0).
Proof.
  intro S0. unfold cycle. cbn [lruns].
  destruct (spin1 t l S0) as (l1 & E1 & S1 & (A1 & B1 & C1) & D1). rewrite E1.
  destruct (spin2 t l1 S1) as (l2 & E2 & S2 & (A2 & B2 & C2) & D2). rewrite E2.
  destruct (spin3 t l2 S2) as (l3 & E3 & S3 & (A3 & B3 & C3) & D3). rewrite E3.
  destruct (spin4 t l3 S3) as (l4 & E4 & S4 & (A4 & B4 & C4) & D4). rewrite E4.
  destruct (spin5 t l4 S4) as (l5 & E5 & S5 & (A5 & B5 & C5) & D5). rewrite E5.
  destruct (spin6 t l5 S5) as (l6 & E6 & S6 & (A6 & B6 & C6) & D6). rewrite E6.
  exists l6. split; [reflexivity|]. split; [exact S6|]. unfold same_counters. repeat split; congruence.
Qed.

Fixpoint rep {X} (k : nat) (l : list X) : list X := match k with 0 => [] | S k' => l ++ rep k' l end.

Lemma spin_forever t k : forall l, shape l (PCo RRun) [FRun 1] [] [] -> exists l', lruns (Pold t) l (rep k cycle) = Some l' /\
  shape l' (PCo RRun) [FRun 1] [] [] /\ same_counters l l' /\ npop l' 0 = npop l 0 + k.
Proof.
  induction k as [|k IH]; intros l S; cbn [rep].
  - exists l. unfold same_counters. repeat split; auto; try apply S; lia.
  - destruct (cycle_spin t l S) as (l1 & R1 & S1 & (A1 & A2 & A3) & A4).
    destruct (IH l1 S1) as (l2 & R2 & S2 & (B1 & B2 & B3) & B4).
    exists l2. rewrite lruns_app, R1. split; [exact R2|]. split; [exact S2|]. unfold same_counters. repeat split; lia.
Qed.

(* thread 1 spawns coroutine 1, worker 0 runs it; thread 1 then spawns coroutine 2: push into global queue 0, eventfd
   written *)
Definition run_starve : list laction :=
  [LPoll 0 false; LBase (ASpawn 1 1 None false); LBase (AStep 1); LBase (AStep 1); LBase (AStep 1);
   LWake 0 false; LEvRead 0; LBulkGrab 0; LBulkEnd 0; LPut 0; LBulkEnd 0; LEvDone 0; LPop 0; LResume 0;
   LBase (ASpawn 1 2 None false); LBase (AStep 1); LBase (AStep 1); LBase (AStep 1)].
Lemma run_starve_ok t : lruns (Pold t) (linit 1) run_starve <> None.
Proof. vm_compute. discriminate. Qed.
Lemma starve_state t : let l := lafter (Pold t) 1 run_starve in
  shape l (PCo RRun) [FRun 1] [] [] /\ ngrab l 2 = 0 /\ tpc (base l) 1 = Idle /\ owed l 0 = 0 /\ anon l 0 = 0 /\ npop l 0 = 1.
Proof. vm_compute. repeat split; reflexivity. Qed.

(* for every k: after k more local.pop calls of the worker coroutine 2 is still in the global queue, not collected, no
   collect_global and no round completed, the eventfd pending - and every thread involved keeps taking steps *)
Theorem global_queue_starves t k : exists l l', LReach (Pold t) 1 l /\ lruns (Pold t) l (rep k cycle) = Some l' /\
  In 2 (gq (base l) 0) /\ In 2 (gq (base l') 0) /\ evfd l' 0 = true /\
  npop l' 0 = npop l 0 + k /\ ngrab l' 2 = 0 /\ ncoll l' 0 = ncoll l 0 /\ nsel l' 0 = nsel l 0.
Proof.
  destruct (starve_state t) as (S & G & _). set (l := lafter (Pold t) 1 run_starve) in *.
  destruct (spin_forever t k l S) as (l' & R & S' & (A1 & A2 & A3) & A4).
  exists l, l'. split; [apply lafter_reach, run_starve_ok|]. split; [exact R|].
  destruct S as (_ & _ & _ & _ & _ & _ & _ & _ & Q & _). destruct S' as (_ & _ & _ & _ & _ & _ & _ & _ & Q' & E').
  rewrite Q, Q'. repeat split; auto; try (now left); congruence.
Qed.

(* ---- the statements refuted, as negations ---- *)
Require Import MayV.Rt.SchedLoopThm.

(* 1. with the eventfd written before the push the no-lost-wake-up statement is false *)
Theorem wake_before_push_loses_the_wakeup p :
  ~ (forall l w, LReach (Pwrong (Npos p)) 1 l -> wpc l w = PSleep -> gq (base l) w <> [] -> evfd l w = true \/ pusher_in_flight l w).
Proof.
  intro H. destruct (wrong_state p) as (S & G & E & O & A & _).
  specialize (H _ 0 (lafter_reach _ _ _ (run_wrong_ok p)) S). rewrite G in H.
  destruct (H ltac:(discriminate)) as [X|[X|X]]; [congruence | rewrite O in X; lia | rewrite A in X; lia].
Qed.

(* the witness state itself: nobody is on the way to wake the worker, the coroutine waits for the timeout of the epoll_wait *)
Theorem wake_before_push_witness p : exists l, LReach (Pwrong (Npos p)) 1 l /\
  wpc l 0 = PSleep /\ gq (base l) 0 = [1] /\ evfd l 0 = false /\ owed l 0 = 0 /\ anon l 0 = 0 /\ pre l 0 = 0 /\
  tpc (base l) 1 = Idle /\ stk (base l) 1 = [] /\ dl l 0 = Some (rnd (Npos p)) /\ now l = 0%N.
Proof. eexists. split; [exact (lafter_reach _ _ _ (run_wrong_ok p)) | exact (wrong_state p)]. Qed.

(* without work_steal the timeout does not help: three timeouts later the coroutine is still in the global queue *)
Theorem wake_before_push_witness_nosteal : exists l, LReach (Pwrong_nosteal 10000000) 1 l /\
  wpc l 0 = PSleep /\ gq (base l) 0 = [1] /\ evfd l 0 = false /\ owed l 0 = 0 /\ anon l 0 = 0 /\ pre l 0 = 0 /\
  tpc (base l) 1 = Idle /\ nsel l 0 = 4 /\ now l = 30000000%N /\ ngrab l 1 = 0.
Proof. eexists. split; [exact (lafter_reach _ _ _ run_wrong_nosteal_ok) | exact wrong_nosteal_state]. Qed.

(* 2. the loop before the fix: no number B of local.pop calls (iterations of 'work) of its worker bounds the wait of a coroutine in
   the global queue *)
Theorem global_queue_not_bounded_by_pops t B :
  ~ (forall l l' tr c w, LReach (Pold t) 1 l -> lruns (Pold t) l tr = Some l' -> In c (gq (base l) w) ->
       npop l w + B <= npop l' w -> ngrab l c < ngrab l' c).
Proof.
  intro H. destruct (global_queue_starves t B) as (l & l' & R & RUN & I & _ & _ & NP & G & _).
  specialize (H l l' _ 2 0 R RUN I). rewrite NP, G in H. specialize (H (le_n _)). lia.
Qed.

(* 3. the loop before the fix: a worker can sleep over a non-empty local queue with no wake-up under way, for the time T to the next
   I/O timer - whatever the configured poll timeout t is *)
Theorem local_queue_wait_not_bounded_by_poll_timeout t T : exists l, LReach (Pold t) 1 l /\
  wpc l 0 = PSleep /\ lq (base l) 0 = [1] /\ gq (base l) 0 = [] /\ evfd l 0 = false /\ owed l 0 = 0 /\ anon l 0 = 0 /\
  dl l 0 = Some (rnd (Npos T)) /\ now l = 0%N /\ tmo l 0 = Some (Npos T).
Proof. eexists. split; [exact (lafter_reach _ _ _ (run_timer_ok T t)) | exact (timer_state T t)]. Qed.
