(* C09 on CqueueModel (cqueue::scope / select!): the owner of a cqueue that is cancelled while it polls.
   The model has the owner's cancel bit [ocbit] (action CancelOwner), its disable count [odis] and
   cancel_due = coroutine owner /\ bit set /\ not disabled.  Step lemmas only; the invariants are C16's. *)
From Coq Require Import List Arith ZArith Bool Lia.
Import ListNotations.
Require Import MayV.Rt.CqueueModel.

(* (i) stop: a cancelled owner parked in Cqueue::poll is resumable (the model's counterpart of Cancel::cancel taking the
   coroutine out of the poll's Blocker), and the resumption unwinds out of the poll *)
Theorem cancelled_poller_resumes cf s : opc s = P5w -> cancel_due s = true ->
  exists s', step cf s OStep = Some s' /\ (opc s' = OUnw \/ opc s' = P1).
Proof.
  intros P C. unfold step, ostep. rewrite P, C. rewrite !orb_true_r.
  assert (C' : cancel_due (set_owk (set_tok s (upd (tok s) (ob s) false)) false) = true) by exact C.
  rewrite C'. eexists. split; [reflexivity|]. unfold raise_poll.
  destruct (Nat.eqb _ 0); [left | right]; reflexivity.
Qed.
(* the "next cancellable call" half: a cancelled owner that arrives at the park of poll without a token does not suspend *)
Theorem cancelled_poller_does_not_park cf s s' : opc s = P5 -> tok s (ob s) = false -> cancel_due s = true ->
  step cf s OStep = Some s' -> opc s' <> P5w.
Proof.
  intros P T C H. unfold step, ostep in H. rewrite P, T, C in H. injection H as <-. unfold raise_poll.
  destruct (Nat.eqb _ 0); discriminate.
Qed.
(* (iii) the owner's body is unwound by a cancellation (OCancelled: a cancellation point in the user's select body) only
   when the cancel is due: coroutine owner, bit set, not disabled *)
Theorem owner_cancel_unwind_needs_cancel cf s s' : step cf s OCancelled = Some s' ->
  oco s = true /\ ocbit s = true /\ odis s = 0.
Proof.
  unfold step. destruct (opc s); try discriminate. destruct (cancel_due s) eqn:C; [|discriminate]. intros _.
  unfold cancel_due in C. apply andb_prop in C. destruct C as [C D]. apply andb_prop in C. destruct C as [A B].
  apply Nat.eqb_eq in D. auto.
Qed.
