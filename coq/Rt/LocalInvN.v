(* Ghost counters of LocalModel: the initialiser of a key runs at most once per coroutine (exactly once iff
   the entry exists), every value is dropped exactly once, at the end; thread fallback likewise. *)
From Coq Require Import List Arith Bool ZArith Lia.
Import ListNotations.
Require Import MayV.Rt.LocalModel MayV.Rt.LocalTac MayV.Rt.LocalInvS.

Record NInv (s : st) : Prop := {
  N1 : forall c k, alivem s c = true -> ninitm s c k + fresh01 (lmapm s c) k = 1 /\ ndropm s c k = 0;
  N2 : forall c k, pcm s c = PDone -> ndropm s c k = ninitm s c k /\ ninitm s c k <= 1 /\ lmapm s c k = None;
  N3 : forall c k, pcm s c = PNone -> ninitm s c k = 0 /\ ndropm s c k = 0;
  N5 : forall t k, tninitm s t k + fresh01 (tmapm s t) k = 1;
  N6 : forall c k, pcm s c = PNew -> lmapm s c k = None }.

Lemma ninv_init cf : NInv (init cf).
Proof. constructor; cbn; intros; try discriminate; auto. Qed.

Ltac usen I := first [ solve [eapply (N1 _ I); eauto; congruence] | solve [eapply (N2 _ I); eauto; congruence] | solve [eapply (N3 _ I); eauto; congruence]
                     | solve [eapply (N5 _ I); eauto; congruence] | solve [eapply (N6 _ I); eauto; congruence] ].

Lemma ninv_cancel_wake s c : NInv s -> NInv (cancel_wake c s).
Proof.
  intro I. unfold cancel_wake. destruct (pcm s c) eqn:E; auto.
  destruct (cancel_para k); [|destruct (cancel_plain k); auto].
  all: constructor; sst; try exact (N1 _ I); try exact (N5 _ I).
  all: intros; eqbs; try discriminate; usen I.
Qed.


Lemma ninv_step cf s a s' : SInv s -> NInv s -> step cf s a = Some s' -> NInv s'.
Proof.
  intros J I H. destruct a; cbn [step] in H.
  3,4: (apply access_inv in H; destruct H as [(c0 & d & Ht & Hp & Hg & Ha & ->) | (Ht & ->)];
        [assert (d = c0) by (destruct (S2 _ J c0) as [_ Q]; [rewrite Hp; reflexivity | congruence]); subst d |]).
  11: { destruct (pcm s c) eqn:E; try discriminate; inv_some H; apply ninv_cancel_wake; constructor; sst; apply I. }
  11: { destruct (pcm s c) eqn:E; try discriminate. destruct (canceled s c); try discriminate. inv_some H. now apply ninv_cancel_wake. }
  all: step_split H; try inv_some H.
  all: constructor; sst.
  all: try exact (N1 _ I); try exact (N2 _ I); try exact (N3 _ I); try exact (N5 _ I); try exact (N6 _ I).
  all: intros.
  all: eqbs; try discriminate.
  all: try solve [ auto | congruence | usen I ].
  all: try (pose proof (S8 _ J c) as Hal; rewrite E in Hal; cbn [live] in Hal).
  all: unfold fresh01, emptyZ in *; cbv beta; eqbs; try congruence.
  all: repeat match goal with
       | Hal : alivem ?s ?c = true |- context [ninitm ?s ?c ?k] =>
           unseen (ninitm s c k = ninitm s c k); pose proof (N1 _ I c k Hal)
       | |- context [tninitm ?s ?t ?k] => unseen (tninitm s t k = tninitm s t k); pose proof (N5 _ I t k)
       | E : pcm ?s ?c = PNone |- context [ninitm ?s ?c ?k] => unseen (ninitm s c k = ninitm s c k); pose proof (N3 _ I c k E)
       end.
  all: unfold fresh01 in *.
  all: repeat match goal with
       | H : context [match lmapm ?s ?c ?k with _ => _ end] |- _ => destruct (lmapm s c k)
       | H : context [match tmapm ?s ?c ?k with _ => _ end] |- _ => destruct (tmapm s c k)
       | |- context [match lmapm ?s ?c ?k with _ => _ end] => destruct (lmapm s c k)
       end.
  all: try solve [intuition lia].
Qed.

Theorem ninv_reach cf s : Reach cf s -> NInv s.
Proof.
  induction 1; [apply ninv_init | eapply ninv_step; eauto using sinv_reach].
Qed.
