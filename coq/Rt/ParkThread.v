(* C02 - ThreadPark (src/sync/blocking.rs): token + block.  Everything the Rust code does happens under
   the parking_lot mutex, so the model has three transitions (and the clock):
     TpUnpark        lock; if *guard == 0 { *guard = 1; notify_one }            -- the token becomes available
     TpEnter d       lock; the owner starts waiting (deadline = now + d)
     TpLeave woken   the owner leaves park_timeout: woken = true  needs the token (while *guard == 0 ... exited),
                                                    woken = false needs the deadline to have passed (timed_out);
                     `*guard = 0` on every return: the token is cleared whatever the verdict.
   Refinement to the Blocker token and the wake-up guarantee are proved here (the model is tiny). *)
From Coq Require Import ZArith Bool.
Require Import MayV.Base.BlockerSpec.
Open Scope Z_scope.

Record tpst := { ttok : bool; twait : option (option Z); tnow : Z }.
Definition tpinit : tpst := {| ttok := false; twait := None; tnow := 0 |}.

Inductive tpact := TpUnpark | TpEnter (d : option Z) | TpLeave (woken : bool) | TpTick (d : Z).

Definition tpstep (t : tpst) (a : tpact) : option tpst :=
  match a with
  | TpUnpark => Some {| ttok := true; twait := twait t; tnow := tnow t |}
  | TpEnter d =>
      match twait t with
      | None => if match d with Some x => 0 <=? x | None => true end
                then Some {| ttok := ttok t; twait := Some (match d with Some x => Some (tnow t + x) | None => None end); tnow := tnow t |}
                else None
      | Some _ => None end
  | TpLeave true =>
      match twait t with
      | Some _ => if ttok t then Some {| ttok := false; twait := None; tnow := tnow t |} else None
      | None => None end
  | TpLeave false =>
      match twait t with
      | Some (Some dl) => if dl <=? tnow t then Some {| ttok := false; twait := None; tnow := tnow t |} else None
      | _ => None end
  | TpTick d => if 0 <? d then Some {| ttok := ttok t; twait := twait t; tnow := tnow t + d |} else None
  end.

Inductive TReach : tpst -> Prop :=
| TR0 : TReach tpinit
| TRS t a t' : TReach t -> tpstep t a = Some t' -> TReach t'.

Definition tabs (t : tpst) : bst := {| btok := ttok t; bpark := twait t |}.

(* which Blocker-token event a ThreadPark transition is *)
Definition tp_ev (t : tpst) (a : tpact) : option bev :=
  match a with
  | TpUnpark => Some BUnpark
  | TpEnter d => Some (BEnter (match d with Some x => Some (tnow t + x) | None => None end))
  | TpLeave true => Some (BResume VOk)
  | TpLeave false => Some (BResume VTimeout)
  | TpTick _ => None
  end.

(* (v) ThreadPark refines the Blocker token: every transition is the token event it is labelled with
   (a thread is never cancelled: canceled = false), the clock tick changes nothing *)
Theorem threadpark_refines_blocker t a t' :
  tpstep t a = Some t' ->
  match tp_ev t a with
  | Some e => bstep (tnow t) false (tabs t) e = Some (tabs t')
  | None => tabs t' = tabs t
  end.
Proof.
  destruct a as [|d|[|]|d]; cbn.
  - intros [= <-]. reflexivity.
  - destruct (twait t) eqn:W; [discriminate|]. destruct (match d with Some x => 0 <=? x | None => true end); [|discriminate].
    intros [= <-]. unfold tabs; cbn. try rewrite W. reflexivity.
  - destruct (twait t) eqn:W; [|discriminate]. destruct (ttok t) eqn:T; [|discriminate].
    intros [= <-]. unfold tabs; cbn. try rewrite W. cbn. try rewrite T. reflexivity.
  - destruct (twait t) as [[dl|]|] eqn:W; try discriminate. destruct (dl <=? tnow t) eqn:E; [|discriminate].
    intros [= <-]. unfold tabs; cbn. try rewrite W. cbn. try rewrite E. reflexivity.
  - destruct (0 <? d); [|discriminate]. intros [= <-]. reflexivity.
Qed.

(* the verdicts, stated directly *)
Theorem threadpark_ok_needs_token t t' : tpstep t (TpLeave true) = Some t' -> ttok t = true /\ ttok t' = false.
Proof. cbn. destruct (twait t); [|discriminate]. destruct (ttok t); [|discriminate]. intros [= <-]. auto. Qed.
Theorem threadpark_timeout_not_early t t' :
  tpstep t (TpLeave false) = Some t' -> exists dl, twait t = Some (Some dl) /\ dl <= tnow t /\ ttok t' = false.
Proof.
  cbn. destruct (twait t) as [[dl|]|]; try discriminate. destruct (dl <=? tnow t) eqn:E; [|discriminate].
  intros [= <-]. exists dl. repeat split. apply Z.leb_le. exact E.
Qed.

(* no lost wake-up / no lost time-out: whenever a resume is due the owner can leave *)
Theorem threadpark_wake_enabled t :
  wake_due (tnow t) false (tabs t) = true ->
  (exists t', tpstep t (TpLeave true) = Some t') \/ (exists t', tpstep t (TpLeave false) = Some t').
Proof.
  unfold wake_due, tabs; cbn. destruct (twait t) as [[dl|]|] eqn:W; try discriminate; destruct (ttok t) eqn:T; cbn; intros H.
  - left. eauto.
  - right. rewrite H. eauto.
  - left. eauto.
  - discriminate.
Qed.

(* a park that starts with the token set returns Ok at once (and nothing else can happen to it but Ok
   or a passed deadline) *)
Theorem threadpark_token_first t d t1 :
  ttok t = true -> tpstep t (TpEnter d) = Some t1 -> exists t2, tpstep t1 (TpLeave true) = Some t2.
Proof.
  cbn. intros T. destruct (twait t); [discriminate|]. destruct (match d with Some x => 0 <=? x | None => true end); [|discriminate].
  intros [= <-]. cbn. rewrite T. eauto.
Qed.
