(* C08.iii - tactics: case analysis of one step of the (unmutated) timer-thread model *)
From Coq Require Import List Arith NArith Bool Lia Sorting.Sorted.
Import ListNotations.
Require Import MayV.Rt.TimerThread MayV.Rt.TimerThreadInv.
Local Open Scope N_scope.

Ltac inv_some :=
  match goal with
  | H : Some _ = Some _ |- _ => injection H as <-
  | H : None = Some _ |- _ => discriminate H
  end.

Ltac split_match H :=
  repeat match type of H with
  | context [match ?c with _ => _ end] =>
      lazymatch c with
      | context [match _ with _ => _ end] => fail
      | _ => destruct c eqn:?
      end
  end.

(* H : stepF s x = Some s'  ->  one goal per transition, s' replaced by the explicit successor *)
Ltac step_cases H :=
  match type of H with
  | step false ?s ?x = Some ?s' =>
      destruct x as [?d|?a ?iv ?i|?r ?L ?i|?a|?r|?c|?v];
      cbn [step] in H;
      [ split_match H; try discriminate H; inv_some
      | split_match H; try discriminate H; inv_some
      | split_match H; try discriminate H; inv_some
      | unfold astep in H; split_match H; try discriminate H; inv_some
      | unfold rstep in H; split_match H; try discriminate H; inv_some
      | unfold tstep, pop_rq, after_drain, after_recheck, after_sched in H;
        split_match H; try discriminate H; try inv_some
      | split_match H; try discriminate H; inv_some ]
  end.

Ltac brk := repeat match goal with
  | H : _ /\ _ |- _ => destruct H
  | H : exists _, _ |- _ => destruct H
  end.

Ltac updsimp :=
  repeat first
  [ rewrite upd_eq | rewrite updN_eq
  | rewrite upd_neq by congruence | rewrite updN_neq by congruence
  | rewrite upd_eq in * |- | rewrite updN_eq in * |- ].

(* decide whether a quantified actor / list is the one that moved *)
Ltac case_actor b a := destruct (Nat.eq_dec b a) as [->|?]; [rewrite ?upd_eq in * | rewrite ?(upd_neq _ a b) in * by assumption].
Ltac case_list L' L := destruct (N.eq_dec L' L) as [->|?]; [rewrite ?updN_eq in * | rewrite ?(updN_neq _ L L') in * by assumption].
