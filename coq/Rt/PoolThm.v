(* C13 (ii), stack reuse: invariants and theorems of the pool overlay (Rt/PoolModel.v). *)
From Coq Require Import List Arith ZArith Bool Lia.
Import ListNotations.
Require Import MayV.Rt.SchedModel MayV.Rt.SchedInv MayV.Rt.SchedTac MayV.Rt.SchedPresC MayV.Rt.SchedPresP MayV.Rt.PanicPath
               MayV.Rt.PoolModel.

(* ---- what the steps of SchedModel do to "spawned" and "dead" ---- *)
Lemma pr_co_fields s c c' : spawned (co (park_ret s c) c') = spawned (co s c') /\ loc (co (park_ret s c) c') = loc (co s c').
Proof. pose proof (park_ret_fields s c c'). tauto. Qed.

Lemma base_frame_sd s a s' : PInv s -> step s a = Some s' -> is_spawn a = false -> is_drop s a = false ->
  forall c, spawned (co s' c) = spawned (co s c) /\ (loc (co s' c) = LDead <-> loc (co s c) = LDead).
Proof.
  intros HP H NS ND c0. destruct a; try discriminate NS.
  all: step_inv H.
  all: try match goal with E : cur _ _ = Some ?a |- _ => destruct (cur_cases _ _ _ E) as [[? ?]|[? [? [? ?]]]]; subst a end.
  all: prep.
  all: unfold take_wake in *.
  all: try match goal with q : qid |- _ => destruct q end.
  all: repeat match goal with |- context [match jwake ?x with _ => _ end] => destruct (jwake x) eqn:? end.
  all: sst; bools.
  all: try (cbn [is_drop] in ND; repeat match goal with E : stk ?s ?t = _ |- _ => rewrite E in ND end;
            repeat match goal with E : upc (co ?s ?c) = _ |- _ => rewrite E in ND end; try discriminate ND).
  all: locfacts HP.
  all: upds; sco; rewrite ?(proj1 (pr_co_fields _ _ _)), ?(proj2 (pr_co_fields _ _ _)).
  all: try solve [split; [reflexivity | reflexivity]].
  all: try solve [split; [reflexivity | split; intro X; congruence]].
  assert (X : loc (co s n) = LH t) by (apply (p_hand s HP); rewrite E0; left; reflexivity).
  split; [reflexivity|]. split; intro Y; congruence.
Qed.

Lemma spawn_effect s t c id local s' : step s (ASpawn t c id local) = Some s' ->
  spawned (co s c) = false /\ spawned (co s' c) = true /\ loc (co s' c) = LH t /\
  forall c', c' <> c -> spawned (co s' c') = spawned (co s c') /\ loc (co s' c') = loc (co s c').
Proof.
  intro H. step_inv H. bools.
  match goal with E : cur _ _ = Some ?a |- _ => destruct (cur_cases _ _ _ E) as [[? ?]|[? [? [? ?]]]]; subst a end.
  all: sst; split; [assumption|]; upds; sco; try congruence.
  all: repeat split; try reflexivity; try (intros c' NE; upds; sco; split; reflexivity).
  all: upds; sco; rewrite ?upd_neq by congruence; sco; try reflexivity; try congruence.
Qed.

Lemma drop_effect s t c a s' : PInv s -> drop_of s t = Some (c, a) -> step s a = Some s' ->
  loc (co s c) <> LDead /\ spawned (co s c) = true /\ loc (co s' c) = LDead /\ spawned (co s' c) = true /\
  forall c', c' <> c -> spawned (co s' c') = spawned (co s c') /\ loc (co s' c') = loc (co s c').
Proof.
  intros HP D H. unfold drop_of in D.
  destruct (stk s t) as [|[c0|c0 k|c0] rest] eqn:E; try discriminate.
  - destruct k; try discriminate. inversion D; subst; clear D.
    unfold step in H. rewrite E in H. destruct (memb c (hand s t)) eqn:M; [|discriminate]. inversion H; subst; clear H.
    apply memb_in in M. pose proof (proj1 (p_hand s HP t c) M) as LC.
    assert (SP : spawned (co s c) = true) by (eapply hand_spawned; eassumption).
    sst. rewrite !upd_eq. sco. split; [congruence|]. split; [exact SP|]. split; [reflexivity|]. split; [exact SP|].
    all: try (intros c1 NE; rewrite upd_neq by exact NE; split; reflexivity).
  - destruct (upc (co s c0)) eqn:U; try discriminate. inversion D; subst; clear D.
    unfold step in H. rewrite E, U in H. destruct (memb c (hand s t)) eqn:M; [|discriminate]. inversion H; subst; clear H.
    apply memb_in in M. pose proof (proj1 (p_hand s HP t c) M) as LC.
    assert (SP : spawned (co s c) = true) by (eapply hand_spawned; eassumption).
    sst. rewrite !upd_eq. sco. split; [congruence|]. split; [exact SP|]. split; [reflexivity|]. split; [exact SP|].
    all: try (intros c1 NE; rewrite upd_neq by exact NE; split; reflexivity).
Qed.

Section PoolInv.
Variable cap : Z.
Notation pstep := (pstep cap).

(* the stack a thread holds in its hands inside pool.get() / pool.put() *)
Definition flight (s : pst) (t : nat) : option nat :=
  match op s t with OGot k | OP1 _ k _ => Some k | _ => None end.

Record KInv (s : pst) : Prop := {
  KP : PInv (base s);
  K1 : NoDup (pool s);
  K2 : forall k, In k (pool s) -> owner s k = None /\ k < nexts s /\ custom s k = false;
  K3 : forall t k, flight s t = Some k -> owner s k = None /\ ~ In k (pool s) /\ k < nexts s /\ custom s k = false;
  K4 : forall t t' k, flight s t = Some k -> flight s t' = Some k -> t = t';
  K5 : forall k c, owner s k = Some c -> sof s c = Some k /\ k < nexts s /\ livec s c;
  K6 : forall c, livec s c -> exists k, sof s c = Some k /\ owner s k = Some c;
  K8 : psize s = (Z.of_nat (length (pool s)) + pp s + px s - pg s)%Z
}.

Lemma kinv_init w n : KInv (pinit w n).
Proof.
  constructor; cbn.
  - apply pinv_init0.
  - apply seq_NoDup.
  - intros k I. apply in_seq in I. repeat split; auto; lia.
  - intros t k H. discriminate.
  - intros t t' k H. discriminate.
  - intros k c H. discriminate.
  - intros c [H _]. discriminate.
  - rewrite seq_length. lia.
Qed.

Ltac psel := cbn [base pool psize sof owner custom nexts op pg pp px mkp set_op] in *.
Ltac flt := unfold flight in *; psel.

Lemma owner_fresh s k : KInv s -> nexts s <= k -> owner s k = None.
Proof. intros I L. destruct (owner s k) as [c|] eqn:E; [|reflexivity]. destruct (K5 _ I _ _ E) as (_ & X & _). lia. Qed.

Lemma kinv_step s a s' : KInv s -> pstep s a = Some s' -> KInv s'.
Proof.
  intros I H. destruct a; cbn [PoolModel.pstep] in H.
  - (* PGet0 *) destruct (op s t) eqn:O; try discriminate. inversion H; subst; clear H.
    constructor; psel; try apply I.
    + intros t0 k F. flt. destruct (Nat.eq_dec t0 t) as [->|N]; [rewrite upd_eq in F; discriminate|rewrite upd_neq in F by exact N]. apply (K3 _ I t0). exact F.
    + intros t0 t1 k F0 F1. flt.
      destruct (Nat.eq_dec t0 t) as [->|N0]; [rewrite upd_eq in F0; discriminate|rewrite upd_neq in F0 by exact N0].
      destruct (Nat.eq_dec t1 t) as [->|N1]; [rewrite upd_eq in F1; discriminate|rewrite upd_neq in F1 by exact N1].
      apply (K4 _ I t0 t1 k); assumption.
    + rewrite (K8 _ I). lia.
  - (* PGet1 *) destruct (op s t) eqn:O; try discriminate. destruct (pool s) as [|k r] eqn:PL.
    + inversion H; subst; clear H. constructor; psel; try apply I.
      * intros t0 k F. flt. destruct (Nat.eq_dec t0 t) as [->|N]; [rewrite upd_eq in F; discriminate|rewrite upd_neq in F by exact N].
        apply (K3 _ I t0 k F).
      * intros t0 t1 k F0 F1. flt.
        destruct (Nat.eq_dec t0 t) as [->|N0]; [rewrite upd_eq in F0; discriminate|rewrite upd_neq in F0 by exact N0].
        destruct (Nat.eq_dec t1 t) as [->|N1]; [rewrite upd_eq in F1; discriminate|rewrite upd_neq in F1 by exact N1].
        apply (K4 _ I t0 t1 k); assumption.
    + inversion H; subst; clear H. pose proof (K1 _ I) as ND. rewrite PL in ND. inversion ND; subst.
      assert (KK : owner s k = None /\ k < nexts s /\ custom s k = false) by (apply (K2 _ I); rewrite PL; left; reflexivity).
      constructor; psel; try apply I.
      * assumption.
      * intros k0 I0. apply (K2 _ I). rewrite PL. right. exact I0.
      * intros t0 k0 F. flt. destruct (Nat.eq_dec t0 t) as [->|N]; [rewrite upd_eq in F; inversion F; subst; tauto|rewrite upd_neq in F by exact N].
        destruct (K3 _ I t0 k0 F) as (A & B & C). rewrite PL in B. split; [exact A|]. split; [|exact C]. intro X. apply B. right. exact X.
      * intros t0 t1 k0 F0 F1. flt.
        destruct (Nat.eq_dec t0 t) as [->|N0]; [rewrite upd_eq in F0; inversion F0; subst|rewrite upd_neq in F0 by exact N0];
        (destruct (Nat.eq_dec t1 t) as [->|N1]; [rewrite upd_eq in F1; inversion F1; subst|rewrite upd_neq in F1 by exact N1]);
        try reflexivity.
        -- exfalso. destruct (K3 _ I t1 k0 F1) as (_ & B & _). apply B. rewrite PL. left. reflexivity.
        -- exfalso. destruct (K3 _ I t0 k0 F0) as (_ & B & _). apply B. rewrite PL. left. reflexivity.
        -- apply (K4 _ I t0 t1 k0); assumption.
      * rewrite (K8 _ I), PL. cbn [length]. lia.
  - (* PGet2 *) destruct (op s t) eqn:O; try discriminate. inversion H; subst; clear H.
    constructor; psel; try apply I.
    + intros k I0. destruct (K2 _ I k I0) as (A & B & C). repeat split; [exact A|lia|]. rewrite upd_neq by lia. exact C.
    + intros t0 k F. flt. destruct (Nat.eq_dec t0 t) as [->|N]; [rewrite upd_eq in F; inversion F; subst|rewrite upd_neq in F by exact N].
      * split; [apply owner_fresh; [exact I|lia]|]. split; [intro X; destruct (K2 _ I _ X); lia|]. split; [lia|apply upd_eq].
      * destruct (K3 _ I t0 k F) as (A & B & C & D). repeat split; [exact A|exact B|lia|]. rewrite upd_neq by lia. exact D.
    + intros t0 t1 k F0 F1. flt.
      destruct (Nat.eq_dec t0 t) as [->|N0]; [rewrite upd_eq in F0; inversion F0; subst|rewrite upd_neq in F0 by exact N0];
      (destruct (Nat.eq_dec t1 t) as [->|N1]; [rewrite upd_eq in F1; inversion F1; subst|rewrite upd_neq in F1 by exact N1]);
      try reflexivity.
      * exfalso. destruct (K3 _ I t1 _ F1) as (_ & _ & C & _). lia.
      * exfalso. destruct (K3 _ I t0 _ F0) as (_ & _ & C & _). lia.
      * apply (K4 _ I t0 t1 k); assumption.
    + intros k c E. destruct (K5 _ I k c E) as (A & B & C). repeat split; [exact A|lia|apply C|apply C].
    + rewrite (K8 _ I). lia.
  - (* PSpawn *) destruct (op s t) eqn:O; try discriminate. destruct (step (base s) (ASpawn t c id local)) as [b'|] eqn:ST; [|discriminate].
    inversion H; subst; clear H.
    assert (FT : flight s t = Some k) by (unfold flight; rewrite O; reflexivity).
    destruct (K3 _ I t k FT) as (OK & NP & KN & CK).
    destruct (spawn_effect _ _ _ _ _ _ ST) as (S0 & S1 & L1 & SO).
    constructor; psel; try apply I.
    + eapply pinv_step; [apply I|exact ST].
    + intros k0 I0. destruct (K2 _ I k0 I0) as (A & B & C). rewrite upd_neq by (intro X; subst; tauto). auto.
    + intros t0 k0 F. flt. destruct (Nat.eq_dec t0 t) as [->|N]; [rewrite upd_eq in F; discriminate|rewrite upd_neq in F by exact N].
      assert (k0 <> k) by (intro X; subst k0; apply N; apply (K4 _ I t0 t k); [exact F|exact FT]).
      rewrite upd_neq by assumption. apply (K3 _ I t0). exact F.
    + intros t0 t1 k0 F0 F1. flt.
      destruct (Nat.eq_dec t0 t) as [->|N0]; [rewrite upd_eq in F0; discriminate|rewrite upd_neq in F0 by exact N0].
      destruct (Nat.eq_dec t1 t) as [->|N1]; [rewrite upd_eq in F1; discriminate|rewrite upd_neq in F1 by exact N1].
      apply (K4 _ I t0 t1 k0); assumption.
    + intros k0 c0 E. unfold livec. psel. destruct (Nat.eq_dec k0 k) as [->|NK].
      * rewrite upd_eq in E. inversion E; subst c0. rewrite upd_eq. repeat split; [exact KN|exact S1|rewrite L1; discriminate].
      * rewrite upd_neq in E by exact NK. destruct (K5 _ I k0 c0 E) as (A & B & [C1 C2]).
        assert (c0 <> c) by (intro X; subst; congruence).
        rewrite upd_neq by assumption. destruct (SO c0 H) as [X Y]. repeat split; [exact A|exact B|congruence|congruence].
    + intros c0 [C1 C2]. psel. destruct (Nat.eq_dec c0 c) as [->|NC].
      * exists k. rewrite !upd_eq. auto.
      * destruct (SO c0 NC) as [X Y]. destruct (K6 _ I c0) as (k0 & A & B); [split; congruence|].
        exists k0. rewrite upd_neq by exact NC. split; [exact A|]. rewrite upd_neq by (intro Z; subst; congruence). exact B.
  - (* PSpawnCustom *) destruct (op s t) eqn:O; try discriminate. destruct (step (base s) (ASpawn t c id local)) as [b'|] eqn:ST; [|discriminate].
    inversion H; subst; clear H.
    destruct (spawn_effect _ _ _ _ _ _ ST) as (S0 & S1 & L1 & SO).
    pose proof (owner_fresh s (nexts s) I (le_n _)) as OF.
    constructor; psel; try apply I.
    + eapply pinv_step; [apply I|exact ST].
    + intros k0 I0. destruct (K2 _ I k0 I0) as (A & B & C). rewrite !upd_neq by lia. repeat split; [exact A|lia|exact C].
    + intros t0 k0 F. destruct (K3 _ I t0 k0 F) as (A & B & C & D). rewrite !upd_neq by lia. repeat split; [exact A|exact B|lia|exact D].
    + intros k0 c0 E. unfold livec. psel. destruct (Nat.eq_dec k0 (nexts s)) as [->|NK].
      * rewrite upd_eq in E. inversion E; subst c0. rewrite upd_eq. repeat split; [lia|exact S1|rewrite L1; discriminate].
      * rewrite upd_neq in E by exact NK. destruct (K5 _ I k0 c0 E) as (A & B & [C1 C2]).
        assert (c0 <> c) by (intro X; subst; congruence).
        rewrite upd_neq by assumption. destruct (SO c0 H) as [X Y]. repeat split; [exact A|lia|congruence|congruence].
    + intros c0 [C1 C2]. psel. destruct (Nat.eq_dec c0 c) as [->|NC].
      * exists (nexts s). rewrite !upd_eq. auto.
      * destruct (SO c0 NC) as [X Y]. destruct (K6 _ I c0) as (k0 & A & B); [split; congruence|].
        exists k0. rewrite upd_neq by exact NC. split; [exact A|]. rewrite upd_neq by (intro Z; subst; congruence). exact B.
  - (* PPut0 *) destruct (op s t) eqn:O; try discriminate. destruct (drop_of (base s) t) as [[c a]|] eqn:D; [|discriminate].
    destruct (sof s c) as [k|] eqn:SF; [|discriminate]. destruct (step (base s) a) as [b'|] eqn:ST; [|discriminate].
    destruct (custom s k) eqn:CU; [discriminate|]. inversion H; subst; clear H.
    destruct (drop_effect _ _ _ _ _ (KP _ I) D ST) as (L0 & S0 & L1 & S1 & SO).
    destruct (K6 _ I c (conj S0 L0)) as (k0 & A0 & OW). assert (k0 = k) by congruence. subst k0.
    destruct (K5 _ I k c OW) as (_ & KN & _).
    constructor; psel.
    + eapply pinv_step; [apply I|exact ST].
    + apply I.
    + intros k0 I0. destruct (K2 _ I k0 I0) as (A & B & C). rewrite upd_neq by (intro X; subst; congruence). auto.
    + intros t0 k0 F. flt. destruct (Nat.eq_dec t0 t) as [->|N]; [rewrite upd_eq in F; inversion F; subst k0|rewrite upd_neq in F by exact N].
      * rewrite upd_eq. repeat split; auto. intro X. destruct (K2 _ I k X). congruence.
      * destruct (K3 _ I t0 k0 F) as (A & B & C & E). rewrite upd_neq by (intro X; subst; congruence). auto.
    + intros t0 t1 k0 F0 F1. flt.
      destruct (Nat.eq_dec t0 t) as [->|N0]; [rewrite upd_eq in F0; inversion F0; subst k0|rewrite upd_neq in F0 by exact N0];
      (destruct (Nat.eq_dec t1 t) as [->|N1]; [rewrite upd_eq in F1; inversion F1; subst|rewrite upd_neq in F1 by exact N1]);
      try reflexivity.
      * exfalso. destruct (K3 _ I t1 k F1). congruence.
      * exfalso. destruct (K3 _ I t0 _ F0). congruence.
      * apply (K4 _ I t0 t1 k0); assumption.
    + intros k0 c0 E. unfold livec. psel. destruct (Nat.eq_dec k0 k) as [->|NK]; [rewrite upd_eq in E; discriminate|rewrite upd_neq in E by exact NK].
      destruct (K5 _ I k0 c0 E) as (A & B & [C1 C2]). assert (c0 <> c) by (intro X; subst; congruence).
      destruct (SO c0 H) as [X Y]. repeat split; [exact A|exact B|congruence|congruence].
    + intros c0 [C1 C2]. psel. assert (NC : c0 <> c) by (intro X; subst; congruence).
      destruct (SO c0 NC) as [X Y]. destruct (K6 _ I c0) as (k0 & A & B); [split; congruence|].
      exists k0. split; [exact A|]. rewrite upd_neq by (intro Z; subst; congruence). exact B.
    + pose proof (K8 _ I) as E8. destruct (put_ok cap (psize s)); lia.
  - (* PPut1 *) destruct (op s t) eqn:O; try discriminate.
    assert (FT : flight s t = Some k) by (unfold flight; rewrite O; reflexivity).
    destruct (K3 _ I t k FT) as (OK & NP & KN & CK).
    destruct ok; inversion H; subst; clear H; constructor; psel; try apply I.
    + apply nodup_snoc; [apply I|exact NP].
    + intros k0 I0. apply in_snoc in I0. destruct I0 as [I0| ->]; [apply (K2 _ I); exact I0|auto].
    + intros t0 k0 F. flt. destruct (Nat.eq_dec t0 t) as [->|N]; [rewrite upd_eq in F; discriminate|rewrite upd_neq in F by exact N].
      destruct (K3 _ I t0 k0 F) as (A & B & C & E). repeat split; auto. intro X. apply in_snoc in X. destruct X as [X| ->]; [tauto|].
      apply N. apply (K4 _ I t0 t k); assumption.
    + intros t0 t1 k0 F0 F1. flt.
      destruct (Nat.eq_dec t0 t) as [->|N0]; [rewrite upd_eq in F0; discriminate|rewrite upd_neq in F0 by exact N0].
      destruct (Nat.eq_dec t1 t) as [->|N1]; [rewrite upd_eq in F1; discriminate|rewrite upd_neq in F1 by exact N1].
      apply (K4 _ I t0 t1 k0); assumption.
    + rewrite (K8 _ I), app_length. cbn [length]. lia.
    + intros t0 k0 F. flt. destruct (Nat.eq_dec t0 t) as [->|N]; [rewrite upd_eq in F; discriminate|rewrite upd_neq in F by exact N].
      apply (K3 _ I t0). exact F.
    + intros t0 t1 k0 F0 F1. flt.
      destruct (Nat.eq_dec t0 t) as [->|N0]; [rewrite upd_eq in F0; discriminate|rewrite upd_neq in F0 by exact N0].
      destruct (Nat.eq_dec t1 t) as [->|N1]; [rewrite upd_eq in F1; discriminate|rewrite upd_neq in F1 by exact N1].
      apply (K4 _ I t0 t1 k0); assumption.
    + rewrite (K8 _ I). lia.
  - (* PDropCustom *) destruct (op s t) eqn:O; try discriminate. destruct (drop_of (base s) t) as [[c a]|] eqn:D; [|discriminate].
    destruct (sof s c) as [k|] eqn:SF; [|discriminate]. destruct (custom s k) eqn:CU; [|discriminate].
    destruct (step (base s) a) as [b'|] eqn:ST; [|discriminate]. inversion H; subst; clear H.
    destruct (drop_effect _ _ _ _ _ (KP _ I) D ST) as (L0 & S0 & L1 & S1 & SO).
    destruct (K6 _ I c (conj S0 L0)) as (k0 & A0 & OW). assert (k0 = k) by congruence. subst k0.
    constructor; psel; try apply I.
    + eapply pinv_step; [apply I|exact ST].
    + intros k0 I0. destruct (K2 _ I k0 I0) as (A & B & C). rewrite upd_neq by (intro X; subst; congruence). auto.
    + intros t0 k0 F. destruct (K3 _ I t0 k0 F) as (A & B & C & E). rewrite upd_neq by (intro X; subst; congruence). auto.
    + intros k0 c0 E. unfold livec. psel. destruct (Nat.eq_dec k0 k) as [->|NK]; [rewrite upd_eq in E; discriminate|rewrite upd_neq in E by exact NK].
      destruct (K5 _ I k0 c0 E) as (A & B & [C1 C2]). assert (c0 <> c) by (intro X; subst; congruence).
      destruct (SO c0 H) as [X Y]. repeat split; [exact A|exact B|congruence|congruence].
    + intros c0 [C1 C2]. psel. assert (NC : c0 <> c) by (intro X; subst; congruence).
      destruct (SO c0 NC) as [X Y]. destruct (K6 _ I c0) as (k0 & A & B); [split; congruence|].
      exists k0. split; [exact A|]. rewrite upd_neq by (intro Z; subst; congruence). exact B.
  - (* PBase *) destruct (is_spawn a || is_drop (base s) a) eqn:G; [discriminate|]. apply orb_false_iff in G. destruct G as [G1 G2].
    destruct (step (base s) a) as [b'|] eqn:ST; [|discriminate]. inversion H; subst; clear H.
    pose proof (base_frame_sd _ _ _ (KP _ I) ST G1 G2) as FR.
    constructor; psel; try apply I.
    + eapply pinv_step; [apply I|exact ST].
    + intros k c E. destruct (K5 _ I k c E) as (A & B & [C1 C2]). unfold livec. psel. destruct (FR c) as [X Y].
      repeat split; [exact A|exact B|congruence|]. intro Z. apply C2. apply Y. exact Z.
    + intros c [C1 C2]. psel. destruct (FR c) as [X Y]. apply (K6 _ I). split; [congruence|]. intro Z. apply C2. apply Y. exact Z.
Qed.

End PoolInv.

Section PoolThms.
Variable cap : Z.
Notation PReach := (PReach cap).

(* the overlay adds nothing to SchedModel: every state of a run with the pool is a state of SchedModel, so every
   theorem of C01 / C13 (ii) holds for coroutines that run on reused stacks *)
Theorem preach_base w n s : PReach w n s -> Reach w (base s).
Proof.
  induction 1 as [|s a s' R IH H]; [apply R0|].
  destruct a; cbn [PoolModel.pstep] in H.
  all: repeat match type of H with
       | match ?x with _ => _ end = Some _ => destruct x eqn:?; try discriminate
       | (if ?x then _ else _) = Some _ => destruct x eqn:?; try discriminate
       end.
  all: inversion H; subst; clear H; cbn [base mkp set_op]; try exact IH.
  all: eapply RS; eassumption.
Qed.

Theorem kinv_reach w n s : PReach w n s -> KInv s.
Proof. induction 1; [apply kinv_init | eapply kinv_step; eassumption]. Qed.

(* two live coroutines never run on the same stack *)
Theorem stack_exclusive w n s c c' k : PReach w n s ->
  livec s c -> livec s c' -> sof s c = Some k -> sof s c' = Some k -> c = c'.
Proof.
  intros R L L' S S'. pose proof (kinv_reach _ _ _ R) as I.
  destruct (K6 _ I c L) as (k0 & A & B). destruct (K6 _ I c' L') as (k1 & A' & B').
  assert (k0 = k) by congruence. assert (k1 = k) by congruence. subst. congruence.
Qed.

(* a cached stack, and a stack a thread holds inside get() / put(), is not the stack of any live coroutine: when a
   spawn takes it, its previous occupant - however it ended: returned, panicked, cancelled - is gone *)
Theorem pooled_stack_is_unused w n s k c : PReach w n s -> In k (pool s) -> livec s c -> sof s c <> Some k.
Proof.
  intros R P L S. pose proof (kinv_reach _ _ _ R) as I.
  destruct (K6 _ I c L) as (k0 & A & B). assert (k0 = k) by congruence. subst. destruct (K2 _ I k P). congruence.
Qed.
Theorem stack_in_hand_is_unused w n s t k c : PReach w n s -> flight s t = Some k -> livec s c -> sof s c <> Some k.
Proof.
  intros R F L S. pose proof (kinv_reach _ _ _ R) as I.
  destruct (K6 _ I c L) as (k0 & A & B). assert (k0 = k) by congruence. subst. destruct (K3 _ I t k F). congruence.
Qed.
Theorem spawn_gets_a_stack_nobody_uses w n s t c id local s' k : PReach w n s ->
  op s t = OGot k -> pstep cap s (PSpawn t c id local) = Some s' ->
  sof s' c = Some k /\ owner s' k = Some c /\ livec s' c /\ (forall c', livec s c' -> sof s c' <> Some k) /\ ~ In k (pool s).
Proof.
  intros R O H. pose proof (kinv_reach _ _ _ R) as I.
  assert (F : flight s t = Some k) by (unfold flight; rewrite O; reflexivity).
  cbn [PoolModel.pstep] in H. rewrite O in H. destruct (step (base s) (ASpawn t c id local)) as [b'|] eqn:ST; [|discriminate].
  inversion H; subst; clear H. cbn [sof owner mkp]. rewrite !upd_eq.
  destruct (spawn_effect _ _ _ _ _ _ ST) as (_ & S1 & L1 & _).
  split; [reflexivity|]. split; [reflexivity|]. split; [split; cbn [base mkp]; [exact S1|rewrite L1; discriminate]|].
  split; [intros c' L; eapply stack_in_hand_is_unused; eassumption|]. apply (K3 _ I t k F).
Qed.

(* pool.get never fails and never blocks; pool.put (the drop) too *)
Theorem get_always_proceeds s t : op s t = OIdle \/ op s t = OG1 \/ op s t = OG2 ->
  exists a s', (a = PGet0 t \/ a = PGet1 t \/ a = PGet2 t) /\ pstep cap s a = Some s'.
Proof.
  intros [O|[O|O]].
  - exists (PGet0 t). eexists. split; [auto|]. cbn. rewrite O. reflexivity.
  - exists (PGet1 t). destruct (pool s) eqn:P; eexists; (split; [auto|]); cbn; rewrite O, P; reflexivity.
  - exists (PGet2 t). eexists. split; [auto|]. cbn. rewrite O. reflexivity.
Qed.
Theorem put_always_completes s t c k ok : op s t = OP1 c k ok -> exists s', pstep cap s (PPut1 t) = Some s' /\ op s' t = OIdle.
Proof. intro O. cbn. rewrite O. destruct ok; eexists; (split; [reflexivity|]); cbn; apply upd_eq. Qed.

(* the counter: size = cached + puts in flight - gets in flight *)
Theorem size_accounting w n s : PReach w n s -> psize s = (Z.of_nat (length (pool s)) + pp s + px s - pg s)%Z.
Proof. intro R. apply (K8 _ (kinv_reach _ _ _ R)). Qed.

End PoolThms.

(* non-vacuity / replay: one worker (thread 1), pool capacity 1 with stack 0 cached.  main takes stack 0 for
   coroutine 1; its body panics with 7; the drop puts stack 0 back; main's next spawn (coroutine 2) gets the SAME
   stack 0, runs on the same worker, returns 5, is dropped; join(1) = Err(7), join(2) = Ok(5). *)
Definition b (a : action) := PBase a.
Definition reuse_sched : list paction :=
  [PGet0 0; PGet1 0; PSpawn 0 1 None false; b (AStep 0); b (AStep 0); b (AStep 0); b (Grab 1 (QG 0)); b (Resume 1 1);
   b (APanic 1 (Some 7%Z)); b (AStep 1); b (AStep 1); b (AStep 1); PPut0 1; PPut1 1;
   PGet0 0; PGet1 0; PSpawn 0 2 None false; b (AStep 0); b (AStep 0); b (AStep 0); b (Grab 1 (QG 0)); b (Resume 1 2);
   b (AFinish 1 5%Z); b (AStep 1); b (AStep 1); b (AStep 1); b (AStep 1); PPut0 1; PPut1 1; b (KSubscribed 1);
   b (AJoin 0 1 MJoin); b (AStep 0); b (AStep 0); b (AStep 0); b (AJoin 0 2 MJoin); b (AStep 0); b (AStep 0)].
Example reuse_after_panic_run :
  exists s, psteps 1 (pinit 1 1) reuse_sched = Some s /\ PReach 1 1 1 s /\
    sof s 1 = Some 0 /\ sof s 2 = Some 0 /\ pool s = [0] /\ psize s = 1%Z /\ nexts s = 1 /\
    jret (co (base s) 1) = Some (RPan 7%Z) /\ jret (co (base s) 2) = Some (RVal 5%Z) /\
    bodycnt (co (base s) 2) = 1 /\ stk (base s) 1 = [] /\ dead (base s) = [2; 1].
Proof.
  destruct (psteps 1 (pinit 1 1) reuse_sched) as [s|] eqn:E; [|vm_compute in E; discriminate].
  exists s. split; [reflexivity|]. split; [eapply psteps_reach; [apply PR0|exact E]|].
  vm_compute in E. inversion E; subst; clear E. cbn. repeat split.
Qed.
