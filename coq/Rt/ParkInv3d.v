(* C02 - Inv3 is preserved: actions ACnOr, ACnTakeCo, ACnTake, ACnSched, ATFire, ATDrop, ATTake, ATRun, ATick *)
From Coq Require Import List ZArith Bool Arith Lia.
Import ListNotations.
Require Import MayV.Rt.AtomicDur MayV.Base.BlockerSpec MayV.Rt.ParkModel MayV.Rt.ParkTac MayV.Rt.ParkInv1 MayV.Rt.ParkInv2 MayV.Rt.ParkInv3Def.
Open Scope Z_scope.

Lemma inv3_ACnOr s s' : forall i, Inv1 s -> Inv2 s -> Inv3 s -> stepF s (ACnOr i) = Some s' -> Inv3 s'.
Proof. intros i. intro3. step3 Ipl H. Qed.

Lemma inv3_ACnTakeCo s s' : forall i, Inv1 s -> Inv2 s -> Inv3 s -> stepF s (ACnTakeCo i) = Some s' -> Inv3 s'.
Proof. intros i. intro3. step3 Ipl H. Qed.

Lemma inv3_ACnTake s s' : forall i, Inv1 s -> Inv2 s -> Inv3 s -> stepF s (ACnTake i) = Some s' -> Inv3 s'.
Proof. intros i. intro3. step3 Ipl H. Qed.

Lemma inv3_ACnSched s s' : forall i, Inv1 s -> Inv2 s -> Inv3 s -> stepF s (ACnSched i) = Some s' -> Inv3 s'.
Proof. intros i. intro3. step3 Ipl H. Qed.

Lemma inv3_ATFire s s' : forall i, Inv1 s -> Inv2 s -> Inv3 s -> stepF s (ATFire i) = Some s' -> Inv3 s'.
Proof. intros i. intro3. step3 Ipl H. Qed.

Lemma inv3_ATDrop s s' : forall i, Inv1 s -> Inv2 s -> Inv3 s -> stepF s (ATDrop i) = Some s' -> Inv3 s'.
Proof. intros i. intro3. step3 Ipl H. Qed.

Lemma inv3_ATTake s s' : forall i, Inv1 s -> Inv2 s -> Inv3 s -> stepF s (ATTake i) = Some s' -> Inv3 s'.
Proof. intros i. intro3. step3 Ipl H. Qed.

Lemma inv3_ATRun s s' : forall i, Inv1 s -> Inv2 s -> Inv3 s -> stepF s (ATRun i) = Some s' -> Inv3 s'.
Proof. intros i. intro3. step3 Ipl H. Qed.

Lemma inv3_ATick s s' : forall d, Inv1 s -> Inv2 s -> Inv3 s -> stepF s (ATick d) = Some s' -> Inv3 s'.
Proof. intros d. intro3. step3 Ipl H. Qed.

