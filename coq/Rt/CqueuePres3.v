(* Preservation of the per-event clauses of the CqueueModel invariant. *)
From Coq Require Import List Arith Bool ZArith Lia.
Import ListNotations.
Require Import MayV.Rt.CqueueModel MayV.Rt.CqueueInv MayV.Rt.CqueueTac.

Lemma pres_E_cnt s ac s' : Inv s -> step current s ac = Some s' ->
  forall e, epop s' e <= epush s' e /\ epush s' e = (if kpost (kpc s' e) then 1 else 0).
Proof.
  intros I H e0. pose proof (E_cnt _ I) as Q. start I H.
  all: upds; simp; pcs; fin; try apply Q.
  all: try (match goal with E : kpc ?s ?e = _ |- _ => let X := fresh in pose proof (Q e) as X; rewrite E in X; cbn [kpost] in X; intuition lia end).
  all: try (match goal with |- context [epop ?s ?e] => destruct (Q e); try (destruct (QEnew e); [lia|]); split; fin end).
Qed.

Lemma pres_E_arm s ac s' : Inv s -> step current s ac = Some s' ->
  forall e, e < nexte s' -> earm s' e < nexta s' /\ 1 <= ernd s' e /\ ernd s' e <= tops s' (earm s' e).
Proof.
  intros I H e0. pose proof (E_arm _ I) as Q. pose proof (A_ctr _ I) as QC. start I H.
  all: try newarm; upds; simp; pcs; fin; try apply Q.
  all: intros L; try (specialize (Q _ L)); fin.
  all: try (match goal with E : pc ?s ?a = AS1 |- _ => let X := fresh in pose proof (QC a) as X; rewrite E in X; cbn [ctr] in X; try lia end).
  all: try (apply Q; lia).
Qed.

Lemma pres_A_susp s ac s' : Inv s -> step current s ac = Some s' ->
  forall a, pc s' a = ASusp -> acur s' a < nexte s' /\ earm s' (acur s' a) = a /\ epop s' (acur s' a) = 0 /\ ernd s' (acur s' a) = tops s' a.
Proof.
  intros I H a0. pose proof (A_susp _ I) as Q. start I H.
  all: try newarm; upds; simp; pcs; fin; try apply Q.
  all: intros X; try (destruct (Q _ X) as (QA & QB & QC & QD)); try (destruct (QEnew (nexte s)); [lia|]); repeat split; fin.
Qed.

Lemma pres_E_pop0 s ac s' : Inv s -> step current s ac = Some s' ->
  forall e, e < nexte s' -> epop s' e = 0 -> pc s' (earm s' e) = ASusp /\ acur s' (earm s' e) = e.
Proof.
  intros I H e0. pose proof (E_pop0 _ I) as Q. pose proof (E_arm _ I) as QA. start I H.
  all: try newarm; upds; simp; pcs; fin; try apply Q.
  all: intros L P; try (assert (L' : e0 < nexte s) by lia; destruct (Q _ L' P) as [X Y]); try (split; congruence); fin.
Qed.

Lemma pres_E_pop1 s ac s' : Inv s -> step current s ac = Some s' -> forall e, epop s' e = 1 -> ernd s' e <= bots s' (earm s' e).
Proof.
  intros I H e0. pose proof (E_pop1 _ I) as Q. pose proof (A_susp _ I) as QS. pose proof (A_ctr _ I) as QC. start I H.
  all: try newarm; upds; simp; pcs; fin; try apply Q.
  all: intros P; try (specialize (Q _ P)); fin.
  all: try (destruct (QEnew (nexte s)); [lia|]; lia).
  all: try (match goal with HN : pc ?s (earm ?s ?e) = ASusp, HC : acur ?s (earm ?s ?e) = ?e |- _ =>
              destruct (QS _ HN) as (S1 & S2 & S3 & S4); rewrite HC in S4; pose proof (QC (earm s e)) as S5; rewrite HN in S5; cbn [ctr] in S5; lia end).
  all: try (match goal with E : earm ?s ?x = earm ?s ?y |- _ => rewrite <- E; lia end).
Qed.

Lemma pres_K_cnt s ac s' : Inv s -> step current s ac = Some s' ->
  forall a, kern s' a = cntif (fun e => Nat.eqb (earm s' e) a && kact4 (kpc s' e)) (nexte s').
Proof.
  intros I H a0. pose proof (K_cnt _ I) as Q. start I H.
  all: try newarm; simp; try apply Q.
  - (* a new event: its kernel half has not done its fetch_add yet *)
    cbn [cntif]. rewrite !upd_eq. cbn [kact4]. rewrite andb_false_r. cbn [Nat.add]. rewrite Q. apply cntif_ext.
    intros i Li. rewrite !upd_neq by lia. reflexivity.
  - match goal with L : ?e < nexte ?s |- _ => pose proof (cntif_kpc_upd s e K1 a0 L) as X end.
    rewrite Ek in X. cbn [kact4] in X. rewrite andb_false_r, andb_true_r in X. rewrite <- (Q a0) in X. unfold upd at 1.
    destruct (Nat.eqb_spec a0 (earm s e)) as [->|N]; [rewrite Nat.eqb_refl in X; lia|].
    destruct (Nat.eqb_spec (earm s e) a0); [congruence | lia].
  - match goal with L : ?e < nexte ?s |- _ => pose proof (cntif_kpc_upd s e K2 a0 L) as X end.
    rewrite Ek in X. cbn [kact4] in X. rewrite <- (Q a0) in X. lia.
  - match goal with L : ?e < nexte ?s |- _ => pose proof (cntif_kpc_upd s e K3 a0 L) as X end.
    rewrite Ek in X. cbn [kact4] in X. rewrite <- (Q a0) in X. lia.
  - match goal with L : ?e < nexte ?s |- _ => pose proof (cntif_kpc_upd s e K4 a0 L) as X end.
    rewrite Ek in X. cbn [kact4] in X. rewrite <- (Q a0) in X. lia.
  - match goal with L : ?e < nexte ?s |- _ => pose proof (cntif_kpc_upd s e K4 a0 L) as X end.
    rewrite Ek in X. cbn [kact4] in X. rewrite <- (Q a0) in X. lia.
  - match goal with L : ?e < nexte ?s |- _ => pose proof (cntif_kpc_upd s e KDone a0 L) as X end.
    rewrite Ek in X. cbn [kact4] in X. rewrite andb_false_r, andb_true_r in X. rewrite <- (Q a0) in X. unfold upd at 1.
    destruct (Nat.eqb_spec a0 (earm s e)) as [->|N]; [rewrite Nat.eqb_refl in X; lia|].
    destruct (Nat.eqb_spec (earm s e) a0); [congruence | lia].
Qed.
