(* Lock-step TRACE ACCEPTOR for the worker-loop model SchedLoopModel (C01, progress half).

   One recorded event `[code; actor; obj; val]` of the real runtime - actors are OS threads as numbered by the
   normaliser - is matched with one `lstep` of SchedLoopModel, with a short fixed sequence of them, or is a checked
   observation.  The model's parameters are those of the code as it is (`code_params`: push before wake-up, work
   stealing, RUN_BUDGET 256, GLOBAL_INTERVAL 64); cfg_tmo is taken from the scenario's `cfg` record.

   Visible (Rt/schedloop_sites.json):
     * the events of the worker loop (hooks of commit 755beaa): ep.wait / ep.ret / ep.evread / ep.run / ep.done of
       Selector::select, ep.wakeup of Selector::wakeup, sc.pop / sc.steal of run_queued_tasks, sc.collect / sc.batch /
       sc.collected of collect_global;
     * the life-cycle events of run_coroutine and of the closure wrapper (co.resume / co.yield / co.subscribed /
       co.done / co.body / co.body_end) and the scenario's sp.call / sp.ret around every spawn;
     * NEXT_THREAD_ID.fetch_add of schedule_global; the claiming CAS of may_queue::mpsc::Queue::push (the push into a
       global run queue: FIFO position = claim order, a claimed slot makes bulk_pop wait) and the tail load of
       push_index (the instant at which a bulk_pop finds the queue empty); the committing store of
       may_queue::spmc::Queue::push (push_back into a local run queue); Park::subscribe's wait_co.store / take and
       Park::wake_up's wait_co.take (the slot of a parked coroutine); for I/O (UDP read / send paths): io_data.co.store of
       the subscriber, data.co.take of Selector::select (LIoTake), event_data.co.take of timeout_handler (LTmTake),
       EventData::fast_schedule / schedule (KSelfTake / unparker); the `ready` store and the tail re-opening store of the
       mpsc push that closes a block (see mpsc_block below).
   The spmc operations pop / steal_into / has_tasks are NOT schedule points in the acceptor-tied runs (cfg.sched_files
   of the scenario: the atomic-FIFO abstraction of C04), so the pure record that follows them (sc.pop, sc.steal,
   ep.done) is their linearisation point.

   Control-point checks (an event that does not find the model where the code is, or whose value differs, is rejected):
     ep.wait(w, T)    model at PWait, tmo w = T exactly (None = u64::MAX); T <> 0: LPoll must BLOCK (model eventfd flag
                      clear: the real zero-timeout poll found nothing)
     ep.ret(w, n)     n = 0 only at the deadline of a blocked poll with the model's eventfd flag clear (LTimeout), or a
                      zero-timeout poll; model flag set => n >= 1; n beyond the eventfd event = I/O events
     ep.evread(w)     LEvRead: the eventfd event is among the returned ones (model flag was set at the poll)
     sc.collect(w)    model at PColl: after the eventfd read, after a None pop, or after exactly GLOBAL_INTERVAL
                      run_coroutine calls (LCoRet with the remaining budget a multiple of the interval) - never otherwise
     sc.batch(w, n)   n LBulkGrab (n <= model queue length, FIFO) + LBulkEnd; each following push_back is one LPut
     tail load        in PColl with an empty batch and an empty model queue: LBulkEnd (the empty bulk_pop);
     sc.collected(w)  only after that LBulkEnd: a collect_global that returns while the model's global queue is not empty
                      is rejected
     ep.run(w)        LEvDone (all events processed, budget := RUN_BUDGET)
     sc.pop(w, b)     LPop at PRun; b = 1 iff the model's local queue is not empty
     sc.steal(w, v)   failed attempts on the ring before v (LStEnd), k+1 LStGrab from victim v (k = push_backs seen during
                      the attempt), LStEnd, k LPut: the thief runs the last of the batch
     ep.done(w, v)    steal ring exhausted (LStEnd.., LStOut) or budget exhausted (LCoRet at budget 0); LTmDone; the
                      model's next timeout (0 iff its local queue is not empty - fix e723520 -, else next_expire or cfg_tmo)
                      must equal v (u64::MAX = cfg_tmo, i.e. `.or(Some(timeout_ns))` of EventLoop::run, checked again at
                      the next ep.wait)
     ep.wakeup(k)     by a pusher that has pushed into global queue k and owes the eventfd write: the spawner at SW k
                      (AStep, owed), the kernel half at KW k (KStep, owed), an unparker after its Wake (LAnonWake, anon);
                      or by the kernel half of an I/O subscriber before it has stored the coroutine (Selector::add_io_timer:
                      LSpurWake, no push); a wake-up by anybody else - in particular by a pusher that has not pushed yet -
                      is rejected
     run_coroutine    LResume at PRes (after sc.pop / sc.steal) - the coroutine resumed is the one the model popped;
                      LCoRet when the worker's next loop event arrives with its stack unwound
   sp.call(j, flags): flags bit 3 = Builder::id(flags >> 8): ASpawn with that id at once (schedule_global_with_id has no
   fetch_add).  Pushers: fetch_add fixes the target k = value mod workers; the spawner's ASpawn is taken at that moment (with the
   recorded counter value as explicit id when the model's round-robin counter differs: SchedModel does not count the
   fetch_add of anonymous wakers), the kernel half of a non-worker thread is KFA (or KStore + anonymous Wake when the
   counters differ).  co.body_end: AFinish and the wrapper's three accesses (the Join protocol is C01.v's acceptor);
   joins, channels, sleeps are plain park / wake-up here (AYield, KStore, Wake / TakeSlot).

   `accept_all_reach`: every accepted prefix is a run of SchedLoopModel: LReach (code_params t) n. *)
From Coq Require Import List Arith ZArith NArith Bool Lia.
Import ListNotations.
Require Import MayV.Rt.SchedModel MayV.Rt.SchedLoopModel.
Local Open Scope Z_scope.

Definition code_params (t : N) : params :=
  {| push_first := true; work_steal := true; cfg_tmo := t; budgeted := true; budget := 256%nat; interval := 64%nat |}.

(* what a thread that took a coroutine out of a slot / was asked to spawn still has to do *)
Inductive pend :=
  | PdNone
  | PdSpawn (j : nat)          (* sp.call seen: ASpawn is taken at the fetch_add *)
  | PdHeld (c : nat)           (* c taken out of its slot by Park::wake_up: push pending *)
  | PdHeldK (c k : nat)        (* schedule_global: target known *)
  | PdOwe (k : nat).           (* pushed into global queue k: eventfd write pending *)

Record aux := {
  wact : list (Z * nat);       (* trace actor -> worker id *)
  bindx : list (Z * nat);      (* coroutine identity in the trace -> model coroutine *)
  slotb : list (Z * nat);      (* slot object (Park.wait_co) -> the coroutine stored in it *)
  pnd : nat -> pend;           (* by model thread *)
  dfr : nat -> bool;           (* co.yield seen while the wrapper is about to return Done: decided by the next event *)
  stn : nat -> nat;            (* worker: push_backs seen during the steal attempt in progress *)
  cend : nat -> bool;          (* worker: the empty bulk_pop was seen, sc.collected expected *)
  gcl : nat -> nat;            (* global queue k: slots claimed so far, modulo the block size of may_queue::mpsc *)
  dfp : nat -> nat;            (* thread: it claimed the LAST slot of a block (1; 2 = `ready` stored): the push takes effect later *)
  dq : nat -> option nat }.    (* global queue k: the thread whose last-slot push is still to take effect *)

Definition aux0 := {| wact := []; bindx := []; slotb := []; pnd := fun _ => PdNone; dfr := fun _ => false;
                      stn := fun _ => 0%nat; cend := fun _ => false; gcl := fun _ => 0%nat; dfp := fun _ => 0%nat; dq := fun _ => None |}.
Definition x_wact x v := {| wact := v; bindx := bindx x; slotb := slotb x; pnd := pnd x; dfr := dfr x; stn := stn x; cend := cend x; gcl := gcl x; dfp := dfp x; dq := dq x |}.
Definition x_bindx x v := {| wact := wact x; bindx := v; slotb := slotb x; pnd := pnd x; dfr := dfr x; stn := stn x; cend := cend x; gcl := gcl x; dfp := dfp x; dq := dq x |}.
Definition x_slotb x v := {| wact := wact x; bindx := bindx x; slotb := v; pnd := pnd x; dfr := dfr x; stn := stn x; cend := cend x; gcl := gcl x; dfp := dfp x; dq := dq x |}.
Definition x_pnd x v := {| wact := wact x; bindx := bindx x; slotb := slotb x; pnd := v; dfr := dfr x; stn := stn x; cend := cend x; gcl := gcl x; dfp := dfp x; dq := dq x |}.
Definition x_dfr x v := {| wact := wact x; bindx := bindx x; slotb := slotb x; pnd := pnd x; dfr := v; stn := stn x; cend := cend x; gcl := gcl x; dfp := dfp x; dq := dq x |}.
Definition x_stn x v := {| wact := wact x; bindx := bindx x; slotb := slotb x; pnd := pnd x; dfr := dfr x; stn := v; cend := cend x; gcl := gcl x; dfp := dfp x; dq := dq x |}.
Definition x_cend x v := {| wact := wact x; bindx := bindx x; slotb := slotb x; pnd := pnd x; dfr := dfr x; stn := stn x; cend := v; gcl := gcl x; dfp := dfp x; dq := dq x |}.
Definition x_gcl x v := {| wact := wact x; bindx := bindx x; slotb := slotb x; pnd := pnd x; dfr := dfr x; stn := stn x; cend := cend x; gcl := v; dfp := dfp x; dq := dq x |}.
Definition x_dfp x v := {| wact := wact x; bindx := bindx x; slotb := slotb x; pnd := pnd x; dfr := dfr x; stn := stn x; cend := cend x; gcl := gcl x; dfp := v; dq := dq x |}.
Definition x_dq x v := {| wact := wact x; bindx := bindx x; slotb := slotb x; pnd := pnd x; dfr := dfr x; stn := stn x; cend := cend x; gcl := gcl x; dfp := dfp x; dq := v |}.
Definition set_pnd x t p := x_pnd x (upd (pnd x) t p).

Record ast := { al : lst; acfg : option N; ax : aux }.
Definition m_init : ast := {| al := linit 0; acfg := None; ax := aux0 |}.

Fixpoint lookup (X : Z) (l : list (Z * nat)) : option nat :=
  match l with [] => None | (y, j) :: r => if Z.eqb y X then Some j else lookup X r end.
Fixpoint bound_to (j : nat) (l : list (Z * nat)) : bool :=
  match l with [] => false | (_, i) :: r => Nat.eqb i j || bound_to j r end.
Fixpoint unbind (X : Z) (l : list (Z * nat)) : list (Z * nat) :=
  match l with [] => [] | (y, j) :: r => if Z.eqb y X then unbind X r else (y, j) :: unbind X r end.

Definition guardb {X} (b : bool) (p : option X) : option X := if b then p else None.
Definition umax : Z := 18446744073709551615.
Definition dec_tmo (v : Z) : option N := if Z.eqb v umax then None else Some (Z.to_N v).
Definition optN_eqb (a b : option N) : bool :=
  match a, b with Some x, Some y => N.eqb x y | None, None => true | _, _ => false end.
Definition is_pdnone (p : pend) : bool := match p with PdNone => true | _ => false end.

(* the model thread of a trace actor: a bound worker, or a thread beyond the workers *)
Definition thr (x : aux) (n : nat) (za : Z) : nat :=
  match lookup za (wact x) with Some w => w | None => (n + Z.to_nat za)%nat end.

(* actor za speaks as worker w: bound at its first loop event *)
Definition as_worker (x : aux) (n : nat) (za : Z) (w : nat) : option aux :=
  if Nat.ltb w n then
    match lookup za (wact x) with
    | Some w' => if Nat.eqb w' w then Some x else None
    | None => if bound_to w (wact x) then None else Some (x_wact x ((za, w) :: wact x))
    end
  else None.

Record plan := { acts : list laction; post : lst -> bool; nxt : aux }.
Definition P (l : list laction) (p : lst -> bool) (x : aux) : option plan := Some {| acts := l; post := p; nxt := x |}.
Definition tt_ (_ : lst) := true.
Definition B (l : list action) : list laction := map LBase l.

Definition top_run (s : st) (t : nat) : option nat := match stk s t with FRun c :: _ => Some c | _ => None end.
Definition agent_pc (s : st) (t : nat) : option pc := match cur s t with Some a => Some (apc s a) | None => None end.
Definition pc_at (l : lst) (w : nat) (f : lpc -> bool) : bool := f (wpc l w).

(* ---- steps taken before the event is looked at ---- *)
Definition try_act (Pm : params) (l : lst) (a : laction) : list laction * lst :=
  match lstep Pm l a with Some l' => ([a], l') | None => ([], l) end.

(* the worker's next loop event arrived: run_coroutine has returned (stack unwound), has_tasks was evaluated *)
Definition settle (Pm : params) (l : lst) (w : nat) : list laction :=
  let '(a1, l1) := if is_co (wpc l w) then try_act Pm l (LCoRet w) else ([], l) in
  let '(a2, _) := match wpc l1 w with PHas => try_act Pm l1 (LHas w) | _ => ([], l1) end in
  a1 ++ a2.

Definition is_loop_code (c : Z) : bool :=
  (Z.leb 40 c && Z.leb c 44) || (Z.leb 46 c && Z.leb c 50).

Definition pre_ev (Pm : params) (l : lst) (x : aux) (e : list Z) : list laction * aux :=
  match e with
  | [code; za; o; v] =>
      let t := thr x (nw (base l)) za in
      if dfr x t
      then (B [if Z.eqb code 15 then AStep t else AYield t], x_dfr x (upd (dfr x) t false))
      else if is_loop_code code then (settle Pm l (Z.to_nat o), x)
      else if Z.eqb code 69 then (settle Pm l t, x) else ([], x)
  | _ => ([], x)
  end.

(* first victim index i' >= i of worker w's steal ring that is `tgt` *)
Fixpoint find_victim (fuel n w tgt i : nat) : option nat :=
  match fuel with
  | O => None
  | S f => if Nat.ltb i (maxst n) then (if Nat.eqb (victim n w i) tgt then Some i else find_victim f n w tgt (S i)) else None
  end.

(* coroutine c is held by the kernel half of thread a that is about to store it (Sleep::subscribe has no recorded store) *)
Definition release (s : st) (c : nat) : list action :=
  match loc (co s c) with
  | LH a => match stk s a with FKer c' K0 :: _ => if Nat.eqb c' c then [KStore a] else [] | _ => [] end
  | _ => [] end.

Definition has_frame (c : nat) (l : list frame) : bool :=
  existsb (fun f => match f with FRun c' | FKer c' _ | FPan c' => Nat.eqb c' c end) l.

Definition bind_co (X : Z) (c : nat) (x : aux) : option aux :=
  match lookup X (bindx x) with
  | Some c' => if Nat.eqb c' c then Some x else None
  | None => if bound_to c (bindx x) || Z.eqb X 0 then None else Some (x_bindx x ((X, c) :: bindx x))
  end.

(* BLOCK_SIZE of may_queue::mpsc.  The push that claims the LAST slot of a block only sets the closing bit of the tail word:
   push_index() does not count the slot until the pusher re-opens the tail (`self.tail.0.store(next_block)`), and nobody else
   can claim a slot in between.  A bulk_pop whose try_get finds the slot not ready and whose tail load still sees the closed
   word returns EMPTY; one whose try_get finds it ready takes it.  So that push takes effect (C03: is linearised) between its
   `ready` store and its re-opening store: here at the re-opening store, or earlier at the sc.batch that contains it. *)
Definition mpsc_block : nat := 64.

(* the push into a global run queue that thread t is about to make: queue, model action, bookkeeping *)
Definition push_of (s : st) (x : aux) (t : nat) : option (nat * list laction * aux) :=
  match pnd x t with
  | PdHeldK c k => Some (k, B [Wake c (QG k)], set_pnd x t (PdOwe k))
  | PdNone =>
      match stk s t with
      | FKer _ (KG k) :: _ => Some (k, B [KStep t], x)
      | FKer _ _ :: _ => None
      | FPan _ :: _ => None
      | _ => match agent_pc s t with
             | Some (SP _ k) => Some (k, B [AStep t], x)
             | _ => None end
      end
  | _ => None end.

Definition plan_ev (l : lst) (x : aux) (ct : N) (e : list Z) : option plan :=
  let s := base l in
  let n := nw s in
  match e with
  | [code; za; o; v] =>
    let t := thr x n za in
    match code with
    (* ---- scenario ---- *)
    | 1 => let j := Z.to_nat o in
           guardb (is_pdnone (pnd x t) && negb (spawned (co s j)))
             (if Z.testbit v 3
              then P (B [ASpawn t j (Some (Z.to_nat (Z.shiftr v 8))) false]) tt_ x     (* Builder::id: schedule_global_with_id *)
              else P [] tt_ (set_pnd x t (PdSpawn j)))
    | 2 => guardb (is_pdnone (pnd x t) && spawned (co s (Z.to_nat o)))
             (match agent_pc s t with Some Idle => P [] tt_ x | _ => None end)
    (* ---- worker loop: Selector::select ---- *)
    | 40 => let w := Z.to_nat o in
            match as_worker x n za w, wpc l w with
            | Some x1, PWait =>
                guardb (optN_eqb (tmo l w) (dec_tmo v) && negb (cend x w))
                  (if is_zero (tmo l w) then P [] tt_ x1
                   else P [LPoll w false] (fun l' => match wpc l' w with PSleep => true | _ => false end) x1)
            | _, _ => None end
    | 41 => let w := Z.to_nat o in
            let nmin := if evfd l w then 1 else 0 in
            let io := Z.ltb nmin v in
            match as_worker x n za w with
            | Some x1 =>
              guardb (Z.leb nmin v && negb (cend x w))
                (match wpc l w with
                 | PWait => P [LPoll w io] (fun l' => match wpc l' w with PEvs _ => true | _ => false end) x1
                 | PSleep => if Z.eqb v 0
                             then match dl l w with
                                  | Some d => P [LTick (d - now l)%N; LTimeout w] tt_ x1
                                  | None => None end
                             else P [LWake w io] tt_ x1
                 | _ => None end)
            | None => None end
    | 42 => let w := Z.to_nat o in
            match as_worker x n za w with
            | Some x1 => guardb (negb (cend x w)) (P [LEvRead w] tt_ x1)
            | None => None end
    | 43 => let w := Z.to_nat o in
            match as_worker x n za w with
            | Some x1 => guardb (negb (cend x w)) (P [LEvDone w] tt_ x1)
            | None => None end
    | 44 => let w := Z.to_nat o in
            match as_worker x n za w with
            | Some x1 =>
              let ring := match wpc l w with
                          | PSteal i => Some (repeat (LStEnd w) (maxst n - i)%nat ++ [LStOut w])
                          | PTim => Some []
                          | _ => None end in
              let nx := if Z.eqb v 0 then Some 0%N else dec_tmo v in
              let expect := if Z.eqb v umax then ct else Z.to_N v in
              match ring with
              | Some r => guardb (negb (cend x w) && Nat.eqb (stn x w) 0)
                            (P (r ++ [LTmDone w nx]) (fun l' => optN_eqb (tmo l' w) (Some expect)) x1)
              | None => None end
            | None => None end
    (* ---- run_queued_tasks / collect_global ---- *)
    | 46 => let w := Z.to_nat o in
            match as_worker x n za w, wpc l w with
            | Some x1, PRun =>
                guardb (negb (cend x w))
                  (P [LPop w] (fun l' => match wpc l' w with
                                         | PRes RRun => Z.eqb v 1
                                         | PColl FromRun => Z.eqb v 0
                                         | _ => false end) x1)
            | _, _ => None end
    | 47 => let w := Z.to_nat o in
            let tgt := Z.to_nat v in
            match as_worker x n za w, wpc l w with
            | Some x1, PSteal i =>
                match find_victim 4 n w tgt i with
                | Some i' =>
                    let k := stn x w in
                    guardb (negb (cend x w))
                      (P (repeat (LStEnd w) (i' - i)%nat ++ repeat (LStGrab w) (S k) ++ [LStEnd w] ++ repeat (LPut w) k)
                         (fun l' => match wpc l' w with PRes RSt => true | _ => false end)
                         (x_stn x1 (upd (stn x1) w 0%nat)))
                | None => None end
            | _, _ => None end
    | 48 => let w := Z.to_nat o in
            match as_worker x n za w, wpc l w with
            | Some x1, PColl _ => guardb (negb (cend x w) && is_nil (hand s w)) (P [] tt_ x1)
            | _, _ => None end
    | 49 => let w := Z.to_nat o in
            match as_worker x n za w, wpc l w with
            | Some x1, PColl _ =>
                (* a batch longer than the model's queue: it contains the ready last slot of a block whose pusher has not
                   re-opened the tail yet *)
                let early := if Nat.ltb (length (gq s w)) (Z.to_nat v)
                             then match dq x1 w with
                                  | Some t' => if Nat.eqb (dfp x1 t') 2
                                               then match push_of s x1 t' with
                                                    | Some (_, a, x2) => Some (a, x_dq (x_dfp x2 (upd (dfp x2) t' 0%nat)) (upd (dq x2) w None))
                                                    | None => None end
                                               else None
                                  | None => None end
                             else Some ([], x1) in
                match early with
                | Some (a, x2) =>
                    guardb (negb (cend x w) && is_nil (hand s w) && Z.ltb 0 v)
                      (P (a ++ repeat (LBulkGrab w) (Z.to_nat v) ++ [LBulkEnd w])
                         (fun l' => match wpc l' w with PPut _ => true | _ => false end) x2)
                | None => None end
            | _, _ => None end
    | 50 => let w := Z.to_nat o in
            match as_worker x n za w with
            | Some x1 => guardb (cend x w) (P [] tt_ (x_cend x1 (upd (cend x1) w false)))
            | None => None end
    (* ---- Selector::wakeup ---- *)
    | 45 => let k := Z.to_nat o in
            match pnd x t with
            | PdOwe k' => guardb (Nat.eqb k' k) (P [LAnonWake k] tt_ (set_pnd x t PdNone))
            | PdNone =>
                match stk s t with
                | FKer _ (KW k') :: _ => guardb (Nat.eqb k' k) (P (B [KStep t]) tt_ x)
                | FKer _ K0 :: _ => P [LSpurWake k] tt_ x      (* Selector::add_io_timer: a new earliest I/O timer *)
                | FKer _ _ :: _ => None
                | FPan _ :: _ => None
                | _ => match agent_pc s t with
                       | Some (SW k') => guardb (Nat.eqb k' k) (P (B [AStep t]) tt_ x)
                       | _ => None end
                end
            | _ => None end
    (* ---- schedule_global: NEXT_THREAD_ID.fetch_add ---- *)
    | 31 => let k := (Z.to_nat v mod n)%nat in
            let same := Nat.eqb (rr s mod n) k in
            match pnd x t with
            | PdSpawn j =>
                P (B (if same then [ASpawn t j None false; AStep t] else [ASpawn t j (Some (Z.to_nat v)) false]))
                  (fun l' => match agent_pc (base l') t with Some (SP c k') => Nat.eqb c j && Nat.eqb k' k | _ => false end)
                  (set_pnd x t PdNone)
            | PdHeld c => P [] tt_ (set_pnd x t (PdHeldK c k))
            | PdNone =>
                match stk s t with
                | FKer c K0 :: _ => if same then P (B [KFA t]) tt_ x else P (B [KStore t]) tt_ (set_pnd x t (PdHeldK c k))
                | _ => None end
            | _ => None end
    (* ---- may_queue::mpsc::Queue::push: the claiming CAS ---- *)
    | 60 => if Z.eqb v 0 then P [] tt_ x else
            match push_of s x t with
            | Some (k, a, x1) =>
                if Nat.eqb (S (gcl x k)) mpsc_block
                then P [] tt_ (x_dq (x_dfp (x_gcl x (upd (gcl x) k 0%nat)) (upd (dfp x) t 1%nat)) (upd (dq x) k (Some t)))
                else P a tt_ (x_gcl x1 (upd (gcl x1) k (S (gcl x1 k))))
            | None => P [] tt_ x end            (* another mpsc queue: channel, timer, free list *)
    (* ---- BlockNode::set: the `ready` store of a push that closed a block ---- *)
    | 67 => if Nat.eqb (dfp x t) 1 then P [] tt_ (x_dfp x (upd (dfp x) t 2%nat)) else P [] tt_ x
    (* ---- Queue::push: the store that re-opens the tail: the push that closed the block takes effect (if no batch took it) ---- *)
    | 68 => if Nat.eqb (dfp x t) 0 then P [] tt_ x
            else match push_of s x t with
                 | Some (k, a, x1) => P a tt_ (x_dq (x_dfp x1 (upd (dfp x1) t 0%nat)) (upd (dq x1) k None))
                 | None => None end
    (* ---- may_queue::mpsc::Queue::push_index: tail load (bulk_pop found no ready slot) ---- *)
    | 61 => if Nat.ltb t n && negb (cend x t) && is_nil (hand s t) && is_nil (gq s t)
            then match wpc l t with
                 | PColl _ => P [LBulkEnd t] tt_ (x_cend x (upd (cend x) t true))
                 | _ => P [] tt_ x end
            else P [] tt_ x
    (* ---- may_queue::spmc::Queue::push: the committing store (local run queue of worker t) ---- *)
    | 62 => guardb (Nat.ltb t n)
              (match wpc l t with
               | PPut _ | PIo _ => P [LPut t] tt_ x
               | PSteal _ => P [] tt_ (x_stn x (upd (stn x) t (S (stn x t))))
               | PCo _ =>
                   match pnd x t with
                   | PdHeld c => P (B [Wake c (QL t)]) tt_ (set_pnd x t PdNone)
                   | PdNone => match stk s t with
                               | FKer _ K0 :: _ => P (B [KLocal t]) tt_ x
                               | _ => None end
                   | _ => None end
               | _ => None end)
    (* ---- Park: the slot of a parked coroutine ---- *)
    | 63 => match stk s t with
            | FKer c K0 :: _ => guardb (is_pdnone (pnd x t)) (P (B [KStore t]) tt_ (x_slotb x ((o, c) :: unbind o (slotb x))))
            | _ => None end
    | 64 => if Z.eqb v 0 then P [] tt_ x else
            match stk s t, lookup o (slotb x) with
            | FKer c KRe :: _, Some c' => guardb (Nat.eqb c c') (P (B [KSelfTake t]) tt_ (x_slotb x (unbind o (slotb x))))
            | _, _ => None end
    | 65 => if Z.eqb v 0 then P [] tt_ x else
            match lookup o (slotb x) with
            | Some c => guardb (is_pdnone (pnd x t) && memb c (slots s))
                          (P [] tt_ (set_pnd (x_slotb x (unbind o (slotb x))) t (PdHeld c)))
            | None => None end
    (* ---- Selector::select: data.co.take() of an I/O event ---- *)
    | 66 => if Z.eqb v 0 then P [] tt_ x else
            match lookup o (slotb x), wpc l t with
            | Some c, PEvs _ => guardb (Nat.ltb t n) (P (map LBase (release s c) ++ [LIoTake t c]) tt_ (x_slotb x (unbind o (slotb x))))
            | _, _ => None end
    (* ---- timeout_handler of schedule_timer: event_data.co.take() of an expired I/O timer ---- *)
    | 69 => if Z.eqb v 0 then P [] tt_ x else
            let ring := match wpc l t with
                        | PSteal i => Some (repeat (LStEnd t) (maxst n - i)%nat ++ [LStOut t])
                        | PTim => Some []
                        | _ => None end in
            match lookup o (slotb x), ring with
            | Some c, Some r => guardb (Nat.ltb t n && negb (cend x t) && Nat.eqb (stn x t) 0)
                                  (P (r ++ map LBase (release s c) ++ [LTmTake t c])
                                     (fun l' => match wpc l' t with PRes RTim => true | _ => false end)
                                     (x_slotb x (unbind o (slotb x))))
            | _, _ => None end
    (* ---- life cycle (run_coroutine, closure wrapper) ---- *)
    | 11 => if Nat.ltb t n then
              match wpc l t with
              | PRes _ => match hand s t with
                          | c :: _ => match bind_co o c x with
                                      | Some x1 => P [LResume t] (fun l' => match top_run (base l') t with Some c' => Nat.eqb c' c | None => false end) x1
                                      | None => None end
                          | [] => None end
              | PCo _ => match stk s t, lookup o (bindx x) with
                         | FKer c KRun :: _, Some c' => guardb (Nat.eqb c c') (P (B [Resume t c]) tt_ x)
                         | _, _ => None end
              | _ => None end
            else
              match stk s t, lookup o (bindx x) with
              | FKer c KRun :: _, Some c' => guardb (Nat.eqb c c') (P (B [Resume t c]) tt_ x)
              | [], Some c => P (B (release s c ++ [TakeSlot t c; Resume t c])) tt_ x
              | _, _ => None end
    | 16 => match top_run s t with Some _ => P [] tt_ x | None => None end
    | 17 => match top_run s t with
            | Some c => match upc (co s c) with
                        | Idle => P (B [AFinish t 0; AStep t; AStep t; AStep t])
                                    (fun l' => match upc (co (base l') c) with CRet => true | _ => false end) x
                        | _ => None end
            | None => None end
    | 12 => match lookup o (bindx x), top_run s t with
            | Some j, Some c =>
                guardb (Nat.eqb c j)
                  (match upc (co s j) with
                   | CRet => P [] tt_ (x_dfr x (upd (dfr x) t true))
                   | _ => P (B [AYield t]) tt_ x end)
            | _, _ => None end
    | 13 => match lookup o (bindx x), stk s t with
            | Some j, FKer c k :: rest =>
                guardb (Nat.eqb c j && is_pdnone (pnd x t))
                  (let x1 := match loc (co s j) with
                             | LDead => if has_frame j rest then x else x_bindx x (unbind o (bindx x))
                             | _ => x end in
                   match k with
                   | K0 => P (B [KStore t; KSkip t; KSubscribed t]) tt_ x1
                   | KRe => P (B [KSkip t; KSubscribed t]) tt_ x1
                   | KEnd => P (B [KSubscribed t]) tt_ x1
                   | _ => None end)
            | _, _ => None end
    | 15 => match lookup o (bindx x), stk s t with
            | Some j, FKer c KD :: _ => guardb (Nat.eqb c j) (P (B [KDrop t]) tt_ x)
            | _, _ => None end
    | _ => None
    end
  | _ => None
  end.

Definition accept_ev (a : ast) (e : list Z) : option ast :=
  match acfg a with
  | None =>
      match e with
      | [0; _; o; v] => Some {| al := linit (Z.to_nat o); acfg := Some (Z.to_N v); ax := ax a |}
      | _ => None end
  | Some ct =>
      let Pm := code_params ct in
      let '(pre, x1) := pre_ev Pm (al a) (ax a) e in
      match lruns Pm (al a) pre with
      | Some l1 =>
          match plan_ev l1 x1 ct e with
          | Some p => match lruns Pm l1 (acts p) with
                      | Some l2 => if post p l2 then Some {| al := l2; acfg := Some ct; ax := nxt p |} else None
                      | None => None end
          | None => None end
      | None => None end
  end.

Fixpoint accept_all (a : ast) (tr : list (list Z)) : option ast :=
  match tr with
  | [] => Some a
  | e :: r => match accept_ev a e with Some a' => accept_all a' r | None => None end
  end.

Definition final_ok (a : ast) : bool := match acfg a with Some _ => true | None => false end.

(* ------------------------------------------------------------------ soundness *)
Lemma lruns_reach' Pm n tr : forall l l', LReach Pm n l -> lruns Pm l tr = Some l' -> LReach Pm n l'.
Proof.
  induction tr as [|a tr IH]; cbn [lruns]; intros l l' R H; [inversion H; subst; exact R|].
  destruct (lstep Pm l a) as [l1|] eqn:E; [|discriminate]. eapply IH; [eapply LRS; eauto | exact H].
Qed.

(* the states the acceptor goes through: before the cfg record the initial state; afterwards runs of the model of
   the code as it is, with the scenario's idle-poll timeout *)
Definition good (a : ast) : Prop :=
  match acfg a with
  | None => True
  | Some ct => exists n, LReach (code_params ct) n (al a)
  end.

Lemma accept_ev_good a e a' : good a -> accept_ev a e = Some a' -> good a'.
Proof.
  unfold good, accept_ev. destruct (acfg a) as [ct|].
  - intros [n R]. destruct (pre_ev (code_params ct) (al a) (ax a) e) as [pre x1].
    destruct (lruns (code_params ct) (al a) pre) as [l1|] eqn:E1; [|discriminate].
    destruct (plan_ev l1 x1 ct e) as [p|]; [|discriminate].
    destruct (lruns (code_params ct) l1 (acts p)) as [l2|] eqn:E2; [|discriminate].
    destruct (post p l2); [|discriminate]. intro H. inversion H; subst; clear H. cbn.
    exists n. eapply lruns_reach'; [|exact E2]. eapply lruns_reach'; [exact R | exact E1].
  - intros _ H.
    assert (G : forall o v, Some {| al := linit (Z.to_nat o); acfg := Some (Z.to_N v); ax := ax a |} = Some a' ->
                match acfg a' with Some ct => exists n, LReach (code_params ct) n (al a') | None => True end).
    { intros o v Q. inversion Q; subst; clear Q. cbn. exists (Z.to_nat o). constructor. }
    destruct e as [|c e]; [discriminate|]. destruct c; try discriminate.
    destruct e as [|z1 e]; [discriminate|]. destruct e as [|o e]; [discriminate|].
    destruct e as [|v e]; [discriminate|]. destruct e; [|discriminate]. eapply G; exact H.
Qed.

Theorem accept_all_good tr : forall a a', good a -> accept_all a tr = Some a' -> good a'.
Proof.
  induction tr as [|e r IH]; cbn [accept_all]; intros a a' G H; [inversion H; subst; exact G|].
  destruct (accept_ev a e) as [a1|] eqn:E; [|discriminate].
  eapply IH; [eapply accept_ev_good; eauto | exact H].
Qed.

(* every accepted prefix of a recorded trace is a run of the worker-loop model *)
Theorem accept_all_reach tr a ct :
  accept_all m_init tr = Some a -> acfg a = Some ct -> exists n, LReach (code_params ct) n (al a).
Proof.
  intros H C. assert (G : good a) by (eapply accept_all_good; [|exact H]; exact I).
  unfold good in G. rewrite C in G. exact G.
Qed.

Lemma accept_all_app tr1 : forall tr2 a, accept_all a (tr1 ++ tr2) =
  match accept_all a tr1 with Some a1 => accept_all a1 tr2 | None => None end.
Proof.
  induction tr1 as [|e r IH]; cbn [accept_all app]; intros; [reflexivity|].
  destruct (accept_ev a e); [apply IH | reflexivity].
Qed.
