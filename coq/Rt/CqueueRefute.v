(* Refutations on the pre-fix variants of the cqueue model (what the repairs F19, F25, F27, F29 repaired: the theorems
   of CqueueThm are not vacuous) and reachable witnesses for the current code.  All by vm_compute. *)
From Coq Require Import List Arith Bool ZArith.
Import ListNotations.
Require Import MayV.Rt.CqueueModel MayV.Rt.CqueueInv.

(* a boolean observation of the state a schedule leads to is an observation of a reachable state *)
Definition observe (cf : cfg) (l : list action) (f : st -> bool) : bool :=
  match run cf init l with Some s => f s | None => false end.
Lemma observe_sound cf l f : observe cf l f = true -> exists s, Reach cf s /\ f s = true.
Proof.
  unfold observe. destruct (run cf init l) as [s|] eqn:E; [|discriminate].
  intro H. exists s. split; [eapply run_reach; [constructor | exact E] | exact H].
Qed.

Definition opc_is (p : opcT) (s : st) : bool :=
  match opc s, p with
  | P2, P2 | OExit, OExit | PRun, PRun | P5w, P5w | OBody, OBody | P6, P6 => true
  | _, _ => false end.
Lemma opc_is_spec p s : opc_is p s = true -> opc s = p.
Proof. unfold opc_is. destruct (opc s), p; try discriminate; reflexivity. Qed.
Definition is_nil {X} (l : list X) : bool := match l with [] => true | _ => false end.
Definition kpc_active (s : st) (e : nat) : bool := kactive (kpc s e).

Definition f19 : cfg := {| c_cntfirst := false; c_joinalways := true; c_kwait := true; c_sendraise := true |}.
Definition f25 : cfg := {| c_cntfirst := true; c_joinalways := false; c_kwait := true; c_sendraise := true |}.
Definition f29 : cfg := {| c_cntfirst := true; c_joinalways := true; c_kwait := false; c_sendraise := true |}.
Definition f27 : cfg := {| c_cntfirst := true; c_joinalways := true; c_kwait := true; c_sendraise := false |}.

(* F19 (before 58e1f60: poll popped first and read cnt afterwards).  A thread owner adds arm 0 and panics in the
   closure; Drop for Cqueue: finish sees the arm running and cancels it, the drain's poll pops: nothing; now the arm ends:
   pushes its Done event, decrements cnt; the drain reads cnt = 0: Finished.  The Cqueue is freed while arm 0 is still
   between cnt.fetch_sub and to_wake.take: use after free (replay: s_scope MAYV_KIDS=3 MAYV_MODE=select, see known_findings F19) *)
Definition f19_schedule : list action :=
  [Start false; OAdd; OStep; OStep; OPanicA 9; OStep; OStep; OStep; OStep; OStep; OStep;
   AFinish 0; AStep 0; AStep 0; AStep 0; OStep; OStep].
Theorem F19_scope_left_refuted : exists s a, Reach f19 s /\ oleft s = true /\ a < nexta s /\ ~ arm_done s a.
Proof.
  destruct (observe_sound f19 f19_schedule (fun s => oleft s && jst s 0 && Nat.ltb 0 (nexta s))) as [s [R H]]; [vm_compute; reflexivity|].
  apply andb_prop in H. destruct H as [H H3]. apply andb_prop in H. destruct H as [H1 H2].
  exists s, 0. unfold arm_done. apply Nat.ltb_lt in H3. rewrite H2. repeat split; auto. discriminate.
Qed.

(* F25 (before 3b27e85: check_panic returned without joining once is_panicking was set).  Two arms; arm 1 panics, arm 0
   returns; the owner's poll consumes Done(1), joins arm 1, re-raises; the owner catches it and polls again: cnt = 0, pops
   Done(0), check_panic returns at once (latch set), loop: queue empty: Finished - while arm 0 has not ended (it is still
   before Join::trigger; in other schedules still inside EventSender::drop on the cqueue) *)
Definition f25_schedule : list action :=
  [Start false; OAdd; OStep; OStep; OAdd; OStep; OStep; OPoll None; OStep; AFinish 0; AStep 0; APanic 1 2; AStep 1; AStep 1;
   OStep; OStep; AStep 0; AStep 0; AStep 1; AStep 1; AStep 1; OStep; OStep; OStep; OCatch; OPoll None; OStep; OStep; OStep; OStep].
Theorem F25_finished_refuted : exists s a, Reach f25 s /\ returns_finished s /\ a < nexta s /\ ~ arm_done s a.
Proof.
  destruct (observe_sound f25 f25_schedule (fun s => opc_is P2 s && is_nil (evq s) && oalld s && jst s 0 && Nat.ltb 0 (nexta s))) as [s [R H]];
    [vm_compute; reflexivity|].
  repeat (apply andb_prop in H; let X := fresh "X" in destruct H as [H X]).
  exists s, 0. unfold returns_finished, arm_done. apply opc_is_spec in H. apply Nat.ltb_lt in X.
  destruct (evq s); [|discriminate]. rewrite X0. repeat split; auto. discriminate.
Qed.

(* F29 (before 5eaa700: EventSender::drop did not wait for the kernel half).  The worker that ran arm 0 up to its send is
   descheduled inside subscribe right after the push; the (unwinding) owner's drain pops the event, runs the bottom half
   inline, the arm ends, is joined, Drop for Cqueue returns - and the kernel half is still about to do to_wake.take()
   on the freed cqueue and kernel.fetch_sub on the dead coroutine's stack *)
Definition f29_schedule : list action :=
  [Start false; OAdd; OStep; OStep; OPanicA 9; OStep; OStep; ASend 0; AStep 0; AStep 0; OStep; OStep; OStep; KStep 0; KStep 0;
   OStep; AFinish 0; AStep 0; AStep 0; AStep 0; AStep 0; AStep 0; OStep; OStep; OStep; OStep; OStep; OStep; OStep; OStep].
Theorem F29_scope_left_refuted : exists s e, Reach f29 s /\ oleft s = true /\ e < nexte s /\ kactive (kpc s e) = true.
Proof.
  destruct (observe_sound f29 f29_schedule (fun s => oleft s && kpc_active s 0 && Nat.ltb 0 (nexte s))) as [s [R H]]; [vm_compute; reflexivity|].
  apply andb_prop in H. destruct H as [H H3]. apply andb_prop in H. destruct H as [H1 H2].
  exists s, 0. apply Nat.ltb_lt in H3. auto.
Qed.

(* F27 (before a5b5aee: yield_back of the EventSender ignored the cancel also on the cancelled short-cut of yield_with).
   The arm is cancelled (Selector::remove) between check_cancel and yield_with's is_canceled: `send` returns without
   having sent anything and the bottom half runs without an event *)
Definition f27_schedule : list action := [Start true; OAdd; OStep; OStep; ASend 0; AStep 0; ORemove 0; AStep 0].
Theorem F27_bottom_without_event_refuted : exists s a, Reach f27 s /\ sent s a < bots s a.
Proof.
  destruct (observe_sound f27 f27_schedule (fun s => Nat.ltb (sent s 0) (bots s 0))) as [s [R H]]; [vm_compute; reflexivity|].
  exists s, 0. apply Nat.ltb_lt in H. auto.
Qed.

(* ---- the current code: the hypotheses of the theorems are satisfiable (non-vacuity) ---- *)

(* select! with two arms firing together: both send, the poll consumes event 0 and runs its bottom half inline to the
   end, returns Ok; the scope exit cancels nobody (arm 0 done, arm 1 suspended: cancelled), drains: event 1's bottom half
   runs in the drain, both Done events are consumed and joined; Drop for Cqueue: Finished at once; the scope is left *)
Definition select_schedule : list action :=
  [Start true; OAdd; OStep; OStep; OAdd; OStep; OStep; OPoll None; OStep;
   ASend 0; AStep 0; AStep 0; ASend 1; AStep 1; AStep 1; KStep 0; KStep 0; KStep 1; KStep 1;
   OStep;                                   (* pop event 0, resume arm 0 inline *)
   AFinish 0; AStep 0].                     (* bottom half ends, EventSender::drop: kernel half still in flight: spin, yields *)
Definition select_schedule2 : list action :=
  select_schedule ++
  [OStep;                                   (* poll returns Ok(event 0) *)
   KStep 0; KStep 0; KStep 1; KStep 1;      (* the kernel halves finish *)
   AStep 0; AStep 0; AStep 0; AStep 0; AStep 0;   (* arm 0: kernel.load = 0, push Done, cnt, to_wake.take, trigger *)
   OClose; OStep; OStep; OStep; OStep; OStep;     (* finish(false): arm 0 done, arm 1 running -> cancel; disable_cancel *)
   OStep; OStep;                                  (* cnt.load; pop event 1: resume arm 1 inline *)
   ACancelled 1; AStep 1; AStep 1; AStep 1; AStep 1; AStep 1;
   OStep;                                         (* drain's poll returned Ok *)
   OStep; OStep; OStep; OStep; OStep; OStep;      (* cnt.load, pop Done 0, C0, CJ, C1, C2 *)
   OStep; OStep; OStep; OStep; OStep; OStep;      (* cnt.load, pop Done 1, C0, CJ, C1, C2 *)
   OStep; OStep;                                  (* cnt.load = 0, pop None: Finished *)
   OStep; OStep;                                  (* enable_cancel; finish(false) returns, Drop: finish(true) *)
   OStep; OStep; OStep; OStep; OStep; OStep; OStep; OStep].
Example poll_ok_reachable : exists s, Reach current s /\ returns_ok s /\ oev s < nexte s.
Proof.
  destruct (observe_sound current select_schedule (fun s => opc_is PRun s && negb (inl s (ocur s)) && Nat.ltb (oev s) (nexte s))) as [s [R H]];
    [vm_compute; reflexivity|].
  apply andb_prop in H. destruct H as [H H3]. apply andb_prop in H. destruct H as [H1 H2].
  exists s. unfold returns_ok. apply opc_is_spec in H1. apply negb_true_iff in H2. apply Nat.ltb_lt in H3. auto.
Qed.
Example scope_left_reachable : exists s, Reach current s /\ oleft s = true /\ nexta s = 2 /\ nexte s = 2 /\ bots s 0 = 1 /\ bots s 1 = 1.
Proof.
  destruct (observe_sound current select_schedule2
              (fun s => oleft s && Nat.eqb (nexta s) 2 && Nat.eqb (nexte s) 2 && Nat.eqb (bots s 0) 1 && Nat.eqb (bots s 1) 1)) as [s [R H]];
    [vm_compute; reflexivity|].
  repeat (apply andb_prop in H; let X := fresh "X" in destruct H as [H X]).
  exists s. repeat match goal with X : Nat.eqb _ _ = true |- _ => apply Nat.eqb_eq in X end. repeat split; auto.
Qed.

(* Finished is returned: one arm that returns without sending *)
Definition finished_schedule : list action :=
  [Start false; OAdd; OStep; OStep; AFinish 0; AStep 0; AStep 0; AStep 0; AStep 0; AStep 0; OPoll None;
   OStep; OStep; OStep; OStep; OStep].
Example finished_reachable : exists s, Reach current s /\ returns_finished s /\ nexta s = 1.
Proof.
  destruct (observe_sound current finished_schedule (fun s => opc_is P2 s && is_nil (evq s) && oalld s && Nat.eqb (nexta s) 1)) as [s [R H]];
    [vm_compute; reflexivity|].
  repeat (apply andb_prop in H; let X := fresh "X" in destruct H as [H X]).
  exists s. unfold returns_finished. apply opc_is_spec in H. apply Nat.eqb_eq in X. destruct (evq s); [|discriminate]. auto.
Qed.
(* Timeout is returned: a poll with 5 ns on a cqueue whose arm never sends *)
Definition timeout_schedule : list action :=
  [Start false; OAdd; OStep; OStep; OPoll (Some 5%Z); OStep; OStep; OStep; OStep; OStep; Tick 5%Z; OStep].
Example timeout_reachable : exists s, Reach current s /\ returns_timeout s /\ ofin s = 0.
Proof.
  destruct (observe_sound current timeout_schedule (fun s => opc_is P6 s && zle_opt (odl s) (now s) && Nat.eqb (ofin s) 0)) as [s [R H]];
    [vm_compute; reflexivity|].
  repeat (apply andb_prop in H; let X := fresh "X" in destruct H as [H X]).
  exists s. unfold returns_timeout. apply opc_is_spec in H. apply Nat.eqb_eq in X. auto.
Qed.
(* the poller is parked, an event arrives and everything else comes to rest: the token is there *)
Definition wakeup_schedule : list action :=
  [Start false; OAdd; OStep; OStep; OPoll None; OStep; OStep; OStep; OStep; OStep; ASend 0; AStep 0; AStep 0;
   KStep 0; KStep 0; KStep 0; KStep 0; KStep 0].
Definition kdone (s : st) (e : nat) : bool := match kpc s e with KDone => true | _ => false end.
Definition asusp (s : st) (a : nat) : bool := match pc s a with ASusp => true | _ => false end.
Example parked_with_event_reachable :
  exists s, Reach current s /\ opc s = P5w /\ evq s <> [] /\ nexta s = 1 /\ nexte s = 1 /\ kpc s 0 = KDone /\ pc s 0 = ASusp /\ tok s (ob s) = true.
Proof.
  destruct (observe_sound current wakeup_schedule
              (fun s => opc_is P5w s && negb (is_nil (evq s)) && Nat.eqb (nexta s) 1 && Nat.eqb (nexte s) 1 && kdone s 0 && asusp s 0 && tok s (ob s))) as [s [R H]];
    [vm_compute; reflexivity|].
  repeat (apply andb_prop in H; let X := fresh "X" in destruct H as [H X]).
  exists s. apply opc_is_spec in H. apply Nat.eqb_eq in X3, X2. unfold kdone in X1. unfold asusp in X0.
  destruct (kpc s 0); try discriminate. destruct (pc s 0); try discriminate. destruct (evq s); [discriminate|].
  repeat split; auto. discriminate.
Qed.
