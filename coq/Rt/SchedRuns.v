(* Concrete runs of SchedModel (non-vacuity of the C01 theorems): schedules replayed by `steps` and vm_compute. *)
From Coq Require Import List Arith ZArith Bool Lia.
Import ListNotations.
Require Import MayV.Rt.SchedModel MayV.Rt.SchedInv MayV.Rt.SchedLive.
Local Open Scope Z_scope.

Definition after (w : nat) (l : list action) : st := match steps (init w) l with Some s => s | None => init w end.
Lemma after_reach w l : steps (init w) l <> None -> Reach w (after w l).
Proof.
  unfold after. destruct (steps (init w) l) eqn:E; [intros _ | congruence].
  eapply steps_reach; [apply R0 | exact E].
Qed.

(* run A: thread 0 spawns coroutine 1 (round-robin global queue 0), calls join() and parks; worker 1 takes it from the global
   queue and resumes it; it yields into worker 1's local queue; worker 2 steals it (Grab / Put / Grab) and resumes it: the
   coroutine has migrated; the body returns 7; wrapper: packet.store, state.store(false), to_wake.take, unpark; Done is
   dropped by the kernel half; the unpark takes effect, the joiner wakes up, re-reads state and takes the packet *)
Definition runA_spawn_join : list action :=
  [ASpawn 0 1 None false; AStep 0; AStep 0; AStep 0;
   AJoin 0 1 MJoin; AStep 0; AStep 0; AStep 0; AStep 0].
Definition runA_first : list action :=
  runA_spawn_join ++ [Grab 1 (QG 0); Resume 1 1; AYield 1; KLocal 1; KSubscribed 1].
Definition runA_migrated : list action :=
  runA_first ++ [Grab 2 (QL 1); Put 2; Grab 2 (QL 2); Resume 2 1].
Definition runA_triggered : list action :=
  runA_migrated ++ [AFinish 2 7; AStep 2; AStep 2].
Definition runA : list action :=
  runA_triggered ++ [AStep 2; AStep 2; AStep 2; KDrop 2; KSubscribed 2; DoUnpark 0 (QG 0); AStep 0; AStep 0; AStep 0].

Lemma runA_ok : steps (init 2) runA <> None.
Proof. vm_compute. discriminate. Qed.
Lemma runA_spawn_join_ok : steps (init 2) runA_spawn_join <> None.
Proof. vm_compute. discriminate. Qed.
Lemma runA_migrated_ok : steps (init 2) runA_migrated <> None.
Proof. vm_compute. discriminate. Qed.
Lemma runA_triggered_ok : steps (init 2) runA_triggered <> None.
Proof. vm_compute. discriminate. Qed.

Lemma runA_final : let s := after 2 runA in
  Reach 2 s /\ bodycnt (co s 1) = 1%nat /\ outcome (co s 1) = Some (RVal 7) /\ jret (co s 1) = Some (RVal 7) /\
  ptaken (co s 1) = true /\ In 1%nat (dead s) /\ jstate (co s 1) = false /\ tpc s 0 = Idle.
Proof. split; [apply after_reach; exact runA_ok | vm_compute; repeat split; auto]. Qed.

(* in between: the coroutine ran on thread 1, then on thread 2, its body was entered once *)
Lemma runA_migration :
  In (FRun 1%nat) (stk (after 2 (runA_spawn_join ++ [Grab 1 (QG 0); Resume 1 1])) 1) /\
  In (FRun 1%nat) (stk (after 2 runA_migrated) 2) /\ stk (after 2 runA_migrated) 1 = [] /\
  bodycnt (co (after 2 runA_migrated) 1) = 1%nat /\ Reach 2 (after 2 runA_migrated).
Proof.
  split; [vm_compute; auto|]. split; [vm_compute; auto|]. split; [vm_compute; auto|]. split; [vm_compute; auto|].
  apply after_reach. exact runA_migrated_ok.
Qed.

(* the joiner is parked, the coroutine waits in a global queue, nobody has anything to do: quiescent, not finished;
   thread 1 is idle and can take the coroutine *)
Lemma runA_parked_quiescent : let s := after 2 runA_spawn_join in
  Reach 2 s /\ Quiescent s /\ jcall (co s 1) = Some (AT 0, JW3p MJoin 0) /\ jstate (co s 1) = true /\
  In 1%nat (getq s (QG 0)) /\ base_idle s 1 = true.
Proof.
  split; [apply after_reach; exact runA_spawn_join_ok|]. split; [|vm_compute; auto].
  split; [|vm_compute; reflexivity].
  intro t. destruct t as [|[|t]]; vm_compute; reflexivity.
Qed.

(* after state.store(false), before to_wake.take: the joiner is parked on a finished coroutine, the wake-up is under way *)
Lemma runA_wakeup_pending : let s := after 2 runA_triggered in
  Reach 2 s /\ jcall (co s 1) = Some (AT 0, JW3p MJoin 0) /\ jstate (co s 1) = false /\ upc (co s 1) = CT2 /\ tok s 0 = false.
Proof. split; [apply after_reach; exact runA_triggered_ok | vm_compute; auto]. Qed.

(* run B: coroutine 1 (spawned by thread 0, run by worker 1) starts coroutine 2 with spawn_local: it runs nested on the same
   thread and panics with payload 5; panic path: panic.store, state.store(false), to_wake.take (nobody), drop_coroutine;
   coroutine 1 then joins it: state is false at once, packet empty, panic payload returned *)
Definition runB : list action :=
  [ASpawn 0 1 None false; AStep 0; AStep 0; AStep 0; Grab 1 (QG 0); Resume 1 1;
   ASpawn 1 2 None true; Resume 1 2; APanic 1 (Some 5); AStep 1; AStep 1; AStep 1; AStep 1;
   AJoin 1 2 MJoin; AStep 1; AStep 1; AStep 1].
Lemma runB_ok : steps (init 2) runB <> None.
Proof. vm_compute. discriminate. Qed.
Lemma runB_final : let s := after 2 runB in
  Reach 2 s /\ bodycnt (co s 2) = 1%nat /\ outcome (co s 2) = Some (RPan 5) /\ jret (co s 2) = Some (RPan 5) /\
  pan (co s 2) = None /\ In 2%nat (dead s) /\ stk s 1 = [FRun 1%nat] /\ upc (co s 1) = Idle /\ ptaken (co s 2) = false.
Proof. split; [apply after_reach; exact runB_ok | vm_compute; repeat split; auto]. Qed.

(* run C: coroutine 1 is spawned with Builder::id(1) (global queue 1), runs on worker 1 and blocks (kernel half stores it in
   a slot); thread 0 cancels it: the canceller moves it to a run queue; worker 2 resumes it, the body unwinds with Cancel;
   join() finds state false, packet and panic slot empty: Cancel *)
Definition runC : list action :=
  [ASpawn 0 1 (Some 1%nat) false; AStep 0; AStep 0; Grab 1 (QG 1); Resume 1 1;
   AYield 1; KStore 1; KSkip 1; KSubscribed 1;
   ACancel 0 1; Wake 1 (QG 0); Grab 2 (QG 0); Resume 2 1; APanic 2 None; AStep 2; AStep 2; AStep 2;
   AJoin 0 1 MJoin; AStep 0; AStep 0; AStep 0].
Lemma runC_ok : steps (init 2) runC <> None.
Proof. vm_compute. discriminate. Qed.
Lemma runC_final : let s := after 2 runC in
  Reach 2 s /\ bodycnt (co s 1) = 1%nat /\ outcome (co s 1) = Some RCancel /\ jret (co s 1) = Some RCancel /\
  cancelled (co s 1) = true /\ In 1%nat (dead s).
Proof. split; [apply after_reach; exact runC_ok | vm_compute; repeat split; auto]. Qed.

(* without a cancel request the body cannot unwind with Cancel *)
Lemma cancel_unwind_needs_request :
  steps (init 2) [ASpawn 0 1 None false; AStep 0; AStep 0; AStep 0; Grab 1 (QG 0); Resume 1 1; APanic 1 None] = None.
Proof. vm_compute. reflexivity. Qed.

(* wait() then is_done() then join(): a coroutine joiner that parks and is moved from its slot to a run queue by the unpark *)
Definition runD : list action :=
  [ASpawn 0 1 None false; AStep 0; AStep 0; AStep 0; Grab 1 (QG 0); Resume 1 1;
   ASpawn 1 2 None false; AStep 1; AStep 1; AStep 1;                     (* coroutine 1 spawns 2: global queue 1 *)
   AJoin 1 2 MWait; AStep 1; AStep 1; AStep 1; AYield 1; KStore 1; KSkip 1; KSubscribed 1;   (* 1 parks in wait() *)
   Grab 2 (QG 1); Resume 2 2; AFinish 2 3; AStep 2; AStep 2; AStep 2; AStep 2;   (* 2 finishes, trigger takes the blocker *)
   DoUnpark 0 (QL 2);                                                   (* the unpark moves 1 from the slot to worker 2's queue *)
   AStep 2; KDrop 2; KSubscribed 2;
   Grab 2 (QL 2); Resume 2 1; AStep 2;                                  (* 1 resumes on thread 2, wait() re-reads state and returns *)
   AIsDone 2 2; AStep 2; AJoin 2 2 MJoin; AStep 2; AStep 2].
Lemma runD_ok : steps (init 2) runD <> None.
Proof. vm_compute. discriminate. Qed.
Lemma runD_final : let s := after 2 runD in
  Reach 2 s /\ jret (co s 2) = Some (RVal 3) /\ stk s 2 = [FRun 1%nat] /\ upc (co s 1) = Idle /\ bodycnt (co s 1) = 1%nat /\
  bodycnt (co s 2) = 1%nat.
Proof. split; [apply after_reach; exact runD_ok | vm_compute; repeat split; auto]. Qed.
