(* Trace acceptor for CqueueModel (current code): one recorded event `[code; actor; obj; val]` of the real may::cqueue
   (over the real may_queue::mpsc queue, Join, Cancel, Park / ThreadPark) is matched against the model transitions it
   stands for; the model must be at the corresponding control point and must compute the value the code observed
   (cnt, total, kernel, to_wake slot, join state, packet / panic slots, cancel words, park token, is_panicking).
   Transitions without a shared access (deadline check, return of poll, the start of Drop for Cqueue, skipping an empty
   `selectors` slot, the end of finish) are taken silently before the next event of the owner (`norm`).

   Codes (bound to source sites in Rt/cqueue_sites.json):
     scenario records
       1 cq.owner(co id, is_co)   2 cq.add(i)        3 arm.start(i, co id)   4 arm.send(i, round)   5 arm.bot(i, round)
       6 arm.next(i)              7 arm.end(i)       8 arm.panic(i)          9 arm.unwind(i)        10 cq.remove(i)
      11 poll.call(timeout + 1 | 0, now)            12 poll.ret(kind + 4 * (token + 16 * extra), now)   kind: 0 Ok 1 Timeout 2 Finished 3 panic caught
      13 cq.close   14 cq.opanic   15 cq.left       16 cancel.call   22 sel.call   23 sel.ret(token)
     runtime records
      17 co.yield(co id)   18 co.subscribed   24 co.panic(co id)   25 co.done   19 tpark.enter(pk)   20 tpark.leave(pk, woken)   21 tpark.unpark(pk)
     src/cqueue.rs
      30 add_impl total.load   31 add_impl cnt.fetch_add   32 add_impl total.fetch_add   33 poll cnt.load   34 poll to_wake.store
      35 poll to_wake.take     36 check_panic is_panicking.load   37 check_panic is_panicking.store
      41 subscribe kernel.fetch_add   42 subscribe to_wake.take   43 subscribe kernel.fetch_sub
      44 drop kernel.load   45 drop cnt.fetch_sub   46 drop to_wake.take
     may_queue::mpsc linearisation sites (the queue runs atomically in these runs: DESIGN 3.2)
      50 Queue::push tail.cas   51 Queue::pop head.index.store (a value was popped)   52 Queue::push_index tail.load (pop found nothing)
     src/cancel.rs   60 disable_cancel fetch_add   61 enable_cancel fetch_sub   62 check_cancel load   63 is_canceled load
                     64 cancel fetch_or   65 cancel self.co.take   66 cancel co.take
     src/join.rs     70 Join::trigger state.store   71 JoinHandle::is_done state.load   72 JoinHandle::join packet.take   73 panic.take
     src/park.rs     80 check_park load   81 check_park store   82 check_park swap   83 unpark_impl swap

   The runtime itself uses mpsc queues, Parks, ThreadParks, Joins and cancel words for everything else (scheduler, the
   arms' own sleeps, the owner coroutine's own JoinHandle): events by actors that are not actors of the model, or by
   actors that are not at a matching control point, are not the cqueue's and are skipped; the cqueue's own objects
   (queue tail / head words, the park object of each blocker) are bound at first use and compared afterwards.

   Actors of the trace are mapped to model actors by the scenario's records (cq.owner, arm.start); the kernel half of an
   arm (EventSender::subscribe) and the panic path of run_coroutine run in the context of whoever resumed the arm:
   co.yield / co.panic name the coroutine, the events up to co.subscribed / co.done are taken on its behalf. *)
From Coq Require Import List ZArith Bool Arith Lia.
Import ListNotations.
Require Import MayV.Rt.CqueueModel MayV.Rt.CqueueInv.
Open Scope Z_scope.

Record aux := {
  owner : nat;            (* trace actor of the owner + 1 (0 = not started) *)
  amap : nat -> nat;      (* trace actor -> arm + 1 *)
  cmap : list (Z * nat);  (* coroutine identity -> arm *)
  kmap : nat -> nat;      (* trace actor -> arm + 1 whose kernel half / panic path it executes *)
  ctgt : nat -> nat;      (* trace actor -> announced target of its cancel(): 1 owner, 2 + a arm a *)
  ph : nat;               (* phase of the owner inside Blocker::park:
                             0 outside | 5 check_park load saw false | 3 load saw true (store pending) | 2 swap saw false: the model is parked, the code is about to yield
                             7 the pending Cancel was raised (yield_back's check_cancel follows)
                             8 suspended (coroutine) | 9 resumed, second check_park pending | 10 / 11 its load saw true / false
                             1 thread suspended | 12 thread took the token at enter *)
  nest : nat;             (* disable_cancel calls of the owner the model does not follow (wait_kernel_yield) in progress *)
  selmode : bool;         (* select!: the owner's calls are not announced by records *)
  pcan : bool;            (* the owner coroutine was cancelled before it started *)
  qt : Z; qh : Z;         (* the ev_queue's tail word / head.index word *)
  opk : nat -> Z }.       (* blocker -> its park object *)
Definition ast := (st * aux)%type.
Definition aux0 : aux := {| owner := O; amap := fun _ => O; cmap := []; kmap := fun _ => O; ctgt := fun _ => O; ph := O; nest := O;
                            selmode := false; pcan := false; qt := 0; qh := 0; opk := fun _ => 0 |}.
Definition m_init : ast := (init, aux0).

Definition set_owner (x : aux) v := {| owner := v; amap := amap x; cmap := cmap x; kmap := kmap x; ctgt := ctgt x; ph := ph x; nest := nest x; selmode := selmode x; pcan := pcan x; qt := qt x; qh := qh x; opk := opk x |}.
Definition set_amap (x : aux) v := {| owner := owner x; amap := v; cmap := cmap x; kmap := kmap x; ctgt := ctgt x; ph := ph x; nest := nest x; selmode := selmode x; pcan := pcan x; qt := qt x; qh := qh x; opk := opk x |}.
Definition set_cmap (x : aux) v := {| owner := owner x; amap := amap x; cmap := v; kmap := kmap x; ctgt := ctgt x; ph := ph x; nest := nest x; selmode := selmode x; pcan := pcan x; qt := qt x; qh := qh x; opk := opk x |}.
Definition set_kmap (x : aux) v := {| owner := owner x; amap := amap x; cmap := cmap x; kmap := v; ctgt := ctgt x; ph := ph x; nest := nest x; selmode := selmode x; pcan := pcan x; qt := qt x; qh := qh x; opk := opk x |}.
Definition set_ctgt (x : aux) v := {| owner := owner x; amap := amap x; cmap := cmap x; kmap := kmap x; ctgt := v; ph := ph x; nest := nest x; selmode := selmode x; pcan := pcan x; qt := qt x; qh := qh x; opk := opk x |}.
Definition set_ph (x : aux) v := {| owner := owner x; amap := amap x; cmap := cmap x; kmap := kmap x; ctgt := ctgt x; ph := v; nest := nest x; selmode := selmode x; pcan := pcan x; qt := qt x; qh := qh x; opk := opk x |}.
Definition set_nest (x : aux) v := {| owner := owner x; amap := amap x; cmap := cmap x; kmap := kmap x; ctgt := ctgt x; ph := ph x; nest := v; selmode := selmode x; pcan := pcan x; qt := qt x; qh := qh x; opk := opk x |}.
Definition set_selmode (x : aux) v := {| owner := owner x; amap := amap x; cmap := cmap x; kmap := kmap x; ctgt := ctgt x; ph := ph x; nest := nest x; selmode := v; pcan := pcan x; qt := qt x; qh := qh x; opk := opk x |}.
Definition set_pcan (x : aux) v := {| owner := owner x; amap := amap x; cmap := cmap x; kmap := kmap x; ctgt := ctgt x; ph := ph x; nest := nest x; selmode := selmode x; pcan := v; qt := qt x; qh := qh x; opk := opk x |}.
Definition set_qt (x : aux) v := {| owner := owner x; amap := amap x; cmap := cmap x; kmap := kmap x; ctgt := ctgt x; ph := ph x; nest := nest x; selmode := selmode x; pcan := pcan x; qt := v; qh := qh x; opk := opk x |}.
Definition set_qh (x : aux) v := {| owner := owner x; amap := amap x; cmap := cmap x; kmap := kmap x; ctgt := ctgt x; ph := ph x; nest := nest x; selmode := selmode x; pcan := pcan x; qt := qt x; qh := v; opk := opk x |}.
Definition set_opk (x : aux) v := {| owner := owner x; amap := amap x; cmap := cmap x; kmap := kmap x; ctgt := ctgt x; ph := ph x; nest := nest x; selmode := selmode x; pcan := pcan x; qt := qt x; qh := qh x; opk := v |}.

Definition zb (v : Z) : bool := negb (Z.eqb v 0).
Definition bz (b : bool) : Z := if b then 1 else 0.
Definition opc_n (p : opcT) : nat :=
  match p with ONone => 0 | OBody => 1 | OA2 => 2 | OA3 => 3 | P1 => 4 | P2 => 5 | P2b => 6 | P3 => 7 | P4 => 8 | P4t => 9 | P5 => 10 | P5w => 11
  | P6 => 12 | PRun => 13 | Cpre => 14 | C0 => 15 | CJ => 16 | C1 => 17 | C2 => 18 | C3 => 19 | OUnw => 20 | FC0 => 21 | FC1 => 22 | FD0 => 23
  | FE0 => 24 | FE1 => 25 | OExit => 26 | OBug => 27 end%nat.
Definition apc_n (p : apc) : nat :=
  match p with ANone => 0 | ATop => 1 | AS0 => 2 | AS1 => 3 | ASusp => 4 | ABot => 5 | AD0 => 6 | AD1 => 7 | AD2 => 8 | AD3 => 9 | AD4 => 10
  | AF1 => 11 | ADone => 12 end%nat.
Definition kpc_n (p : kpcT) : nat := match p with KNone => 0 | K0 => 1 | K1 => 2 | K2 => 3 | K3 => 4 | K4 => 5 | KDone => 6 end%nat.
Definition at_o (s : st) (p : opcT) : bool := Nat.eqb (opc_n (opc s)) (opc_n p).
Definition at_a (s : st) (a : nat) (p : apc) : bool := Nat.eqb (apc_n (pc s a)) (apc_n p).
Definition at_k (s : st) (e : nat) (p : kpcT) : bool := Nat.eqb (kpc_n (kpc s e)) (kpc_n p).
Definition bind_z (cur o : Z) : option Z := if Z.eqb cur 0 then Some o else if Z.eqb cur o then Some cur else None.
Definition bind_obj (m : nat -> Z) (k : nat) (o : Z) : option (nat -> Z) :=
  if Z.eqb (m k) 0 then Some (upd m k o) else if Z.eqb (m k) o then Some m else None.
Fixpoint lookup (l : list (Z * nat)) (k : Z) : option nat :=
  match l with [] => None | (k', n) :: r => if Z.eqb k k' then Some n else lookup r k end.

(* 2^64: the words are usize *)
Definition w64 : Z := 18446744073709551616.
Definition wz (v : Z) : Z := v mod w64.
(* the owner's cancel word as the code sees it *)
Definition oword (s : st) (n : nat) : Z := bz (ocbit s) + 2 * Z.of_nat (odis s) + 2 * Z.of_nat n.

Fixpoint steps (s : st) (l : list action) : option st :=
  match l with
  | [] => Some s
  | a :: l' => match step current s a with Some s' => steps s' l' | None => None end
  end.

(* transitions of the owner without a shared access (the deadline check P6 is decided by the next event, not here) *)
Definition osilent (s : st) : bool :=
  match opc s with
  | PRun => negb (inl s (ocur s))
  | OUnw | FE1 => true
  | FC0 => negb (Nat.ltb (fi s) (total s) && sel s (fi s))
  | _ => false end.
Fixpoint norm (s : st) (fuel : nat) : list action :=
  match fuel with
  | O => []
  | S f => if osilent s
           then match step current s OStep with Some s' => OStep :: norm s' f | None => [] end
           else []
  end.

Record plan := { acts : list action; nxt : aux }.
Definition skip (x : aux) : option plan := Some {| acts := []; nxt := x |}.
Definition go (l : list action) (x : aux) : option plan := Some {| acts := l; nxt := x |}.

(* silent owner transitions, check, the event's own transitions, new bookkeeping *)
Definition own (s : st) (chk : st -> bool) (main : st -> list action) (k : st -> st -> option aux) : option plan :=
  let pre := norm s 96 in
  match steps s pre with
  | Some s1 =>
      if chk s1 then
        let m := main s1 in
        match steps s1 m with
        | Some s2 => match k s1 s2 with Some x' => Some {| acts := pre ++ m; nxt := x' |} | None => None end
        | None => None end
      else None
  | None => None end.
Definition keep (x : aux) : st -> st -> option aux := fun _ _ => Some x.
Definition ost : st -> list action := fun _ => [OStep].
Definition none_acts : st -> list action := fun _ => [].

(* the arm an event of trace actor ta is about *)
Definition arm_of (x : aux) (ta : nat) : option nat :=
  match kmap x ta with S a => Some a | O => match amap x ta with S a => Some a | O => None end end.
Definition is_owner (x : aux) (ta : nat) : bool := match owner x with S o => Nat.eqb o ta | O => false end.
(* the oldest kernel half of arm a at control point p *)
Fixpoint find_k (s : st) (a : nat) (p : kpcT) (n : nat) : option nat :=
  match n with
  | O => None
  | S m => match find_k s a p m with
           | Some e => Some e
           | None => if Nat.eqb (earm s m) a && at_k s m p then Some m else None
           end
  end.
Definition user_a (s : st) (a : nat) : bool := at_a s a ATop || at_a s a ABot.
Definition res_ok (r : aresult) : bool := match r with ROk => true | _ => false end.
Definition res_panic (r : aresult) : bool := match r with RPanic _ => true | _ => false end.
Definition tick_to (s : st) (t : Z) : list action := if Z.ltb (now s) t then [Tick t] else [].
Definition last_ok (s : st) (tok rnd : nat) : bool :=
  match olast s with LOk e => Nat.eqb (earm s e) tok && Nat.eqb (ernd s e) (S rnd) | _ => false end.
Definition last_is (s : st) (l : lastret) : bool :=
  match olast s, l with LTimeout, LTimeout | LFinished, LFinished | LRaised, LRaised => true | _, _ => false end.
(* what the closure did without a record: select! returns right after its only poll; a cancelled owner coroutine unwinds
   from a cancellable point of the closure (the next thing the trace shows is Drop for Cqueue) *)
Definition sel_close (s : st) (x : aux) : list action :=
  if selmode x && at_o s OBody && match olast s with LOk _ => true | _ => false end then [OClose] else [].
Definition pre_close (s : st) (x : aux) : list action :=
  if selmode x && at_o s OBody && match olast s with LOk _ => true | _ => false end then [OClose]
  else if at_o s OBody && cancel_due s then [OCancelled]
  else [].

(* like own, after the unrecorded end of the closure (if any) *)
Definition ownc (cl : st -> aux -> list action) (s : st) (x : aux) (chk : st -> bool) (main : st -> list action) (k : st -> st -> option aux) : option plan :=
  let pre := norm s 96 in
  match steps s pre with
  | Some s1 =>
      let c := cl s1 x in
      match steps s1 c with
      | Some s2 => match own s2 chk main k with
                   | Some p => Some {| acts := pre ++ c ++ acts p; nxt := nxt p |}
                   | None => None end
      | None => None end
  | None => None end.

Definition plan_ev (s : st) (x : aux) (ev : list Z) : option plan :=
  match ev with
  | [code; zta; o; v] =>
    let ta := Z.to_nat zta in
    let isown := is_owner x ta && Nat.eqb (kmap x ta) 0 in
    match code with
    (* ---------------- records of the scenario ---------------- *)
    | 1 => match owner x with
           | O => go (Start (zb v) :: (if pcan x && zb v then [CancelOwner] else [])) (set_owner x (S ta))
           | S _ => None end
    | 2 => if isown then own s (fun s1 => at_o s1 OBody && Z.eqb o (Z.of_nat (nexta s1))) none_acts (keep x) else None
    | 22 => if isown then own s (fun s1 => at_o s1 OBody) none_acts (fun _ _ => Some (set_selmode x true)) else None
    | 23 => if isown then own s (fun s1 => at_o s1 OExit) none_acts (keep x) else None
    | 3 => let i := Z.to_nat o in
           if Nat.ltb i (nexta s) && at_a s i ATop
           then go [] (set_cmap (set_amap x (upd (amap x) ta (S i))) ((v, i) :: cmap x))
           else None
    | 4 => match arm_of x ta with Some a => if Nat.eqb a (Z.to_nat o) then go [ASend a] x else None | None => None end
    | 5 => match arm_of x ta with
           | Some a => if Nat.eqb a (Z.to_nat o) && at_a s a ABot && Nat.eqb (bots s a) (S (Z.to_nat v)) then skip x else None
           | None => None end
    | 6 => match arm_of x ta with Some a => go [ANext a] x | None => None end
    | 7 => match arm_of x ta with Some a => go [AFinish a] x | None => None end
    | 8 => match arm_of x ta with Some a => go [APanic a (S a)] x | None => None end
    | 9 => match arm_of x ta with
           | Some a => if user_a s a then go [ACancelled a] x
                       else if at_a s a AS0 || at_a s a AS1 then (if cbit s a then go [AStep a] x else None)   (* Cancel raised inside send *)
                       else if negb (at_a s a ANone) then skip x else None
           | None => None end
    | 10 => if isown then own s (fun s1 => at_o s1 OBody) none_acts (fun _ _ => Some (set_ctgt x (upd (ctgt x) ta (S (S (Z.to_nat o)))))) else None
    | 11 => if isown
            then own s (fun s1 => at_o s1 OBody)
                     (fun s1 => tick_to s1 v ++ [OPoll (if Z.eqb o 0 then None else Some (o - 1))]) (keep x)
            else None
    | 12 => if isown then
              let kind := Z.to_nat (o mod 4) in let r := Z.to_nat (o / 4) in
              match kind with
              | 0%nat => own s (fun s1 => at_o s1 OBody && last_ok s1 (r mod 16) (r / 16)) none_acts (keep x)
              | 1%nat => if at_o s P6
                         then own s (fun s1 => true) (fun s1 => tick_to s1 v ++ [OStep])
                                  (fun _ s2 => if at_o s2 OBody && last_is s2 LTimeout then Some x else None)
                         else None
              | 2%nat => own s (fun s1 => at_o s1 OBody && last_is s1 LFinished) none_acts (keep x)
              | _ => if at_o s OUnw then go [OCatch] x else None
              end
            else None
    | 13 => if isown then own s (fun s1 => at_o s1 OBody) (fun _ => [OClose]) (keep x) else None
    | 14 => if isown then own s (fun s1 => at_o s1 OBody) (fun _ => [OPanicA 9]) (keep x) else None
    | 15 => if isown then own s (fun s1 => at_o s1 OExit) none_acts (keep x) else None
    | 16 => go [] (set_ctgt x (upd (ctgt x) ta 1%nat))
    (* ---------------- runtime records ---------------- *)
    | 17 => match lookup (cmap x) o with
            | Some a =>
                (* the coroutine of arm a yielded.  Inside `send`: check_cancel and is_canceled read 0 (between the reads and this
                   record the thread cannot be preempted; the reads themselves are not used: a kernel half of an earlier yield of
                   the same coroutine may still be running on another thread under the same identity).  In client code while it
                   runs inline: the poller gets its stack back.  In thread context the record (and the kernel half) already
                   carries the arm's own actor *)
                let x' := if Nat.eqb (amap x ta) (S a) then x else set_kmap x (upd (kmap x) ta (S a)) in
                if at_a s a AS0 then (if cbit s a then None else go [AStep a; AStep a] x')
                else if at_a s a AS1 then (if cbit s a then None else go [AStep a] x')
                else if user_a s a && inl s a then go [AYield a] x' else go [] x'
            | None => skip x end
    | 24 => match lookup (cmap x) o with
            | Some a => go [] (if Nat.eqb (amap x ta) (S a) then x else set_kmap x (upd (kmap x) ta (S a)))
            | None => skip x end
    | 18 | 25 => go [] (set_kmap x (upd (kmap x) ta O))
    (* ---------------- ThreadPark (virtual) ---------------- *)
    | 19 => if isown && at_o s P5 && Nat.eqb (ph x) 0
            then match bind_obj (opk x) (ob s) o with
                 | Some m => own s (fun s1 => true) ost (fun _ s2 => Some (set_ph (set_opk x m) (if at_o s2 P5w then 1%nat else 12%nat)))
                 | None => None end
            else skip x
    | 20 => if isown && Nat.eqb (ph x) 1
            then if Z.eqb (opk x (ob s)) o
                 then (if zb v
                       then own s (fun s1 => at_o s1 P5w && tok s1 (ob s1)) ost (fun _ _ => Some (set_ph x 0%nat))
                       else own s (fun s1 => at_o s1 P5w)
                                (fun s1 => match opdl s1 with Some d => tick_to s1 d | None => [] end ++ [OStep]) (fun _ _ => Some (set_ph x 0%nat)))
                 else None
            else if isown && Nat.eqb (ph x) 12 then (if zb v && Z.eqb (opk x (ob s)) o then go [] (set_ph x 0%nat) else None)
            else skip x
    (* ---------------- a waker: tpark.unpark / Park::unpark_impl ---------------- *)
    | 21 | 83 =>
        match arm_of x ta with
        | Some a =>
            match find_k s a K3 (nexte s) with
            | Some e => match bind_obj (opk x) (kw s e) o with Some m => go [KStep e] (set_opk x m) | None => None end
            | None => if at_a s a AD4
                      then match bind_obj (opk x) (aw s a) o with Some m => go [AStep a] (set_opk x m) | None => None end
                      else skip x
            end
        | None => skip x end
    (* ---------------- src/cqueue.rs: the owner ---------------- *)
    | 30 => if isown
            then own s (fun s1 => at_o s1 OBody && Z.eqb v (Z.of_nat (total s1))) (fun _ => [OAdd]) (keep x)
            else None
    | 31 => if isown then own s (fun s1 => at_o s1 OA2 && Z.eqb v (wz (cnt s1))) ost (keep x) else None
    | 32 => if isown then own s (fun s1 => at_o s1 OA3 && Z.eqb v (Z.of_nat (total s1))) ost (keep x) else None
    | 33 => if isown then
              if at_o s P6 then own s (fun s1 => true) (fun _ => [OStep; OStep]) (fun s1 s2 => if at_o s2 P2 && Z.eqb v (wz (cnt s1)) then Some x else None)
              else ownc sel_close s x (fun s1 => (at_o s1 P1 || at_o s1 OBody) && Z.eqb v (wz (cnt s1)))
                        (fun s1 => if at_o s1 OBody then [OPoll None; OStep] else [OStep]) (keep x)
            else None
    | 34 => if isown then own s (fun s1 => at_o s1 P3) ost (keep x) else None
    | 35 => if isown then own s (fun s1 => at_o s1 P4t && Bool.eqb (zb v) (match towake s1 with Some _ => true | None => false end)) ost (keep x) else None
    | 36 => if isown then own s (fun s1 => at_o s1 C2 && Bool.eqb (zb v) (ispan s1)) ost (keep x) else None
    | 37 => if isown then own s (fun s1 => at_o s1 C3) ost (keep x) else None
    (* ---------------- src/cqueue.rs: kernel half and EventSender::drop ---------------- *)
    | 41 => match arm_of x ta with
            | Some a => match find_k s a K0 (nexte s) with
                        | Some e => if Z.eqb v (Z.of_nat (kern s a)) then go [KStep e] x else None
                        | None => None end
            | None => None end
    | 42 => match arm_of x ta with
            | Some a => match find_k s a K2 (nexte s) with
                        | Some e => if Bool.eqb (zb v) (match towake s with Some _ => true | None => false end) then go [KStep e] x else None
                        | None => None end
            | None => None end
    | 43 => match arm_of x ta with
            | Some a => match find_k s a K4 (nexte s) with
                        | Some e => if Z.eqb v (Z.of_nat (kern s a)) then go [KStep e] x else None
                        | None => None end
            | None => None end
    | 44 => match arm_of x ta with
            | Some a => if at_a s a AD0 && Z.eqb v (Z.of_nat (kern s a)) then go [AStep a] x else None
            | None => None end
    | 45 => match arm_of x ta with
            | Some a => if at_a s a AD2 && Z.eqb v (wz (cnt s)) then go [AStep a] x else None
            | None => None end
    | 46 => match arm_of x ta with
            | Some a => if at_a s a AD3 && Bool.eqb (zb v) (match towake s with Some _ => true | None => false end) then go [AStep a] x else None
            | None => None end
    (* ---------------- may_queue::mpsc: the ev_queue ---------------- *)
    | 50 => if zb v then
              match arm_of x ta with
              | Some a =>
                  match find_k s a K1 (nexte s) with
                  | Some e => match bind_z (qt x) o with Some q => go [KStep e] (set_qt x q) | None => None end
                  | None => if at_a s a AD1
                            then match bind_z (qt x) o with Some q => go [AStep a] (set_qt x q) | None => None end
                            else skip x
                  end
              | None => skip x end
            else skip x
    | 51 => if isown && (at_o s P2 || at_o s P4)
            then match evq s, bind_z (qh x) o with
                 | _ :: _, Some q => go [OStep] (set_qh x q)
                 | _, _ => None end
            else skip x
    | 52 => if isown && (at_o s P2 || at_o s P4) && (Z.eqb (qt x) 0 || Z.eqb (qt x) o)
            then match evq s, bind_z (qt x) o with
                 | [], Some q => go [OStep] (set_qt x q)
                 | _, _ => None end
            else if isown && at_o s OExit && Z.eqb (qt x) o
            then match evq s with [] => skip x | _ => None end      (* Queue::drop pops what is left: nothing *)
            else skip x
    (* ---------------- src/cancel.rs ---------------- *)
    | 60 => if isown then
              let nested := if Z.eqb v (oword s (nest x)) then go [] (set_nest x (S (nest x))) else None in
              if Nat.eqb (nest x) 0
              then match ownc pre_close s x (fun s1 => (at_o s1 C0 || at_o s1 FD0) && Z.eqb v (oword s1 0)) ost (keep x) with
                   | Some p => Some p
                   | None => nested end
              else nested
            else skip x
    | 61 => if isown then
              match nest x with
              | S n => if Z.eqb v (oword s (S n)) then go [] (set_nest x n) else None
              | O => own s (fun s1 => (at_o s1 C1 || at_o s1 FE0) && Z.eqb v (oword s1 0)) ost (keep x)
              end
            else skip x
    | 62 => if isown then
              if negb (Nat.eqb (nest x) 0) then (if Z.eqb v (oword s (nest x)) then skip x else None)
              else if Nat.eqb (ph x) 8
              then (* resumed inside Park::park_timeout: yield_back *)
                   own s (fun s1 => at_o s1 P5w && Z.eqb v (oword s1 0))
                       (fun s1 => (if tok s1 (ob s1) || cancel_due s1 || owk s1 then [] else match opdl s1 with Some d => tick_to s1 d | None => [] end) ++ [OStep])
                       (fun _ s2 => Some (set_ph x (if at_o s2 P6 then 9%nat else 0%nat)))
              else if Nat.eqb (ph x) 7 then (if Z.eqb v (oword s 0) then go [] (set_ph x 0%nat) else None)
              else if Z.eqb v (oword s 0) then skip x else None
            else skip x
    | 63 => if isown then
              if negb (Nat.eqb (nest x) 0) then (if Z.eqb v (oword s (nest x)) then skip x else None)
              else if Nat.eqb (ph x) 2
              then (* yield_with inside Park::park_timeout: cancelled -> the short-cut raises, else the coroutine suspends *)
                   own s (fun s1 => at_o s1 P5w && Z.eqb v (oword s1 0)) (fun s1 => if cancel_due s1 then [OStep] else [])
                       (fun s1 _ => Some (set_ph x (if cancel_due s1 then 7%nat else 8%nat)))
              else if Z.eqb v (oword s 0) then skip x else None
            else skip x
    | 64 => match ctgt x ta with
            | 1%nat => if at_o s ONone then go [] (set_pcan x true)
                       else if oco s then go [CancelOwner] x else None
            | S (S a) => if isown then own s (fun s1 => at_o s1 OBody) (fun _ => [ORemove a]) (keep x) else None
            | O => if isown
                   then if at_o s FC1 then own s (fun s1 => true) ost (keep x)
                        else if oco s && ocbit s then skip x else None        (* the re-check of Park::subscribe cancels itself *)
                   else skip x
            end
    (* cancel(): self.co.take() / co.take(): a registered, suspended coroutine is taken and rescheduled *)
    | 65 => if zb v then skip x else go [] (set_ctgt x (upd (ctgt x) ta O))
    | 66 => match ctgt x ta with
            | 1%nat => if zb v && oco s && negb (at_o s ONone) then go [CancelOwner] (set_ctgt x (upd (ctgt x) ta O))
                       else go [] (set_ctgt x (upd (ctgt x) ta O))
            | _ => go [] (set_ctgt x (upd (ctgt x) ta O)) end
    (* ---------------- src/join.rs ---------------- *)
    | 70 => match arm_of x ta with
            | Some a => if at_a s a AF1 then go [AStep a] x else if negb (zb v) then None else skip x
            | None => skip x end
    | 71 => if isown
            then ownc pre_close s x (fun s1 => at_o s1 FC0 && Nat.ltb (fi s1) (total s1) && sel s1 (fi s1) && Bool.eqb (zb v) (jst s1 (fi s1))) ost (keep x)
            else skip x
    | 72 => if isown && at_o s CJ
            then own s (fun s1 => negb (jst s1 (ocur s1)) && Bool.eqb (zb v) (res_ok (ares s1 (ocur s1)))) ost (keep x)
            else skip x
    | 73 => if isown && (at_o s C1 || at_o s C2)
            then (if Bool.eqb (zb v) (res_panic (ojres s)) then skip x else None)
            else skip x
    (* ---------------- src/park.rs: the token word of the owner's blocker ---------------- *)
    | 80 => if isown then
              if at_o s P5 && Nat.eqb (ph x) 0
              then match bind_obj (opk x) (ob s) o with
                   | Some m => if Bool.eqb (tok s (ob s)) (zb v)
                               then (if zb v then own s (fun _ => true) ost (fun _ _ => Some (set_ph (set_opk x m) 3%nat))
                                     else go [] (set_ph (set_opk x m) 5%nat))
                               else None
                   | None => None end
              else if Nat.eqb (ph x) 9 then go [] (set_ph x (if zb v then 10%nat else 11%nat))
              else skip x
            else skip x
    | 81 => if isown && (Nat.eqb (ph x) 3 || Nat.eqb (ph x) 10) then go [] (set_ph x 0%nat) else skip x
    | 82 => if isown then
              if Nat.eqb (ph x) 5
              then if Bool.eqb (tok s (ob s)) (zb v) && Z.eqb (opk x (ob s)) o
                   then (if zb v then own s (fun s1 => at_o s1 P5) ost (fun _ _ => Some (set_ph x 0%nat))
                         else (* the token is absent at the deciding access: the model parks (or raises the pending Cancel) here *)
                              own s (fun s1 => at_o s1 P5) ost (fun _ s2 => Some (set_ph x (if at_o s2 P5w then 2%nat else 7%nat))))
                   else None
              else if Nat.eqb (ph x) 11 then go [] (set_ph x 0%nat)
              else skip x
            else skip x
    | _ => None
    end
  | _ => None
  end.

Definition accept_ev (sx : ast) (e : list Z) : option ast :=
  let (s, x) := sx in
  match plan_ev s x e with
  | Some p => match steps s (acts p) with Some s' => Some (s', nxt p) | None => None end
  | None => None end.

Fixpoint accept_all (sx : ast) (tr : list (list Z)) : option ast :=
  match tr with
  | [] => Some sx
  | e :: l => match accept_ev sx e with Some sx' => accept_all sx' l | None => None end
  end.

(* monitor of the final state: the run ended with the scope left, nobody inside, everything consumed, at most one
   re-raise; the theorems say a reachable state with the scope left always looks like this *)
Definition monitors_ok (sx : ast) : bool :=
  let s := fst sx in
  at_o s OExit && oleft s && match evq s with [] => true | _ => false end &&
  forallb (fun a => negb (jst s a) && Nat.eqb (dpop s a) 1 && Nat.eqb (bots s a) (sent s a)) (seq 0 (nexta s)) &&
  forallb (fun e => at_k s e KDone && Nat.eqb (epush s e) 1 && Nat.eqb (epop s e) 1) (seq 0 (nexte s)) &&
  Nat.leb (rer s) 1.

(* ------------------------------------------------------------------------------------------ *)
(* soundness: every state along an accepted trace is a reachable state of the model (current code) *)
Lemma steps_reach l : forall s s', Reach current s -> steps s l = Some s' -> Reach current s'.
Proof.
  induction l as [|a l IH]; cbn [steps]; intros s s' R H; [inversion H; subst; exact R|].
  destruct (step current s a) as [s1|] eqn:E; [|discriminate]. eapply IH; [eapply RS; eauto | exact H].
Qed.
Lemma accept_ev_ok sx e sx' : Reach current (fst sx) -> accept_ev sx e = Some sx' -> Reach current (fst sx').
Proof.
  intros R H. destruct sx as [s x]. unfold accept_ev in H. cbn [fst] in R.
  destruct (plan_ev s x e) as [p|]; [|discriminate].
  destruct (steps s (acts p)) as [s1|] eqn:E; [|discriminate].
  inversion H; subst. cbn [fst]. eapply steps_reach; eauto.
Qed.
Theorem accept_all_reach tr : forall sx sx', Reach current (fst sx) -> accept_all sx tr = Some sx' -> Reach current (fst sx').
Proof.
  induction tr as [|e l IH]; cbn [accept_all]; intros sx sx' R H; [inversion H; subst; exact R|].
  destruct (accept_ev sx e) as [s1|] eqn:E; [|discriminate]. eapply IH; [eapply accept_ev_ok; eauto | exact H].
Qed.
Corollary accepted_trace_reaches tr sx : accept_all m_init tr = Some sx -> Reach current (fst sx).
Proof. intro H. exact (accept_all_reach tr m_init sx (R0 current) H). Qed.
