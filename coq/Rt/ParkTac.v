(* C02 - common definitions and tactics for the proofs about ParkModel (the code as it is: step true true true). *)
From Coq Require Import List ZArith Bool Arith Lia.
Import ListNotations.
Require Import MayV.Rt.AtomicDur MayV.Base.BlockerSpec MayV.Rt.ParkModel.
Open Scope Z_scope.

Definition stepF := step true true true.
Definition ReachF := Reach true true true.

Lemma upd_same {A} (f : nat -> A) i v : upd f i v i = v.
Proof. unfold upd. now rewrite Nat.eqb_refl. Qed.
Lemma upd_other {A} (f : nat -> A) i j v : j <> i -> upd f i v j = f j.
Proof. unfold upd. intros H. destruct (Nat.eqb_spec j i); congruence. Qed.

Lemma optnat_eqb_some a i : optnat_eqb a (Some i) = true -> a = Some i.
Proof. destruct a as [j|]; cbn; [|discriminate]. intros H. apply Nat.eqb_eq in H. congruence. Qed.
Lemma optnat_eqb_refl i : optnat_eqb (Some i) (Some i) = true.
Proof. cbn. apply Nat.eqb_refl. Qed.

(* classification of control points *)
Definition urun (u : upc) : bool := match u with USusp | UWkQ | UAway | UDead => false | _ => true end.
Definition wkloop (u : upc) : bool := match u with UWkY1 | UWkY2 | UWkQ | UWkY3 | UWkE => true | _ => false end.
Definition guard_on (k : kpc) : bool :=
  match k with
  | KReg | KStore | KChk | KStake | KSgoff _ | KSload | KFtake | KFgoff _ | KSetco | KCchk | KC1 | KC2 | KC3 | KC3s | KC4 | KGoff => true
  | _ => false end.

(* ---- tactics ---- *)
Ltac brk := repeat match goal with
  | H : _ /\ _ |- _ => destruct H
  | H : exists _, _ |- _ => destruct H
  end.

(* open one step: all the ways [step s a] can be [Some s'] *)
Ltac open_if H :=
  repeat match type of H with
  | context [if ?b then _ else _] => let E := fresh "E" in destruct b eqn:E; try discriminate H
  end.
Ltac open_match H :=
  repeat match type of H with
  | context [match ?x with _ => _ end] => let E := fresh "E" in destruct x eqn:E; try discriminate H
  end.
Ltac step_inv H :=
  unfold stepF in H; cbn [step] in H; unfold ustep, kstep, clear_tok, die, setco_ahead in H;
  open_match H; open_if H;
  try (injection H as H); subst.

(* rewrite a [upd]ated map at an index *)
Ltac upd_at j :=
  repeat match goal with
  | |- context [upd ?f ?i ?v j] =>
      let E := fresh "E" in
      destruct (Nat.eq_dec j i) as [E|E]; [subst; rewrite upd_same | rewrite (upd_other f i j v E)]
  | H : context [upd ?f ?i ?v j] |- _ =>
      let E := fresh "E" in
      destruct (Nat.eq_dec j i) as [E|E]; [subst; rewrite upd_same in H | rewrite (upd_other f i j v E) in H]
  end.

Ltac fin0 := try discriminate; try congruence; try tauto; try lia.
Ltac fin := fin0; try solve [intuition (try discriminate; try congruence; try lia)].
