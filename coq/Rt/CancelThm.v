(* C09 - cancellation, runtime layer: the statements assembled from ParkModel (C02: Cancel::cancel, set_co, the
   register-then-re-check of Park::subscribe, yield_with's short-cut, check_cancel) and SchedModel (C01: the cancel panic
   of the closure body, Join::trigger, JoinHandle::join).  New lemmas only where the existing theorems do not have the
   shape of the property; everything else is re-exported in Properties/C09.v.  Code as it is in /repo: stepF =
   ParkModel.step true true true (with the repair d874713 of finding F31: the registration precedes the publication). *)
From Coq Require Import List ZArith Bool Arith Lia.
Import ListNotations.
Require Import MayV.Rt.AtomicDur MayV.Base.BlockerSpec MayV.Rt.ParkModel MayV.Rt.ParkTac
               MayV.Rt.ParkInv1 MayV.Rt.ParkInv2 MayV.Rt.ParkInv3 MayV.Rt.ParkInv4 MayV.Rt.ParkInv5 MayV.Rt.ParkThm.
Require MayV.Rt.SchedModel MayV.Rt.SchedInv MayV.Rt.SchedThm MayV.Rt.SchedLive.
Open Scope Z_scope.

(* ------------------------------------------------------------------------------------------------ Park *)

(* (i) stop.  A cancelled coroutine does not rest in the park slot: in a quiescent state (nobody but the clock and the
   client can move: in particular no canceller is between its fetch_or and its take, and the kernel half has finished its
   re-check) the coroutine is not suspended with its cancel bit set.  No premise on the disable count: cancel() takes a
   registered coroutine out also when its cancel is disabled (the Canceled verdict is then absorbed by the caller, e.g.
   Mutex::lock's b_ignore branch).  This is the register-then-re-check theorem: Inv4 w_can / w_reg. *)
Theorem park_cancelled_does_not_rest s : ReachF s -> Quiescent s -> cbit s = true -> slot s = false /\ up s <> UYield.
Proof.
  intros R Q C. split.
  - destruct (slot s) eqn:Hs; [|reflexivity]. exfalso. apply (quiescent_no_cancel s R Q). auto.
  - intro U. destruct Q as (Hr & _ & Hk & _). destruct (invs s R) as (I1 & _).
    pose proof (i_run s I1) as Ir. rewrite U in Ir. cbn in Ir. congruence.
Qed.

(* ... and wherever inside park_timeout it is, some transition of the implementation is enabled (progress form) *)
Theorem park_cancelled_can_move s : ReachF s -> cbit s = true -> in_park (up s) = true -> can_move s.
Proof. exact (park_cancelled_not_stuck s). Qed.

(* the "next cancellable call" half: a cancelled coroutine (bit set, not disabled) that arrives at yield_with does not
   suspend at all - it takes the short-cut with the verdict Canceled already in the para slot *)
Theorem park_cancelled_takes_shortcut s s' : up s = UYc -> canceled s = true -> stepF s AU = Some s' ->
  up s' = UYb /\ para s' = Some PCanceled /\ slot s' = slot s /\ running s' = running s.
Proof.
  intros U C H. unfold stepF in H. cbn [step] in H. unfold ustep in H.
  destruct (negb (running s)); [discriminate|]. rewrite U, C in H. injection H as <-. cbn. auto.
Qed.

(* after the resume the check_cancel of yield_back raises the cancel panic (when the Park does not ignore the cancel) *)
Theorem park_cancelled_raises_panic s s' : up s = UCc -> canceled s = true -> stepF s AU = Some s' -> up s' = UDead.
Proof.
  intros U C H. unfold stepF in H. cbn [step] in H. unfold ustep in H.
  destruct (negb (running s)); [discriminate|]. rewrite U, C in H. injection H as <-. reflexivity.
Qed.

(* (iii) no spurious cancel, in one statement: park_timeout returns Canceled, or dies by the cancel panic, only with the
   cancel bit of the coroutine set *)
Theorem park_canceled_only_if_cancelled s s' : ReachF s ->
  (park_returns s s' VCanceled \/ (stepF s AU = Some s' /\ up s <> UDead /\ up s' = UDead)) -> cbit s = true.
Proof.
  intros R [H|(H & N & D)].
  - exact (proj2 (verdict_canceled s s' R H)).
  - exact (abort_needs_cancel s s' H N D).
Qed.

(* the bit is set by Cancel::cancel only: no transition of the park / unpark / timer protocol sets it *)
Theorem cancel_bit_set_only_by_cancel s a s' : ReachF s -> stepF s a = Some s' -> cbit s = false -> cbit s' = true ->
  exists i, a = ACnOr i.
Proof.
  intros R H B B'. destruct (invs s R) as (I1 & _). destruct (i_dead s I1) as ((_ & K1 & _) & _).
  destruct a; try (exists i; reflexivity); exfalso.
  all: unfold stepF in H; cbn [step] in H; unfold ustep, kstep in H.
  all: repeat match type of H with
       | context [if ?c then _ else _] => destruct c eqn:?
       | context [match ?x with _ => _ end] => destruct x eqn:?
       end; try discriminate; injection H as <-.
  all: unfold clear_tok, die in B'; repeat match type of B' with context [if ?c then _ else _] => destruct c eqn:? end;
       cbn in B'; try congruence.
Qed.

(* the coroutine is resumed exactly once per suspension also when a cancel races with an unpark and a timer: re-export of
   the single-resumption theorem in the shape used by (ii) - whoever took the coroutine out of the slot is the only holder *)
Theorem cancel_race_single_resumption s : ReachF s -> up s <> UDead ->
  (running s = true  /\ slot s = false /\ rq s = 0%nat /\ kholds (kp s) = false /\ holder s = HNone) \/
  (running s = false /\ slot s = true  /\ rq s = 0%nat /\ kholds (kp s) = false /\ holder s = HNone) \/
  (running s = false /\ slot s = false /\ rq s = 1%nat /\ kholds (kp s) = false /\ holder s = HNone) \/
  (running s = false /\ slot s = false /\ rq s = 0%nat /\ kholds (kp s) = true  /\ holder s = HNone) \/
  (running s = false /\ slot s = false /\ rq s = 0%nat /\ kholds (kp s) = false /\ held (holder s) = true).
Proof. exact (exactly_one_place s). Qed.

(* ------------------------------------------------------------------------------------------------ join *)
Module J.
Import MayV.Rt.SchedModel MayV.Rt.SchedInv MayV.Rt.SchedThm MayV.Rt.SchedLive.

(* (iv) a coroutine whose body was unwound by the cancel panic is reported as Err(Cancel) by join, whoever joins, and
   nothing else is ever reported for it *)
Theorem join_of_cancel_unwound_is_cancel w s d r : Reach w s ->
  outcome (co s d) = Some RCancel -> jret (co s d) = Some r -> r = RCancel.
Proof.
  intros R O J. destruct (join_returns_outcome w s d r R J) as (O' & _). congruence.
Qed.

(* conversely Err(Cancel) is reported only for a coroutine that was cancelled and unwound by it *)
Theorem join_cancel_means_cancel_unwound w s d : Reach w s -> jret (co s d) = Some RCancel ->
  outcome (co s d) = Some RCancel /\ cancelled (co s d) = true /\ bodycnt (co s d) = 1%nat /\ jstate (co s d) = false.
Proof.
  intros R J. destruct (join_returns_outcome w s d RCancel R J) as (O & B & S & _).
  repeat split; auto. exact (join_cancel_only_if_cancelled w s d R J).
Qed.

(* (iii) the closure body unwinds by cancellation only with the cancel bit of that coroutine set *)
Theorem cancel_unwind_needs_cancel s t s' c rest : step s (APanic t None) = Some s' -> stk s t = FRun c :: rest ->
  cancelled (co s c) = true.
Proof.
  intros H E. unfold step in H. rewrite E in H. destruct (cancelled (co s c)); [reflexivity | discriminate].
Qed.

(* no hang: the joiner of a finished coroutine - finished by the cancel panic like by anything else - has its wake-up under
   way (the trigger of the panic path PT1..PT3 is Join::trigger run by run_coroutine's error path) *)
Theorem joiner_of_cancelled_is_woken w s d a m b : Reach w s ->
  jcall (co s d) = Some (a, JW3 m b) \/ jcall (co s d) = Some (a, JW3p m b) ->
  jstate (co s d) = false -> wake_under_way s d b.
Proof. exact (joiner_wakeup_coming w s d a m b). Qed.

(* non-vacuity: a coroutine is spawned, runs, is cancelled, unwinds by the cancel panic; main joins it: Err(Cancel) *)
End J.
