(* C02 - trace acceptor for ParkModel (+ ThreadPark instances).

   One recorded event `[code; actor; obj; val]` of the real code (actor = OS thread, numbered by first
   appearance; codes are bound to source sites in Rt/park_sites.json) is mapped to the model transitions
   it stands for: exactly one transition for every hooked shared access of the parker's Park / Cancel /
   timer callback, preceded where necessary by the transitions that have no hooked access of their own
   (`now()` reads, add_timer, the run-queue push of schedule(), the timer thread popping an entry, clock
   ticks).  Control point and observed value are checked against the model.

   Soundness by construction: the handlers only PLAN (they thread a copy of the model state to look at
   intermediate states and return the list of actions); the new model state is whatever [run] computes
   from that list, so every accepted state is reachable ([accept_all_reach]).

   Who is who: the parker coroutine announces itself (`parker` event with its coroutine id).  The thread
   that resumes that coroutine (`co.resume`) executes the user half until the `co.yield`; the thread that
   reports the `co.yield` of a park executes the kernel half (subscribe) until the guard is released or the
   coroutine is resumed by subscribe itself.  Unparkers and cancellers are the threads that hit the
   unpark / cancel sites.  After `blk.new` (a fresh Blocker) a kernel half still in flight belongs to the old
   object ([oldkth]): since the repair of F31 it no longer touches the Cancel registration (a set_co by it is
   rejected) and its cancel re-check can only find its own old slot empty.

   Time: only API-level events carry the virtual clock.  The model clock is kept at the largest lower
   bound known (logged times, deadlines of timers that fired); a logged time below the model clock rejects
   the trace (a timer fired before its deadline).  If the code skips the deadline self-check while the
   model clock - a lower bound - already passed the model deadline, the real `now()` values cannot be
   reconstructed: the acceptor stops checking that trace ([desync]); states accepted so far stay valid. *)
From Coq Require Import List ZArith Bool Arith.
Import ListNotations.
Require Import MayV.Rt.AtomicDur MayV.Base.BlockerSpec MayV.Rt.ParkModel MayV.Rt.ParkThread.
Open Scope Z_scope.

Definition mstep := step true true true.
Definition MReach := Reach true true true.

(* ---------- acceptor bookkeeping (not part of the model) ---------- *)
Record aux := {
  meco : Z;                  (* coroutine id of the parker, 0 = unknown / the parker is a thread *)
  uth : Z;                   (* thread running the user half, 0 = none *)
  kth : Z;                   (* thread running the kernel half *)
  oldkth : Z;                (* thread still running the kernel half of the previous Blocker *)
  gen : Z;                   (* current Blocker generation (0 = the per-coroutine Park) *)
  tgts : list (Z * Z);       (* unparker thread -> generation it was told to unpark *)
  oslot : Z;                 (* object id of the current wait_co slot, 0 = not seen yet *)
  tlog : Z;                  (* last logged virtual time *)
  away : bool;               (* the parker yielded outside park and has not been seen again *)
  tps : list (Z * tpst);     (* ThreadPark instances by address *)
  tpd : list (Z * option Z); (* thread parker -> duration of the park call in progress *)
  desync : bool }.

Definition aux0 : aux :=
  {| meco := 0; uth := 0; kth := 0; oldkth := 0; gen := 0; tgts := []; oslot := 0; tlog := 0; away := false;
     tps := []; tpd := []; desync := false |}.

Definition set_meco v (x : aux) := {| meco := v; uth := uth x; kth := kth x; oldkth := oldkth x; gen := gen x; tgts := tgts x; oslot := oslot x; tlog := tlog x; away := away x; tps := tps x; tpd := tpd x; desync := desync x |}.
Definition set_uth v (x : aux) := {| meco := meco x; uth := v; kth := kth x; oldkth := oldkth x; gen := gen x; tgts := tgts x; oslot := oslot x; tlog := tlog x; away := away x; tps := tps x; tpd := tpd x; desync := desync x |}.
Definition set_kth v (x : aux) := {| meco := meco x; uth := uth x; kth := v; oldkth := oldkth x; gen := gen x; tgts := tgts x; oslot := oslot x; tlog := tlog x; away := away x; tps := tps x; tpd := tpd x; desync := desync x |}.
Definition set_oldkth v (x : aux) := {| meco := meco x; uth := uth x; kth := kth x; oldkth := v; gen := gen x; tgts := tgts x; oslot := oslot x; tlog := tlog x; away := away x; tps := tps x; tpd := tpd x; desync := desync x |}.
Definition set_gen v (x : aux) := {| meco := meco x; uth := uth x; kth := kth x; oldkth := oldkth x; gen := v; tgts := tgts x; oslot := oslot x; tlog := tlog x; away := away x; tps := tps x; tpd := tpd x; desync := desync x |}.
Definition set_tgts v (x : aux) := {| meco := meco x; uth := uth x; kth := kth x; oldkth := oldkth x; gen := gen x; tgts := v; oslot := oslot x; tlog := tlog x; away := away x; tps := tps x; tpd := tpd x; desync := desync x |}.
Definition set_oslot v (x : aux) := {| meco := meco x; uth := uth x; kth := kth x; oldkth := oldkth x; gen := gen x; tgts := tgts x; oslot := v; tlog := tlog x; away := away x; tps := tps x; tpd := tpd x; desync := desync x |}.
Definition set_tlog v (x : aux) := {| meco := meco x; uth := uth x; kth := kth x; oldkth := oldkth x; gen := gen x; tgts := tgts x; oslot := oslot x; tlog := v; away := away x; tps := tps x; tpd := tpd x; desync := desync x |}.
Definition set_away v (x : aux) := {| meco := meco x; uth := uth x; kth := kth x; oldkth := oldkth x; gen := gen x; tgts := tgts x; oslot := oslot x; tlog := tlog x; away := v; tps := tps x; tpd := tpd x; desync := desync x |}.
Definition set_tps v (x : aux) := {| meco := meco x; uth := uth x; kth := kth x; oldkth := oldkth x; gen := gen x; tgts := tgts x; oslot := oslot x; tlog := tlog x; away := away x; tps := v; tpd := tpd x; desync := desync x |}.
Definition set_tpd v (x : aux) := {| meco := meco x; uth := uth x; kth := kth x; oldkth := oldkth x; gen := gen x; tgts := tgts x; oslot := oslot x; tlog := tlog x; away := away x; tps := tps x; tpd := v; desync := desync x |}.
Definition set_desync v (x : aux) := {| meco := meco x; uth := uth x; kth := kth x; oldkth := oldkth x; gen := gen x; tgts := tgts x; oslot := oslot x; tlog := tlog x; away := away x; tps := tps x; tpd := tpd x; desync := v |}.

Fixpoint lookup {A} (l : list (Z * A)) (k : Z) : option A :=
  match l with [] => None | (k', v) :: r => if k =? k' then Some v else lookup r k end.
Fixpoint put {A} (l : list (Z * A)) (k : Z) (v : A) : list (Z * A) :=
  match l with [] => [(k, v)] | (k', v') :: r => if k =? k' then (k, v) :: r else (k', v') :: put r k v end.

(* ---------- the planning monad ---------- *)
Record pst := { cs : st; acts : list action; ax : aux }.
Definition P := pst -> option pst.
Definition ret : P := fun p => Some p.
Definition fail : P := fun _ => None.
Definition seq (f g : P) : P := fun p => match f p with Some q => g q | None => None end.
Notation "f ;; g" := (seq f g) (at level 61, right associativity).
Definition act (a : action) : P :=
  fun p => match mstep (cs p) a with
           | Some s' => Some {| cs := s'; acts := a :: acts p; ax := ax p |}
           | None => None end.
Definition guard (b : bool) : P := fun p => if b then Some p else None.
Definition withs (f : st -> aux -> P) : P := fun p => f (cs p) (ax p) p.
Definition setax (h : aux -> aux) : P := fun p => Some {| cs := cs p; acts := acts p; ax := h (ax p) |}.

Definition n (a : Z) : nat := Z.to_nat a.
Definition zb (v : Z) : bool := negb (v =? 0).               (* observed boolean / "is some" *)
Definition is1 (v : Z) : bool := v =? 1.

Definition tick_to (t : Z) : P := withs (fun s _ => if now s <? t then act (ATick (t - now s)) else ret).
(* an API event that carries the clock: the model clock may not be ahead of it *)
Definition sync_time (t : Z) : P :=
  withs (fun s _ => guard (now s <=? t)) ;; tick_to t ;; setax (set_tlog t).

(* the run-queue push of schedule() has no hooked access: it is done before the thread's next event *)
Definition flush (a : Z) : P :=
  withs (fun s _ => match un s (n a) with NHold => act (AUnSched (n a)) | _ => ret end) ;;
  withs (fun s _ => match cn s (n a) with CHold => act (ACnSched (n a)) | _ => ret end).
Definition flush_holder : P :=
  withs (fun s _ => match holder s with
                    | HUn i => act (AUnSched i) | HCn i => act (ACnSched i) | _ => ret end).
Definition lazyk : P := withs (fun s _ => match kp s with KC4 => act AK | _ => ret end).

Definition isu (a : Z) (x : aux) : bool := (a =? uth x) && negb (uth x =? 0).
Definition isk (a : Z) (x : aux) : bool := (a =? kth x) && negb (kth x =? 0).
Definition isoldk (a : Z) (x : aux) : bool := (a =? oldkth x) && negb (oldkth x =? 0).
Definition tracked (a : Z) (x : aux) : bool :=
  negb (meco x =? 0) && match lookup (tgts x) a with Some g => g =? gen x | None => false end.

Definition cco_some (c : cslot) : bool := match c with CNone => false | _ => true end.
Definition hnd_some (h : option nat) : bool := match h with Some _ => true | None => false end.

(* the armed / cancelled timer entry with the smallest deadline among ids < k *)
Fixpoint min_entry (t : nat -> tmst) (d : nat -> Z) (k : nat) : option (nat * Z) :=
  match k with
  | O => None
  | S k' =>
      let r := min_entry t d k' in
      match t k' with
      | TmArmed | TmCanc =>
          match r with Some (_, d0) => if d0 <=? d k' then r else Some (k', d k') | None => Some (k', d k') end
      | _ => r end
  end.

Definition verdict_code (v : option verdict) : Z :=
  match v with Some VOk => 0 | Some VTimeout => 1 | Some VCanceled => 2 | None => 9 end.

Definition dur_of (o : Z) : option Z := if o =? 0 then None else Some (o - 1).

(* ---------- ThreadPark instances ---------- *)
Definition tp_get (x : aux) (o : Z) : tpst := match lookup (tps x) o with Some t => t | None => tpinit end.
Definition tp_do (o : Z) (f : tpst -> option tpst) : P :=
  fun p => match f (tp_get (ax p) o) with
           | Some t' => Some {| cs := cs p; acts := acts p; ax := set_tps (put (tps (ax p)) o t') (ax p) |}
           | None => None end.
Definition tp_tick_to (t : tpst) (z : Z) : option tpst := if tnow t <? z then tpstep t (TpTick (z - tnow t)) else Some t.
Definition tp_seq (f g : tpst -> option tpst) : tpst -> option tpst := fun t => match f t with Some t' => g t' | None => None end.

(* ---------- one event ---------- *)
Definition plan (e : list Z) : P :=
  match e with
  | [code; a; obj; val] =>
    withs (fun s0 x0 =>
    match code with
    (* ----- API level ----- *)
    | 1 => (* parker: obj = coroutine id (0: the parker is a thread), val = now *)
        setax (fun x => set_uth (if obj =? 0 then 0 else a) (set_meco obj x)) ;; sync_time val
    | 2 | 3 => (* blk.new / blk.new with ignore_cancel: obj = generation *)
        if meco x0 =? 0 then setax (set_tlog val) else
        guard (isu a x0) ;; sync_time val ;;
        (match kp s0 with
         | KIdle => ret
         | _ => if oldkth x0 =? 0 then setax (fun x => set_oldkth (kth x) x) else setax (set_desync true) end) ;;
        act (ANewPark (code =? 3)) ;;
        setax (fun x => set_gen obj (set_kth 0 (set_oslot 0 x)))
    | 4 => (* park.call: obj = 0 (no timeout) | duration in ns + 1 *)
        if meco x0 =? 0 then setax (fun x => set_tlog val (set_tpd (put (tpd x) a (dur_of obj)) x))
        else guard (isu a x0) ;; sync_time val ;; act (APark (dur_of obj))
    | 5 => (* park.ret: obj = 0 Ok | 1 Timeout | 2 Canceled | 3 not reported (coroutine::park) *)
        if meco x0 =? 0 then setax (fun x => set_tlog val (set_tpd (put (tpd x) a None) x))
        else guard (isu a x0) ;; sync_time val ;;
             withs (fun s _ => match up s with UPara => act AU | _ => ret end) ;;   (* get_co_para has no hooked access *)
             withs (fun s _ => guard (match up s with UIdle => true | _ => false end &&
                                      ((obj =? 3) || (obj =? verdict_code (lastv s)))))
    | 6 => flush a ;; setax (fun x => set_tgts (put (tgts x) a obj) x) ;; sync_time val      (* unpark.call: obj = generation *)
    | 7 => flush a ;; setax (fun x => set_tgts (put (tgts x) a (-1)) x) ;; sync_time val     (* unpark.ret *)
    | 8 => flush a ;; sync_time val                                                           (* cancel.call *)
    | 9 => flush a ;; sync_time val                                                           (* cancel.ret *)
    | 10 => (* co.resume: obj = coroutine id *)
        if (obj =? meco x0) && negb (meco x0 =? 0) then
          flush a ;;
          (if away x0 then act AAway ;; setax (set_away false) else ret) ;;
          withs (fun s x =>
            match holder s with
            | HTm i => act (ATRun i)
            | _ => match kp s with
                   | KSrun | KFrun => guard (isk a x) ;; act AK
                   | _ => flush_holder ;; lazyk ;; act AResume end end) ;;
          setax (set_uth a)
        else ret
    | 11 => (* co.yield *)
        if (obj =? meco x0) && negb (meco x0 =? 0) then
          guard (isu a x0) ;;
          (match up s0 with
           | UYield => act AU ;; setax (set_kth a)
           | UWkY2 => act AU
           | UIdle => setax (set_away true)
           | _ => fail end) ;;
          setax (set_uth 0)
        else ret
    | 12 => (* co.done *)
        if (obj =? meco x0) && negb (meco x0 =? 0) then
          (match up s0 with
           | UIdle => act (AExit false)
           | UDead => ret
           | _ => fail end) ;; setax (fun x => set_away false (set_uth 0 x))
        else ret
    | 13 => (* co.panic *)
        if (obj =? meco x0) && negb (meco x0 =? 0) then
          (match up s0 with
           | UIdle => guard (cbit s0) ;; act (AExit false)
           | UDead => ret
           | _ => fail end) ;; setax (fun x => set_away false (set_uth 0 x))
        else ret
    (* ----- ThreadPark ----- *)
    | 14 => tp_do obj (tp_seq (fun t => tp_tick_to t (tlog x0))
                              (fun t => tpstep t (TpEnter (match lookup (tpd x0) a with Some d => d | None => None end))))
    | 15 => if zb val then tp_do obj (fun t => tpstep t (TpLeave true))
            else tp_do obj (tp_seq (fun t => match twait t with Some (Some dl) => tp_tick_to t dl | _ => None end)
                                   (fun t => tpstep t (TpLeave false)))
    | 16 => tp_do obj (fun t => tpstep t TpUnpark)
    (* ----- src/park.rs ----- *)
    | 20 => (* check_park: state.load *)
        if isu a x0 then
          match up s0 with
          | UCp1Load | UCp2Load => guard (Bool.eqb (zb val) (pstate s0)) ;; act AU
          | _ => fail end
        else ret
    | 21 => (* check_park: state.store(false) *)
        if isu a x0 then match up s0 with UCp1Store | UCp2Store => act AU | _ => fail end else ret
    | 22 => (* check_park: state.swap(false) *)
        if isu a x0 then
          match up s0 with
          | UCp1Swap | UCp2Swap => guard (Bool.eqb (zb val) (pstate s0)) ;; act AU
          | _ => fail end
        else ret
    | 23 => (* unpark_impl: state.swap(true) *)
        flush a ;;
        if tracked a x0 then guard (Bool.eqb (zb val) (pstate s0)) ;; act (AUnSwap (n a)) else ret
    | 24 => (* wake_up: wait_co.take() *)
        if tracked a x0 then
          match un s0 (n a) with
          | NTake _ => guard (Bool.eqb (zb val) (slot s0) && (negb (zb val) || (obj =? oslot x0))) ;; act (AUnTake (n a))
          | _ => fail end
        else ret
    | 25 => (* park_timeout: wait_kernel.load *)
        if isu a x0 then match up s0 with UWk => guard (Bool.eqb (zb val) (wk s0)) ;; act AU | _ => fail end else ret
    | 26 => (* AtomicDuration::store *)
        if isu a x0 then match up s0 with UTo => guard (val =? enc (ud s0)) ;; act AU | _ => fail end else ret
    | 27 => (* AtomicDuration::take *)
        if isk a x0 then match kp s0 with KDur => guard (val =? tmo s0) ;; act AK | _ => fail end else ret
    | 28 => (* set_timeout_handle: swap *)
        if isk a x0 then
          withs (fun s _ => match kp s with KNow => act AK | _ => ret end) ;;
          withs (fun s _ => match kp s with KArm => act AK | _ => ret end) ;;
          withs (fun s _ => match kp s with
                            | KHandle => guard (negb (zb val)) ;; act AK     (* the old handle is null *)
                            | _ => fail end)
        else if isu a x0 then
          match up s0 with
          | URm => guard (Bool.eqb (zb val) (hnd_some (hnd s0))) ;; act AU
          | _ => ret end      (* Park::drop of an earlier blocker *)
        else ret
    | 29 => if isk a x0 then match kp s0 with KGon => act AK | _ => fail end else ret
    | 30 => (* subscribe: wait_co.store(co) *)
        if isk a x0 then match kp s0 with KStore => setax (set_oslot obj) ;; act AK | _ => fail end else ret
    | 31 => (* subscribe: wait_co.take() of the self time-out *)
        if isk a x0 then
          match kp s0 with
          | KChk => (match kdl s0 with Some t => tick_to t | None => fail end) ;; act AK ;;
                    withs (fun s _ => match kp s with
                                      | KStake => guard (Bool.eqb (zb val) (slot s)) ;; act AK
                                      | _ => fail end)
          | _ => fail end
        else ret
    | 32 => (* subscribe: state.load *)
        if isk a x0 then
          match kp s0 with
          | KChk => act AK ;;
                    withs (fun s _ => match kp s with
                                      | KSload => guard (Bool.eqb (zb val) (pstate s)) ;; act AK
                                      | _ => setax (set_desync true) end)
          | _ => fail end
        else ret
    | 33 => (* subscribe: wait_co.take() of the self wake-up *)
        if isk a x0 then match kp s0 with KFtake => guard (Bool.eqb (zb val) (slot s0)) ;; act AK | _ => fail end else ret
    | 34 => (* DropGuard::drop: wait_kernel.store(false) *)
        if isk a x0 then
          lazyk ;; withs (fun s _ => match kp s with KSgoff _ | KFgoff _ | KGoff => act AK | _ => fail end)
        else if isoldk a x0 then
          flush a ;; withs (fun s _ => match oldk s with S _ => act AOldKDone | O => ret end) ;; setax (set_oldkth 0)
        else ret
    | 35 => (* yield_back: check_cancel.load *)
        if isu a x0 then match up s0 with UYb => guard (Bool.eqb (zb val) (ccheck s0)) ;; act AU | _ => fail end else ret
    | 36 => (* subscribe: wait_co.take() of the cancel re-check *)
        if isk a x0 then match kp s0 with KC3 => guard (Bool.eqb (zb val) (slot s0)) ;; act AK | _ => fail end
        else if isoldk a x0 then guard (negb (zb val))       (* the slot of the earlier Blocker is empty *)
        else ret
    (* ----- src/cancel.rs ----- *)
    | 40 => (* is_canceled: state.load *)
        if isu a x0 then
          match up s0 with
          | UYc | UWkY1 => guard (Bool.eqb (is1 val) (canceled s0)) ;; act AU
          | UIdle => guard (Bool.eqb (is1 val) (canceled s0))
          | _ => fail end
        else if isk a x0 then
          match kp s0 with KCchk => guard (Bool.eqb (is1 val) (canceled s0)) ;; act AK | _ => fail end
        else ret
    | 41 => (* check_cancel: state.load *)
        if isu a x0 then
          match up s0 with
          | UCc | UWkY3 => guard (Bool.eqb (is1 val) (canceled s0)) ;; act AU
          | UIdle => guard (Bool.eqb (is1 val) (canceled s0))
          | _ => fail end
        else ret
    | 42 => (* cancel(): state.fetch_or(1) *)
        flush a ;;
        if isk a x0 then fail                                  (* the kernel half does not call cancel() any more *)
        else if negb (meco x0 =? 0) then withs (fun s _ => match cn s (n a) with CIdle => act (ACnOr (n a)) | _ => fail end)
        else ret
    | 43 => (* cancel(): self.co.take() *)
        if isk a x0 then fail
        else if negb (meco x0 =? 0) then
          match cn s0 (n a) with CTakeCo => guard (Bool.eqb (zb val) (cco_some (cco s0))) ;; act (ACnTakeCo (n a)) | _ => fail end
        else ret
    | 44 => (* cancel(): co.take() *)
        if isk a x0 then fail
        else if negb (meco x0 =? 0) then
          match cn s0 (n a) with
          | CTake => guard (Bool.eqb (zb val) (slot s0)) ;; act (ACnTake (n a))
          | CTakeS => guard (negb (zb val)) ;; act (ACnTake (n a))
          | _ => fail end
        else ret
    | 45 => (* set_co: self.co.store - before the coroutine is published *)
        if isk a x0 then match kp s0 with KReg => act AK | _ => fail end
        else if isoldk a x0 then fail                          (* a stale registration: finding F31 *)
        else ret
    | 46 => (* disable_cancel: fetch_add(2) *)
        if isu a x0 then match up s0 with UWkD => act AU | _ => ret end else ret
    | 47 => (* enable_cancel: fetch_sub(2) *)
        if isu a x0 then match up s0 with UWkE => act AU | _ => ret end else ret
    (* ----- src/scheduler.rs: timer callback c.take() ----- *)
    | 50 =>
        if (obj =? oslot x0) && negb (oslot x0 =? 0) then
          if zb val then
            match min_entry (tm s0) (tdl s0) (ntm s0) with
            | Some (i, dl) => tick_to dl ;; act (ATFire i) ;; guard (slot s0) ;; act (ATTake i)
            | None => fail end
          else guard (negb (slot s0))
        else ret
    | _ => fail
    end ;;
    (* the kernel half is over when it is idle *)
    withs (fun s x => match kp s with KIdle => setax (set_kth 0) | _ => ret end))
  | _ => fail
  end.

Record ast := { ms : st; xs : aux }.
Definition ainit : ast := {| ms := init; xs := aux0 |}.

Definition accept_ev (x : ast) (e : list Z) : option ast :=
  if desync (xs x) then Some x else
  match plan e {| cs := ms x; acts := []; ax := xs x |} with
  | Some p => match run true true true (ms x) (rev (acts p)) with
              | Some s' => Some {| ms := s'; xs := ax p |}
              | None => None end
  | None => None end.

Fixpoint accept_all (x : ast) (tr : list (list Z)) : option ast :=
  match tr with
  | [] => Some x
  | e :: l => match accept_ev x e with Some x' => accept_all x' l | None => None end
  end.

(* run-time monitor of the final state: the coroutine is in exactly one place (theorem single_resumption
   says it can never trip on a reachable state) *)
Definition monitors_ok (x : ast) : bool :=
  Nat.eqb (places (ms x)) (match up (ms x) with UDead => 0%nat | _ => 1%nat end).

(* ---------- soundness ---------- *)
Lemma run_reach l : forall s s', MReach s -> run true true true s l = Some s' -> MReach s'.
Proof.
  induction l as [|a l IH]; cbn; intros s s' R H; [inversion H; subst; exact R|].
  destruct (step true true true s a) as [s1|] eqn:E; [|discriminate]. eapply IH; [eapply RS; eauto | exact H].
Qed.

Lemma accept_ev_reach x e x' : MReach (ms x) -> accept_ev x e = Some x' -> MReach (ms x').
Proof.
  unfold accept_ev. intros R H. destruct (desync (xs x)); [inversion H; subst; exact R|].
  destruct (plan e _) as [p|]; [|discriminate].
  destruct (run true true true (ms x) (rev (acts p))) as [s'|] eqn:E; [|discriminate].
  inversion H; subst; cbn. eapply run_reach; eauto.
Qed.

(* every state along an accepted trace of the implementation is a reachable state of the model *)
Theorem accept_all_reach tr : forall x x', MReach (ms x) -> accept_all x tr = Some x' -> MReach (ms x').
Proof.
  induction tr as [|e l IH]; cbn [accept_all]; intros x x' R H; [inversion H; subst; exact R|].
  destruct (accept_ev x e) as [x1|] eqn:E; [|discriminate]. eapply IH; [eapply accept_ev_reach; eauto | exact H].
Qed.

(* ... and every ThreadPark instance the acceptor keeps is a reachable ThreadPark state *)
Definition tps_ok (x : aux) : Prop := forall o t, lookup (tps x) o = Some t -> TReach t.
