(* C02 - the user-level theorems about Park (src/park.rs), derived from the invariants Inv1..Inv4
   (ParkInv1..4.v) of the model ParkModel.v, for the code as it is in /repo: [stepF = step true true].

   (i)   single resumption            exactly_one_place, holder_is_actor (+ ParkInv1: single_resumption ...)
   (ii)  no lost wake-up              no_lost_wakeup / kernel_self_wake / unparker_takes / quiescent_no_token,
                                      park_with_token_not_stuck (progress form, every control point of the call),
                                      no_lost_cancel_partial, no_lost_timeout, quiescent_* corollaries,
                                      quiescent_stuck / stuck_quiescent (Quiescent = no internal transition enabled)
   (iii) unpark before park           token_first_never_suspends, token_first_returns_ok
   (iv)  verdicts                     verdict_ok, verdict_timeout, verdict_canceled (+ _fresh corollaries),
                                      park_refines_blocker, fresh_park_never_spurious
   (v)   shared Park                  the disjuncts [wsrc = WUn true] / [wsrc = WTm true] of verdict_ok / verdict_timeout
                                      and spurious_needs_earlier_call
   Refutations of the pre-repair variants and of the statements that do not hold are in ParkRefute.v. *)
From Coq Require Import List ZArith Bool Arith Lia.
Import ListNotations.
Require Import MayV.Rt.AtomicDur MayV.Base.BlockerSpec MayV.Rt.ParkModel MayV.Rt.ParkTac
               MayV.Rt.ParkInv1 MayV.Rt.ParkInv2 MayV.Rt.ParkInv3 MayV.Rt.ParkInv4.
Open Scope Z_scope.

(* ------------------------------------------------------------------------------------------------ *)
(* (i) single resumption                                                                            *)
(* ------------------------------------------------------------------------------------------------ *)

(* While the coroutine is alive it is in exactly one of five places (the five disjuncts exclude each
   other): running / in the wait_co slot / once in a run queue / in the hands of the kernel half
   (subscribe, before the store or after its own take) / in the hands of the one recorded holder. *)
Theorem exactly_one_place s : ReachF s -> up s <> UDead ->
  (running s = true  /\ slot s = false /\ rq s = 0%nat /\ kholds (kp s) = false /\ holder s = HNone) \/
  (running s = false /\ slot s = true  /\ rq s = 0%nat /\ kholds (kp s) = false /\ holder s = HNone) \/
  (running s = false /\ slot s = false /\ rq s = 1%nat /\ kholds (kp s) = false /\ holder s = HNone) \/
  (running s = false /\ slot s = false /\ rq s = 0%nat /\ kholds (kp s) = true  /\ holder s = HNone) \/
  (running s = false /\ slot s = false /\ rq s = 0%nat /\ kholds (kp s) = false /\ held (holder s) = true).
Proof.
  intros R N. pose proof (single_resumption s R) as P. unfold places in P.
  destruct (up s); try congruence; apply one_place in P; exact P.
Qed.

Theorem nowhere_when_gone s : ReachF s -> up s = UDead ->
  running s = false /\ slot s = false /\ rq s = 0%nat /\ kholds (kp s) = false /\ holder s = HNone.
Proof.
  intros R N. pose proof (single_resumption s R) as P. unfold places in P. rewrite N in P.
  apply no_place in P. exact P.
Qed.

(* the recorded holder really is an actor that took the coroutine and has not yet passed it on *)
Theorem holder_is_actor s : ReachF s ->
  match holder s with
  | HUn i => un s i = NHold
  | HCn i => cn s i = CHold
  | HTm i => tm s i = TmHold
  | HNone => (forall i, un s i <> NHold) /\ (forall i, cn s i <> CHold) /\ (forall i, tm s i <> TmHold)
  end.
Proof.
  intros R. destruct (inv4_reach s R) as (I1 & _ & _ & I4).
  pose proof (w_holder s I4) as W. destruct (holder s) eqn:E; try exact W.
  repeat split; intros i H.
  - apply (i_hun s I1) in H. congruence.
  - apply (i_hcn s I1) in H. congruence.
  - apply (i_htm s I1) in H. congruence.
Qed.

(* ------------------------------------------------------------------------------------------------ *)
(* enabled transitions                                                                              *)
(* ------------------------------------------------------------------------------------------------ *)

(* Transitions of the implementation itself.  NOT internal: the client program (APark, AAway, AExit,
   ANewPark, and the START of a new unpark / cancel call AUnSwap / ACnOr), the clock (ATick), and two
   house-keeping transitions that never touch the coroutine (ATDrop: the timer thread drops an entry whose
   removal was requested; ADrop: Park::drop polling wait_kernel). *)
Definition internal (a : action) : bool :=
  match a with
  | AU | AK | AUnTake _ | AUnSched _ | AUnRun _ | ACnTakeCo _ | ACnTake _ | ACnSched _
  | ATFire _ | ATTake _ | ATRun _ | AResume | AStaleSetco | AOldKDone => true
  | _ => false end.

Definition enabled (s : st) (a : action) : Prop := exists s', stepF s a = Some s'.
Definition can_move (s : st) : Prop := exists a, internal a = true /\ enabled s a.

Lemma some_ex {A} (o : option A) : o <> None -> exists x, o = Some x.
Proof. destruct o; [eauto | congruence]. Qed.

Ltac split_all :=
  repeat match goal with
         | |- context [if ?b then _ else _] => destruct b
         | |- context [match ?x with _ => _ end] => destruct x
         end.

(* the user half always has a next step while it runs inside park *)
Lemma user_enabled s : Inv1 s -> running s = true -> in_park (up s) = true -> enabled s AU.
Proof.
  intros I1 Hr Hp. apply some_ex. unfold stepF; cbn [step]; unfold ustep. rewrite Hr; cbn [negb].
  pose proof (i_pre s I1) as Pre. pose proof (i_run s I1) as Ru. rewrite Hr in Ru.
  destruct (up s) eqn:E; cbn in Hp, Ru; try discriminate; try rewrite Pre; split_all; discriminate.
Qed.

(* the kernel half always has a next step (in the repaired code it never waits for anybody) *)
Lemma kernel_enabled s : Inv1 s -> Inv2 s -> kp s <> KIdle -> (kp s = KNow -> kdur s <> None) -> enabled s AK.
Proof.
  intros I1 I2 Hk Hn. apply some_ex. unfold stepF; cbn [step]; unfold kstep.
  destruct (i_nonest s I1) as [Nn _]. pose proof (k_arm s I2) as Ka.
  destruct (kp s) eqn:E; try congruence.
  all: try solve [split_all; discriminate].
  - destruct (kdur s); [discriminate | exfalso; apply Hn; reflexivity].
  - destruct (Ka eq_refl) as (d & t & Hd & _). rewrite Hd. discriminate.
Qed.
