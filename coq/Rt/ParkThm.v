(* C02 - the user-level theorems about Park (src/park.rs), derived from the invariants Inv1..Inv4
   (ParkInv1..4.v) of the model ParkModel.v, for the code as it is in /repo: [stepF = step true true true].

   (i)   single resumption            exactly_one_place, holder_is_actor (+ ParkInv1: single_resumption ...)
   (ii)  no lost wake-up              no_lost_wakeup / kernel_self_wake / unparker_takes / quiescent_no_token,
                                      park_with_token_not_stuck (progress form, every control point of the call),
                                      no_lost_cancel, no_lost_timeout, quiescent_* corollaries,
                                      quiescent_stuck / stuck_quiescent (Quiescent = no internal transition enabled)
   (iii) unpark before park           token_first_never_suspends, token_first_returns_ok
   (iv)  verdicts                     verdict_ok, verdict_timeout, verdict_canceled (+ _fresh corollaries),
                                      park_refines_blocker, fresh_park_never_spurious
   (v)   shared Park                  the disjuncts [wsrc = WUn true] / [wsrc = WTm true] of verdict_ok / verdict_timeout
                                      and spurious_needs_earlier_call
   Refutations of the pre-repair variants and of the statements that do not hold are in ParkRefute.v. *)
From Coq Require Import List ZArith Bool Arith Lia.
Import ListNotations.
Require Import MayV.Rt.AtomicDur MayV.Base.BlockerSpec MayV.Rt.ParkModel MayV.Rt.ParkTac
               MayV.Rt.ParkInv1 MayV.Rt.ParkInv2 MayV.Rt.ParkInv3 MayV.Rt.ParkInv4 MayV.Rt.ParkInv5.
Open Scope Z_scope.

(* ------------------------------------------------------------------------------------------------ *)
(* (i) single resumption                                                                            *)
(* ------------------------------------------------------------------------------------------------ *)

(* While the coroutine is alive it is in exactly one of five places (the five disjuncts exclude each
   other): running / in the wait_co slot / once in a run queue / in the hands of the kernel half
   (subscribe, before the store or after its own take) / in the hands of the one recorded holder. *)
Theorem exactly_one_place s : ReachF s -> up s <> UDead ->
  (running s = true  /\ slot s = false /\ rq s = 0%nat /\ kholds (kp s) = false /\ holder s = HNone) \/
  (running s = false /\ slot s = true  /\ rq s = 0%nat /\ kholds (kp s) = false /\ holder s = HNone) \/
  (running s = false /\ slot s = false /\ rq s = 1%nat /\ kholds (kp s) = false /\ holder s = HNone) \/
  (running s = false /\ slot s = false /\ rq s = 0%nat /\ kholds (kp s) = true  /\ holder s = HNone) \/
  (running s = false /\ slot s = false /\ rq s = 0%nat /\ kholds (kp s) = false /\ held (holder s) = true).
Proof.
  intros R N. pose proof (single_resumption s R) as P. unfold places in P.
  destruct (up s); try congruence; apply one_place in P; exact P.
Qed.

Theorem nowhere_when_gone s : ReachF s -> up s = UDead ->
  running s = false /\ slot s = false /\ rq s = 0%nat /\ kholds (kp s) = false /\ holder s = HNone.
Proof.
  intros R N. pose proof (single_resumption s R) as P. unfold places in P. rewrite N in P.
  apply no_place in P. exact P.
Qed.

(* the recorded holder really is an actor that took the coroutine and has not yet passed it on *)
Theorem holder_is_actor s : ReachF s ->
  match holder s with
  | HUn i => un s i = NHold
  | HCn i => cn s i = CHold
  | HTm i => tm s i = TmHold
  | HNone => (forall i, un s i <> NHold) /\ (forall i, cn s i <> CHold) /\ (forall i, tm s i <> TmHold)
  end.
Proof.
  intros R. destruct (inv4_reach s R) as (I1 & _ & _ & I4).
  pose proof (w_holder s I4) as W. destruct (holder s) eqn:E; try exact W.
  repeat split; intros i H.
  - apply (i_hun s I1) in H. congruence.
  - apply (i_hcn s I1) in H. congruence.
  - apply (i_htm s I1) in H. congruence.
Qed.

(* ------------------------------------------------------------------------------------------------ *)
(* enabled transitions                                                                              *)
(* ------------------------------------------------------------------------------------------------ *)

(* Transitions of the implementation itself.  NOT internal: the client program (APark, AAway, AExit,
   ANewPark, and the START of a new unpark / cancel call AUnSwap / ACnOr), the clock (ATick), and two
   house-keeping transitions that never touch the coroutine (ATDrop: the timer thread drops an entry whose
   removal was requested; ADrop: Park::drop polling wait_kernel). *)
Definition internal (a : action) : bool :=
  match a with
  | AU | AK | AUnTake _ | AUnSched _ | AUnRun _ | ACnTakeCo _ | ACnTake _ | ACnSched _
  | ATFire _ | ATTake _ | ATRun _ | AResume | AStaleSetco | AOldKDone => true
  | _ => false end.

Definition enabled (s : st) (a : action) : Prop := exists s', stepF s a = Some s'.
Definition can_move (s : st) : Prop := exists a, internal a = true /\ enabled s a.

Lemma some_ex {A} (o : option A) : o <> None -> exists x, o = Some x.
Proof. destruct o; [eauto | congruence]. Qed.

Ltac split_all :=
  repeat match goal with
         | |- context [if ?b then _ else _] => destruct b
         | |- context [match ?x with _ => _ end] => destruct x
         end.

(* the user half always has a next step while it runs inside park *)
Lemma user_enabled s : Inv1 s -> running s = true -> in_park (up s) = true -> enabled s AU.
Proof.
  intros I1 Hr Hp. apply some_ex. unfold stepF; cbn [step]; unfold ustep. rewrite Hr; cbn [negb].
  pose proof (i_pre s I1) as Pre. pose proof (i_run s I1) as Ru. rewrite Hr in Ru.
  destruct (up s) eqn:E; cbn in Hp, Ru; try discriminate; try rewrite Pre; split_all; discriminate.
Qed.

(* the kernel half always has a next step (in the repaired code it never waits for anybody) *)
Lemma kernel_enabled s : Inv1 s -> Inv2 s -> kp s <> KIdle -> (kp s = KNow -> kdur s <> None) -> enabled s AK.
Proof.
  intros I1 I2 Hk Hn. apply some_ex. unfold stepF; cbn [step]; unfold kstep.
  destruct (i_nonest s I1) as [Nn _]. pose proof (k_arm s I2) as Ka.
  destruct (kp s) eqn:E; try congruence.
  all: try solve [split_all; discriminate].
  - destruct (kdur s); [discriminate | exfalso; apply Hn; reflexivity].
  - destruct (Ka eq_refl) as (d & t & Hd & _). rewrite Hd. discriminate.
Qed.

(* all the invariants of a reachable state *)
Lemma invs s : ReachF s -> Inv1 s /\ Inv2 s /\ Inv3 s /\ Inv4 s /\ Inv5 s.
Proof. intros R. destruct (inv4_reach s R) as (I1 & I2 & I3 & I4). pose proof (inv5_reach s R). auto. Qed.

(* ------------------------------------------------------------------------------------------------ *)
(* (ii) no lost wake-up                                                                             *)
(* ------------------------------------------------------------------------------------------------ *)

(* the kernel half (subscribe) is between its wait_co.store and its re-check of the token *)
Definition krecheck (k : kpc) : bool := match k with KChk | KStake | KSload | KFtake => true | _ => false end.

(* THE no-lost-wake-up theorem: whenever the coroutine sits in the wait_co slot and the token is set, either
   the kernel half has not yet done its re-check, or an unparker is between its state.swap(true) and its
   wait_co.take(). *)
Theorem no_lost_wakeup s : ReachF s -> slot s = true -> pstate s = true ->
  krecheck (kp s) = true \/ exists i b, un s i = NTake b.
Proof.
  intros R Hs Hp. destruct (invs s R) as (_ & _ & _ & I4 & _).
  pose proof (w_tok s I4 Hs Hp) as W. unfold un_taking in W.
  destruct (kp s); cbn; auto.
Qed.

(* ... that unparker's next access takes the coroutine out of the slot, and he becomes the holder *)
Theorem unparker_takes s i b : un s i = NTake b -> slot s = true ->
  exists s', stepF s (AUnTake i) = Some s' /\ slot s' = false /\ un s' i = NHold /\ holder s' = HUn i.
Proof.
  intros Hu Hs. unfold stepF; cbn [step]. rewrite Hu, Hs. eexists. split; [reflexivity|].
  cbn. rewrite upd_same. auto.
Qed.

(* ... and the kernel half, within its next three accesses, takes the coroutine back itself (unless
   somebody else is faster, which is just as good) and then resumes it *)
Theorem kernel_self_wake s : krecheck (kp s) = true -> slot s = true -> pstate s = true ->
  exists n s', (n <= 3)%nat /\ run true true true s (repeat AK n) = Some s' /\ slot s' = false /\ kholds (kp s') = true.
Proof.
  intros Hk Hs Hp. destruct (kp s) eqn:E; try discriminate Hk.
  - (* KChk *)
    destruct (kdl s) as [t|] eqn:D; [destruct (t <=? now s) eqn:L|].
    + exists 2%nat. eexists. split; [lia|]. cbn [repeat run step]. unfold kstep. rewrite E, D, L. cbn. rewrite Hs. cbn. auto.
    + exists 3%nat. eexists. split; [lia|]. cbn [repeat run step]. unfold kstep. rewrite E, D, L. cbn. rewrite Hp. cbn. rewrite Hs. cbn. auto.
    + exists 3%nat. eexists. split; [lia|]. cbn [repeat run step]. unfold kstep. rewrite E, D. cbn. rewrite Hp. cbn. rewrite Hs. cbn. auto.
  - exists 1%nat. eexists. split; [lia|]. cbn [repeat run step]. unfold kstep. rewrite E, Hs. cbn. auto.
  - exists 2%nat. eexists. split; [lia|]. cbn [repeat run step]. unfold kstep. rewrite E, Hp. cbn. rewrite Hs. cbn. auto.
  - exists 1%nat. eexists. split; [lia|]. cbn [repeat run step]. unfold kstep. rewrite E, Hs. cbn. auto.
Qed.

(* cancel: the coroutine is in the slot and its cancel bit is set.  Then the kernel half has not yet passed
   its own check of the cancel bit (after which it takes the coroutine back itself: KC3), or a canceller
   holds the slot taken from Cancel.co (CTake), or the slot is still registered in Cancel.co and a canceller
   is about to take it from there.  (Before the repair of F31 this needed the premise that no kernel half of
   an earlier Blocker had registered over: ParkRefute.cancel_lost_after_stale_set_co_without_fixF31.) *)
Theorem no_lost_cancel s : ReachF s -> slot s = true -> cbit s = true ->
  match kp s with
  | KChk | KStake | KSload | KFtake | KCchk | KC3 => True
  | _ => (exists i, cn s i = CTake) \/ (cco s = CThis /\ exists i, cn s i = CTakeCo) end.
Proof.
  intros R Hs Hc. destruct (invs s R) as (_ & _ & _ & I4 & _). exact (w_can s I4 Hs Hc).
Qed.

(* registration: a suspended coroutine that has not been cancelled is registered with its Cancel: the
   registration (set_co) precedes the publication (wait_co.store) and only a canceller removes it *)
Theorem suspended_is_registered s : ReachF s -> slot s = true -> cbit s = false -> cco s = CThis.
Proof.
  intros R Hs Hc. destruct (invs s R) as (_ & _ & _ & I4 & _). exact (w_reg s I4 Hs Hc).
Qed.

(* no kernel half of an earlier Blocker can register with the Cancel any more *)
Theorem no_stale_registration s : ReachF s -> oldk s = 0%nat /\ tainted s = false.
Proof. intros R. destruct (invs s R) as (I1 & _). destruct (i_dead s I1) as (_ & A & B). auto. Qed.

(* timeout: the coroutine is in the slot in a timed park (the armed duration is not None: with the
   repaired AtomicDuration that is every park_timeout(Some d)).  Then its timer entry [i] (the handle) is
   armed or popped-and-about-to-fire, or the kernel half is doing the time-out itself. *)
Theorem no_lost_timeout s : ReachF s -> slot s = true -> armed_of (ud s) <> None ->
  exists i, hnd s = Some i /\
    ((tm s i = TmArmed \/ tm s i = TmFired) \/ kp s = KStake \/ (kp s = KChk /\ exists t, kdl s = Some t /\ t <= now s)).
Proof.
  intros R Hs Ha. destruct (invs s R) as (_ & _ & _ & I4 & _).
  pose proof (w_timed s I4 Hs Ha) as N. destruct (hnd s) as [i|] eqn:E; [|congruence].
  exists i. split; [reflexivity|]. exact (w_dead s I4 Hs i E).
Qed.

Lemma armed_of_some d : 0 <= d -> armed_of (Some d) <> None.
Proof. intros H. destruct (some_is_never_none d H) as (t & E). unfold armed_of. unfold armed in E. rewrite E. discriminate. Qed.

(* the timer entry of the call is never earlier than the call's own deadline (call time + armed duration) *)
Theorem timer_not_before_call_deadline s i : ReachF s -> hnd s = Some i ->
  exists c, call_deadline s = Some c /\ c <= tdl s i.
Proof. intros R H. destruct (invs s R) as (_ & I2 & _). exact (h_dl s I2 i H). Qed.

(* ---- quiescence form ---- *)

Theorem quiescent_no_token s : ReachF s -> Quiescent s -> ~ (slot s = true /\ pstate s = true).
Proof.
  intros R (_ & _ & Hk & _ & Hu & _) (Hs & Hp).
  destruct (no_lost_wakeup s R Hs Hp) as [K|(i & b & U)].
  - rewrite Hk in K. discriminate.
  - rewrite Hu in U. discriminate.
Qed.

Theorem quiescent_no_cancel s : ReachF s -> Quiescent s -> ~ (slot s = true /\ cbit s = true).
Proof.
  intros R (_ & _ & Hk & _ & _ & Hc & _) (Hs & Hb).
  pose proof (no_lost_cancel s R Hs Hb) as W. rewrite Hk in W.
  destruct W as [(i & C)|(_ & i & C)]; rewrite Hc in C; discriminate.
Qed.

(* in a quiescent state a coroutine suspended in a timed park still has its timer armed, and that timer's
   deadline lies in the future: nobody sleeps past an armed deadline *)
Theorem quiescent_no_deadline s : ReachF s -> Quiescent s -> slot s = true -> armed_of (ud s) <> None ->
  exists i, hnd s = Some i /\ tm s i = TmArmed /\ now s < tdl s i.
Proof.
  intros R (_ & _ & Hk & _ & _ & _ & Hq) Hs Ha.
  destruct (no_lost_timeout s R Hs Ha) as (i & Hh & W). exists i. split; [exact Hh|].
  specialize (Hq i). rewrite Hk in W.
  destruct W as [[W|W]|[W|(W & _)]]; try discriminate W; rewrite W in Hq; [auto | contradiction].
Qed.

(* Quiescent is the right notion: in a state with the coroutine in the slot it holds exactly when no
   internal transition is enabled *)
Theorem quiescent_stuck s : Quiescent s -> forall a, internal a = true -> stepF s a = None.
Proof.
  intros (Hr & Hq & Hk & Ho & Hu & Hc & Ht) a Ia. unfold stepF.
  destruct a; try discriminate Ia; cbn [step].
  - unfold ustep. rewrite Hr. reflexivity.
  - unfold kstep. rewrite Hk. reflexivity.
  - rewrite Hu. reflexivity.
  - rewrite Hu. reflexivity.
  - rewrite Hu. reflexivity.
  - rewrite Hc. reflexivity.
  - rewrite Hc. reflexivity.
  - rewrite Hc. reflexivity.
  - specialize (Ht i). destruct (tm s i); try reflexivity; apply Z.leb_gt in Ht; rewrite Ht; reflexivity.
  - specialize (Ht i). destruct (tm s i); try reflexivity; contradiction.
  - specialize (Ht i). destruct (tm s i); try reflexivity; contradiction.
  - rewrite Hq. reflexivity.
  - rewrite Ho. reflexivity.
  - rewrite Ho. reflexivity.
Qed.

Theorem stuck_quiescent s : ReachF s -> slot s = true ->
  (forall a, internal a = true -> stepF s a = None) -> Quiescent s.
Proof.
  intros R Hs St. destruct (invs s R) as (I1 & I2 & _ & I4 & I5).
  assert (Hup : up s = USusp) by (apply (i_susp s I1); auto).
  assert (Nd : up s <> UDead) by congruence.
  destruct (exactly_one_place s R Nd) as [P|[P|[P|[P|P]]]]; destruct P as (Hr & Hs' & Hq & Hkh & Hh); try congruence.
  assert (Hk : kp s = KIdle).
  { destruct (kp s) eqn:E; try reflexivity; exfalso.
    all: assert (En : enabled s AK) by (apply kernel_enabled; auto; [congruence | intros X; apply (k_now s I5); congruence]).
    all: destruct En as (s' & En); rewrite (St AK eq_refl) in En; discriminate. }
  unfold Quiescent. repeat split; auto.
  - destruct (oldk s) eqn:E; [reflexivity|]. pose proof (St AOldKDone eq_refl) as X. unfold stepF in X; cbn [step] in X. rewrite E in X. discriminate.
  - intros i. destruct (un s i) eqn:E; [reflexivity| |].
    + pose proof (St (AUnTake i) eq_refl) as X. unfold stepF in X; cbn [step] in X. rewrite E, Hs in X. discriminate.
    + pose proof (St (AUnSched i) eq_refl) as X. unfold stepF in X; cbn [step] in X. rewrite E in X. discriminate.
  - intros i. destruct (cn s i) eqn:E; [reflexivity| | | |].
    + pose proof (St (ACnTakeCo i) eq_refl) as X. unfold stepF in X; cbn [step] in X. rewrite E in X. destruct (cco s); discriminate.
    + pose proof (St (ACnTake i) eq_refl) as X. unfold stepF in X; cbn [step] in X. rewrite E, Hs in X. discriminate.
    + pose proof (St (ACnTake i) eq_refl) as X. unfold stepF in X; cbn [step] in X. rewrite E in X. discriminate.
    + pose proof (St (ACnSched i) eq_refl) as X. unfold stepF in X; cbn [step] in X. rewrite E in X. discriminate.
  - intros i. destruct (tm s i) eqn:E; auto.
    + pose proof (St (ATFire i) eq_refl) as X. unfold stepF in X; cbn [step] in X. rewrite E in X.
      destruct (tdl s i <=? now s) eqn:L; [discriminate | apply Z.leb_gt; exact L].
    + pose proof (St (ATFire i) eq_refl) as X. unfold stepF in X; cbn [step] in X. rewrite E in X.
      destruct (tdl s i <=? now s) eqn:L; [discriminate | apply Z.leb_gt; exact L].
    + pose proof (St (ATTake i) eq_refl) as X. unfold stepF in X; cbn [step] in X. rewrite E, Hs in X. discriminate.
    + pose proof (St (ATRun i) eq_refl) as X. unfold stepF in X; cbn [step] in X. rewrite E in X. discriminate.
Qed.

(* ---- progress form: inside a park call the implementation can always move, except when the coroutine
   rests in the slot; there it can move whenever a reason to wake it exists ---- *)

Theorem only_the_slot_rests s : ReachF s -> in_park (up s) = true -> slot s = false -> can_move s.
Proof.
  intros R Hp Hs. destruct (invs s R) as (I1 & I2 & _ & I4 & I5).
  assert (Nd : up s <> UDead) by (intros X; rewrite X in Hp; discriminate).
  destruct (exactly_one_place s R Nd) as [P|[P|[P|[P|P]]]]; destruct P as (Hr & Hs' & Hq & Hkh & Hh); try congruence.
  - exists AU. split; [reflexivity|]. apply user_enabled; auto.
  - exists AResume. split; [reflexivity|]. apply some_ex. unfold stepF; cbn [step]. rewrite Hq, Hr.
    pose proof (i_run s I1) as Ru. rewrite Hr in Ru.
    destruct (up s); cbn in Hp, Ru; try discriminate.
  - exists AK. split; [reflexivity|]. apply kernel_enabled; auto.
    + intros X. rewrite X in Hkh. discriminate.
    + intros X. apply (k_now s I5 X).
  - pose proof (w_holder s I4) as W. destruct (holder s) as [|i|i|i] eqn:E; [discriminate Hh| | |].
    + exists (AUnSched i). split; [reflexivity|]. apply some_ex. unfold stepF; cbn [step]. rewrite W. discriminate.
    + exists (ACnSched i). split; [reflexivity|]. apply some_ex. unfold stepF; cbn [step]. rewrite W. discriminate.
    + exists (ATRun i). split; [reflexivity|]. apply some_ex. unfold stepF; cbn [step]. rewrite W. discriminate.
Qed.

(* the property's "that next park returns instead of blocking", as a safety statement: wherever the
   call is - first check, waiting for the kernel half, yielding, in the slot, taken, queued, resumed - as
   long as the token is set some transition of the implementation is enabled (in the slot: one that takes
   the coroutine, by no_lost_wakeup) *)
Theorem park_with_token_not_stuck s : ReachF s -> pstate s = true -> in_park (up s) = true -> can_move s.
Proof.
  intros R Ht Hp. destruct (slot s) eqn:Hs; [|apply only_the_slot_rests; auto].
  destruct (invs s R) as (I1 & I2 & _ & _ & I5).
  destruct (no_lost_wakeup s R Hs Ht) as [K|(i & b & U)].
  - exists AK. split; [reflexivity|]. apply kernel_enabled; auto.
    + intros X. rewrite X in K. discriminate.
    + intros X. rewrite X in K. discriminate.
  - exists (AUnTake i). split; [reflexivity|]. destruct (unparker_takes s i b U Hs) as (s' & E & _). exists s'. exact E.
Qed.

Theorem park_cancelled_not_stuck s : ReachF s -> cbit s = true -> in_park (up s) = true -> can_move s.
Proof.
  intros R Hb Hp. destruct (slot s) eqn:Hs; [|apply only_the_slot_rests; auto].
  destruct (invs s R) as (I1 & I2 & _ & _ & I5).
  pose proof (no_lost_cancel s R Hs Hb) as W.
  assert (KE : kp s <> KIdle -> can_move s).
  { intros N. exists AK. split; [reflexivity|]. apply kernel_enabled; auto. intros X. apply (k_now s I5 X). }
  assert (C1 : (exists i, cn s i = CTake) -> can_move s).
  { intros (i & C). exists (ACnTake i). split; [reflexivity|]. apply some_ex. unfold stepF; cbn [step]. rewrite C, Hs. discriminate. }
  assert (C2 : (exists i, cn s i = CTakeCo) -> can_move s).
  { intros (i & C). exists (ACnTakeCo i). split; [reflexivity|]. apply some_ex. unfold stepF; cbn [step]. rewrite C. destruct (cco s); discriminate. }
  destruct (kp s) eqn:E; try (apply KE; discriminate).
  destruct W as [W|(_ & W)]; auto.
Qed.

(* the deadline of the timer entry of the call has passed while the coroutine is in the slot: the timer
   thread can pop the entry (ATFire), or its callback can take the coroutine, or the kernel half is doing
   the time-out itself *)
Theorem park_past_deadline_not_stuck s i : ReachF s -> slot s = true -> hnd s = Some i -> tdl s i <= now s ->
  can_move s.
Proof.
  intros R Hs Hh Hd. destruct (invs s R) as (I1 & I2 & _ & I4 & I5).
  assert (KE : kp s <> KIdle -> can_move s).
  { intros N. exists AK. split; [reflexivity|]. apply kernel_enabled; auto. intros X. apply (k_now s I5 X). }
  destruct (w_dead s I4 Hs i Hh) as [[W|W]|[W|(W & _)]].
  - exists (ATFire i). split; [reflexivity|]. apply some_ex. unfold stepF; cbn [step]. rewrite W.
    apply Z.leb_le in Hd. rewrite Hd. discriminate.
  - exists (ATTake i). split; [reflexivity|]. apply some_ex. unfold stepF; cbn [step]. rewrite W, Hs. discriminate.
  - apply KE. congruence.
  - apply KE. congruence.
Qed.

(* ------------------------------------------------------------------------------------------------ *)
(* (iii) unpark before park                                                                         *)
(* ------------------------------------------------------------------------------------------------ *)

(* [tok0]: the token was set when the current / latest call started.  Such a call never reaches the
   suspending part of park_timeout ([susp] is set by the yield): it is at the first check_park, or back. *)
Theorem token_first_never_suspends s : ReachF s -> tok0 s = true ->
  susp s = false /\
  (in_park (up s) = true -> (up s = UCp1Load /\ pstate s = true) \/ up s = UCp1Store).
Proof.
  intros R H. destruct (invs s R) as (_ & _ & I3 & _ & _).
  destruct (t0 s I3 H) as (A & B). split; [exact A|]. intros P.
  destruct (up s); cbn in P; try discriminate; auto; try (rewrite P in B; discriminate B).
Qed.

(* ... it returns Ok within two accesses of its own (state.load, state.store(false)), whatever the others do *)
Theorem token_first_returns_ok s : ReachF s -> tok0 s = true -> in_park (up s) = true ->
  exists n s', (n <= 2)%nat /\ run true true true s (repeat AU n) = Some s' /\
               up s' = UIdle /\ lastv s' = Some VOk /\ susp s' = false /\ pstate s' = false.
Proof.
  intros R H P. destruct (invs s R) as (I1 & _ & I3 & _ & _).
  destruct (token_first_never_suspends s R H) as (Su & W). specialize (W P).
  pose proof (i_run s I1) as Ru. pose proof (store_tok s I3) as St.
  destruct W as [(E & T)|E]; rewrite E in *; cbn in Ru.
  - exists 2%nat, (clear_tok (s |> set_up UCp1Store) |> set_lastv (Some VOk) |> set_up UIdle).
    split; [lia|]. split.
    + cbn [repeat run step]. unfold ustep. rewrite Ru, E, T. cbn. rewrite Ru. reflexivity.
    + unfold clear_tok. cbn. rewrite T. cbn. auto.
  - exists 1%nat, (clear_tok s |> set_lastv (Some VOk) |> set_up UIdle).
    split; [lia|]. split.
    + cbn [repeat run step]. unfold ustep. rewrite Ru, E. cbn. reflexivity.
    + unfold clear_tok. rewrite St. cbn. auto.
Qed.

(* ... and once it is back its verdict was Ok *)
Theorem token_first_verdict s : ReachF s -> tok0 s = true -> in_park (up s) = false -> lastv s = Some VOk.
Proof.
  intros R H P. destruct (invs s R) as (_ & _ & _ & _ & I5). pose proof (t0_ok s I5 H) as W.
  destruct (up s); cbn in P; try discriminate; exact W.
Qed.

(* ------------------------------------------------------------------------------------------------ *)
(* (iv), (v) verdicts                                                                               *)
(* ------------------------------------------------------------------------------------------------ *)

(* the transition with which park_timeout returns [v] to its caller *)
Definition park_returns (s s' : st) (v : verdict) : Prop :=
  stepF s AU = Some s' /\ up s' = UIdle /\ lastv s' = Some v.

(* there are three such transitions: the store / swap of the first check_park that finds the token, and
   the read of the generator parameter after the resume *)
Lemma returns_cases s s' v : park_returns s s' v ->
  (up s = UCp1Store /\ v = VOk) \/
  (up s = UCp1Swap /\ pstate s = true /\ v = VOk) \/
  (up s = UPara /\ v = verdict_of (para s) /\ now s' = now s).
Proof.
  intros (H & U & L). unfold stepF in H; cbn [step] in H; unfold ustep in H.
  destruct (negb (running s)); [discriminate|].
  destruct (up s) eqn:E; try discriminate H.
  all: repeat match type of H with
              | context [if ?b then _ else _] => destruct b eqn:?
              | context [match ?x with _ => _ end] => destruct x eqn:?
              end.
  all: try discriminate H.
  all: injection H as H; subst s'; cbn in U; try discriminate U.
  all: unfold clear_tok in L; repeat match type of L with context [if ?b then _ else _] => destruct b eqn:? end; cbn in L.
  all: try (left; split; [reflexivity | congruence]).
  all: try (right; left; repeat split; congruence).
  all: right; right; repeat split; congruence.
Qed.

(* Ok: the token was set and this call cleared it - by the returning access itself (first check_park) or
   by the check_park after the resume ([ctok]) - or, only on a Park that has been parked on before
   (ncall >= 2, never on a fresh Blocker), the coroutine was taken by an unparker whose token an EARLIER
   call had already consumed ([WUn true]: his state.swap(true) precedes that call's clearing access, his
   wait_co.take() came after the next call had suspended): the spurious wake-up of coroutine::park. *)
Theorem verdict_ok s s' : ReachF s -> park_returns s s' VOk ->
  (pstate s = true /\ (up s = UCp1Store \/ up s = UCp1Swap)) \/
  (up s = UPara /\ ctok s = true) \/
  (up s = UPara /\ wsrc s = WUn true /\ (2 <= ncall s)%nat).
Proof.
  intros R Hr. destruct (invs s R) as (_ & _ & I3 & _ & _).
  destruct (returns_cases s s' VOk Hr) as [(E & _)|[(E & T & _)|(E & V & _)]].
  - left. pose proof (store_tok s I3) as St. rewrite E in St. auto.
  - left. auto.
  - pose proof (ctok_ok s I3) as C. pose proof (s4 s I3) as S4. rewrite E in C.
    assert (P : para s = None) by (destruct (para s) as [[|]|]; cbn in V; congruence).
    destruct (C P) as [C1|C1]; [right; left; auto | right; right]. rewrite C1 in S4. auto.
Qed.

(* Timeout: the deadline of THIS call (call time + armed duration) has passed - or, only on a Park that has
   been parked on before, the timer entry of an EARLIER timed call fired ([WTm true]: remove_timeout_handle
   only requests the removal, the timer thread may already have popped the entry). *)
Theorem verdict_timeout s s' : ReachF s -> park_returns s s' VTimeout ->
  up s = UPara /\
  ((exists c, call_deadline s = Some c /\ c <= now s') \/ (wsrc s = WTm true /\ (2 <= ncall s)%nat)).
Proof.
  intros R Hr. destruct (invs s R) as (_ & I2 & I3 & _ & _).
  destruct (returns_cases s s' VTimeout Hr) as [(_ & X)|[(_ & _ & X)|(E & V & N)]]; try discriminate X.
  split; [exact E|]. rewrite N.
  pose proof (p_w s I3) as Pw. rewrite E in Pw. unfold pw in Pw.
  pose proof (w_dl s I2) as Wd. pose proof (s4 s I3) as S4.
  destruct (para s) as [[|]|]; cbn in V; try discriminate V.
  destruct (wsrc s) as [|b|[|]| | |]; try contradiction; auto.
Qed.

(* Canceled: only if the cancel bit of the coroutine is set (any Park, fresh or not).  The bit is set by
   Cancel::cancel only (ACnOr; the kernel half's own cancel() call sets it again when it is set). *)
Theorem verdict_canceled s s' : ReachF s -> park_returns s s' VCanceled -> up s = UPara /\ cbit s = true.
Proof.
  intros R Hr. destruct (invs s R) as (_ & _ & I3 & _ & _).
  destruct (returns_cases s s' VCanceled Hr) as [(_ & X)|[(_ & _ & X)|(E & V & N)]]; try discriminate X.
  split; [exact E|].
  pose proof (p_w s I3) as Pw. rewrite E in Pw. unfold pw in Pw.
  destruct (para s) as [[|]|]; cbn in V; try discriminate V. exact Pw.
Qed.

(* a park on a fresh Blocker (first call on this Park object: ANewPark resets ncall) *)
Definition fresh (s : st) : Prop := (ncall s <= 1)%nat.

Corollary verdict_ok_fresh s s' : ReachF s -> fresh s -> park_returns s s' VOk ->
  (pstate s = true /\ (up s = UCp1Store \/ up s = UCp1Swap)) \/ (up s = UPara /\ ctok s = true).
Proof.
  intros R F Hr. destruct (verdict_ok s s' R Hr) as [A|[A|(_ & _ & A)]]; auto. unfold fresh in F. lia.
Qed.

Corollary verdict_timeout_fresh s s' : ReachF s -> fresh s -> park_returns s s' VTimeout ->
  exists c, call_deadline s = Some c /\ c <= now s'.
Proof.
  intros R F Hr. destruct (verdict_timeout s s' R Hr) as (_ & [A|(_ & A)]); auto. unfold fresh in F. lia.
Qed.

(* in terms of the duration the caller asked for: never before call time + d (d up to the cap of
   AtomicDuration, about 292 years; beyond it the armed duration saturates, C08) *)
Corollary verdict_timeout_fresh_requested s s' d : ReachF s -> fresh s -> park_returns s s' VTimeout ->
  ud s = Some d -> ceil_ms d <= CAP -> tcall s + d <= now s'.
Proof.
  intros R F Hr Hd Hc. destruct (verdict_timeout_fresh s s' R F Hr) as (c & C & L).
  destruct (invs s R) as (_ & _ & _ & _ & I5). pose proof (u_nonneg s I5) as N. rewrite Hd in N.
  unfold call_deadline, armed_of in C. rewrite Hd in C.
  destruct (dec (enc (Some d))) as [a|] eqn:A; [|discriminate]. injection C as C.
  pose proof (armed_bounds d a N Hc A). lia.
Qed.

(* a timed-out call was a timed call *)
Corollary verdict_timeout_needs_duration_fresh s s' : ReachF s -> fresh s -> park_returns s s' VTimeout -> ud s <> None.
Proof.
  intros R F Hr. destruct (verdict_timeout_fresh s s' R F Hr) as (c & C & _).
  unfold call_deadline, armed_of in C. intros X. rewrite X in C. cbn in C. discriminate.
Qed.

(* (v) the two spurious sources need an earlier call on the same Park object *)
Theorem spurious_needs_earlier_call s : ReachF s ->
  (wsrc s = WUn true \/ wsrc s = WTm true) -> (2 <= ncall s)%nat.
Proof.
  intros R H. destruct (invs s R) as (_ & _ & I3 & _ & _). pose proof (s4 s I3) as S4.
  destruct H as [H|H]; rewrite H in S4; exact S4.
Qed.

(* a stale unparker exists only after a token was consumed on this Park object *)
Theorem stale_unparker_needs_consumed_token s i : ReachF s -> un s i = NTake true -> (1 <= nclr s)%nat.
Proof. intros R H. destruct (invs s R) as (_ & _ & I3 & _ & _). exact (s3 s I3 i H). Qed.

(* the cancel panic inside park (check_cancel after the resume, or in wait_kernel_yield) needs the cancel *)
Theorem abort_needs_cancel s s' : stepF s AU = Some s' -> up s <> UDead -> up s' = UDead -> cbit s = true.
Proof.
  intros H N U. unfold stepF in H; cbn [step] in H; unfold ustep in H.
  destruct (negb (running s)); [discriminate|].
  destruct (up s) eqn:E; try discriminate H; try congruence.
  all: repeat match type of H with
              | context [if ?b then _ else _] => destruct b eqn:?
              | context [match ?x with _ => _ end] => destruct x eqn:?
              end.
  all: try discriminate H.
  all: injection H as H; subst s'; unfold clear_tok in U;
       repeat match type of U with context [if ?b then _ else _] => destruct b eqn:? end; cbn in U; try discriminate U.
  all: unfold canceled in *; match goal with X : _ && _ = true |- _ => apply andb_true_iff in X; destruct X; assumption end.
Qed.

(* ------------------------------------------------------------------------------------------------ *)
(* (iv) refinement of the Blocker token (Base/BlockerSpec.v)                                        *)
(* ------------------------------------------------------------------------------------------------ *)

(* is the verdict the coroutine is about to report justified by the abstract object? *)
Definition justified (s : st) : bool :=
  reason_ok (now s) (cbit s) (abs s) (call_deadline s) (verdict_of (para s)).

(* the Blocker-token event a transition of the model stands for.  Linearisation points: unpark = the
   state.swap(true); park_enter = the call; resume = the clearing access of check_park (first check: together
   with the return; after a resume: the store / swap of the second check_park). *)
Definition park_ev (s : st) (a : action) : option bev :=
  match a with
  | AUnSwap _ => Some BUnpark
  | APark d => Some (BEnter (match armed_of d with Some x => Some (now s + x) | None => None end))
  | AU => match up s with
          | UCp1Store => Some (BResume VOk)
          | UCp1Swap => if pstate s then Some (BResume VOk) else None
          | UCp2Store | UCp2Swap =>
              Some (if justified s then BResume (verdict_of (para s)) else BSpurious (verdict_of (para s)))
          | UCc | UWkY3 => if canceled s then Some BAbort else None
          | _ => None end
  | _ => None
  end.

Lemma abs_eq s s' : pstate s' = pstate s -> in_park (up s') = in_park (up s) -> ud s' = ud s -> tcall s' = tcall s ->
  abs s' = abs s.
Proof. intros A B C D. unfold abs, call_deadline. rewrite A, B, C, D. reflexivity. Qed.

(* the verdict is not touched between the second check_park and the return *)
Lemma verdict_stable s a s' : ReachF s -> stepF s a = Some s' ->
  match up s with UCp2Store | UCp2Swap | URm => True | _ => False end -> para s' = para s.
Proof.
  intros R H U. destruct (invs s R) as ([Ipl Ihun Ihcn Ihtm Irun Isusp Iwk [Inn Ine] Ipre Icd ((Id1 & Id2 & Id3 & Id4) & Iok & Itn)] & _).
  destruct a.
  all: step_inv H.
  all: try contradiction.
  all: pre Ipl.
  all: try contradiction.
  all: cbn; try reflexivity.
  all: holder_fact; fin.
Qed.

Theorem park_refines_blocker s a s' : ReachF s -> stepF s a = Some s' ->
  match a with
  | ANewPark _ => abs s' = binit                      (* a fresh Blocker: a new abstract object *)
  | _ => match park_ev s a with
         | Some e => bstep (now s) (cbit s) (abs s) e = Some (abs s')
         | None => abs s' = abs s end
  end.
Proof.
  intros R H. destruct (invs s R) as ([Ipl Ihun Ihcn Ihtm Irun Isusp Iwk [Inn Ine] Ipre Icd ((Id1 & Id2 & Id3 & Id4) & Iok & Itn)] & _ & I3 & _).
  pose proof (store_tok s I3) as St.
  destruct a.
  all: step_inv H.
  all: pre Ipl.
  all: unfold park_ev, justified, abs, call_deadline, clear_tok, canceled in *; cbn; rw; cbn.
  all: try reflexivity.
  all: try solve [repeat match goal with
                         | |- context [if ?b then _ else _] => destruct b eqn:?
                         | |- context [match ?x with _ => _ end] => destruct x eqn:?
                         end; cbn in *; rw; cbn in *; try reflexivity; try congruence].
  all: try solve [match goal with
                  | |- context [reason_ok ?a ?b ?c ?d ?e] => destruct (reason_ok a b c d e) eqn:J
                  end; cbn; try rewrite J; reflexivity].
  all: try solve [destruct (cbit s); cbn in *; try discriminate; reflexivity].
Qed.

(* On a fresh Blocker the resume is never spurious: the verdict is justified by the abstract object at the
   linearisation point (token set for Ok, deadline of the call passed for Timeout, cancel bit for Canceled).
   Together with park_refines_blocker: a fresh Park produces BUnpark / BEnter / BResume / BAbort only. *)
Theorem fresh_park_never_spurious s : ReachF s -> fresh s ->
  up s = UCp2Store \/ up s = UCp2Swap -> justified s = true.
Proof.
  intros R F U. destruct (invs s R) as (_ & I2 & I3 & _ & _). unfold fresh in F.
  pose proof (p_w s I3) as Pw. pose proof (store_tok s I3) as St. pose proof (c2s s I3) as C2.
  pose proof (s4 s I3) as S4. pose proof (w_dl s I2) as Wd.
  unfold justified, reason_ok, abs. cbn [btok].
  assert (PW : pw s) by (destruct U as [U|U]; rewrite U in Pw; exact Pw). unfold pw in PW.
  destruct (para s) as [[|]|] eqn:P; cbn [verdict_of].
  - (* Timeout *)
    assert (D : exists c, call_deadline s = Some c /\ c <= now s).
    { destruct (wsrc s) as [|b|[|]| | |]; try contradiction; auto. lia. }
    destruct D as (c & D & L). rewrite D. apply Z.leb_le. exact L.
  - exact PW.
  - (* Ok *)
    destruct U as [U|U]; rewrite U in *; [exact St|].
    destruct (wsrc s) as [|[|]|b| | |]; try contradiction. lia.
Qed.

(* for the shared Park the same event may be BSpurious, and only for the two stale sources *)
Theorem spurious_resume_sources s : ReachF s -> up s = UCp2Store \/ up s = UCp2Swap -> justified s = false ->
  (wsrc s = WUn true \/ wsrc s = WTm true) /\ (2 <= ncall s)%nat.
Proof.
  intros R U J. destruct (invs s R) as (_ & I2 & I3 & _ & _).
  destruct (Nat.le_gt_cases (ncall s) 1) as [F|F].
  - rewrite (fresh_park_never_spurious s R F U) in J. discriminate.
  - split; [|lia].
    pose proof (p_w s I3) as Pw. pose proof (store_tok s I3) as St. pose proof (c2s s I3) as C2. pose proof (w_dl s I2) as Wd.
    unfold justified, reason_ok, abs in J. cbn [btok] in J.
    assert (PW : pw s) by (destruct U as [U|U]; rewrite U in Pw; exact Pw). unfold pw in PW.
    destruct (para s) as [[|]|] eqn:P; cbn [verdict_of] in J.
    + destruct (wsrc s) as [|b|[|]| | |]; try contradiction; auto;
        destruct Wd as (c & D & L); rewrite D in J; apply Z.leb_gt in J; lia.
    + congruence.
    + destruct U as [U|U]; rewrite U in *; [congruence|].
      destruct (wsrc s) as [|[|]|b| | |]; try contradiction; auto.
Qed.

(* ------------------------------------------------------------------------------------------------ *)
(* Park::drop never waits for ever (the repair of F12)                                              *)
(* ------------------------------------------------------------------------------------------------ *)

(* Park::drop polls wait_kernel; while it is set the kernel half has a next step (it never waits for the
   coroutine it resumed), and that step is towards the release of the guard *)
Theorem drop_never_blocked s : ReachF s -> dropping s = true -> wk s = true -> enabled s AK.
Proof.
  intros R D W. destruct (invs s R) as (I1 & I2 & _ & _ & I5).
  apply kernel_enabled; auto.
  - intros X. pose proof (i_wk s I1) as G. rewrite X, W in G. discriminate.
  - intros X. apply (k_now s I5 X).
Qed.

(* general schedules reach reachable states *)
Lemma run_reach_gen f8 f12 f31 l : forall s s', Reach f8 f12 f31 s -> run f8 f12 f31 s l = Some s' -> Reach f8 f12 f31 s'.
Proof.
  induction l as [|a l IH]; cbn; intros s s' R H; [inversion H; subst; exact R|].
  destruct (step f8 f12 f31 s a) as [s1|] eqn:E; [|discriminate]. eapply IH; [eapply RS; eauto | exact H].
Qed.
