(* C02 - no lost wake-up: Inv4 (ParkInv4Def.v) holds in every reachable state. *)
From Coq Require Import List ZArith Bool Arith Lia.
Import ListNotations.
Require Import MayV.Rt.AtomicDur MayV.Base.BlockerSpec MayV.Rt.ParkModel MayV.Rt.ParkTac MayV.Rt.ParkInv1 MayV.Rt.ParkInv2 MayV.Rt.ParkInv3 MayV.Rt.ParkInv4Def MayV.Rt.ParkInv4a MayV.Rt.ParkInv4b MayV.Rt.ParkInv4c MayV.Rt.ParkInv4d MayV.Rt.ParkInv4e MayV.Rt.ParkInv4f MayV.Rt.ParkInv4g MayV.Rt.ParkInv4h MayV.Rt.ParkInv4i.
Open Scope Z_scope.


Export MayV.Rt.ParkInv4Def.

Lemma inv4_step s a s' : Inv1 s -> Inv2 s -> Inv3 s -> Inv4 s -> stepF s a = Some s' -> Inv4 s'.
Proof.
  intros I1 I2 I3 I4 H; destruct a.
  - eapply inv4_APark; eassumption.
  - eapply inv4_AU; eassumption.
  - eapply inv4_AAway; eassumption.
  - eapply inv4_AExit; eassumption.
  - eapply inv4_ANewPark; eassumption.
  - eapply inv4_AK; eassumption.
  - eapply inv4_AUnSwap; eassumption.
  - eapply inv4_AUnTake; eassumption.
  - eapply inv4_AUnSched; eassumption.
  - eapply inv4_AUnRun; eassumption.
  - eapply inv4_ACnOr; eassumption.
  - eapply inv4_ACnTakeCo; eassumption.
  - eapply inv4_ACnTake; eassumption.
  - eapply inv4_ACnSched; eassumption.
  - eapply inv4_ATFire; eassumption.
  - eapply inv4_ATDrop; eassumption.
  - eapply inv4_ATTake; eassumption.
  - eapply inv4_ATRun; eassumption.
  - eapply inv4_ATick; eassumption.
  - eapply inv4_AResume; eassumption.
  - eapply inv4_AStaleSetco; eassumption.
  - eapply inv4_AOldKDone; eassumption.
  - eapply inv4_ADrop; eassumption.
Qed.

Lemma inv4_init' : Inv4 init. Proof. exact inv4_init. Qed.

Theorem inv4_reach s : ReachF s -> Inv1 s /\ Inv2 s /\ Inv3 s /\ Inv4 s.
Proof.
  induction 1 as [|s a s' R (I1 & I2 & I3 & I4) H].
  - split; [apply inv1_init | split; [apply inv2_init | split; [apply inv3_init | apply inv4_init]]].
  - split; [eapply inv1_step; eauto | split; [eapply inv2_step; eauto | split; [eapply inv3_step; eauto | eapply inv4_step; eauto]]].
Qed.
