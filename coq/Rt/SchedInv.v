(* Invariants of SchedModel (definitions and small lemmas; the preservation proofs are in SchedPres*.v).

   PInv  places: the ghost `loc` of a coroutine says in which structure its token is, each structure
         contains exactly the coroutines whose `loc` points at it, without duplicates
   cinv  one coroutine record: generator state / body counter / how far the end of the body has got
         (wrapper and panic path) / what the result slots contain / what join returned
   JInv  the wait()/join() call in progress on a handle: the blocker it registered is still in to_wake or
         on its way to be unparked (no lost wake-up)
   FInv  blockers not yet created are not referenced
   SInv  the kernel frame of Done belongs to a finished wrapper
   DInv  a dropped coroutine has finished *)
From Coq Require Import List Arith ZArith Bool Lia.
Import ListNotations.
Require Import MayV.Rt.SchedModel.

Definition frun (l : list frame) : list nat := flat_map (fun f => match f with FRun c => [c] | _ => [] end) l.

Record PInv (s : st) : Prop := {
  p_gq : forall k c, In c (gq s k) <-> loc (co s c) = LG k;
  p_lq : forall t c, In c (lq s t) <-> loc (co s c) = LL t;
  p_hand : forall t c, In c (hand s t) <-> loc (co s c) = LH t;
  p_run : forall t c, In c (frun (stk s t)) <-> loc (co s c) = LRun t;
  p_slot : forall c, In c (slots s) <-> loc (co s c) = LSlot;
  p_dead : forall c, In c (dead s) <-> loc (co s c) = LDead;
  p_none : forall c, loc (co s c) = LNone <-> spawned (co s c) = false;
  n_gq : forall k, NoDup (gq s k);
  n_lq : forall t, NoDup (lq s t);
  n_hand : forall t, NoDup (hand s t);
  n_run : forall t, NoDup (frun (stk s t));
  n_slot : NoDup (slots s);
  n_dead : NoDup (dead s) }.

Definition post_trig (p : pc) : bool := match p with CT2 | CT3 _ | CRet | PT2 | PT3 _ | PD => true | _ => false end.
Definition not_val (o : option res) : Prop := match o with Some (RPan _) | Some RCancel => True | _ => False end.

(* how far the end of the body has got, and what the result slots hold *)
Inductive ephase := EU | EF (v : Z) | EC | EP0 (v : Z) | EP.
Definition eph (p : pc) : ephase :=
  match p with
  | CF v => EF v | CT1 | CT2 | CT3 _ | CRet => EC
  | PP0 v => EP0 v | PT1 | PT2 | PT3 _ | PD => EP
  | _ => EU end.
Definition is_cret (p : pc) : bool := match p with CRet => true | _ => false end.
Definition endinv (x : cor) : Prop :=
  match eph (upc x) with
  | EU => outcome x = None /\ pkt x = None /\ pan x = None /\ gst x <> GFin /\ jret x = None
  | EF v => outcome x = Some (RVal v) /\ pkt x = None /\ pan x = None /\ gst x = GLive /\ jret x = None
  | EC => (is_cret (upc x) = false -> gst x = GLive) /\ gst x <> GInit /\ pan x = None /\
          match outcome x with Some (RVal v) => ptaken x = false -> pkt x = Some v | _ => False end
  | EP0 v => outcome x = Some (RPan v) /\ pan x = None /\ pkt x = None /\ gst x = GFin /\ jret x = None
  | EP => gst x = GFin /\ pkt x = None /\
          match outcome x with
          | Some RCancel => pan x = None
          | Some (RPan v) => jret x = None -> pan x = Some v
          | _ => False end
  end.

Definition callinv (x : cor) : Prop :=
  match jcall x with
  | Some (_, p) => spawned x = true /\ jdone x = false /\ jret x = None /\ ptaken x = false /\
                   match p with
                   | JT1 => jstate x = false
                   | JT2 => jstate x = false /\ pkt x = None /\ not_val (outcome x)
                   | _ => True end
  | None => True end.

Definition cinv (x : cor) : Prop :=
  (spawned x = false -> gst x = GInit) /\
  (gst x = GInit -> bodycnt x = 0 /\ upc x = Idle) /\
  (gst x <> GInit -> bodycnt x = 1) /\
  jstate x = negb (post_trig (upc x)) /\
  match pkt x with Some v => outcome x = Some (RVal v) | None => True end /\
  match pan x with Some v => outcome x = Some (RPan v) | None => True end /\
  match jret x with Some r => outcome x = Some r /\ jstate x = false /\ pkt x = None /\ pan x = None /\ jdone x = true | None => True end /\
  (ptaken x = true -> jret x <> None) /\
  endinv x /\ callinv x.
Definition CInv (s : st) : Prop := forall c, cinv (co s c).

(* blocker b, registered for d, is still in to_wake or its unpark is on the way *)
Definition wcoming (s : st) (d b : nat) : Prop :=
  jwake (co s d) = Some b \/ upc (co s d) = CT3 b \/ upc (co s d) = PT3 b \/ In b (punp s) \/ tok s b = true.
Definition trig_pending (s : st) (d : nat) : Prop := upc (co s d) = CT2 \/ upc (co s d) = PT2.

Definition jinv (s : st) (d : nat) : Prop :=
  match jcall (co s d) with
  | Some (_, JW2 _ b) => b < nextb s /\ bjoin s b = d /\ wcoming s d b
  | Some (_, JW3 _ b) | Some (_, JW3p _ b) =>
      b < nextb s /\ bjoin s b = d /\ wcoming s d b /\
      (jstate (co s d) = false -> jwake (co s d) = Some b -> trig_pending s d)
  | Some (_, JW4 _ b) => b < nextb s /\ bjoin s b = d
  | _ => True end.
Definition JInv (s : st) : Prop := forall d, jinv s d.

Definition FInv (s : st) : Prop :=
  (forall b, nextb s <= b -> tok s b = false) /\
  (forall b, In b (punp s) -> b < nextb s) /\
  (forall d b, jwake (co s d) = Some b -> b < nextb s) /\
  (forall d b, upc (co s d) = CT3 b \/ upc (co s d) = PT3 b -> b < nextb s).

Definition finv (s : st) (f : frame) : Prop :=
  match f with
  | FKer c KD => upc (co s c) = CRet /\ gst (co s c) = GFin
  | FPan c => gst (co s c) = GFin
  | FRun c => gst (co s c) = GLive
  | _ => True end.
Definition SInv (s : st) : Prop := forall t f, In f (stk s t) -> finv s f.

Definition DInv (s : st) : Prop :=
  forall c, In c (dead s) -> gst (co s c) = GFin /\ (upc (co s c) = CRet \/ upc (co s c) = PD).

Record Inv (s : st) : Prop := { iP : PInv s; iC : CInv s; iJ : JInv s; iF : FInv s; iS : SInv s; iD : DInv s }.

(* ---- small lemmas ---- *)
Lemma upd_eq {X} (f : nat -> X) i v : upd f i v i = v.
Proof. unfold upd. now rewrite Nat.eqb_refl. Qed.
Lemma upd_neq {X} (f : nat -> X) i j v : j <> i -> upd f i v j = f j.
Proof. unfold upd. intro H. apply Nat.eqb_neq in H. now rewrite H. Qed.

Lemma memb_in c l : memb c l = true <-> In c l.
Proof.
  unfold memb. rewrite existsb_exists. split.
  - intros [x [I E]]. apply Nat.eqb_eq in E. now subst.
  - intro I. exists c. split; [exact I | apply Nat.eqb_refl].
Qed.
Lemma memb_nin c l : memb c l = false <-> ~ In c l.
Proof. rewrite <- memb_in. destruct (memb c l); split; intros; congruence. Qed.

Lemma in_rm x c l : In x (rm c l) <-> In x l /\ x <> c.
Proof. unfold rm. split; [intro H; apply in_remove in H; exact H | intros [A B]; apply in_in_remove; auto]. Qed.
Lemma nodup_rm c l : NoDup l -> NoDup (rm c l).
Proof.
  unfold rm. induction l as [|x l IH]; cbn; intro N; [constructor|].
  inversion N; subst. destruct (Nat.eq_dec c x); [auto|].
  constructor; [|auto]. intro I. apply in_remove in I. tauto.
Qed.
Lemma nodup_snoc (l : list nat) n : NoDup l -> ~ In n l -> NoDup (l ++ [n]).
Proof.
  induction l as [|x l IH]; cbn; intros N I; [constructor; [tauto|constructor]|].
  inversion N; subst. constructor; [|apply IH; tauto]. rewrite in_app_iff. cbn. intuition congruence.
Qed.
Lemma in_snoc (x c : nat) l : In x (l ++ [c]) <-> In x l \/ x = c.
Proof. rewrite in_app_iff. cbn. intuition. Qed.

Lemma in_rm1 x w l : In x (rm1 w l) -> In x l.
Proof.
  induction l as [|y l IH]; cbn; [tauto|]. destruct (Nat.eqb y w); cbn; intuition.
Qed.
Lemma in_rm1_other x w l : In x l -> x <> w -> In x (rm1 w l).
Proof.
  induction l as [|y l IH]; cbn; [tauto|]. intros [E|I] N.
  - subst. destruct (Nat.eqb_spec x w); [congruence | cbn; auto].
  - destruct (Nat.eqb y w); cbn; auto.
Qed.

Lemma frun_cons_run c l : frun (FRun c :: l) = c :: frun l.
Proof. reflexivity. Qed.
Lemma frun_cons_ker c k l : frun (FKer c k :: l) = frun l.
Proof. reflexivity. Qed.
Lemma frun_cons_pan c l : frun (FPan c :: l) = frun l.
Proof. reflexivity. Qed.
